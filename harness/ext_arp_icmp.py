"""Extension (beyond the listed properties): ARP and ICMP echo on hosts and routers against spec/ArpIcmp.tla.

(a) MC_ArpIcmp exhaustively (+ two negative configurations TLC must refute), (b) TLC -simulate behaviours of MC_ArpIcmp
replayed as stimulus (ping, send_arp_request / cache lookups, interface enable / disable, shutdown / startup, ARP.clear)
into a real network a, c -- sw -- r -- b, (c) one event per spec action recorded at the handlers of the real code,
(d) the traces validated by TLC against spec/ArpIcmpTrace.tla, (e) shipped scenarios stepped through the real
environment with random actions and pings in between, projected onto ARP / ICMP.   Run: ./check EXT-arp_icmp"""
from __future__ import annotations

import copy
import ipaddress
import random
import time
from typing import Any, Dict, List, Optional

from . import common, scenarios, tlc, tracer

BCAST_MAC = "ff:ff:ff:ff:ff:ff"
BLANK = {
    "ev": "", "n": 0, "i": 0, "ip": 0, "cnt": 0, "res": False, "en": False, "ok": False, "why": "",
    "fid": 0, "k": "", "out": 0, "esrc": 0, "edst": 0, "isrc": 0, "idst": 0, "id": 0, "seq": 0,
    "sip": 0, "smac": 0, "tip": 0, "tmac": 0, "pw": False, "ifup": False, "cache": [], "tl": [], "ups": [],
}

# the network of MC_ArpIcmp: model numbering -> real names / addresses
MC_NODE = {1: "a", 2: "c", 3: "r", 4: "b"}
MC_IF = {1: ("a", 1), 2: ("c", 1), 3: ("r", 1), 4: ("r", 2), 5: ("b", 1)}
MC_IP = {1: "192.168.1.11", 2: "192.168.1.12", 3: "192.168.1.1", 4: "192.168.1.99", 5: "192.168.2.15",
         6: "192.168.2.1", 7: "10.9.9.9"}
DENY_A_TO_B = {1: {"action": "DENY", "protocol": "ICMP", "src_ip": MC_IP[1], "dst_ip": MC_IP[5],
                   "src_wildcard_mask": "0.0.0.0", "dst_wildcard_mask": "0.0.0.0"},
               2: {"action": "PERMIT"}}


def topo(dur: int = 0, acl: Optional[Dict] = None, bw: Optional[float] = None, intruder: bool = False) -> Dict[str, Any]:
    """a, c -- sw -- r -- b (c has no default gateway); the network of MC_ArpIcmp.  bw = bandwidth of the link r -- b;
    intruder = a further host x on the switch (it only sends hand-built frames with a spoofed source address)."""
    d = {"start_up_duration": dur, "shut_down_duration": dur}
    nodes = [
        scenarios.host("a", MC_IP[1], "computer", gw=MC_IP[3], **d),
        scenarios.host("c", MC_IP[2], "computer", **d),
        scenarios.host("b", MC_IP[5], "server", gw=MC_IP[6], **d),
        {"hostname": "r", "type": "router", "num_ports": 3,
         "ports": {1: {"ip_address": MC_IP[3], "subnet_mask": "255.255.255.0"},
                   2: {"ip_address": MC_IP[6], "subnet_mask": "255.255.255.0"}},
         "acl": acl if acl is not None else {1: {"action": "PERMIT"}}, **d},
        {"hostname": "sw", "type": "switch", "num_ports": 4},
    ]
    links = [scenarios.link("a", 1, "sw", 1), scenarios.link("c", 1, "sw", 2), scenarios.link("r", 1, "sw", 3),
             scenarios.link("b", 1, "r", 2, bw)]
    if intruder:
        nodes.append(scenarios.host("x", "192.168.1.66", "computer", **d))
        links.append(scenarios.link("x", 1, "sw", 4))
    return scenarios.base_cfg(nodes, links)


def topo_masks(dur: int = 0, **_kw) -> Dict[str, Any]:
    """Layout 2 of MC_ArpIcmp: mixed subnet masks on one segment.  p (10.0.1.10/16) -- r port 1 (10.0.1.1/24), r port 2
    (10.0.2.1/24) -- q (10.0.2.10/24): p regards the far router port and q as on-link."""
    d = {"start_up_duration": dur, "shut_down_duration": dur}
    nodes = [
        scenarios.host("p", "10.0.1.10", "computer", gw="10.0.1.1", mask="255.255.0.0", **d),
        scenarios.host("q", "10.0.2.10", "server", gw="10.0.2.1", **d),
        {"hostname": "r", "type": "router", "num_ports": 3,
         "ports": {1: {"ip_address": "10.0.1.1", "subnet_mask": "255.255.255.0"}, 2: {"ip_address": "10.0.2.1", "subnet_mask": "255.255.255.0"}},
         "acl": {1: {"action": "PERMIT"}}, **d},
    ]
    return scenarios.base_cfg(nodes, [scenarios.link("p", 1, "r", 1), scenarios.link("q", 1, "r", 2)])


def topo_two_ports(dur: int = 0, **_kw) -> Dict[str, Any]:
    """Layout 3 of MC_ArpIcmp: host p and two ports of router r in one broadcast domain (one switch, one /16)."""
    d = {"start_up_duration": dur, "shut_down_duration": dur}
    nodes = [
        scenarios.host("p", "10.1.0.10", "computer", mask="255.255.0.0", **d),
        {"hostname": "r", "type": "router", "num_ports": 3,
         "ports": {1: {"ip_address": "10.1.1.1", "subnet_mask": "255.255.0.0"}, 2: {"ip_address": "10.1.2.1", "subnet_mask": "255.255.0.0"}},
         "acl": {1: {"action": "PERMIT"}}, **d},
        {"hostname": "sw", "type": "switch", "num_ports": 4},
    ]
    return scenarios.base_cfg(nodes, [scenarios.link("p", 1, "sw", 1), scenarios.link("r", 1, "sw", 2), scenarios.link("r", 2, "sw", 3)])


# model numbering -> real names / addresses, per layout of MC_ArpIcmp
LAYOUTS = {
    1: {"topo": None, "node": MC_NODE, "ifc": MC_IF, "ip": MC_IP, "cfg": "MC_ArpIcmpDeep.cfg"},
    2: {"topo": topo_masks, "node": {1: "p", 2: "r", 3: "q"}, "ifc": {1: ("p", 1), 2: ("r", 1), 3: ("r", 2), 4: ("q", 1)},
        "ip": {1: "10.0.1.10", 2: "10.0.1.1", 3: "10.0.2.1", 4: "10.0.2.10", 5: "10.0.3.9"}, "cfg": "MC_ArpIcmpMasks.cfg"},
    3: {"topo": topo_two_ports, "node": {1: "p", 2: "r"}, "ifc": {1: ("p", 1), 2: ("r", 1), 3: ("r", 2)},
        "ip": {1: "10.1.0.10", 2: "10.1.1.1", 3: "10.1.2.1", 4: "10.1.9.9"}, "cfg": "MC_ArpIcmpTwoPorts.cfg"},
}


class Scene:
    """Numbering of one real network: tracked nodes (hosts and plain routers), their connected layer-3 interfaces,
    segments (broadcast domains through links and switches), addresses, MACs, ICMP identifiers."""

    def __init__(self, network):
        from primaite.simulator.network.hardware.nodes.host.host_node import HostNode
        from primaite.simulator.network.hardware.nodes.network.router import Router
        from primaite.simulator.network.hardware.nodes.network.switch import Switch

        self.network = network
        self.nodes: List[Any] = []
        self.node_ix: Dict[int, int] = {}
        for nd in network.nodes.values():
            if isinstance(nd, HostNode) or type(nd) is Router:
                self.nodes.append(nd)
                self.node_ix[id(nd)] = len(self.nodes)
        self.is_router = {self.node_ix[id(nd)]: type(nd) is Router for nd in self.nodes}
        self.ifs: List[Any] = []
        self.if_ix: Dict[int, int] = {}
        self.if_by_uuid: Dict[str, int] = {}
        for nd in self.nodes:
            for port in sorted(nd.network_interface):
                ni = nd.network_interface[port]
                if getattr(ni, "_connected_link", None) is None or not hasattr(ni, "ip_address"):
                    continue
                self.ifs.append(ni)
                self.if_ix[id(ni)] = len(self.ifs)
                self.if_by_uuid[ni.uuid] = len(self.ifs)
        # segments
        self.seg: Dict[int, int] = {}
        nseg = 0
        for ni in self.ifs:
            if id(ni) in self.seg:
                continue
            nseg += 1
            todo, seen_links = [ni], set()
            while todo:
                x = todo.pop()
                if id(x) in self.if_ix:
                    self.seg[id(x)] = nseg
                link = getattr(x, "_connected_link", None)
                if link is None or id(link) in seen_links:
                    continue
                seen_links.add(id(link))
                other = link.endpoint_b if link.endpoint_a is x else link.endpoint_a
                if id(other) in self.if_ix:
                    self.seg[id(other)] = nseg
                owner = getattr(other, "_connected_node", None)
                if isinstance(owner, Switch):
                    todo.extend(p for p in owner.network_interface.values() if p is not other)
        self.nets: List[Any] = []
        for ni in self.ifs:
            if ni.ip_network not in self.nets:
                self.nets.append(ni.ip_network)
        self.ips: Dict[str, int] = {}
        self.macs: Dict[str, int] = {BCAST_MAC: 0}
        self.ids: Dict[int, int] = {}
        for ni in self.ifs:
            self.ip(ni.ip_address)
            self.mac(ni.mac_address)
        for nd in self.nodes:
            if getattr(nd.config, "default_gateway", None):
                self.ip(nd.config.default_gateway)

    def ip(self, a) -> int:
        s = str(a)
        if s not in self.ips:
            self.ips[s] = len(self.ips) + 1
        return self.ips[s]

    def mac(self, m) -> int:
        if m is None:
            return 0
        m = str(m).lower()
        if m not in self.macs:
            self.macs[m] = len(self.macs)
        return self.macs[m]

    def ident(self, x) -> int:
        if x is None:
            return 0
        if x not in self.ids:
            self.ids[x] = len(self.ids) + 1
        return self.ids[x]

    def cache_of(self, nd) -> List[Dict[str, int]]:
        out = []
        for ip, ent in nd.software_manager.arp.arp.items():
            out.append({"ip": self.ip(ip), "mac": self.mac(ent.mac_address), "ifc": self.if_by_uuid.get(ent.network_interface_uuid, 0)})
        return sorted(out, key=lambda d: d["ip"])

    def tally_of(self, nd) -> List[Dict[str, int]]:
        icmp = nd.software_manager.icmp
        return sorted(({"id": self.ident(k), "c": int(v)} for k, v in icmp.request_replies.items()), key=lambda d: d["id"])

    def is_on(self, nd) -> bool:
        return nd.operating_state.name == "ON"

    def cfg(self, initial: Dict[str, Any]) -> Dict[str, Any]:
        """Configuration record; called when the trace is complete (every address that occurred is numbered)."""
        order = [ipaddress.ip_address(a) for a, _ix in sorted(self.ips.items(), key=lambda kv: kv[1])]
        sub = [[k + 1 for k, a in enumerate(order) if a in ni.ip_network] for ni in self.ifs]
        ifs = [{"node": self.node_ix[id(ni._connected_node)], "ip": self.ip(ni.ip_address), "mac": self.mac(ni.mac_address),
                "seg": self.seg[id(ni)]} for ni in self.ifs]
        kind = ["router" if self.is_router[k + 1] else "host" for k in range(len(self.nodes))]
        gw = [self.ip(nd.config.default_gateway) if getattr(nd.config, "default_gateway", None) and not self.is_router[k + 1] else 0
              for k, nd in enumerate(self.nodes)]
        return {"ifs": ifs, "kind": kind, "gw": gw, "sub": sub, "skip": [], **initial}

    def names(self) -> Dict[str, Any]:
        return {"nodes": [nd.config.hostname for nd in self.nodes],
                "ifs": [f"{ni._connected_node.config.hostname}:{ni.port_num}" for ni in self.ifs],
                "ips": [s for s, _ in sorted(self.ips.items(), key=lambda kv: kv[1])]}


class Recorder:
    """Wrappers on the real classes; one event per action of ArpIcmp.tla while a scene is being recorded."""

    def __init__(self):
        self.scene: Optional[Scene] = None
        self.ev: List[Dict[str, Any]] = []
        self.initial: Dict[str, Any] = {}
        self.fid = 0
        self.fids: Dict[int, List[Any]] = {}  # id(frame) -> stack of [fid, out]
        self.send_stack: List[List[Any]] = []
        self.rx_stack: List[Dict[str, Any]] = []
        self.raised: List[str] = []
        self.installed = False

    # -- life cycle
    def install(self):
        if self.installed:
            return
        from primaite.simulator.network.hardware.base import Link, NetworkInterface, Node, WiredNetworkInterface
        from primaite.simulator.network.hardware.nodes.host.host_node import HostNode
        from primaite.simulator.network.hardware.nodes.network.router import Router
        from primaite.simulator.system.services.arp.arp import ARP
        from primaite.simulator.system.services.icmp.icmp import ICMP

        tracer.wrap(WiredNetworkInterface, "send_frame", before=self._b_send, after=self._a_send)
        tracer.wrap(Link, "transmit_frame", before=self._b_transmit, after=self._a_transmit)
        tracer.wrap(HostNode, "receive_frame", before=self._b_receive, after=self._a_receive)
        tracer.wrap(Router, "receive_frame", before=self._b_receive, after=self._a_receive)
        tracer.wrap(ARP, "add_arp_cache_entry", after=self._a_learn)
        tracer.wrap(ARP, "send_arp_request", before=self._b_ask)
        tracer.wrap(ARP, "clear", after=self._a_clear)
        tracer.wrap(ICMP, "ping", before=self._b_ping, after=self._a_ping)
        tracer.wrap(ICMP, "_process_icmp_echo_reply", after=self._a_count)
        tracer.watch(NetworkInterface, ["enabled"], self._w_enabled)
        tracer.watch(Node, ["operating_state"], self._w_state)
        self.installed = True

    def start(self, scene: Scene):
        self.scene, self.ev, self.fid = scene, [], 0
        self.fids, self.send_stack, self.rx_stack, self.raised = {}, [], [], []
        self.initial = {
            "power": [scene.is_on(nd) for nd in scene.nodes],
            "up": [bool(ni.enabled) for ni in scene.ifs],
            "cache": [scene.cache_of(nd) for nd in scene.nodes],
        }

    def stop(self, meta: Dict[str, Any], stimulus: Any) -> Dict[str, Any]:
        sc = self.scene
        self.scene = None
        m = dict(meta)
        m.update(sc.names())
        return {"cfg": sc.cfg(self.initial), "ev": self.ev, "meta": m, "stimulus": stimulus}

    # -- helpers
    def _node(self, nd) -> int:
        return self.scene.node_ix.get(id(nd), 0) if self.scene else 0

    def _emit(self, kind: str, nd=None, **kw):
        sc = self.scene
        e = dict(BLANK)
        e["ev"] = kind
        if nd is not None:
            e["n"] = sc.node_ix[id(nd)]
            e["cache"] = sc.cache_of(nd)
            e["tl"] = sc.tally_of(nd)
            e["pw"] = sc.is_on(nd)
        e.update(kw)
        self.ev.append(e)

    def quiet(self):
        self._emit("Quiet")

    def _frame(self, frame) -> Dict[str, Any]:
        sc = self.scene
        d = {"k": "data", "esrc": sc.mac(frame.ethernet.src_mac_addr), "edst": sc.mac(frame.ethernet.dst_mac_addr),
             "isrc": sc.ip(frame.ip.src_ip_address), "idst": sc.ip(frame.ip.dst_ip_address)}
        p = frame.payload
        if frame.udp is not None and p.__class__.__name__ == "ARPPacket":
            d["k"] = "areq" if p.request else "arep"
            d.update(sip=sc.ip(p.sender_ip_address), smac=sc.mac(p.sender_mac_addr), tip=sc.ip(p.target_ip_address),
                     tmac=sc.mac(p.target_mac_addr))
        elif frame.icmp is not None and frame.icmp.icmp_type.name in ("ECHO_REQUEST", "ECHO_REPLY"):
            d["k"] = "ereq" if frame.icmp.icmp_type.name == "ECHO_REQUEST" else "erep"
            d.update(id=sc.ident(frame.icmp.identifier), seq=int(frame.icmp.sequence))
        return d

    # -- transmission
    def _b_send(self, ni, frame=None, *a, **k):
        if self.scene is None:
            return None
        self.send_stack.append([ni, False])
        return True

    def _a_send(self, ni, tok, ret, exc, frame=None, *a, **k):
        if not tok or self.scene is None:
            return
        _ni, sent = self.send_stack.pop()
        if sent or id(ni) not in self.scene.if_ix or frame is None:
            return
        # the interface refused the frame (disabled) or the link did (down / at capacity)
        self.fid += 1
        self._emit("Tx", ni._connected_node, out=self.scene.if_ix[id(ni)], fid=self.fid, ok=False,
                   why="ifdown" if not ni.enabled else "link", ifup=bool(ni.enabled), **self._frame(frame))

    def _b_transmit(self, link, sender_nic=None, frame=None, *a, **k):
        sc = self.scene
        if sc is None or id(sender_nic) not in sc.if_ix:
            return None
        if self.send_stack and self.send_stack[-1][0] is sender_nic:
            self.send_stack[-1][1] = True
        self.fid += 1
        out = sc.if_ix[id(sender_nic)]
        self.fids.setdefault(id(frame), []).append([self.fid, out, frame])
        self._emit("Tx", sender_nic._connected_node, out=out, fid=self.fid, ok=True, ifup=bool(sender_nic.enabled),
                   **self._frame(frame))
        return id(frame)

    def _a_transmit(self, link, tok, ret, exc, *a, **k):
        if tok is not None and self.fids.get(tok):
            self.fids[tok].pop()
            if not self.fids[tok]:
                del self.fids[tok]

    # -- reception
    def _b_receive(self, nd, frame=None, from_network_interface=None, *a, **k):
        sc = self.scene
        if sc is None or id(nd) not in sc.node_ix:
            return None
        self.rx_stack.append({"node": nd, "frame": frame, "ni": from_network_interface, "done": False})
        return True

    def _rx_event(self, kind: str, ctx):
        sc = self.scene
        frame, ni, nd = ctx["frame"], ctx["ni"], ctx["node"]
        st = self.fids.get(id(frame))
        fid, out = (st[-1][0], st[-1][1]) if st else (0, 0)
        self._emit(kind, nd, i=sc.if_ix.get(id(ni), 0), fid=fid, out=out, ifup=bool(ni.enabled), **self._frame(frame))

    def _a_learn(self, arp, tok, ret, exc, *a, **k):
        if self.scene is None or not self.rx_stack:
            return
        ctx = self.rx_stack[-1]
        if ctx["done"] or ctx["node"] is not arp.software_manager.node:
            return
        ctx["done"] = True
        if self._frame(ctx["frame"])["k"] == "arep":
            ctx["defer"] = True  # ARP._process_arp_reply may add the packet's sender as well: read the cache when the handler is through
        else:
            self._rx_event("Rx", ctx)

    def _a_receive(self, nd, tok, ret, exc, *a, **k):
        if not tok or self.scene is None:
            return
        ctx = self.rx_stack.pop()
        if ctx.get("defer"):
            self._rx_event("Rx", ctx)
        if not ctx["done"] and self.scene.is_on(nd) and self.scene.is_router.get(self.scene.node_ix[id(nd)]):
            self._rx_event("RxDeny", ctx)  # a router that is ON took the frame and learnt nothing: its ACL refused it

    # -- handlers
    def _b_ask(self, arp, target_ip_address=None, *a, **k):
        nd = arp.software_manager.node
        if self._node(nd):
            self._emit("ArpAsk", nd, ip=self.scene.ip(target_ip_address))

    def _a_clear(self, arp, tok, ret, exc, *a, **k):
        nd = arp.software_manager.node
        if self._node(nd):
            self._emit("Clear", nd)

    def _b_ping(self, icmp, target_ip_address=None, pings=4, *a, **k):
        nd = icmp.software_manager.node
        if self._node(nd):
            self._emit("PingStart", nd, ip=self.scene.ip(target_ip_address), cnt=int(pings))
            return True
        return None

    def _a_ping(self, icmp, tok, ret, exc, *a, **k):
        if tok and self.scene is not None:
            self._emit("PingEnd", icmp.software_manager.node, res=bool(ret))

    def _a_count(self, icmp, tok, ret, exc, frame=None, *a, **k):
        nd = icmp.software_manager.node
        if self._node(nd) and frame is not None:
            self._emit("Count", nd, id=self.scene.ident(frame.icmp.identifier))

    # -- interfaces and power
    def _w_enabled(self, ni, name, old, new):
        sc = self.scene
        if sc is None or id(ni) not in sc.if_ix or bool(old) == bool(new):
            return
        self._emit("SetIf", ni._connected_node, i=sc.if_ix[id(ni)], en=bool(new), ifup=bool(new))

    def _w_state(self, nd, name, old, new):
        sc = self.scene
        if sc is None or id(nd) not in sc.node_ix:
            return
        was, now = getattr(old, "name", "") == "ON", getattr(new, "name", "") == "ON"
        if was == now:
            return
        ups = [bool(ni.enabled) for ni in sc.ifs if ni._connected_node is nd]
        self._emit("SetPower", nd, en=now, ups=ups)


# ------------------------------------------------------------------------------------------------
# stimulus
# ------------------------------------------------------------------------------------------------


def tick(game, n: int = 1):
    for _ in range(n):
        game.pre_timestep()
        game.advance_timestep()


def stimuli_of(beh: List[Dict[str, Any]]) -> List[List[Any]]:
    """The stimulus steps of a TLC behaviour of MC_ArpIcmp (the protocol's own steps are taken by the code)."""
    out, prev = [], 0
    for st in beh:
        s = st["state"]
        if s.get("nstim", 0) == prev:
            continue
        prev = s["nstim"]
        a = s["act"]
        if a[0] == "PingStart":
            out.append(["ping", a[1], a[2], a[3]])
        elif a[0] == "ArpAsk":
            out.append(["lookup", a[1], a[2]])
        elif a[0] == "SetIf":
            out.append(["ifup" if a[2] else "ifdown", a[1]])
        elif a[0] == "SetPower":
            out.append(["on" if a[2] else "off", a[1]])
        elif a[0] == "ClearCache":
            out.append(["clear", a[1]])
        else:
            raise tlc.TLCError(f"unexpected stimulus action {a}")
    return out


SCRIPTED = [
    # every kind of event at least once, whatever the seed: cold and warm pings through the router, a dead address, an
    # address off every network, a ping of a powered-off / disabled target, lookups, a cleared cache
    {"acl": None, "dur": 0, "steps": [["ping", 1, 5, 2], ["ping", 1, 2, 1], ["ping", 1, 4, 2], ["ping", 1, 7, 1], ["ping", 1, 6, 1],
                                      ["ping", 3, 5, 1], ["off", 4], ["ping", 1, 5, 2], ["on", 4], ["ping", 1, 5, 1],
                                      ["ifdown", 2], ["ping", 1, 2, 1], ["ifup", 2], ["ping", 2, 1, 1], ["ping", 2, 5, 1],
                                      ["clear", 1], ["lookup", 1, 2], ["lookup", 1, 5], ["ping", 1, 3, 3]]},
    {"acl": DENY_A_TO_B, "dur": 0, "steps": [["ping", 1, 5, 2], ["ping", 3, 5, 1], ["ping", 1, 6, 1]]},
    # the link r -- b carries the ARP exchange and three (cold) / seven (warm) echo frames per tick: some requests stay
    # unanswered, ping() must say False
    {"acl": None, "dur": 0, "bw": 0.0205, "steps": [["ping", 1, 5, 2], ["tick"], ["ping", 1, 5, 4], ["tick"], ["ping", 1, 5, 3]]},
    # a station x sends frames with a spoofed source address: an address that is cached keeps its entry, an unknown
    # one is learnt (the documented rule)
    {"acl": None, "dur": 0, "intruder": True, "steps": [["ping", 1, 2, 1], ["spoof", 2, 1], ["ping", 1, 2, 2], ["spoof", 4, 1], ["ping", 1, 4, 1],
                                                        ["clear", 1], ["spoof", 2, 1], ["ping", 1, 2, 1]]},
    # mixed masks: p asks on its own segment for the far router port / for q (nobody there owns them: no reply), the
    # ordinary exchanges around it
    {"acl": None, "dur": 0, "layout": 2, "steps": [["ping", 1, 3, 1], ["ping", 1, 2, 2], ["lookup", 1, 3], ["ping", 1, 4, 1], ["ping", 3, 1, 1],
                                                   ["ping", 2, 1, 1], ["ping", 1, 5, 1], ["clear", 1], ["ping", 1, 3, 2], ["ping", 3, 2, 1]]},
    # two ports of one router in one broadcast domain: a request for the address of port 2 is heard by port 1 too
    {"acl": None, "dur": 0, "layout": 3, "steps": [["ping", 1, 3, 1], ["ping", 1, 2, 1], ["ping", 2, 1, 1], ["clear", 1], ["lookup", 1, 3],
                                                   ["lookup", 1, 2], ["ping", 1, 3, 2], ["ifdown", 2], ["clear", 1], ["ping", 1, 3, 1], ["ifup", 2],
                                                   ["ping", 1, 4, 1], ["clear", 2], ["ping", 2, 1, 2]]},
    {"acl": None, "dur": 2, "steps": [["ping", 1, 5, 1], ["off", 3], ["ping", 1, 5, 1], ["ping", 1, 2, 1], ["on", 3], ["ping", 1, 5, 2],
                                      ["off", 1], ["ping", 1, 2, 1], ["on", 1], ["ifdown", 4], ["ping", 1, 5, 1], ["ping", 1, 6, 1]]},
]


def replay(rec: Recorder, steps: List[List[Any]], dur: int, acl, rng: random.Random, meta: Dict[str, Any],
           bw: Optional[float] = None, intruder: bool = False, layout: int = 1) -> Dict[str, Any]:
    from ipaddress import IPv4Address

    from primaite.simulator.network.transmission.data_link_layer import EthernetHeader, Frame
    from primaite.simulator.network.transmission.network_layer import IPPacket
    from primaite.simulator.network.transmission.transport_layer import UDPHeader
    from primaite.utils.validation.port import PORT_LOOKUP

    lay = LAYOUTS[layout]
    MC_NODE, MC_IF, MC_IP = lay["node"], lay["ifc"], lay["ip"]  # noqa: N806  (this layout's numbering)
    game = scenarios.build(topo(dur, acl, bw, intruder) if layout == 1 else lay["topo"](dur))
    net = game.simulation.network
    node = {k: net.get_node_by_hostname(h) for k, h in MC_NODE.items()}
    for nd in node.values():
        nd.software_manager.arp.clear()  # the model starts with empty caches (building the network filled them)
    scene = Scene(net)
    rec.start(scene)
    applied = []
    for st in steps:
        try:
            if st[0] == "ping":
                node[st[1]].ping(MC_IP[st[2]], st[3])
            elif st[0] == "lookup":
                arp = node[st[1]].software_manager.arp
                if rng.random() < 0.5:
                    arp.send_arp_request(IPv4Address(MC_IP[st[2]]))
                else:
                    arp.get_arp_cache_mac_address(IPv4Address(MC_IP[st[2]]))
            elif st[0] in ("ifup", "ifdown"):
                h, port = MC_IF[st[1]]
                game.simulation.apply_request(["network", "node", h, "network_interface", port, "enable" if st[0] == "ifup" else "disable"])
            elif st[0] in ("on", "off"):
                game.simulation.apply_request(["network", "node", MC_NODE[st[1]], "startup" if st[0] == "on" else "shutdown"])
                tick(game, dur + 2)
            elif st[0] == "clear":
                node[st[1]].software_manager.arp.clear()
            elif st[0] == "tick":
                tick(game, 1)
            elif st[0] == "spoof":  # x sends a UDP frame to node st[2] that claims the source address MC_IP[st[1]]
                x = net.get_node_by_hostname("x").network_interface[1]
                dst = node[st[2]].network_interface[1]
                x.send_frame(Frame(ethernet=EthernetHeader(src_mac_addr=x.mac_address, dst_mac_addr=dst.mac_address),
                                   ip=IPPacket(src_ip_address=MC_IP[st[1]], dst_ip_address=str(dst.ip_address), protocol="udp"),
                                   udp=UDPHeader(src_port=PORT_LOOKUP["DNS"], dst_port=PORT_LOOKUP["DNS"]), payload="spoof"))
        except Exception as e:  # noqa  an exception out of the repository's code is an event no module allows
            rec._emit("Raised:" + type(e).__name__)
            rec.raised.append(repr(e))
        rec.quiet()
        applied.append(st)
    return rec.stop(dict(meta, dur=dur, acl="deny icmp a->b" if acl else "permit", layout=layout), applied)


def scenario_run(rec: Recorder, name: str, steps: int, seed: int, chk: common.Check) -> Dict[str, Any]:
    """A shipped scenario through the real environment: random actions, and pings between its hosts and router
    interfaces every few steps, projected onto ARP / ICMP."""
    from primaite.session.environment import PrimaiteGymEnv
    from primaite.simulator.network.hardware.nodes.host.host_node import HostNode

    cfg = scenarios.shipped(name)
    io = cfg.setdefault("io_settings", {})
    for k in ("save_agent_actions", "save_step_metadata", "save_pcap_logs", "save_sys_logs", "save_agent_logs"):
        io[k] = False
    try:
        env = PrimaiteGymEnv(env_config=copy.deepcopy(cfg))
        env.reset(seed=seed)
        env.action_space.seed(seed)
        game = env.game
    except StopIteration:  # no proxy agent: the game is stepped directly
        env = None
        game = scenarios.build(cfg)
    rng = random.Random(seed)
    scene = Scene(game.simulation.network)
    rec.start(scene)
    hosts = [nd for nd in scene.nodes if isinstance(nd, HostNode)]
    targets = sorted({str(ni.ip_address) for ni in scene.ifs})
    sub = ipaddress.ip_network(scene.nets[0])
    targets.append(str(sub.network_address + 250))  # an address of a real subnet nobody owns
    stim = []
    for step in range(steps):
        try:
            if env is not None:
                act = env.action_space.sample() if rng.random() < 0.7 else 0
                env.step(act)
            else:
                act = 0
                game.step()
            stim.append(["step", int(act) if not isinstance(act, dict) else str(act)])
        except Exception as e:  # noqa
            rec._emit("Raised:" + type(e).__name__)
            rec.raised.append(repr(e))
            break
        rec.quiet()
        if step % 3 == 2:
            src, dst = rng.choice(hosts), rng.choice(targets)
            try:
                src.ping(dst, rng.choice([1, 2, 4]))
            except Exception as e:  # noqa
                rec._emit("Raised:" + type(e).__name__)
                rec.raised.append(repr(e))
            rec.quiet()
            stim.append(["ping", src.config.hostname, dst])
    tr = rec.stop({"kind": "scenario", "scenario": name, "steps": steps}, stim)
    if env is not None:
        env.close()
    return tr


# ------------------------------------------------------------------------------------------------


def main(tier: str, seed: int) -> int:
    chk = common.Check("EXT-arp_icmp", "model_checking", tier, seed)
    quick = tier == "quick"
    phases: Dict[str, float] = {}
    t_ph = [time.time()]

    def phase(name: str):
        phases[name] = round(time.time() - t_ph[0], 1)
        t_ph[0] = time.time()
    # (a) the model
    from concurrent.futures import ThreadPoolExecutor

    negs = (("MC_ArpIcmpBadId.cfg", "EchoReplySameIdentifier"), ("MC_ArpIcmpAsCodedGw.cfg", "UnicastToResolvedMac"),
            ("MC_ArpIcmpAnyPort.cfg", "ArpReplyOnlyByOwner"))
    extra_layouts = (("MC_ArpIcmpMasks.cfg", 2), ("MC_ArpIcmpTwoPorts.cfg", 3))
    nbeh = 60 if quick else 800
    with ThreadPoolExecutor(max_workers=10) as ex:  # the TLC runs side by side
        f_mc = ex.submit(tlc.mc, "MC_ArpIcmp", cfg="MC_ArpIcmp.cfg" if quick else "MC_ArpIcmpDeep.cfg", timeout=1500)
        f_neg = [ex.submit(tlc.mc, "MC_ArpIcmp", cfg=neg, coverage=False, workers=4) for neg, _ in negs]
        f_lay = [ex.submit(tlc.mc, "MC_ArpIcmp", cfg=c, workers=6) for c, _ in extra_layouts]
        f_sim = ex.submit(tlc.simulate, "MC_ArpIcmp", cfg="MC_ArpIcmpDeep.cfg", num=nbeh, depth=90, seed=seed)
        f_sim2 = [ex.submit(tlc.simulate, "MC_ArpIcmp", cfg=c, num=max(12, nbeh // 5), depth=90, seed=seed) for c, _ in extra_layouts]
        r, rneg, (behs, info) = f_mc.result(), [f.result() for f in f_neg], f_sim.result()
        rlay, behs2 = [f.result() for f in f_lay], [f.result()[0] for f in f_sim2]
    phase("tlc_model_runs")
    if not r["ok"]:
        chk.violation({"module": "MC_ArpIcmp", "clause": str(r["violation"])}, {"tlc": r["output_tail"]})
    need = ["Ping", "Lookup", "IfDown", "IfUp", "PowerOff", "PowerOn", "Clear", "ComesUp", "Hello", "AskTx", "Resolve", "Deliver",
            "ArpReply", "EchoReply", "Forward", "Count", "GiveUp", "EchoRequest", "EchoSkip", "PingEnd", "Quiet"]
    cov = r["coverage"]  # TLC names an action by the innermost named operator: A<x> (wrapper) or M<x>
    idle = sorted(a for a in need if cov.get("A" + a, (0, 0))[1] + cov.get("M" + a, (0, 0))[1] == 0)
    if idle:
        raise tlc.TLCError(f"vacuous model MC_ArpIcmp: actions never taken: {idle}")
    chk.add_mc("MC_ArpIcmp(a,c--sw--r--b; %s stimuli; pings<=2)" % ("2" if quick else "3"), r)
    for (c, lay), rl in zip(extra_layouts, rlay):
        if not rl["ok"]:
            chk.violation({"module": "MC_ArpIcmp", "cfg": c, "clause": str(rl["violation"])}, {"tlc": rl["output_tail"]})
        chk.add_mc(f"MC_ArpIcmp(layout {lay}: {c}; 2 stimuli)", rl)
    for (neg, inv), rn in zip(negs, rneg):
        if rn["ok"] or rn["violation"] != ("invariant", inv):
            raise tlc.TLCError(f"negative configuration {neg}: TLC did not refute {inv} ({rn['violation']})")
        chk.notes.append(f"{neg}: TLC refutes {inv} for that variant of the model ({rn['distinct']} states)")
    # (b) behaviours of the model as stimulus
    common.boot()
    rec = Recorder()
    rec.install()
    rng = random.Random(seed)
    traces: List[Dict[str, Any]] = []
    for k, sc in enumerate(SCRIPTED):
        traces.append(replay(rec, sc["steps"], sc["dur"], sc["acl"], rng, {"kind": "scripted", "index": k},
                             bw=sc.get("bw"), intruder=sc.get("intruder", False), layout=sc.get("layout", 1)))
    for k, beh in enumerate(behs):
        steps = stimuli_of(beh)
        if not steps:
            continue
        dur = 0 if (quick or k % 3) else 2
        acl = DENY_A_TO_B if k % 5 == 4 else None
        traces.append(replay(rec, steps, dur, acl, rng, {"kind": "tlc-behaviour", "index": k}))
        chk.add_case(steps)
    phase("boot_and_replay")
    for (c, lay), bb in zip(extra_layouts, behs2):
        for k, beh in enumerate(bb):
            steps = stimuli_of(beh)
            if steps:
                traces.append(replay(rec, steps, 0, None, rng, {"kind": "tlc-behaviour", "index": k}, layout=lay))
                chk.add_case([lay] + steps)
    # (e) scenario scale
    shipped = [("data_manipulation.yaml", 24)] if quick else [("data_manipulation.yaml", 150), ("basic_lan_network_example.yaml", 40), ("data_manipulation.yaml", 150),
                                                            ("data_manipulation.yaml", 120)]
    for j, (name, n) in enumerate(shipped):
        t0 = time.time()
        traces.append(scenario_run(rec, name, n, seed * 7 + j, chk))
        chk.notes.append(f"scenario {name}: {n} steps recorded in {time.time() - t0:.1f}s")
    phase("scenarios")
    # (d) TLC judges
    res = tlc.validate("ArpIcmpTrace", traces, chunk=12 if quick else 30, parallel=8)
    KNOWN_CLAUSE = "UnicastToResolvedMac"  # known finding: the canonical (single) clause name whenever it is among the failing ones

    def clause_of(fail) -> str:
        return KNOWN_CLAUSE if KNOWN_CLAUSE in fail else (",".join(sorted(fail)) if fail else "no-matching-action")

    def sig(t, e, st):
        d = {"ev": e.get("ev"), "k": e.get("k"), "kind": t["meta"].get("kind")}
        if KNOWN_CLAUSE in (st.get("fail") or []):
            d["clause"] = KNOWN_CLAUSE
        return d

    common.judge_traces(chk, "ArpIcmp", traces, res, sig, selftest="ArpIcmpTrace")
    phase("validate_and_selftest")
    # a rejected trace is examined no further than its first divergence: look behind it with the failed clauses skipped
    # (this can only add violations - the verdict above stands)
    beyond = {"rounds": 0, "re_examined": 0, "further_divergences": 0}
    todo = [(t, (s or {}).get("fail") or [], reached) for t, (reached, length), s in zip(traces, res["results"], res["stuck"])
            if reached != length + 1]
    while todo and beyond["rounds"] < 4:
        beyond["rounds"] += 1
        again = []
        for t, fail, at in todo:
            if fail:
                t2 = {"cfg": dict(t["cfg"], skip=sorted(set(t["cfg"]["skip"]) | set(fail))), "ev": t["ev"], "meta": dict(t["meta"], stuck_at=at),
                      "stimulus": t["stimulus"]}
                again.append(t2)
        if not again:
            break
        beyond["re_examined"] += len(again)
        r2 = tlc.validate("ArpIcmpTrace", again, chunk=12 if quick else 30, parallel=8)
        todo = []
        for t2, (reached, length), st in zip(again, r2["results"], r2["stuck"]):
            if reached == length + 1:
                continue
            fail = (st or {}).get("fail") or []
            if not fail and reached == t2["meta"]["stuck_at"]:
                continue  # the same divergence, seen through the guard of the action
            event = t2["ev"][reached - 1] if 0 < reached <= length else {}
            beyond["further_divergences"] += 1
            chk.violation(dict(sig(t2, event, st or {}), module="ArpIcmp", event=event.get("ev"),
                               clause=clause_of(fail), behind=",".join(t2["cfg"]["skip"])),
                          {"meta": t2["meta"], "position": reached, "event": event, "spec_state_before": (st or {}).get("st"),
                           "failing_clauses": fail, "prefix": t2["ev"][: reached - 1][-30:], "stimulus": t2["stimulus"]})
            todo.append((t2, fail, reached))
    chk.cov["beyond_first_divergence"] = beyond
    phase("beyond_first_divergence")
    chk.cov["phase_wall_s"] = phases
    # vacuity
    accepted = [t for t, (reached, length) in zip(traces, res["results"]) if reached == length + 1]
    counts: Dict[str, int] = {}
    for t in traces:
        for e in t["ev"]:
            key = e["ev"] + (":" + e["k"] if e["ev"] in ("Tx", "Rx", "RxDeny") else "") + (":refused" if e["ev"] == "Tx" and not e["ok"] else "")
            counts[key] = counts.get(key, 0) + 1
    pings = [e["res"] for t in traces for e in t["ev"] if e["ev"] == "PingEnd"]
    chk.cov["recorded_events"] = dict(sorted(counts.items()))
    chk.cov["pings"] = {"true": sum(pings), "false": len(pings) - sum(pings)}
    chk.cov["traces"] = {"total": len(traces), "accepted": len(accepted),
                         "events": sum(len(t["ev"]) for t in traces),
                         "scenario_events": sum(len(t["ev"]) for t in traces if t["meta"].get("kind") == "scenario")}
    must = ["PingStart", "PingEnd", "ArpAsk", "Tx:areq", "Tx:arep", "Tx:ereq", "Tx:erep", "Rx:areq", "Rx:arep", "Rx:ereq", "Rx:erep",
            "RxDeny:ereq", "Count", "Quiet", "SetIf", "SetPower", "Clear", "Tx:data", "Rx:data", "Tx:erep:refused"]
    missing = [m for m in must if not counts.get(m)]
    if missing:
        raise RuntimeError(f"vacuous replay: actions never exercised in the code: {missing}")
    if not sum(pings) or sum(pings) == len(pings):
        raise RuntimeError("vacuous replay: pings all failed or all succeeded")
    if not accepted and not chk.violations:
        raise RuntimeError("no trace was accepted")
    if rec_raised := [t for t in traces if any(e["ev"].startswith("Raised") for e in t["ev"])]:
        chk.notes.append(f"{len(rec_raised)} trace(s) contain an exception raised by repository code")
    chk.sample({"scripted": traces[0]["stimulus"][:6], "events": [{k: v for k, v in e.items() if v not in (0, "", False, [])} for e in traces[0]["ev"][:8]]})
    chk.assumptions += [
        "switches are transparent (a segment = a broadcast domain); routing decisions, ACL verdicts and link capacity are not "
        "judged here (RxDeny and refused transmissions are free for routers / links)",
        "addresses, MACs, interfaces and ICMP identifiers are numbered by first occurrence per trace",
        "shipped scenarios: hosts and plain routers are tracked (firewalls / wireless routers are not); TCP / UDP traffic is "
        "projected to 'data' frames that only take part in learning",
    ]
    return chk.finish()
