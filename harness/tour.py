"""Transition tours of spec/Lifecycle.tla (history generator for the properties that quantify over all reachable
simulation states).  TLC explores the facet's state graph and dumps it; the graph is projected onto
(state-without-`act`, action) edges and a tour is computed that takes every edge at least once, lets transients run
out, and is cut into episodes.  `bind(...)` maps the abstract actions onto action-map indices of a real environment.
"""
from __future__ import annotations

import random
import re
import shutil
from collections import deque
from typing import Any, Dict, List, Optional, Tuple

from . import tlc

State = Tuple[Tuple[str, Any], ...]


def graph(facet: str, cfg: Optional[str] = None) -> Dict[str, Any]:
    """(init state, {(state, action): state'}, TLC statistics) of the facet's state graph."""
    work = tlc.scratch("verif_tour_")
    dot = work / "g.dot"
    try:
        res = tlc.mc("Lifecycle", cfg or f"Lifecycle_{facet}.cfg", workers=4, coverage=False, extra=["-dump", "dot", str(dot)])
        if not res["ok"]:
            raise tlc.TLCError(f"Lifecycle/{facet}: {res['violation']}")
        text = dot.read_text()
    finally:
        shutil.rmtree(work, ignore_errors=True)
    nodes: Dict[str, Dict[str, Any]] = {}
    for m in re.finditer(r'^(-?\d+) \[label="((?:[^"\\]|\\.)*)"', text, re.M):
        st = {}
        for conj in m.group(2).split("\\n"):
            conj = conj.replace('\\"', '"').replace("/\\\\ ", "").strip()
            var, _, val = conj.partition(" = ")
            st[var.strip()] = tlc.parse_value(val.strip())
        nodes[m.group(1)] = st

    def absq(st) -> State:
        return tuple(sorted((k, v) for k, v in st.items() if k != "act"))

    edges: Dict[Tuple[State, str], State] = {}
    for m in re.finditer(r"^(-?\d+) -> (-?\d+) ", text, re.M):
        a, b = nodes[m.group(1)], nodes[m.group(2)]
        key = (absq(a), b["act"])
        if key in edges and edges[key] != absq(b):
            raise tlc.TLCError("Lifecycle is expected to be deterministic per (state, action)")
        edges[key] = absq(b)
    init = [absq(s) for s in nodes.values() if s["act"] == "init"]
    if len(init) != 1:
        raise tlc.TLCError("Lifecycle: no unique initial state in the dump")
    return {"init": init[0], "edges": edges, "tlc": res}


def transient(s: State) -> bool:
    d = dict(s)
    return d["pw"] in ("SD", "BOOT") or d["pc"] > 0 or d["oc"] > 0 or d["fc"] > 0


def coarse(s: State) -> State:
    """The state with every countdown reduced to 'running or not' (the tour's default coverage unit: an operation at
    every power state x component state x which timers are in flight; the exact remaining ticks are swept by the
    thorough tier, which covers every edge of the exact graph)."""
    return tuple((k, (v > 0) if k in ("pc", "oc", "fc") else v) for k, v in s)


def coarser(s: State) -> State:
    """`coarse` without the node's own countdown and reset flag: power state x component state x component timers in
    flight (the unit of the quick tier of the checks whose oracle is expensive per step)."""
    return tuple(kv for kv in coarse(s) if kv[0] not in ("pc", "rs"))


def tour(g: Dict[str, Any], rng: random.Random, episode_len: int = 60, budget: Optional[int] = None,
         only: Optional[set] = None, exact: bool = False, level: Optional[str] = None) -> Tuple[List[List[str]], Dict[str, int]]:
    """Episodes (lists of abstract actions) that together take every (state, action) edge of the graph whose states are
    taken modulo the coverage level: "exact" (every state of the model), "timers" (default: countdowns as running / not
    running) or "coarse" (additionally without the node's countdown and reset flag) - or `budget` of them, or the edges
    whose action is in `only`."""
    edges, init = g["edges"], g["init"]
    level = level or ("exact" if exact else "timers")
    key = {"exact": (lambda x: x), "timers": coarse, "coarse": coarser}[level]
    succ: Dict[State, List[Tuple[str, State]]] = {}
    for (s, a), t in edges.items():
        succ.setdefault(s, []).append((a, t))
    for s in succ:
        succ[s].sort()
    want = {(key(k[0]), k[1]) for k in edges if only is None or k[1] in only}
    uncovered = set(want)
    episodes: List[List[str]] = [[]]
    cur = init
    taken = 0

    def take(a):
        nonlocal cur, taken
        if len(episodes[-1]) >= episode_len:
            return False
        episodes[-1].append(a)
        uncovered.discard((key(cur), a))
        cur = edges[(cur, a)]
        taken += 1
        return True

    def path_to_uncovered(src: State) -> Optional[List[str]]:
        seen, q = {src: None}, deque([src])
        while q:
            s = q.popleft()
            if any((key(s), a) in uncovered for a, _ in succ.get(s, [])):
                p = []
                while seen[s] is not None:
                    ps, a = seen[s]
                    p.append(a)
                    s = ps
                return p[::-1]
            for a, t in succ.get(s, []):
                if t not in seen:
                    seen[t] = (s, a)
                    q.append(t)
        return None

    limit = budget if budget is not None else len(want)
    covered0 = len(want)
    while uncovered and (covered0 - len(uncovered)) < limit:
        here = [a for a, _ in succ.get(cur, []) if (key(cur), a) in uncovered]
        ok = True
        if here:
            stay = [a for a in here if edges[(cur, a)] == cur]  # first everything that does not leave this state
            ok = take(rng.choice(stay or here))
        elif transient(cur) and edges.get((cur, "do-nothing"), cur) != cur:
            ok = take("do-nothing")
        else:
            p = path_to_uncovered(cur)
            if p is None:
                ok = False  # nothing reachable from here: a new episode starts from the initial state
                if cur == init:
                    break
            else:
                for a in p:
                    ok = take(a)
                    if not ok:
                        break
        if not ok:
            # let the episode end quietly and start the next one at the initial state
            episodes.append([])
            cur = init
    return [e for e in episodes if e], {"edges": len(edges), "wanted": len(want), "covered": len(want) - len(uncovered), "steps": taken,
                                        "states": len(succ)}


# ---------------------------------------------------------------------------------------------------------------
# binding to a real environment
# ---------------------------------------------------------------------------------------------------------------
TARGET = {"ssh": ("a", "terminal"), "svc": ("b", "dns-server"), "app": ("a", "web-browser"), "fs": ("b", "tourf")}


def scenario(facet: str, pow_dur: int = 2, flatten: bool = False, masking: bool = False) -> Tuple[Dict[str, Any], Dict[str, int]]:
    """A small routed scenario whose proxy agent has one action-map entry per abstract action of the facet, aimed at
    the facet's target component; returns (config, {abstract action: action-map index})."""
    from . import scenarios

    cfg = scenarios.routed()
    node, comp = TARGET[facet]
    for n in cfg["simulation"]["network"]["nodes"]:
        if n["hostname"] == "b":
            n["services"] = [{"type": "database-service"}, {"type": "web-server"}, {"type": "dns-server"}]
        if n["hostname"] == "a":
            n["applications"] = [{"type": "web-browser", "options": {"target_url": "http://192.168.2.2"}},
                                 {"type": "database-client", "options": {"db_server_ip": "192.168.2.2"}}]
        if n["hostname"] in ("a", "b"):
            n["start_up_duration"] = n["shut_down_duration"] = pow_dur
    opt = {"svc": {"node_name": node, "service_name": comp}, "app": {"node_name": node, "application_name": comp},
           "file": {"node_name": node, "folder_name": comp, "file_name": "t.txt"}, "folder": {"node_name": node, "folder_name": comp},
           "node": {"node_name": node}}
    acts = []
    names: List[str] = []

    def add(a, o):
        names.append(a)
        acts.append((a, o))

    for a in ("node-shutdown", "node-startup", "node-reset"):
        add(a, opt["node"])
    if facet == "ssh":
        add("node-session-remote-login", {"node_name": "a", "username": "admin", "password": "admin", "remote_ip": "192.168.2.2"})
        add("node-send-remote-command", {"node_name": "a", "remote_ip": "192.168.2.2", "command": ["file_system", "create", "folder", "tour"]})
        add("node-session-remote-logoff", {"node_name": "a", "remote_ip": "192.168.2.2", "verb": "remote_logoff"})
        add("node-account-change-password", {"node_name": "b", "username": "admin", "current_password": "admin", "new_password": "admin"})
    elif facet == "svc":
        for v in ("stop", "start", "pause", "resume", "restart", "disable", "enable", "fix", "scan"):
            add(f"node-service-{v}", opt["svc"])
    elif facet == "app":
        for v in ("execute", "close", "fix", "scan", "remove", "install"):
            add(f"node-application-{v}", opt["app"])
    else:
        for v in ("create", "delete", "restore", "corrupt", "repair", "scan", "checkhash", "access"):
            o = dict(opt["file"])
            add(f"node-file-{v}", o)
        for v in ("scan", "repair", "restore", "checkhash", "create"):
            add(f"node-folder-{v}", opt["folder"])
    comps = [{"type": "nodes", "label": "NODES", "options": {
        "hosts": [{"hostname": "a", "applications": [{"application_name": "web-browser"}, {"application_name": "database-client"}]},
                  {"hostname": "b", "services": [{"service_name": "dns-server"}, {"service_name": "web-server"}],
                   "folders": [{"folder_name": "tourf", "files": [{"file_name": "t.txt"}]}, {"folder_name": "database", "files": [{"file_name": "database.db"}]}]}],
        "routers": [{"hostname": "r"}], "firewalls": [], "num_services": 2, "num_applications": 2, "num_folders": 2, "num_files": 1,
        "num_nics": 1, "include_nmne": False, "include_num_access": True, "monitored_traffic": {"icmp": ["NONE"], "tcp": ["HTTP", "POSTGRES_SERVER"]},
        "ip_list": ["192.168.1.2", "192.168.2.2"], "wildcard_list": ["0.0.0.1"], "port_list": [80, 5432],
        "protocol_list": ["ICMP", "TCP", "UDP"], "num_rules": 4, "num_ports": 3}}]
    rewards = [{"type": "database-file-integrity", "weight": 0.5, "options": {"node_hostname": "b", "folder_name": "database", "file_name": "database.db"}},
               {"type": "web-server-404-penalty", "weight": 0.5, "options": {"node_hostname": "b", "service_name": "web-server"}}]
    cfg["agents"] = [scenarios.proxy_agent(scenarios.action_map_from(acts), masking=masking, flatten=flatten, components=comps, rewards=rewards)]
    cfg["game"]["max_episode_length"] = 1000
    idx = {"do-nothing": 0, "red-compromise": 0}
    for i, a in enumerate(names):
        idx[a] = i + 1
    return cfg, idx


def compromise(game, facet: str) -> None:
    """The environment event `red-compromise` of the model: the target component is damaged behind the agent's back."""
    from primaite.simulator.file_system.file_system_item_abc import FileSystemItemHealthStatus
    from primaite.simulator.system.software import SoftwareHealthState

    node, comp = TARGET[facet]
    n = game.simulation.network.get_node_by_hostname(node)
    if n.operating_state.name != "ON":
        return
    if facet == "fs":
        fo = n.file_system.get_folder(comp)
        f = fo.get_file("t.txt") if fo else None
        if f is not None and not f.deleted:
            f.corrupt()
        return
    sw = n.software_manager.software.get(comp)
    if sw is not None and sw.operating_state.name == "RUNNING" and sw.health_state_actual in (SoftwareHealthState.GOOD, SoftwareHealthState.FIXING):
        # through the software's own `compromise` request (what a red application's success amounts to)
        game.simulation.apply_request(["network", "node", node, "service" if facet == "svc" else "application", comp, "compromise"])


def states_along(g: Dict[str, Any], episode: List[str]) -> List[State]:
    """The abstract states the model passes through along one episode (state AFTER each action)."""
    cur, out = g["init"], []
    for a in episode:
        cur = g["edges"][(cur, a)]
        out.append(cur)
    return out
