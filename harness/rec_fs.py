"""Projection of a node's FileSystem to the variables of FileSystem.tla (C15) and FileHealth.tla (C14)."""
from __future__ import annotations

from typing import Any, Dict, List


class FsProjector:
    """Canonical ids in order of first appearance; remembers every item ever seen."""

    def __init__(self, fs):
        self.fs = fs
        self.folder_ids: Dict[str, int] = {}
        self.folder_objs: List[Any] = []
        self.file_ids: Dict[str, int] = {}
        self.file_objs: List[Any] = []
        self.file_folder: List[int] = []

    def _scan(self):
        fs = self.fs
        for dct in (fs.folders, fs.deleted_folders):
            for uid, fo in list(dct.items()):
                if uid not in self.folder_ids:
                    self.folder_ids[uid] = len(self.folder_objs) + 1
                    self.folder_objs.append(fo)
        for fo in list(self.folder_objs):
            fid = self.folder_ids[fo.uuid]
            for dct in (fo.files, fo.deleted_files):
                for uid, f in list(dct.items()):
                    if uid not in self.file_ids:
                        self.file_ids[uid] = len(self.file_objs) + 1
                        self.file_objs.append(f)
                        self.file_folder.append(fid)

    def project(self) -> Dict[str, Any]:
        self._scan()
        fs = self.fs
        folders = []
        for fo in self.folder_objs:
            folders.append({"name": fo.name, "live": fo.uuid in fs.folders, "del": fo.uuid in fs.deleted_folders,
                            "flag": bool(fo.deleted)})
        files = []
        for f, fid in zip(self.file_objs, self.file_folder):
            fo = self.folder_objs[fid - 1]
            files.append({"folder": fid, "name": f.name, "live": f.uuid in fo.files, "del": f.uuid in fo.deleted_files,
                          "flag": bool(f.deleted)})
        rep = []
        st = fs.describe_state()
        for sec in ("folders", "deleted_folders"):
            for fname, fst in st[sec].items():
                rep.append(f"{sec}:{fname}")
                if sec == "deleted_folders" and sum(1 for d in fs.deleted_folders.values() if d.name == fname) != 1:
                    continue  # (the report is keyed by name: the content of a name shared by two deleted folders is not judged)
                for lst in ("files", "deleted_files"):
                    for n in fst.get(lst, {}):
                        rep.append(f"{sec}:{fname}/{n}:{lst}")
        return {"folders": folders, "files": files, "rep": sorted(set(rep)), "nc": int(fs.num_file_creations),
                "nd": int(fs.num_file_deletions)}
