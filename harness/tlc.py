"""TLC / SANY runner and output parsing for the PrimAITE TLA+ specification library.

Everything TLC-related goes through this module:

* ``mc``        exhaustive model checking of ``MC_<M>.tla`` / ``.cfg`` (states, transitions, coverage)
* ``simulate``  ``tlc -simulate file=...`` behaviours parsed into (action, args, state) lists
* ``validate``  batch trace validation: thousands of implementation traces per JVM

Exit conventions are the caller's business; this module only raises ``TLCError`` for machinery
failures (parse errors, TLC crashes, time-outs).
"""
from __future__ import annotations

import json
import os
import re
import shutil
import subprocess
import tempfile
import time
from pathlib import Path
from typing import Any, Dict, List, Optional, Tuple

VERIF = Path(__file__).resolve().parent.parent
SPEC = VERIF / "spec"
JAR = "/opt/veriftools/tla/tla2tools.jar"
DEPS = "/opt/veriftools/tla/CommunityModules-deps.jar"


class TLCError(RuntimeError):
    """Machinery failure (never an implementation verdict)."""


_JTMP: List[Path] = []


def _java_tmp() -> Path:
    """One scratch directory per harness process for the JVM's own temporary files (TLC leaves hundreds of `tlc-*` entries
    in java.io.tmpdir per run); removed when the process ends."""
    if not _JTMP:
        import atexit

        d = Path(tempfile.mkdtemp(prefix="verif_jtmp_"))
        _JTMP.append(d)
        atexit.register(lambda: shutil.rmtree(d, ignore_errors=True))
    return _JTMP[0]


def _java(extra_props: Optional[List[str]] = None, heap: str = "4g") -> List[str]:
    cmd = ["java", "-XX:+UseParallelGC", f"-Xmx{heap}", f"-Djava.io.tmpdir={_java_tmp()}"]
    cmd += extra_props or []
    cmd += ["-cp", f"{JAR}:{DEPS}", "tlc2.TLC"]
    return cmd


def scratch(prefix: str = "verif_tlc_") -> Path:
    return Path(tempfile.mkdtemp(prefix=prefix))


_RE_STATES = re.compile(r"(\d+) states generated, (\d+) distinct states found, (\d+) states left on queue")
_RE_DEPTH = re.compile(r"The depth of the complete state graph search is (\d+)")
_RE_INV = re.compile(r"Error: Invariant (\S+) is violated")
_RE_ACTP = re.compile(r"Error: Action property (\S+) is violated")
_RE_COV = re.compile(r"^<(\w+) line (\d+), col (\d+) to line (\d+), col (\d+) of module (\w+)(?: \([\d ]+\))?>: (\d+):(\d+)", re.M)


def parse_mc_output(out: str) -> Dict[str, Any]:
    res: Dict[str, Any] = {"ok": False, "violation": None, "states": 0, "distinct": 0, "depth": 0, "coverage": {}}
    m = None
    for m in _RE_STATES.finditer(out):
        pass
    if m:
        res["states"] = int(m.group(1))
        res["distinct"] = int(m.group(2))
        res["queue"] = int(m.group(3))
    m = _RE_DEPTH.search(out)
    if m:
        res["depth"] = int(m.group(1))
    if "Model checking completed. No error has been found." in out:
        res["ok"] = True
    mi = _RE_INV.search(out)
    ma = _RE_ACTP.search(out)
    if mi:
        res["violation"] = ("invariant", mi.group(1))
    elif ma:
        res["violation"] = ("action_property", ma.group(1))
    elif "Temporal properties were violated" in out:
        res["violation"] = ("temporal", "")
    elif "Deadlock reached" in out:
        res["violation"] = ("deadlock", "")
    elif "Assumption" in out and "is false" in out:
        res["violation"] = ("assumption", "")
    cov: Dict[str, Tuple[int, int]] = {}
    for m in _RE_COV.finditer(out):
        name = m.group(1)
        d, t = int(m.group(7)), int(m.group(8))
        old = cov.get(name, (0, 0))
        cov[name] = (old[0] + d, old[1] + t)
    res["coverage"] = cov
    return res


def mc(
    module: str,
    cfg: Optional[str] = None,
    workers: int = 16,
    timeout: int = 900,
    coverage: bool = True,
    env: Optional[Dict[str, str]] = None,
    extra: Optional[List[str]] = None,
    heap: str = "8g",
    spec_dir: Path = SPEC,
) -> Dict[str, Any]:
    """Run TLC exhaustively on spec/<module>.tla with <cfg> (default <module>.cfg)."""
    meta = scratch()
    cfg = cfg or f"{module}.cfg"
    cmd = _java(heap=heap) + [
        "-workers",
        str(workers),
        "-metadir",
        str(meta),
        "-noGenerateSpecTE",
        "-config",
        cfg,
    ]
    if coverage:
        cmd += ["-coverage", "1"]
    cmd += extra or []
    cmd += [f"{module}.tla"]
    t0 = time.time()
    e = dict(os.environ)
    e.update(env or {})
    try:
        p = subprocess.run(cmd, cwd=str(spec_dir), capture_output=True, text=True, timeout=timeout, env=e)
    except subprocess.TimeoutExpired as ex:
        shutil.rmtree(meta, ignore_errors=True)
        raise TLCError(f"TLC timed out after {timeout}s on {module}/{cfg}") from ex
    finally:
        shutil.rmtree(meta, ignore_errors=True)
    out = p.stdout + p.stderr
    res = parse_mc_output(out)
    res["wall_s"] = time.time() - t0
    res["cmd"] = " ".join(cmd)
    res["output_tail"] = out[-4000:]
    if not res["ok"] and res["violation"] is None:
        raise TLCError(f"TLC failed on {module}/{cfg}:\n{out[-3000:]}")
    return res


# --------------------------------------------------------------------------------------
# TLA+ value parser (for -simulate behaviour files)
# --------------------------------------------------------------------------------------


class _P:
    def __init__(self, s: str):
        self.s = s
        self.i = 0

    def ws(self):
        while self.i < len(self.s) and self.s[self.i] in " \t\r\n":
            self.i += 1

    def peek(self, k: int = 1) -> str:
        return self.s[self.i : self.i + k]

    def eat(self, tok: str):
        self.ws()
        if not self.s.startswith(tok, self.i):
            raise TLCError(f"TLA value parse: expected {tok!r} at {self.s[self.i:self.i+40]!r}")
        self.i += len(tok)

    def value(self) -> Any:
        self.ws()
        c = self.peek()
        if c == '"':
            j = self.i + 1
            buf = []
            while self.s[j] != '"':
                if self.s[j] == "\\":
                    j += 1
                buf.append(self.s[j])
                j += 1
            self.i = j + 1
            return "".join(buf)
        if self.peek(2) == "<<":
            self.i += 2
            items = []
            self.ws()
            if self.peek(2) == ">>":
                self.i += 2
                return items
            while True:
                items.append(self.value())
                self.ws()
                if self.peek(2) == ">>":
                    self.i += 2
                    return items
                self.eat(",")
        if c == "{":
            self.i += 1
            items = []
            self.ws()
            if self.peek() == "}":
                self.i += 1
                return {"__set__": items}
            while True:
                items.append(self.value())
                self.ws()
                if self.peek() == "}":
                    self.i += 1
                    return {"__set__": items}
                self.eat(",")
        if c == "[":
            self.i += 1
            rec = {}
            self.ws()
            if self.peek() == "]":
                self.i += 1
                return rec
            while True:
                self.ws()
                m = re.compile(r"[A-Za-z_][A-Za-z_0-9]*").match(self.s, self.i)
                if not m:
                    raise TLCError(f"TLA value parse: field name at {self.s[self.i:self.i+40]!r}")
                k = m.group(0)
                self.i = m.end()
                self.eat("|->")
                rec[k] = self.value()
                self.ws()
                if self.peek() == "]":
                    self.i += 1
                    return rec
                self.eat(",")
        if c == "(":
            # function  (a :> b @@ c :> d)
            self.i += 1
            fn = {}
            while True:
                k = self.value()
                self.eat(":>")
                v = self.value()
                fn[k if isinstance(k, (str, int)) else json.dumps(k, sort_keys=True)] = v
                self.ws()
                if self.peek() == ")":
                    self.i += 1
                    return fn
                self.eat("@@")
        m = re.compile(r"-?\d+").match(self.s, self.i)
        if m:
            self.i = m.end()
            return int(m.group(0))
        m = re.compile(r"[A-Za-z_][A-Za-z_0-9]*").match(self.s, self.i)
        if m:
            self.i = m.end()
            w = m.group(0)
            if w == "TRUE":
                return True
            if w == "FALSE":
                return False
            return w  # model value
        raise TLCError(f"TLA value parse: unexpected {self.s[self.i:self.i+40]!r}")


def parse_value(s: str) -> Any:
    p = _P(s)
    v = p.value()
    return v


_RE_HDR = re.compile(r"^\\\* <(\w+)(\(.*\))? line \d+", re.M)


def parse_behaviour(text: str) -> List[Dict[str, Any]]:
    """Parse one `-simulate file=` behaviour into [{action, params, state}]."""
    out = []
    blocks = re.split(r"^\\\* <", text, flags=re.M)[1:]
    for b in blocks:
        hdr, _, rest = b.partition("\n")
        m = re.match(r"(\w+)(\((.*)\))? line ", hdr)
        action = m.group(1) if m else "?"
        params = m.group(3) if m and m.group(3) else ""
        # state conjuncts
        body = rest.split("\n\n")[0]
        body = re.sub(r"^STATE_\d+ ==\s*", "", body.strip())
        state = {}
        for conj in re.split(r"^/\\ ", body, flags=re.M):
            conj = conj.strip()
            if not conj:
                continue
            var, _, val = conj.partition(" = ")
            state[var.strip()] = parse_value(val.strip())
        out.append({"action": action, "params": params, "state": state})
    return out


def simulate(
    module: str,
    cfg: Optional[str] = None,
    num: int = 100,
    depth: int = 20,
    seed: int = 0,
    timeout: int = 600,
    spec_dir: Path = SPEC,
    workers: int = 1,
) -> Tuple[List[List[Dict[str, Any]]], Dict[str, Any]]:
    """Return `num` behaviours (lists of steps) produced by TLC's simulator."""
    meta = scratch()
    simdir = scratch("verif_sim_")
    cfg = cfg or f"{module}.cfg"
    cmd = _java() + [
        "-simulate",
        f"file={simdir}/tr,num={num}",
        "-depth",
        str(depth),
        "-workers",
        str(workers),
        "-seed",
        str(seed),
        "-metadir",
        str(meta),
        "-noGenerateSpecTE",
        "-config",
        cfg,
        f"{module}.tla",
    ]
    t0 = time.time()
    try:
        p = subprocess.run(cmd, cwd=str(spec_dir), capture_output=True, text=True, timeout=timeout)
        out = p.stdout + p.stderr
        behaviours = []
        for f in sorted(simdir.iterdir(), key=lambda q: [int(x) for x in re.findall(r"\d+", q.name)]):
            behaviours.append(parse_behaviour(f.read_text()))
    except subprocess.TimeoutExpired as ex:
        raise TLCError(f"TLC -simulate timed out on {module}") from ex
    finally:
        shutil.rmtree(meta, ignore_errors=True)
        shutil.rmtree(simdir, ignore_errors=True)
    if "Error:" in out and "violated" in out:
        raise TLCError(f"TLC -simulate found a violation in the model {module}:\n{out[-3000:]}")
    if not behaviours:
        raise TLCError(f"TLC -simulate produced nothing for {module}:\n{out[-3000:]}")
    m = re.search(r"The number of states generated: (\d+)", out)
    info = {"states": int(m.group(1)) if m else 0, "wall_s": time.time() - t0, "cmd": " ".join(cmd)}
    return behaviours, info


# --------------------------------------------------------------------------------------
# Batch trace validation
# --------------------------------------------------------------------------------------

_RE_TR = re.compile(r'<<\s*"TRACE",\s*(\d+),\s*(\d+),\s*(\d+)\s*>>')


def validate(
    trace_module: str,
    traces: List[Dict[str, Any]],
    cfg: Optional[str] = None,
    timeout: int = 1200,
    spec_dir: Path = SPEC,
    chunk: int = 400,
    parallel: int = 8,
    heap: str = "3g",
) -> Dict[str, Any]:
    """Validate implementation traces against spec/<trace_module>.tla.

    Each trace is ``{"cfg": {...}, "ev": [event, ...]}``. The trace spec must follow the batch idiom
    (variables ``tid`` and ``l``; POSTCONDITION printing ``<<"TRACE", tid, reached, len>>``).
    Returns ``{"results": [(reached, length)], "states": n, "distinct": n, "wall_s": s}``;
    trace *i* is accepted iff ``reached == length + 1``.
    """
    from concurrent.futures import ThreadPoolExecutor

    cfg = cfg or f"{trace_module}.cfg"
    results: List[Optional[Tuple[int, int]]] = [None] * len(traces)
    stuck_all: List[Optional[Dict[str, Any]]] = [None] * len(traces)
    chunks = [(i, traces[i : i + chunk]) for i in range(0, len(traces), chunk)]
    tot = {"states": 0, "distinct": 0}
    t0 = time.time()

    def run(job):
        base, trs = job
        work = scratch("verif_tv_")
        try:
            tf = work / "traces.json"
            tf.write_text(json.dumps([{"cfg": t["cfg"], "ev": t["ev"]} for t in trs]))
            cmd = _java(heap=heap) + [
                "-workers",
                "1",
                "-metadir",
                str(work / "meta"),
                "-noGenerateSpecTE",
                "-config",
                cfg,
                f"{trace_module}.tla",
            ]
            e = dict(os.environ)
            e["TRACE_FILE"] = str(tf)
            p = subprocess.run(cmd, cwd=str(spec_dir), capture_output=True, text=True, timeout=timeout, env=e)
            out = p.stdout + p.stderr
            got = {}
            for m in _RE_TR.finditer(out):
                got[int(m.group(1))] = (int(m.group(2)), int(m.group(3)))
            if len(got) != len(trs):
                raise TLCError(f"trace validation machinery failure in {trace_module} ({len(got)}/{len(trs)}):\n{out[-4000:]}")
            r = parse_mc_output(out)
            stuck = {}
            for m in re.finditer(r'<<\s*"STUCK",', out):
                try:
                    v = _P(out[m.start():]).value()
                    fail = v[3]["__set__"] if isinstance(v[3], dict) and "__set__" in v[3] else v[3]
                    stuck[int(v[1])] = {"pos": v[2], "fail": fail, "st": v[4]}
                except Exception:  # noqa
                    pass
            r["stuck"] = stuck
            return base, got, r
        except subprocess.TimeoutExpired as ex:
            raise TLCError(f"trace validation timed out in {trace_module}") from ex
        finally:
            shutil.rmtree(work, ignore_errors=True)

    with ThreadPoolExecutor(max_workers=parallel) as ex:
        for base, got, r in ex.map(run, chunks):
            for k, v in got.items():
                results[base + k - 1] = v
            for k, v in r["stuck"].items():
                stuck_all[base + k - 1] = v
            tot["states"] += r["states"]
            tot["distinct"] += r["distinct"]
    return {"results": results, "stuck": stuck_all, "states": tot["states"], "distinct": tot["distinct"],
            "wall_s": time.time() - t0}


def sany(module: str, spec_dir: Path = SPEC) -> None:
    cmd = ["java", f"-Djava.io.tmpdir={_java_tmp()}", "-cp", f"{JAR}:{DEPS}", "tla2sany.SANY", f"{module}.tla"]
    p = subprocess.run(cmd, cwd=str(spec_dir), capture_output=True, text=True, timeout=120)
    out = p.stdout + p.stderr
    if p.returncode != 0 or "error" in out.lower().replace("semantic errors:\n\n", ""):
        if "*** Errors" in out or "Fatal" in out or "Could not" in out or p.returncode != 0:
            raise TLCError(f"SANY rejects {module}:\n{out[-3000:]}")
