"""Extension (beyond the listed properties): unbounded arguments for four DESIGNS of the specification library, with
Apalache - inductive invariants of spec/Apa_Link.tla (all bandwidths, all frame sizes; C18's design) and
spec/Apa_NodePower.tla (all start-up / shut-down durations; C12's design) and spec/Apa_Software.tla (all restart /
install durations; C13's design) and spec/Apa_Switch.tla (all port counts and address sets; the design of Switch.tla).  For each module: the base case (Init =>
IndInv, length 0), the inductive step (IndInv /\\ Next => IndInv', length 1 from IndInit) and a mutated design that
Apalache must refute (otherwise the invariant binds nothing).  Extra evidence only: no property verdict relies on
it (DESIGN.md section 8).  Run: ./check EXT-apalache"""
from __future__ import annotations

import re
import shutil
import subprocess
import time
from pathlib import Path
from typing import Any, Dict, List, Tuple

from . import common, tlc

SPEC = common.VERIF / "spec"

MODULES: List[Tuple[str, str, str, str]] = [
    # module, what, text to replace for the mutant, replacement
    ("Apa_Link", "load = committed <= bandwidth for every bandwidth and frame size, nesting <= 3",
     "AdmitOK(sz) == Up /\\ Committed + sz <= bw", "AdmitOK(sz) == Up /\\ carried + sz <= bw"),
    ("Apa_NodePower", "interfaces down unless ON, nothing runs when OFF, timed transitions never overdue, for every pair of durations",
     'nic1\' = (t = "ON" /\\ sn1)', 'nic1\' = (t \\in {"ON", "SD"} /\\ sn1)'),
    ("Apa_Software", "timers of restart / install stay inside the completion window, nothing runs on a node that is off, a tick is "
     "always possible, for every pair of durations",
     "\\/ sage < restartDur /\\ sop' = sop", "\\/ sage <= restartDur /\\ sop' = sop"),
    ("Apa_Switch", "the MAC table names only ports of the switch, one port per address, a flood never leaves through its ingress port, a "
     "learnt unicast leaves through at most one port, for every number of ports and every set of addresses",
     "lastOuts' = enabled \\ {inp}", "lastOuts' = enabled"),
]


def apalache(module_file: Path, init: str, length: int, out_dir: Path) -> Tuple[str, str, float]:
    t0 = time.time()
    cmd = ["apalache-mc", "check", f"--init={init}", "--inv=IndInv", f"--length={length}", f"--out-dir={out_dir}", module_file.name]
    try:
        p = subprocess.run(cmd, cwd=str(module_file.parent), capture_output=True, text=True, timeout=900)
    except subprocess.TimeoutExpired:
        return "timeout", " ".join(cmd), time.time() - t0
    out = p.stdout + p.stderr
    m = re.search(r"EXITCODE: (\w+)", out)
    verdict = "ok" if (m and m.group(1) == "OK") else ("violation" if "violat" in out.lower() or (m and "ERROR" in m.group(1)) else "failed")
    return verdict, " ".join(cmd), time.time() - t0


def main(tier: str, seed: int) -> int:
    chk = common.Check("EXT-apalache", "proof", tier, seed)
    if shutil.which("apalache-mc") is None:
        raise tlc.TLCError("apalache-mc is not installed")
    work = common.tmpdir("verif_apa_")
    obligations = discharged = 0
    cmds: List[str] = []
    for mod, what, old, new in MODULES:
        src = SPEC / f"{mod}.tla"
        for init, length, name in (("Init", 0, "base case"), ("IndInit", 1, "inductive step")):
            obligations += 1
            verdict, cmd, wall = apalache(src, init, length, work / "out")
            cmds.append(cmd)
            chk.sample({"module": mod, "obligation": name, "claim": what, "verdict": verdict, "wall_s": round(wall, 1)})
            if verdict == "ok":
                discharged += 1
            elif verdict == "violation":
                chk.violation({"module": mod, "clause": f"IndInv ({name})"}, {"cmd": cmd})
            else:
                raise tlc.TLCError(f"apalache {verdict} on {mod} ({name}): {cmd}")
        # the mutated design must be refuted by the same invariant
        text = src.read_text()
        if old not in text:
            raise tlc.TLCError(f"{mod}: mutation anchor not found")
        mut = work / f"{mod}.tla"
        mut.write_text(text.replace(old, new))
        verdict, cmd, wall = apalache(mut, "IndInit", 1, work / "out_mut")
        chk.sample({"module": mod, "obligation": "mutated design must be refuted", "mutation": f"{old}  ->  {new}", "verdict": verdict,
                    "wall_s": round(wall, 1)})
        if verdict != "violation":
            raise tlc.TLCError(f"{mod}: the mutated design was not refuted ({verdict}) - the inductive invariant binds nothing")
    chk.cov.update({"obligations": obligations, "discharged": discharged, "checker_cmd": " ; ".join(cmds),
                    "trusted_base": ["Apalache 0.58 (SMT: z3)", "the hand-made correspondence between Apa_Link / Apa_NodePower / Apa_Software and the design "
                                     "variants of MC_Link / MC_NodePower / MC_Software (same actions, typed, sizes and durations unbounded)"]})
    chk.assumptions += ["nesting depth of deliveries bounded by 3 (Apa_Link), two interfaces and two pieces of software (Apa_NodePower), one service and one application (Apa_Software)"]
    return chk.finish()
