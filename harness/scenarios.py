"""Scenario sources: the shipped scenarios and generated families of small scenarios (config dicts
fed to ``PrimaiteGame.from_config`` exactly as a YAML file would be)."""
from __future__ import annotations

import copy
from pathlib import Path
from typing import Any, Dict, List, Optional

import yaml

from .common import REPO

PKG = REPO / "src" / "primaite" / "config" / "_package_data"
TEST_CFG = REPO / "tests" / "assets" / "configs"

GAME = {
    "max_episode_length": 256,
    "ports": ["ARP", "DNS", "HTTP", "POSTGRES_SERVER", "FTP", "NTP", "SSH"],
    "protocols": ["ICMP", "TCP", "UDP"],
}


def load_yaml(path: Path) -> Dict[str, Any]:
    with open(path) as f:
        return yaml.safe_load(f)


def shipped(name: str) -> Dict[str, Any]:
    return load_yaml(PKG / name)


def test_asset(name: str) -> Dict[str, Any]:
    return load_yaml(TEST_CFG / name)


def host(name: str, ip: str, kind: str = "computer", gw: Optional[str] = None, mask: str = "255.255.255.0",
         **extra) -> Dict[str, Any]:
    d = {"hostname": name, "type": kind, "ip_address": ip, "subnet_mask": mask}
    if gw:
        d["default_gateway"] = gw
    d.update(extra)
    return d


def link(a: str, ap: int, b: str, bp: int, bandwidth: Optional[float] = None) -> Dict[str, Any]:
    d = {"endpoint_a_hostname": a, "endpoint_a_port": ap, "endpoint_b_hostname": b, "endpoint_b_port": bp}
    if bandwidth is not None:
        d["bandwidth"] = bandwidth
    return d


def base_cfg(nodes: List[Dict], links: List[Dict], agents: Optional[List[Dict]] = None, game: Optional[Dict] = None,
             **net_extra) -> Dict[str, Any]:
    g = copy.deepcopy(GAME)
    g.update(game or {})
    cfg = {
        "metadata": {"version": 3.0},
        "io_settings": {
            "save_agent_actions": False,
            "save_step_metadata": False,
            "save_pcap_logs": False,
            "save_sys_logs": False,
            "save_agent_logs": False,
        },
        "game": g,
        "agents": agents or [],
        "simulation": {"network": {"nodes": nodes, "links": links, **net_extra}},
    }
    return cfg


def p2p(bandwidth: Optional[float] = None, dur: int = 0, kinds=("computer", "server")) -> Dict[str, Any]:
    """Two hosts on one wire."""
    nodes = [
        host("a", "192.168.1.2", kinds[0], start_up_duration=dur, shut_down_duration=dur),
        host("b", "192.168.1.3", kinds[1], start_up_duration=dur, shut_down_duration=dur),
    ]
    return base_cfg(nodes, [link("a", 1, "b", 1, bandwidth)])


def switched(n_hosts: int = 3, bandwidth: Optional[float] = None) -> Dict[str, Any]:
    """n hosts on one switch."""
    names = "abcdefgh"[:n_hosts]
    nodes = [host(h, f"192.168.1.{i + 2}", "computer" if i else "server") for i, h in enumerate(names)]
    nodes.append({"hostname": "sw", "type": "switch", "num_ports": 8})
    links = [link(h, 1, "sw", i + 1, bandwidth) for i, h in enumerate(names)]
    return base_cfg(nodes, links)


def routed(bandwidth: Optional[float] = None, acl: Optional[Dict] = None) -> Dict[str, Any]:
    """a -- r -- b on two subnets; the router permits everything unless ``acl`` is given."""
    nodes = [
        host("a", "192.168.1.2", "computer", gw="192.168.1.1"),
        host("b", "192.168.2.2", "server", gw="192.168.2.1"),
        {
            "hostname": "r",
            "type": "router",
            "num_ports": 3,
            "ports": {
                1: {"ip_address": "192.168.1.1", "subnet_mask": "255.255.255.0"},
                2: {"ip_address": "192.168.2.1", "subnet_mask": "255.255.255.0"},
            },
            "acl": acl if acl is not None else {1: {"action": "PERMIT"}},
        },
    ]
    return base_cfg(nodes, [link("a", 1, "r", 1, bandwidth), link("b", 1, "r", 2, bandwidth)])


def build(cfg: Dict[str, Any]):
    """PrimaiteGame from a config dict (deep-copied: from_config mutates its argument)."""
    from primaite.game.game import PrimaiteGame

    return PrimaiteGame.from_config(copy.deepcopy(cfg))


PERMIT_ALL = {1: {"action": "PERMIT"}}


def firewalled(ext_in=None, ext_out=None, int_in=None, int_out=None, dmz_in=None, dmz_out=None, dmz=False,
               bandwidth: Optional[float] = None, **fw_extra) -> Dict[str, Any]:
    """ext -- fw -- int (and optionally a dmz host): external 192.168.20.0/24, internal 192.168.1.0/24,
    dmz 192.168.10.0/24."""
    ports = {
        "external_port": {"ip_address": "192.168.20.1", "subnet_mask": "255.255.255.0"},
        "internal_port": {"ip_address": "192.168.1.1", "subnet_mask": "255.255.255.0"},
    }
    if dmz:
        ports["dmz_port"] = {"ip_address": "192.168.10.1", "subnet_mask": "255.255.255.0"}
    acl = {
        "internal_inbound_acl": int_in if int_in is not None else copy.deepcopy(PERMIT_ALL),
        "internal_outbound_acl": int_out if int_out is not None else copy.deepcopy(PERMIT_ALL),
        "dmz_inbound_acl": dmz_in if dmz_in is not None else copy.deepcopy(PERMIT_ALL),
        "dmz_outbound_acl": dmz_out if dmz_out is not None else copy.deepcopy(PERMIT_ALL),
        "external_inbound_acl": ext_in if ext_in is not None else copy.deepcopy(PERMIT_ALL),
        "external_outbound_acl": ext_out if ext_out is not None else copy.deepcopy(PERMIT_ALL),
    }
    fw = {"hostname": "fw", "type": "firewall", "ports": ports, "acl": acl}
    fw.update(fw_extra)
    nodes = [
        host("ext", "192.168.20.2", "computer", gw="192.168.20.1"),
        host("int", "192.168.1.2", "server", gw="192.168.1.1"),
        fw,
    ]
    links = [link("ext", 1, "fw", 1, bandwidth), link("int", 1, "fw", 2, bandwidth)]
    if dmz:
        nodes.append(host("dmz", "192.168.10.2", "server", gw="192.168.10.1"))
        links.append(link("dmz", 1, "fw", 3, bandwidth))
    return base_cfg(nodes, links)


def dut_net(kind: str, up: int, down: int) -> Dict[str, Any]:
    """A small network around one device under test of the given node type.

    Returns {"cfg", "dut", "peer", "dut_ip" (or None), "far_ip" (address behind the DUT or None)}."""
    dur = {"start_up_duration": up, "shut_down_duration": down}
    if kind in ("computer", "server", "printer"):
        cfg = base_cfg(
            [host("peer", "192.168.1.2", "computer"), host("dut", "192.168.1.3", kind, **dur)],
            [link("peer", 1, "dut", 1)],
        )
        return {"cfg": cfg, "dut": "dut", "peer": "peer", "dut_ip": "192.168.1.3", "far_ip": None, "peer_ip": "192.168.1.2"}
    if kind == "switch":
        cfg = base_cfg(
            [
                host("peer", "192.168.1.2", "computer"),
                host("far", "192.168.1.4", "server"),
                {"hostname": "dut", "type": "switch", "num_ports": 4, **dur},
            ],
            [link("peer", 1, "dut", 1), link("far", 1, "dut", 2)],
        )
        return {"cfg": cfg, "dut": "dut", "peer": "peer", "dut_ip": None, "far_ip": "192.168.1.4", "peer_ip": "192.168.1.2"}
    if kind == "router":
        cfg = routed()
        for n in cfg["simulation"]["network"]["nodes"]:
            if n["hostname"] == "r":
                n.update(dur)
        return {"cfg": cfg, "dut": "r", "peer": "a", "dut_ip": "192.168.1.1", "far_ip": "192.168.2.2", "peer_ip": "192.168.1.2"}
    if kind == "firewall":
        cfg = firewalled(**dur)
        return {"cfg": cfg, "dut": "fw", "peer": "ext", "dut_ip": "192.168.20.1", "far_ip": "192.168.1.2", "peer_ip": "192.168.20.2"}
    if kind == "wireless-router":
        cfg = test_asset("wireless_wan_network_config.yaml")
        for n in cfg["simulation"]["network"]["nodes"]:
            if n["hostname"] == "router_1":
                n.update(dur)
        return {"cfg": cfg, "dut": "router_1", "peer": "pc_a", "dut_ip": "192.168.0.1", "far_ip": "192.168.2.2", "peer_ip": "192.168.0.2"}
    raise ValueError(kind)


def proxy_agent(action_map: Dict[int, Dict[str, Any]], masking: bool = True, flatten: bool = False, ref: str = "defender",
                components: Optional[List[Dict[str, Any]]] = None, rewards: Optional[List[Dict[str, Any]]] = None) -> Dict[str, Any]:
    """A proxy (RL) agent definition with the given action map."""
    return {
        "ref": ref,
        "team": "BLUE",
        "type": "proxy-agent",
        "observation_space": {
            "type": "custom",
            "options": {"components": components if components is not None else [{"type": "none", "label": "ICS", "options": {}}]},
        },
        "action_space": {"action_map": action_map},
        "reward_function": {"reward_components": rewards if rewards is not None else [{"type": "dummy"}]},
        "agent_settings": {"flatten_obs": flatten, "action_masking": masking},
    }


def action_map_from(instances) -> Dict[int, Dict[str, Any]]:
    """{0: do-nothing, 1..: the given (action, options, ...) instances} in action-map format."""
    m = {0: {"action": "do-nothing", "options": {}}}
    for (a, o, *_rest) in instances:
        if a == "do-nothing":
            continue
        m[len(m)] = {"action": a, "options": copy.deepcopy(o)}
    return m
