"""Running trajectory workers in subprocesses and pairing their outputs for PairTrace.tla."""
from __future__ import annotations

import json
import os
import pickle
import subprocess
import sys
from concurrent.futures import ThreadPoolExecutor
from typing import Any, Dict, List, Optional, Tuple

from . import common


def run_workers(specs: List[Dict[str, Any]], parallel: int = 12, timeout: int = 1500, module: str = "harness.traj") -> List[Dict[str, Any]]:
    """Each spec may carry spec['hashseed'] (PYTHONHASHSEED of the worker process)."""
    work = common.tmpdir("verif_traj_")

    def one(i_spec):
        i, spec = i_spec
        sp, op = work / f"s{i}.pkl", work / f"o{i}.json"
        sp.write_bytes(pickle.dumps(spec))  # (not JSON: scenario dicts have integer keys)
        env = dict(os.environ)
        env["PYTHONHASHSEED"] = str(spec.get("hashseed", 0))
        p = subprocess.run([sys.executable, "-m", module, str(sp), str(op)], cwd=str(common.VERIF), env=env,
                           capture_output=True, text=True, timeout=timeout)
        if not op.exists():
            raise RuntimeError(f"trajectory worker failed (machinery): {p.stderr[-2000:]}")
        return json.loads(op.read_text())

    with ThreadPoolExecutor(max_workers=parallel) as ex:
        return list(ex.map(one, enumerate(specs)))


def _rec(step: Optional[Dict[str, Any]], agents: List[str]) -> Dict[str, Any]:
    if step is None:
        return {"kind": "missing", "obs": "-", "reward": "-", "flags": "-", "state": "-", "agents": []}
    return {
        "kind": step["kind"],
        "obs": step["obs"],
        "reward": step["reward"],
        "flags": step["flags"],
        "state": step.get("state", "-"),
        "agents": [dict(step["agents"].get(n, {"action": "?", "params": "?", "status": "?", "data": "?", "reward": "?"}))
                   for n in agents],
    }


def pair_trace(a: Dict[str, Any], b: Dict[str, Any], sa: Optional[List] = None, sb: Optional[List] = None,
               meta: Optional[Dict[str, Any]] = None) -> Dict[str, Any]:
    """One PairTrace trace from two worker outputs (or two step slices of them)."""
    sa = a["steps"] if sa is None else sa
    sb = b["steps"] if sb is None else sb
    agents = a["agents"]
    ev = []
    for i in range(max(len(sa), len(sb))):
        ev.append({"ev": "Pos", "a": _rec(sa[i] if i < len(sa) else None, agents), "b": _rec(sb[i] if i < len(sb) else None, agents)})
    ea = {"kind": "end", "obs": f"{len(sa)}:{a.get('raised')}", "reward": "-", "flags": "-", "state": "-", "agents": []}
    eb = {"kind": "end", "obs": f"{len(sb)}:{b.get('raised')}", "reward": "-", "flags": "-", "state": "-", "agents": []}
    ev.append({"ev": "End", "a": ea, "b": eb})
    return {"cfg": {"n": len(ev)}, "ev": ev, "meta": meta or {}}
