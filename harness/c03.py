"""C03 - same scenario, seed and actions give the same trajectory, in any process.

Model: spec/Pair.tla (self-composition comparator; the first field that differs is named by TLC).
Binding: the same declared inputs (scenario, seed, action sequence, reset points) are executed in separate
interpreter processes under different ambient profiles - PYTHONHASHSEED 0..3, wall clock (real / frozen with
and without a microsecond part), lengths of `secrets`-generated identifiers, logging fully on / off - and
re-seeded twice within one environment; every (base, variant) pair is validated by TLC (PairTrace.tla).
Scenarios: shipped stochastic scenarios and generated amplifiers (nmap scans over a /29, links whose
bandwidth admits a frame only if it is a few bytes shorter).
"""
from __future__ import annotations

import copy
import random
from typing import Any, Dict, List

from . import common, pairs, scenarios, tlc
from .rec_link import UNIT

PROP = "C03"


def amplifier_nmap() -> Dict[str, Any]:
    """Switched LAN; the proxy agent can scan the whole /29 (order of discovered hosts shows in the response)."""
    cfg = scenarios.switched(4)
    for n in cfg["simulation"]["network"]["nodes"]:
        if n["type"] in ("computer", "server"):
            n["subnet_mask"] = "255.255.255.248"
    amap = {
        0: {"action": "do-nothing", "options": {}},
        1: {"action": "node-nmap-ping-scan", "options": {"source_node": "a", "target_ip_address": "192.168.1.0/29"}},
        2: {"action": "node-nmap-port-scan", "options": {"source_node": "b", "target_ip_address": "192.168.1.0/29",
                                                         "target_port": [80, 53, 21], "target_protocol": ["tcp", "udp"]}},
        3: {"action": "node-network-service-recon", "options": {"source_node": "c", "target_ip_address": "192.168.1.0/29",
                                                                "target_port": [80, 53], "target_protocol": ["tcp", "udp"]}},
        4: {"action": "node-nmap-ping-scan", "options": {"source_node": "b", "target_ip_address": ["192.168.1.2", "192.168.1.3", "192.168.1.4", "192.168.1.5"]}},
    }
    cfg["agents"] = [scenarios.proxy_agent(amap, masking=False)]
    return cfg


def amplifier_tight(bw_bytes: int) -> Dict[str, Any]:
    """Two hosts on a wire that carries two echo frames only if they are a few bytes short; links observed."""
    cfg = scenarios.p2p(bw_bytes / UNIT)
    amap = {
        0: {"action": "do-nothing", "options": {}},
        1: {"action": "node-nmap-ping-scan", "options": {"source_node": "a", "target_ip_address": "192.168.1.3"}},
        2: {"action": "node-nmap-ping-scan", "options": {"source_node": "b", "target_ip_address": "192.168.1.2"}},
    }
    comps = [{"type": "links", "label": "LINKS", "options": {"link_references": ["a:eth-1<->b:eth-1"]}}]
    cfg["agents"] = [scenarios.proxy_agent(amap, masking=False, components=comps)]
    return cfg


def amplifier_equal_cost() -> Dict[str, Any]:
    """c - ra = {rb | rc} = [sw] - s : router ra holds two routes of equal prefix and metric to the server's subnet (the
    first one declared is the one a deterministic simulator uses); the proxy agent pings across and the trajectory
    records the whole simulation's state digest, so the path taken shows."""
    H, L = scenarios.host, scenarios.link

    def router(name, ports, routes, dflt=None):
        d = {"hostname": name, "type": "router", "num_ports": 4, "start_up_duration": 0, "shut_down_duration": 0,
             "ports": {i + 1: {"ip_address": ip, "subnet_mask": m} for i, (ip, m) in enumerate(ports)},
             "acl": {1: {"action": "PERMIT"}}, "routes": routes}
        if dflt:
            d["default_route"] = {"next_hop_ip_address": dflt}
        return d

    m30, m24 = "255.255.255.252", "255.255.255.0"
    nodes = [
        H("c", "10.0.1.2", "computer", gw="10.0.1.1"), H("s", "10.0.4.10", "server", gw="10.0.4.1"),
        router("ra", [("10.0.1.1", m24), ("10.0.2.1", m30), ("10.0.3.1", m30)],
               [{"address": "10.0.4.0", "subnet_mask": m24, "next_hop_ip_address": "10.0.2.2", "metric": 0},
                {"address": "10.0.4.0", "subnet_mask": m24, "next_hop_ip_address": "10.0.3.2", "metric": 0}]),
        router("rb", [("10.0.2.2", m30), ("10.0.4.1", m24)], [{"address": "10.0.1.0", "subnet_mask": m24, "next_hop_ip_address": "10.0.2.1", "metric": 0}]),
        router("rc", [("10.0.3.2", m30), ("10.0.4.2", m24)], [{"address": "10.0.1.0", "subnet_mask": m24, "next_hop_ip_address": "10.0.3.1", "metric": 0}]),
        {"hostname": "sw", "type": "switch", "num_ports": 4},
    ]
    links = [L("c", 1, "ra", 1), L("ra", 2, "rb", 1), L("ra", 3, "rc", 1), L("rb", 2, "sw", 1), L("rc", 2, "sw", 2), L("s", 1, "sw", 3)]
    cfg = scenarios.base_cfg(nodes, links)
    amap = {0: {"action": "do-nothing", "options": {}},
            1: {"action": "node-nmap-ping-scan", "options": {"source_node": "c", "target_ip_address": "10.0.4.10"}},
            2: {"action": "node-nmap-ping-scan", "options": {"source_node": "s", "target_ip_address": "10.0.1.2"}}}
    cfg["agents"] = [scenarios.proxy_agent(amap, masking=False)]
    return cfg


def without_optional_blocks() -> Dict[str, Any]:
    """data_manipulation without the optional blocks of a scenario file (nmne_config, thresholds, io_settings): every
    setting they carry is then a default - which must be the default of THIS game, whatever the process did before."""
    cfg = scenarios.shipped("data_manipulation.yaml")
    cfg["simulation"]["network"].pop("nmne_config", None)
    cfg["game"].pop("thresholds", None)
    # the attacker acts early and always succeeds, so that malicious traffic occurs inside a short run
    for ag in cfg["agents"]:
        if ag.get("type") == "red-database-corrupting-agent":
            ag["agent_settings"].update({"start_step": 3, "frequency": 4, "variance": 0})
    for n in cfg["simulation"]["network"]["nodes"]:
        for app in n.get("applications", []):
            if app.get("type") == "data-manipulation-bot":
                app["options"].update({"port_scan_p_of_success": 1.0, "data_manipulation_p_of_success": 1.0})
    return cfg


def amplifier_tap() -> Dict[str, Any]:
    """Shipped UC7 with the threat actor given a choice of several starting nodes and target addresses (every
    setting that is a list is a candidate for an order that depends on the process)."""
    cfg = scenarios.shipped("uc7_config.yaml")
    for ag in cfg["agents"]:
        if ag.get("type") == "tap-001":
            st = ag["agent_settings"]
            st["starting_nodes"] = ["ST_PROJ-A-PRV-PC-1", "ST_PROJ-A-PRV-PC-2", "ST_PROJ-B-PRV-PC-1", "ST_PROJ-B-PRV-PC-2",
                                    "ST_PROJ-C-PRV-PC-1", "ST_PROJ-C-PRV-PC-2"]
            st["start_step"] = 1
            st["frequency"] = 2
    return cfg


def seed_and_flag() -> Dict[str, Any]:
    """data_manipulation with BOTH seeding options of the game block set: a configured seed and generate_seed_value (the
    documented rule: a seed that is given wins over the flag)."""
    cfg = scenarios.shipped("data_manipulation.yaml")
    cfg["game"]["seed"] = 7
    cfg["game"]["generate_seed_value"] = True
    return cfg


def amplifier_scripted() -> Dict[str, Any]:
    """One LAN with every kind of scripted agent that draws: a random-agent, two periodic agents (several start nodes,
    start and period variance), a red-database-corrupting-agent and two probabilistic agents, next to a proxy agent."""
    from . import c19

    nodes, links = c19.lan()
    H = c19.HOSTS
    agents = [
        scenarios.proxy_agent({0: {"action": "do-nothing", "options": {}},
                               1: {"action": "node-application-execute", "options": {"node_name": H[0], "application_name": "web-browser"}},
                               2: {"action": "node-service-scan", "options": {"node_name": "srv", "service_name": "web-server"}}}, masking=False),
        c19.random_def("rand", H[2]),
        c19.periodic_def("per_a", "periodic-agent", {"start": 2, "startVar": 1, "freq": 3, "var": 2}, H[:3]),
        c19.periodic_def("per_b", "periodic-agent", {"start": 1, "startVar": 0, "freq": 2, "var": 1, "app": "web-browser"}, H[1:4]),
        c19.periodic_def("red", "red-database-corrupting-agent", {"start": 3, "startVar": 2, "freq": 4, "var": 3}, H[:4]),
        c19.prob_def("prob_a", [(0, 0.25), (1, 0.25), (2, 0.25), (3, 0.25)], H[0]),
        c19.prob_def("prob_b", [(2, 0.5), (0, 0.2), (1, 0.3)], H[1]),
    ]
    return scenarios.base_cfg(nodes, links, agents)


PROFILES = [
    ("hash1", {"hashseed": 1}),
    ("hash2", {"hashseed": 2}),
    ("hash3", {"hashseed": 3}),
    ("again", {}),  # another process, later
    ("clock_us0", {"profile": {"clock": "us0"}}),
    ("clock_us1", {"profile": {"clock": "us1"}}),
    ("ids_short", {"profile": {"ids": "short"}}),
    ("ids_long", {"profile": {"ids": "long"}}),
    ("logs_on", {"profile": {"logs": "on"}}),
    # another scenario (with its own NMNE settings, thresholds, airspace ...) was built and run in the process before
    ("after_data_manipulation", {"profile": {"prelude": "data_manipulation.yaml"}}),
    ("after_uc7", {"profile": {"prelude": "uc7_config.yaml"}}),
]


def sig_fn(tr, event, stuck):
    return {"ambient": tr["meta"]["variant"], "scenario": tr["meta"]["scenario"]}


def main(tier: str, seed: int) -> int:
    chk = common.Check(PROP, "exploration", tier, seed)
    rng = random.Random(seed)
    steps = 30 if tier == "quick" else 110
    # frame sizes of this tree (they depend on the serialisation), measured in a scratch process-local network
    common.boot()
    from .c18 import _probe_sizes

    icmp = _probe_sizes()["icmp"]
    t2, t8 = 2 * icmp - 4, 8 * icmp - 16   # two / eight echo frames fit only if each is >= 2 bytes shorter
    scen = [
        ("data_manipulation", {"shipped": "data_manipulation.yaml"}, 78),
        ("amplifier_nmap_/29", {"cfg": amplifier_nmap()}, 5),
        ("amplifier_tight_2frames", {"cfg": amplifier_tight(t2)}, 3),
        ("amplifier_tight_8frames", {"cfg": amplifier_tight(t8)}, 3),
        ("amplifier_tap_start_nodes", {"cfg": amplifier_tap()}, 60),
        ("data_manipulation_without_optional_blocks", {"cfg": without_optional_blocks()}, 78),
        ("amplifier_equal_cost_routes", {"cfg": amplifier_equal_cost()}, 3),
        ("amplifier_scripted_agents", {"cfg": amplifier_scripted()}, 3),
        ("data_manipulation_seed_and_generate_flag", {"cfg": seed_and_flag()}, 78),
    ]
    if tier == "thorough":
        scen += [
            ("uc7_config", {"shipped": "uc7_config.yaml"}, 60),
            ("uc7_config_tap003", {"shipped": "uc7_config_tap003.yaml"}, 60),
            ("scenario_with_placeholders", {"dir": str(scenarios.PKG / "scenario_with_placeholders")}, 60),
        ]
    seeds = [seed + 11] if tier == "quick" else [seed + 11, seed + 12, seed + 13]
    specs: List[Dict[str, Any]] = []
    index = []
    for label, sc, nact in scen:
        for sd in seeds:
            acts = [rng.randrange(nact) for _ in range(steps)]
            base = {"scenario": sc, "seed": sd, "episodes": [acts, acts], "hashseed": 0, "profile": {}, "max_len": 200,
                    "state_digest": label.startswith("amplifier_equal_cost")}
            specs.append(base)
            bi = len(specs) - 1
            for vname, delta in PROFILES:
                if tier == "quick" and vname == "after_uc7":
                    continue  # (building UC7 first costs ~10 s per run: thorough tier only)
                v = copy.deepcopy(base)
                v.update({k: x for k, x in delta.items() if k != "profile"})
                v["profile"] = dict(delta.get("profile", {}))
                specs.append(v)
                index.append((label, sd, vname, bi, len(specs) - 1))
            chk.add_case({"scenario": label, "seed": sd, "actions": acts[:12]})
    # boundary seed values through reset(seed=...): 0 is a seed like any other (Gymnasium: only None means "do not re-seed")
    boundary: List[tuple] = []
    for bsd in (0,):
        label, sc, nact = scen[0]
        acts = [rng.randrange(nact) for _ in range(steps)]
        specs.append({"scenario": sc, "seed": bsd, "episodes": [acts, acts], "hashseed": 0, "profile": {}, "max_len": 200,
                      "state_digest": False})
        boundary.append((label, bsd, len(specs) - 1))
        chk.add_case({"scenario": label, "seed": bsd, "actions": acts[:12], "variant": "reseed_on_reset (boundary seed)"})
    outs = pairs.run_workers(specs)
    for o, sp in zip(outs, specs):
        if sp.get("hashseed", 0) == 0 and not sp.get("profile") and (o["raised"] or len(o["steps"]) < 2 * (steps + 1)):
            raise tlc.TLCError(f"vacuous base run ({len(o['steps'])} positions, raised={o['raised']})")
    traces = []
    for label, sd, vname, bi, vi in index:
        traces.append(pairs.pair_trace(outs[bi], outs[vi], meta={"scenario": label, "seed": sd, "variant": vname}))
        chk.add_case({"pair": [label, sd, vname]})
    # re-seeding on reset reproduces the same episode again (episode 1 vs episode 2 of the base run)
    for k, (label, sc, nact) in enumerate(scen):
        if "dir" in sc:
            continue  # (an episode schedule: episode 1 and episode 2 are different scenarios by design)
        for j, sd in enumerate(seeds):
            o = outs[[i for i, s in enumerate(specs) if s["scenario"] == sc and s["seed"] == sd][0]]
            n = 1 + steps
            traces.append(pairs.pair_trace(o, o, o["steps"][:n], o["steps"][n : 2 * n],
                                           meta={"scenario": label, "seed": sd, "variant": "reseed_on_reset"}))
    for label, bsd, i in boundary:
        o, n = outs[i], 1 + steps
        traces.append(pairs.pair_trace(o, o, o["steps"][:n], o["steps"][n : 2 * n],
                                       meta={"scenario": label, "seed": bsd, "variant": "reseed_on_reset"}))
    res = tlc.validate("PairTrace", traces)
    common.judge_traces(chk, "Pair", traces, res, sig_fn, selftest="PairTrace")
    chk.cov["states"] = res["distinct"]
    chk.cov["transitions"] = res["states"]
    chk.cov["rule"] = ("each case = (scenario, seed, action sequence) executed under an ambient profile in its own process; "
                       "a pair (base, variant) is non-trivial when the trajectory has >= 10 positions; distinct by inputs")
    chk.sample({"pair": traces[0]["meta"], "first_positions": traces[0]["ev"][:2]})
    chk.cov["amplifier_bandwidth_bytes"] = {"icmp_frame": icmp, "two_frames": t2, "eight_frames": t8}
    chk.cov["profiles"] = [p[0] for p in PROFILES] + ["reseed_on_reset"]
    chk.assumptions += [
        "opaque identifiers (uuid4, MAC, timestamps) are canonicalised by first occurrence before comparison",
        "the frozen clocks and the short/long 16-bit identifiers are deterministic stand-ins for wall-clock time and the `secrets` generator",
    ]
    return chk.finish()
