"""Extension EXT-network (beyond the listed properties): the network container and the wiring of nodes against
spec/NetContainer.tla (Network.add_node / remove_node / connect / remove_link / get_node_by_hostname / describe_state,
the node request manager, the networkx graph, the typed node lists; Node.connect_nic / disconnect_nic;
WiredNetworkInterface.enable / disable / disconnect_link; Link.__init__ / is_up).

(a) MC_NetContainer is checked exhaustively (thorough: also MC_NetContainerDeep.cfg); three negative configurations
(what the code does today: remove_link leaves the interfaces enabled, connect on a busy interface registers a second
link, remove_node leaves links and graph vertex) must be refuted; (b) TLC -simulate behaviours of MC_NetContainerSim.cfg
are replayed as stimulus into a real network (computer a with two NICs, server b, switch s with two ports, built by
PrimaiteGame.from_config either wired or empty) through the Python API, requests and ticks.  Three behaviours of four
FOLLOW the model: when a call leaves the real objects in another state than the model's (the divergence is on record)
the run goes on in a fresh world built - through the public API - in the model's state, so that every call is judged
from a consistent state; the fourth goes on in the world as the code left it (same objects re-used, consequences
visible).  Plus directed histories, one node of every type, and a wireless asset; (c) wrappers on Network.add_node /
remove_node / connect / remove_link / apply_timestep, Node.connect_nic / disconnect_nic / power_on / power_off /
apply_timestep, WiredNetworkInterface.enable / disable / disconnect_link and Simulation.apply_request record one event
per spec action with the whole projected state read from the real objects after the call (nodes, parents, routes, graph,
links, interface references and flags, describe_state, typed lists); (d) the runs, cut into segments (a trace starts
from the projected real state, so a divergence costs the rest of its segment only), are validated by TLC against
NetContainerTrace.tla; (e) shipped scenarios (data_manipulation.yaml; thorough: also uc7_config.yaml) are recorded
from the first add_node of PrimaiteGame.from_config on and stepped through PrimaiteGymEnv
with node power and NIC actions.   Run: ./check EXT-network"""
from __future__ import annotations

import copy
import random
import time
from typing import Any, Dict, List, Optional

from . import common, scenarios, tlc, tracer

EVENTS = ("AddNode", "RemoveNode", "Connect", "RemoveLink", "DisconnectLink", "LinkSelf", "Enable", "Disable",
          "ConnectNic", "DisconnectNic", "Power", "Lookup", "Request", "Observe", "Tick")
MC_ACTIONS = ("MAddNode", "MRemoveNode", "MConnect", "MRemoveLink", "MDisconnectLink", "MLinkSelf", "MEnable", "MDisable",
              "MConnectNic", "MDisconnectNic", "MPower", "MLookup", "MRequest", "MObserve", "MTick")
TYPED = {"router": "router_nodes", "switch": "switch_nodes", "computer": "computer_nodes", "server": "server_nodes",
         "firewall": "firewall_nodes", "printer": "printer_nodes", "wireless-router": "wireless_router_nodes"}
DEFAULTS = {"n": "", "i": "", "j": "", "l": 0, "via": "", "flag": False, "res": "none", "p": 0}
SEG = (1, 1, 4)  # events per trace segment, in turn: most events are judged from the real state just before them
PRIORITY = ("WellFormedEvent", "ConnectSaysSo", "LinksExact", "NoDanglingLinkRef", "NodesExact", "ParentFollowsNodes",
            "RoutesFollowNodes", "GraphVerticesFollowNodes", "EnabledOnlyIfOnAndLinked", "EnabledAsDesigned", "GraphEdgesFollowLinks",
            "LinkUpIffBothEnabled", "DescribeListsExactly", "TypedListsExact", "NicTableExact", "FreshPort", "ReportsOutcome")
NEGATIVES = {
    "MC_NetContainerKeepEnabled.cfg": {"InvEnabledOnlyIfOnAndLinked", "InvGraphEdgesFollowLinks"},
    "MC_NetContainerBusyLink.cfg": {"InvNoDanglingLinkRef"},
    "MC_NetContainerKeepLinks.cfg": {"InvNodeRegistered", "InvLinkEndsInNetwork"},
}

_INSTALLED = [False]
_WORLDS: Dict[int, "World"] = {}     # id(network) -> world
_NODE_WORLD: Dict[int, "World"] = {}  # id(node) -> world
_IF_WORLD: Dict[int, "World"] = {}    # id(interface) -> world
_AUTO: List[Optional[Dict[str, Any]]] = [None]  # while set: an unseen Network gets a world of its own (scenario recording)
_DEPTH = [0]
_PENDING: List[Optional[tuple]] = [None]  # (interface object, "Enable" | "Disable") while its request is being applied


def _exc_name(exc) -> str:
    return "none" if exc is None else "raised:" + type(exc).__name__


class World:
    """One Network and the universe of nodes / wired interfaces it is seen with; the recorder of its run."""

    def __init__(self, net, meta: Dict[str, Any], game=None):
        self.net, self.game, self.meta = net, game, dict(meta)
        self.nodes: Dict[str, Any] = {}
        self.kind: Dict[str, str] = {}
        self.ifaces: Dict[str, Any] = {}
        self.home: Dict[str, str] = {}
        self.nname: Dict[int, str] = {}
        self.iname: Dict[int, str] = {}
        self.nsnap: Dict[str, bool] = {}             # node -> ON when it was registered
        self.isnap: Dict[str, Dict[str, Any]] = {}   # interface -> its projection when it was registered
        self.links: Dict[int, Any] = {}
        self.lid: Dict[int, int] = {}
        self.next_lid = 1
        self.traces: List[Dict[str, Any]] = []
        self.counts: Dict[str, int] = {}
        self.seg: List[Dict[str, Any]] = []
        self.seg_init: Optional[Dict[str, Any]] = None
        self.stim: List[Any] = []
        self.seg_pattern = SEG
        self.muted = False  # while the harness itself builds a state: nothing is recorded
        self.raised: List[str] = []
        _WORLDS[id(net)] = self

    # ---------------------------------------------------------------- universe
    def register_node(self, node) -> str:
        if id(node) in self.nname:
            return self.nname[id(node)]
        name = str(node.config.hostname)
        if name in self.nodes:  # two objects, one hostname: outside the contract (hostnames are assumed unique)
            name = f"{name}#{len(self.nodes)}"
        self.nodes[name] = node
        self.nname[id(node)] = name
        self.kind[name] = str(getattr(type(node), "_discriminator", type(node).__name__.lower()))
        _NODE_WORLD[id(node)] = self
        seen = []
        for p, ifc in list(node.network_interface.items()) + [(0, x) for x in node.network_interfaces.values()]:
            if id(ifc) not in self.iname and self._wired(ifc):
                self.register_iface(ifc, name, p if p else len(seen) + 50)
            seen.append(ifc)
        self.nsnap[name] = _is_on(node)
        return name

    @staticmethod
    def _wired(ifc) -> bool:
        from primaite.simulator.network.hardware.base import WiredNetworkInterface

        return isinstance(ifc, WiredNetworkInterface)

    def register_iface(self, ifc, node_name: str, tag) -> str:
        iid = f"{node_name}{tag}" if len(node_name) == 1 else f"{node_name}.{tag}"
        while iid in self.ifaces:
            iid += "x"
        self.ifaces[iid] = ifc
        self.home[iid] = node_name
        self.iname[id(ifc)] = iid
        _IF_WORLD[id(ifc)] = self
        self.isnap[iid] = self._if_part(iid)
        return iid

    def link_id(self, link) -> int:
        k = id(link)
        if k not in self.lid:
            self.lid[k] = self.next_lid
            self.links[self.next_lid] = link  # kept alive: identities are never reused
            self.next_lid += 1
        return self.lid[k]

    # ---------------------------------------------------------------- projection
    def _if_part(self, iid: str) -> Dict[str, Any]:
        ifc = self.ifaces[iid]
        node = self.nodes[self.home[iid]]
        link = getattr(ifc, "_connected_link", None)
        keys = [k for k, v in node.network_interface.items() if v is ifc]
        port = 0 if not keys else (int(keys[0]) if len(keys) == 1 else 99)
        rt = False
        if len(keys) == 1:
            r = node._nic_request_manager.request_types.get(keys[0])
            rt = r is not None and (r.func is ifc._request_manager)
        return {"il": 0 if link is None else self.link_id(link), "en": bool(ifc.enabled),
                "att": node.network_interfaces.get(ifc.uuid) is ifc, "port": port, "rt": bool(rt)}

    def project(self) -> Dict[str, Any]:
        from primaite.simulator.network.hardware.node_operating_state import NodeOperatingState

        net = self.net
        for nd in list(net.nodes.values()):
            if id(nd) not in self.nname:
                self.register_node(nd)
        nm = lambda nd: self.nname.get(id(nd), "?" + str(getattr(getattr(nd, "config", None), "hostname", "")))  # noqa
        st: Dict[str, Any] = {}
        st["on"] = [n for n, nd in self.nodes.items() if nd.operating_state == NodeOperatingState.ON]
        st["present"] = [nm(nd) for nd in net.nodes.values()]
        st["routes"] = [str(r) for r in net._node_request_manager.request_types]
        st["gv"] = [str(v) for v in net._nx_graph.nodes]
        st["ge"] = [[str(u), str(v)] for u, v, _k in net._nx_graph.edges(keys=True)]
        links = []
        for link in net.links.values():
            a, b = link.endpoint_a, link.endpoint_b
            try:
                up = "T" if link.is_up else "F"
            except Exception:  # noqa
                up = "X"
            links.append({"id": self.link_id(link), "a": self.iname.get(id(a), "") if a is not None else "",
                          "b": self.iname.get(id(b), "") if b is not None else "", "up": up})
        st["links"] = links
        parts = {i: self._if_part(i) for i in self.ifaces}
        for f in ("il", "en", "att", "port", "rt"):
            st[f] = {i: parts[i][f] for i in parts}
        st["nextL"] = self.next_lid
        st["_u"] = list(self.nodes)
        st["found"] = [n for n, nd in self.nodes.items() if net.get_node_by_hostname(nd.config.hostname) is nd]
        st["par"] = [n for n, nd in self.nodes.items() if nd.parent is net]
        st.update(self._observations())
        return st

    def _observations(self) -> Dict[str, Any]:
        net = self.net
        o: Dict[str, Any] = {}
        try:
            ds = net.describe_state()
            o["ds"] = "ok"
            o["dsn"] = [str(h) for h in ds["nodes"]]
            o["dsl"] = [{"ha": str(v.get("hostname_a") or ""), "pa": int(v.get("port_a") or 0),
                         "hb": str(v.get("hostname_b") or ""), "pb": int(v.get("port_b") or 0)} for v in ds["links"].values()]
            o["dslc"] = len(ds["links"])
        except Exception as ex:  # noqa  (an observation of the real code: judged by DescribeListsExactly)
            o.update({"ds": _exc_name(ex), "dsn": [], "dsl": [], "dslc": 0})
        nm = lambda nd: self.nname.get(id(nd), "?")  # noqa
        o["typed"] = {k: [nm(nd) for nd in getattr(net, prop)] for k, prop in TYPED.items()}
        o["exth"] = sorted({self.kind.get(nm(nd), "?") for nd in net.extended_hostnodes})
        o["extn"] = sorted({self.kind.get(nm(nd), "?") for nd in net.extended_networknodes})
        return o

    # ---------------------------------------------------------------- recording
    def begin(self):
        self.seg_init = self.project()
        self.seg = []

    def emit(self, ev: str, **kw):
        if self.muted:
            return None
        if self.seg_init is None:
            self.begin()
        e = {"ev": ev, **DEFAULTS, **kw}
        e["st"] = self.project()
        self.seg.append(e)
        self.counts[ev] = self.counts.get(ev, 0) + 1
        if e["res"].startswith("raised") or e["st"]["ds"] != "ok":
            self.raised.append(f"{ev}:{e['res']}:{e['st']['ds']}")
        if len(self.seg) >= self.seg_pattern[len(self.traces) % len(self.seg_pattern)] or ev == "Observe":
            self.cut()  # an observation ends its segment (what it shows is judged last)
        return e

    def _complete(self, st: Dict[str, Any]):
        """Nodes / interfaces registered after this record was taken: until then nothing recorded touched them, so
        their state was the one found at registration."""
        known = set(st.pop("_u"))
        for name, was_on in self.nsnap.items():
            if name not in known and was_on and name not in st["on"]:
                st["on"].append(name)
        for i, part in self.isnap.items():
            if i not in st["il"]:
                for f in ("il", "en", "att", "port", "rt"):
                    st[f][i] = part[f]

    def cut(self):
        if not self.seg:
            return
        init = self.seg_init
        for st in [init] + [e["st"] for e in self.seg]:
            self._complete(st)
        cfg = {"kind": dict(self.kind), "home": dict(self.home), "init": init}
        clean = [consistent(init)] + [consistent(e["st"]) for e in self.seg]
        self.traces.append({"cfg": cfg, "ev": self.seg, "meta": {**self.meta, "segment": len(self.traces), "clean": clean},
                            "stimulus": self.stim})
        last = self.seg[-1]["st"]
        self.seg, self.stim = [], []
        self.seg_init = copy.deepcopy(last)
        self.seg_init["_u"] = list(self.nodes)

    def close(self):
        self.cut()
        _WORLDS.pop(id(self.net), None)


def consistent(st: Dict[str, Any]) -> bool:
    """Harness-side reading of the invariants (used only to label a divergence as starting from a clean or from an
    already inconsistent state - never for a verdict)."""
    pres = set(st["present"])
    if set(st["routes"]) != pres or set(st["gv"]) != pres or set(st["par"]) != pres or st["ds"] != "ok":
        return False
    for r in st["links"]:
        for e in (r["a"], r["b"]):
            if e == "" or st["il"].get(e) != r["id"]:
                return False
        if r["up"] == "X":
            return False
    ids = {r["id"] for r in st["links"]}
    for i, v in st["il"].items():
        if v and v not in ids:
            return False
        if st["en"][i] and not (v and st["att"][i]):
            return False
    return len(st["ge"]) == len(st["links"])


# ---------------------------------------------------------------------------------------------------------------
# wrappers
# ---------------------------------------------------------------------------------------------------------------


def _world_for_net(net) -> Optional[World]:
    w = _WORLDS.get(id(net))
    if w is None and _AUTO[0] is not None:
        w = World(net, {k: v for k, v in _AUTO[0].items() if not k.startswith("_")})
        _AUTO[0].setdefault("_worlds", []).append(w)
        w.begin()
    return w


def install():
    if _INSTALLED[0]:
        return
    _INSTALLED[0] = True
    from primaite.simulator.network.container import Network
    from primaite.simulator.network.hardware.base import IPWiredNetworkInterface, Node, WiredNetworkInterface
    from primaite.simulator.network.hardware.node_operating_state import NodeOperatingState
    from primaite.simulator.sim_container import Simulation

    def enter():
        outer = _DEPTH[0] == 0
        _DEPTH[0] += 1
        return outer

    def leave():
        _DEPTH[0] -= 1

    # --- Network
    def b_add(net, node, *a, **k):
        w = _world_for_net(net)
        if w is not None:
            w.register_node(node)
        return (w, enter())

    def a_add(net, tok, ret, exc, node, *a, **k):
        w, outer = tok
        leave()
        if w is not None and outer:
            w.emit("AddNode", n=w.nname[id(node)], res=_exc_name(exc))

    def a_remove(net, tok, ret, exc, node, *a, **k):
        w, outer = tok
        leave()
        if w is not None and outer:
            w.emit("RemoveNode", n=w.nname[id(node)], res=_exc_name(exc))

    def b_connect(net, endpoint_a=None, endpoint_b=None, *a, **k):
        w = _world_for_net(net)
        if w is not None:
            for ep in (endpoint_a, endpoint_b):
                owner = getattr(ep, "parent", None) or getattr(ep, "_connected_node", None)
                if owner is not None:
                    w.register_node(owner)
        return (w, enter())

    def a_connect(net, tok, ret, exc, endpoint_a=None, endpoint_b=None, *a, **k):
        w, outer = tok
        leave()
        if w is not None and outer:
            res = _exc_name(exc) if exc is not None else ("link" if ret is not None else "none")
            w.emit("Connect", i=w.iname.get(id(endpoint_a), "?"), j=w.iname.get(id(endpoint_b), "?"), res=res)

    def b_rlink(net, link, *a, **k):
        w = _world_for_net(net)
        lid = w.link_id(link) if w is not None else 0
        return (w, enter(), lid)

    def a_rlink(net, tok, ret, exc, link, *a, **k):
        w, outer, lid = tok
        leave()
        if w is not None and outer:
            w.emit("RemoveLink", l=lid, res=_exc_name(exc))

    def a_tick(net, tok, ret, exc, *a, **k):
        w = _WORLDS.get(id(net))
        if w is not None and _DEPTH[0] == 0:
            w.emit("Tick", res=_exc_name(exc))

    tracer.wrap(Network, "add_node", before=b_add, after=a_add)
    tracer.wrap(Network, "remove_node", before=b_add, after=a_remove)
    tracer.wrap(Network, "connect", before=b_connect, after=a_connect)
    tracer.wrap(Network, "remove_link", before=b_rlink, after=a_rlink)
    tracer.wrap(Network, "apply_timestep", after=a_tick)

    # --- interfaces
    def b_if(ifc, *a, **k):
        return (_IF_WORLD.get(id(ifc)), enter())

    def mk_after(name):
        def after(ifc, tok, ret, exc, *a, **k):
            w, outer = tok
            leave()
            if w is None or not outer or id(w.net) not in _WORLDS:
                return
            if _PENDING[0] is not None and _PENDING[0][0] is ifc:
                return  # reported by the request that is being applied
            if name in ("Enable", "Disable"):
                w.emit(name, i=w.iname[id(ifc)], via="api", flag=bool(ret) and exc is None,
                       res="none" if exc is None else _exc_name(exc))
            else:
                w.emit(name, i=w.iname[id(ifc)], res=_exc_name(exc))
        return after

    for cls in (WiredNetworkInterface, IPWiredNetworkInterface):
        tracer.wrap(cls, "enable", before=b_if, after=mk_after("Enable"))
    tracer.wrap(WiredNetworkInterface, "disable", before=b_if, after=mk_after("Disable"))
    tracer.wrap(WiredNetworkInterface, "disconnect_link", before=b_if, after=mk_after("DisconnectLink"))

    # --- nodes
    def b_nic(node, network_interface=None, *a, **k):
        w = _NODE_WORLD.get(id(node))
        ifc = network_interface
        if w is not None and isinstance(ifc, str):
            ifc = next((x for x in w.ifaces.values() if x.uuid == ifc), None)
        if w is not None and ifc is not None and id(ifc) not in w.iname and World._wired(ifc):
            w.register_iface(ifc, w.nname[id(node)], f"n{len(w.ifaces)}")
        return (w, enter(), ifc)

    def mk_nic(name):
        def after(node, tok, ret, exc, *a, **k):
            w, outer, ifc = tok
            leave()
            if w is None or not outer or ifc is None or id(ifc) not in w.iname or id(w.net) not in _WORLDS:
                return
            iid = w.iname[id(ifc)]
            p = 0
            if name == "ConnectNic":
                keys = [kk for kk, v in node.network_interface.items() if v is ifc]
                p = int(keys[0]) if len(keys) == 1 else (99 if keys else 0)
            w.emit(name, i=iid, p=p, res=_exc_name(exc))
        return after

    tracer.wrap(Node, "connect_nic", before=b_nic, after=mk_nic("ConnectNic"))
    tracer.wrap(Node, "disconnect_nic", before=b_nic, after=mk_nic("DisconnectNic"))

    def b_power(node, *a, **k):
        return (_NODE_WORLD.get(id(node)), enter(), node.operating_state == NodeOperatingState.ON)

    def a_power(node, tok, ret, exc, *a, **k):
        w, outer, was_on = tok
        leave()
        if w is None or not outer or id(w.net) not in _WORLDS:
            return
        is_on = node.operating_state == NodeOperatingState.ON
        if is_on != was_on or exc is not None:  # (a power call that raised is recorded where it happened)
            w.emit("Power", n=w.nname[id(node)], flag=is_on, res=_exc_name(exc))

    for m in ("power_on", "power_off", "apply_timestep"):
        tracer.wrap(Node, m, before=b_power, after=a_power)

    # --- requests: network/node/<h>/network_interface/<p>/enable|disable is one Enable / Disable event (via request)
    def b_req(sim, request, context=None):
        try:
            if (len(request) == 6 and request[0] == "network" and request[1] == "node" and request[3] == "network_interface"
                    and request[5] in ("enable", "disable") and _DEPTH[0] == 0):
                w = _WORLDS.get(id(sim.network))
                if w is not None:
                    name = next((n for n, nd in w.nodes.items() if nd.config.hostname == request[2]), None)
                    ifc = None
                    if name is not None:
                        ifc = w.nodes[name].network_interface.get(request[4])
                        if ifc is None:  # not listed under that number now: the interface that was registered with it
                            ifc = w.ifaces.get(f"{name}{request[4]}" if len(name) == 1 else f"{name}.{request[4]}")
                    if ifc is not None and id(ifc) in w.iname:
                        _PENDING[0] = (ifc, "Enable" if request[5] == "enable" else "Disable", w)
                        return True
        except Exception:  # noqa
            pass
        return False

    def a_req(sim, tok, ret, exc, request, context=None):
        if tok and _PENDING[0] is not None:
            ifc, name, w = _PENDING[0]
            _PENDING[0] = None
            ok = exc is None and ret is not None and getattr(ret, "status", "") == "success"
            w.emit(name, i=w.iname[id(ifc)], via="request", flag=bool(ok), res="none" if exc is None else _exc_name(exc))

    tracer.wrap(Simulation, "apply_request", before=b_req, after=a_req)


# ---------------------------------------------------------------------------------------------------------------
# worlds of the model: computer a (a1, a2), server b (b1), switch s (s1, s2)
# ---------------------------------------------------------------------------------------------------------------


def _mc_nodes(durs: Dict[str, int]) -> List[Dict[str, Any]]:
    d = lambda n: {"start_up_duration": durs[n], "shut_down_duration": durs[n]}  # noqa
    a = scenarios.host("a", "192.168.1.2", "computer", **d("a"))
    a["network_interfaces"] = {2: {"ip_address": "10.0.0.2", "subnet_mask": "255.0.0.0"}}
    return [a, scenarios.host("b", "192.168.1.3", "server", **d("b")),
            {"hostname": "s", "type": "switch", "num_ports": 2, **d("s")}]


def mc_world(init: str, rng: random.Random, meta: Dict[str, Any], begin: bool = True) -> World:
    durs = {n: rng.choice((0, 0, 1, 2)) for n in "abs"}
    nodes = _mc_nodes(durs)
    if init == "built":
        game = scenarios.build(scenarios.base_cfg(nodes, [scenarios.link("a", 1, "s", 1), scenarios.link("b", 1, "s", 2)]))
        w = World(game.simulation.network, {**meta, "init": init, "durations": durs}, game)
        for nd in game.simulation.network.nodes.values():
            w.register_node(nd)
        # links are numbered in order of creation
        for link in game.simulation.network.links.values():
            w.link_id(link)
    else:
        game = scenarios.build(scenarios.base_cfg([], []))
        from primaite.simulator.network.hardware.base import Node
        from primaite.simulator.network.hardware.nodes.host.host_node import NIC

        w = World(game.simulation.network, {**meta, "init": init, "durations": durs}, game)
        for cfg in nodes:
            cfg = copy.deepcopy(cfg)
            extra = cfg.pop("network_interfaces", {})
            cls = Node._registry[cfg["type"]]
            nd = cls.from_config(config={**cfg, "start_up_duration": 0})
            for _n, nc in sorted(extra.items()):
                nd.connect_nic(NIC(ip_address=nc["ip_address"], subnet_mask=nc["subnet_mask"]))
            nd.power_on()
            nd.config.start_up_duration = durs[cfg["hostname"]]
            w.register_node(nd)
    if begin:
        w.begin()
    return w


def _req(w: World, *path):
    return w.game.simulation.apply_request(list(path))


def _tick(w: World):
    w.game.pre_timestep()
    w.game.advance_timestep()


def _is_on(nd) -> bool:
    from primaite.simulator.network.hardware.node_operating_state import NodeOperatingState

    return nd.operating_state == NodeOperatingState.ON


def do(w: World, a: Dict[str, Any], rng: random.Random) -> bool:
    """One stimulus of the model on the real objects (the wrappers record); False: not applicable to the real state."""
    from primaite.simulator.network.hardware.base import Link

    name = a["name"]
    net = w.net
    nd = w.nodes.get(a["n"])
    ifc = w.ifaces.get(a["i"])
    w.stim.append([name, a["n"], a["i"], a["j"], a["l"], a["via"]])
    try:
        if name == "AddNode":
            net.add_node(nd)
        elif name == "RemoveNode":
            net.remove_node(nd)
        elif name == "Connect":
            jfc = w.ifaces[a["j"]]
            if ifc.parent is None or jfc.parent is None:
                return False
            net.connect(ifc, jfc)
        elif name == "RemoveLink":
            have = {w.link_id(x): x for x in net.links.values()}
            if not have:
                return False
            net.remove_link(have.get(a["l"], have[min(have)]))
        elif name == "DisconnectLink":
            ifc.disconnect_link()
        elif name == "LinkSelf":
            res = "none"
            try:
                Link(endpoint_a=ifc, endpoint_b=ifc, bandwidth=100)
            except Exception as ex:  # noqa
                res = _exc_name(ex)
            w.emit("LinkSelf", i=a["i"], res=res)
        elif name in ("Enable", "Disable"):
            verb = name.lower()
            if a["via"] == "api":
                getattr(ifc, verb)()
            else:
                num = w._if_part(a["i"])["port"] or int(a["i"][1:])
                _req(w, "network", "node", w.home[a["i"]], "network_interface", num, verb)
        elif name == "ConnectNic":
            w.nodes[w.home[a["i"]]].connect_nic(ifc)
        elif name == "DisconnectNic":
            w.nodes[w.home[a["i"]]].disconnect_nic(ifc.uuid if rng.random() < 0.3 and w._if_part(a["i"])["att"] else ifc)
        elif name == "Power":
            up = a["flag"]
            if _is_on(nd) == up:
                return False
            present = nd in net
            if present and rng.random() < 0.7:
                _req(w, "network", "node", a["n"], "startup" if up else "shutdown")
            elif up:
                nd.power_on()
            else:
                nd.power_off()
            for t in range(6):
                if _is_on(nd) == up:
                    break
                if present:
                    _tick(w)
                else:  # the network does not step a node it does not hold
                    nd.pre_timestep(t)
                    nd.apply_timestep(t)
        elif name == "Lookup":
            h = a["n"] if rng.random() < 0.9 else "nobody"
            w.emit("Lookup", n=h, flag=net.get_node_by_hostname(h) is not None)
        elif name == "Request":
            h = a["n"] if rng.random() < 0.9 else "nobody"
            r = _req(w, "network", "node", h, "scan")
            w.emit("Request", n=h, flag=r.status != "unreachable")
        elif name == "Observe":
            w.emit("Observe")
        elif name == "Tick":
            _tick(w)
        else:
            raise RuntimeError(f"EXT-network: unknown model action {name}")
    except Exception as ex:  # noqa  an exception of repository code: the wrapper has recorded it as the call's outcome
        w.raised.append(f"{name}: {type(ex).__name__}: {ex}"[:160])
    return True


def _mc_links(v) -> Dict[int, Dict[str, str]]:
    """The model's `links' as TLC prints it: a function (1 :> [..] @@ 3 :> [..]) or, over 1..n, a tuple."""
    if isinstance(v, list):
        return {k + 1: r for k, r in enumerate(v)}
    return {int(k): r for k, r in (v or {}).items()}


def core_of_model(ms: Dict[str, Any]) -> Dict[str, Any]:
    links = {k: (r["a"], r["b"]) for k, r in _mc_links(ms["links"]).items()}
    present = set(ms["present"]["__set__"])
    home = ms["home"]
    edges = sorted(tuple(sorted((home[a], home[b]))) for a, b in links.values() if a and b)
    return {"on": set(ms["on"]["__set__"]), "present": present, "routes": present, "gv": present, "ge": edges,
            "links": links, "nextL": ms["nextL"], "il": dict(ms["ilink"]), "en": dict(ms["en"]), "att": dict(ms["att"]),
            "port": dict(ms["port"]), "rt": dict(ms["rt"])}


def core_of_real(st: Dict[str, Any]) -> Dict[str, Any]:
    return {"on": set(st["on"]), "present": set(st["present"]), "routes": set(st["routes"]), "gv": set(st["gv"]),
            "ge": sorted(tuple(sorted(e)) for e in st["ge"]), "links": {r["id"]: (r["a"], r["b"]) for r in st["links"]},
            "nextL": st["nextL"], "il": dict(st["il"]), "en": dict(st["en"]), "att": dict(st["att"]),
            "port": dict(st["port"]), "rt": dict(st["rt"])}


def build_state(ms: Dict[str, Any], rng: random.Random, meta: Dict[str, Any]) -> Optional[World]:
    """Real objects in the model's state `ms' (made through the public API, nothing recorded), or None where the code
    cannot be brought there (a link that lost an end: the graph keeps its edge)."""
    want = core_of_model(ms)
    if any(not (a and b) for a, b in want["links"].values()):
        return None
    w = mc_world("empty", rng, {**meta, "rebuilt": True}, begin=False)
    w.muted = True
    try:
        for n in sorted(want["present"]):
            w.net.add_node(w.nodes[n])
        for k in sorted(want["links"]):
            a, b = want["links"][k]
            link = w.net.connect(w.ifaces[a], w.ifaces[b])
            if link is None:
                return None
            w.lid[id(link)] = k
            w.links[k] = link
        w.next_lid = want["nextL"]
        for i, att in want["att"].items():
            if not att:
                w.nodes[w.home[i]].disconnect_nic(w.ifaces[i])
        for i, en in want["en"].items():
            if w.ifaces[i].enabled and not en:
                w.ifaces[i].disable()
        for n, nd in w.nodes.items():
            if n not in want["on"]:
                keep, nd.config.shut_down_duration = nd.config.shut_down_duration, 0
                nd.power_off()
                nd.config.shut_down_duration = keep
    except Exception:  # noqa  (the state could not be made: stay in the world we have)
        w.close()
        return None
    finally:
        w.muted = False
    w.isnap = {i: w._if_part(i) for i in w.ifaces}
    w.nsnap = {n: _is_on(nd) for n, nd in w.nodes.items()}
    w.begin()
    if core_of_real(w.seg_init) != want:
        w.close()
        return None
    return w


def replay(beh, idx: int, rng: random.Random, follow: bool) -> List[World]:
    """A behaviour of the model as stimulus.  follow: whenever the real objects are no longer in the model's state
    (the code diverged, the divergence is on record) the run goes on in a fresh world built in the model's state, so
    that every call is judged from a consistent state; otherwise (and where that state cannot be built) it goes on in
    the world as the code left it."""
    init = "built" if beh[0]["state"]["present"]["__set__"] else "empty"
    w = mc_world(init, rng, {"behaviour": idx, "follow": follow})
    out = [w]
    try:
        for k, st in enumerate(beh[1:]):
            do(w, st["state"]["act"], rng)
            if not follow:
                continue
            now = w.seg[-1]["st"] if w.seg else w.seg_init
            real = core_of_real({**now, "nextL": w.next_lid})
            if real != core_of_model(st["state"]):
                nw = build_state(st["state"], rng, {"behaviour": idx, "follow": True, "from_step": k + 1})
                if nw is not None:
                    w.close()
                    w = nw
                    out.append(w)
    finally:
        w.close()
    return out


def _act(name, **kw) -> Dict[str, Any]:
    return {"name": name, "n": "", "i": "", "j": "", "l": 0, "via": "", "flag": False, **kw}


def directed(rng: random.Random) -> List[World]:
    """Histories the random behaviours reach rarely, and node types the model does not have."""
    out = []
    scripts = {
        "rewire": ("built", [_act("Observe"), _act("RemoveLink", l=1), _act("Observe"), _act("Connect", i="a1", j="s1"),
                             _act("Connect", i="a2", j="s2"), _act("Connect", i="a2", j="b1"), _act("Request", n="a"),
                             _act("RemoveNode", n="b"), _act("Lookup", n="b"), _act("Request", n="b"), _act("Observe"),
                             _act("AddNode", n="b"), _act("AddNode", n="b"), _act("Observe"), _act("Tick")]),
        "power": ("built", [_act("Power", n="a", flag=False), _act("Enable", i="a1", via="api"), _act("Enable", i="a1", via="request"),
                            _act("Power", n="a", flag=True), _act("Disable", i="a1", via="request"), _act("Disable", i="a1", via="request"),
                            _act("Enable", i="a1", via="request"), _act("Enable", i="a2", via="request"), _act("Enable", i="a2", via="api"),
                            _act("Disable", i="s1", via="api"), _act("Power", n="s", flag=False), _act("Power", n="s", flag=True),
                            _act("Observe")]),
        "nics": ("built", [_act("DisconnectNic", i="a2"), _act("DisconnectNic", i="a2"), _act("ConnectNic", i="a2"),
                           _act("ConnectNic", i="a2"), _act("DisconnectNic", i="a1"), _act("ConnectNic", i="a1"),
                           _act("Observe"), _act("Enable", i="a1", via="request"), _act("Enable", i="a2", via="request")]),
        "loose": ("built", [_act("DisconnectNic", i="a1"), _act("Enable", i="a1", via="api"), _act("Observe"),
                            _act("DisconnectLink", i="b1"), _act("DisconnectLink", i="b1"), _act("Observe"),
                            _act("Disable", i="s2", via="api"), _act("Power", n="s", flag=False), _act("RemoveLink", l=2),
                            _act("LinkSelf", i="s2")]),
        "scratch": ("empty", [_act("Connect", i="a1", j="a2"), _act("Connect", i="a1", j="s1"), _act("Connect", i="b1", j="s2"),
                              _act("Observe"), _act("Request", n="s"), _act("Lookup", n="a"), _act("RemoveNode", n="s"),
                              _act("Observe"), _act("RemoveNode", n="s"), _act("Tick"), _act("Power", n="a", flag=False),
                              _act("Power", n="a", flag=True)]),
    }
    for label, (init, script) in scripts.items():
        w = mc_world(init, rng, {"directed": label})
        w.seg_pattern = (1,)  # every call judged from the real state just before it
        try:
            for a in script:
                do(w, a, rng)
        finally:
            w.close()
        out.append(w)
    out.append(kinds_world())
    out.append(wireless_world())
    return out


def _call(w: World, fn, *args):
    """A call into repository code: what it raises is the call's recorded outcome, never the harness's failure."""
    try:
        return fn(*args)
    except Exception as ex:  # noqa
        w.raised.append(f"{getattr(fn, '__name__', 'call')}: {type(ex).__name__}: {ex}"[:160])
        return None


def kinds_world() -> World:
    """One node of every wired type: the typed lists while nodes leave and come back."""
    nodes = [
        scenarios.host("pc", "192.168.1.2", "computer", gw="192.168.1.1"),
        scenarios.host("srv", "192.168.1.3", "server", gw="192.168.1.1"),
        scenarios.host("prn", "192.168.1.4", "printer", gw="192.168.1.1"),
        {"hostname": "sw", "type": "switch", "num_ports": 4},
        {"hostname": "r", "type": "router", "num_ports": 2,
         "ports": {1: {"ip_address": "192.168.1.1", "subnet_mask": "255.255.255.0"},
                   2: {"ip_address": "192.168.20.2", "subnet_mask": "255.255.255.0"}}, "acl": {1: {"action": "PERMIT"}}},
    ]
    fw = scenarios.firewalled()["simulation"]["network"]["nodes"][2]
    nodes.append(fw)
    links = [scenarios.link("pc", 1, "sw", 1), scenarios.link("srv", 1, "sw", 2), scenarios.link("prn", 1, "sw", 3),
             scenarios.link("r", 1, "sw", 4), scenarios.link("r", 2, "fw", 1)]
    game = scenarios.build(scenarios.base_cfg(nodes, links))
    net = game.simulation.network
    w = World(net, {"directed": "kinds"}, game)
    w.seg_pattern = (1,)
    for nd in net.nodes.values():
        w.register_node(nd)
    for link in net.links.values():
        w.link_id(link)
    w.begin()
    try:
        w.emit("Observe")
        order = list(w.nodes)
        for n in order:
            _call(w, net.remove_node, w.nodes[n])
            w.emit("Observe")
        for n in reversed(order):
            _call(w, net.add_node, w.nodes[n])
        w.emit("Observe")
    finally:
        w.close()
    return w


def wireless_world() -> World:
    """The wireless test asset: wireless routers in the typed lists; their wireless interfaces are not wired ones."""
    game = scenarios.build(scenarios.test_asset("wireless_wan_network_config.yaml"))
    net = game.simulation.network
    w = World(net, {"directed": "wireless"}, game)
    w.seg_pattern = (1,)
    for nd in net.nodes.values():
        w.register_node(nd)
    for link in net.links.values():
        w.link_id(link)
    w.begin()
    try:
        w.emit("Observe")
        first = next(n for n, k in w.kind.items() if k == "wireless-router")
        _call(w, net.remove_node, w.nodes[first])
        w.emit("Observe")
        _call(w, net.add_node, w.nodes[first])
        w.emit("Observe")
    finally:
        w.close()
    return w


# ---------------------------------------------------------------------------------------------------------------
# scenario scale
# ---------------------------------------------------------------------------------------------------------------

WIRING_ACTIONS = ("node-shutdown", "node-startup", "node-reset", "host-nic-disable", "host-nic-enable",
                  "network-port-disable", "network-port-enable")


def scenario_run(name: str, steps: int, seed: int, rng: random.Random) -> List[World]:
    """A shipped scenario, recorded from the first add_node of PrimaiteGame.from_config on (construction is a run of
    AddNode / Connect events from the empty network), then stepped with the power and NIC actions of its action map."""
    from primaite.session.environment import PrimaiteGymEnv

    cfg = scenarios.shipped(name)
    ctx: Dict[str, Any] = {"scenario": name, "seed": seed}
    _AUTO[0] = ctx
    env = None
    try:
        env = PrimaiteGymEnv(env_config=cfg)
        env.reset(seed=seed)
        _AUTO[0] = None
        w = _WORLDS.get(id(env.game.simulation.network))
        if w is None:
            raise RuntimeError(f"EXT-network: the network of {name} was not recorded")
        w.game = env.game
        amap = env.agent.action_manager.action_map
        wiring = [k for k, v in amap.items() if v[0] in WIRING_ACTIONS]
        if not wiring:
            raise RuntimeError(f"EXT-network: {name} has no power / NIC action")
        w.emit("Observe")
        for t in range(steps):
            act = rng.choice(wiring) if rng.random() < 0.6 else 0
            w.stim.append(["step", t, int(act), str(amap[act][0])])
            env.step(act)
            if t % 8 == 7:
                w.emit("Observe")
                h = rng.choice(list(w.nodes))
                w.emit("Lookup", n=h, flag=w.net.get_node_by_hostname(h) is not None)
    finally:
        _AUTO[0] = None
        worlds = ctx.get("_worlds", [])
        for x in worlds:
            x.close()
        if env is not None:
            env.close()
    return worlds


# ---------------------------------------------------------------------------------------------------------------


def case_of(tr, idx: int) -> str:
    """What the failing call found (read from the state before it): one recognisable case per divergence."""
    e = tr["ev"][idx]
    pre = tr["cfg"]["init"] if idx == 0 else tr["ev"][idx - 1]["st"]
    home = tr["cfg"]["home"]
    ev = e["ev"]
    if ev in ("AddNode", "RemoveNode"):
        if e["n"] not in pre["present"]:
            return "absent"
        linked = any(home.get(x) == e["n"] for r in pre["links"] for x in (r["a"], r["b"]))
        return "present-linked" if linked else "present-unlinked"
    if ev == "Connect":
        if home.get(e["i"]) == home.get(e["j"]):
            return "same-node"
        return "busy" if pre["il"].get(e["i"]) or pre["il"].get(e["j"]) else "free"
    if ev == "RemoveLink":
        r = next((x for x in pre["links"] if x["id"] == e["l"]), None)
        return "unknown" if r is None else ("full" if r["a"] and r["b"] else "half")
    if ev == "DisconnectLink":
        return "linked" if pre["il"].get(e["i"]) else "unlinked"
    if ev in ("Enable", "Disable"):
        i = e["i"]
        can = pre["att"].get(i) and home.get(i) in pre["on"] and pre["il"].get(i)
        return f"{e['via']}-{'enabled' if pre['en'].get(i) else 'disabled'}-{'can' if can else 'cannot'}"
    if ev in ("ConnectNic", "DisconnectNic"):
        return "attached" if pre["att"].get(e["i"]) else "detached"
    if ev == "Power":
        return "up" if e["flag"] else "down"
    return ""


def sig(tr, e, stuck) -> Dict[str, Any]:
    """One signature per divergence: the call, what it found and the leading failing clause; from a state an earlier
    divergence had already left inconsistent only the call (those are consequences)."""
    idx = next((k for k, x in enumerate(tr["ev"]) if x is e), 0)
    clean = tr["meta"].get("clean", [True])
    fail = sorted((stuck or {}).get("fail") or [])
    lead = next((c for c in PRIORITY if c in fail), fail[0] if fail else "no-matching-action")
    if not clean[idx]:
        return {"ev": e.get("ev"), "pre": "dirty", "clause": "(state already inconsistent)"}
    return {"ev": e.get("ev"), "case": case_of(tr, idx) if e else "", "pre": "clean", "clause": lead}


def _moves(t: Dict[str, Any]) -> int:
    """How many events of a trace change the projected state (stuttering events can be dropped or swapped without
    making a trace wrong: the binding self-test is run on traces that move)."""
    prev, n = core_of_real(t["cfg"]["init"]), 0
    for e in t["ev"]:
        cur = core_of_real(e["st"])
        n += cur != prev
        prev = cur
    return n


def judge(chk, traces, res, label: str, selftest_n: int = 0):
    """common.judge_traces, the binding self-test on the accepted traces that move most."""
    idx = list(range(len(traces)))
    pick: List[int] = []
    if selftest_n:
        good = [k for k in idx if res["results"][k][0] == res["results"][k][1] + 1 and len(traces[k]["ev"]) >= 2]
        pick = sorted(good, key=lambda k: (-_moves(traces[k]), -len(traces[k]["ev"])))[:selftest_n]
    rest = [k for k in idx if k not in set(pick)]
    sub = lambda ks, first: {"results": [res["results"][k] for k in ks], "stuck": [res["stuck"][k] for k in ks],  # noqa
                             "states": res["states"] if first else 0, "distinct": res["distinct"] if first else 0}
    if pick:
        common.judge_traces(chk, "NetContainer", [traces[k] for k in pick], sub(pick, True), sig, label, "NetContainerTrace")
    common.judge_traces(chk, "NetContainer", [traces[k] for k in rest], sub(rest, not pick), sig, label)


def main(tier: str, seed: int) -> int:
    from concurrent.futures import ThreadPoolExecutor

    chk = common.Check("EXT-network", "model_checking", tier, seed)
    t0 = time.time()
    phases: Dict[str, float] = {}

    def mark(name: str):
        phases[name] = round(time.time() - t0, 1)

    quick = tier == "quick"
    rng = random.Random(seed)
    pool = ThreadPoolExecutor(max_workers=6)
    f_mc = pool.submit(tlc.mc, "MC_NetContainer", None, 8)
    f_neg = {c: pool.submit(tlc.mc, "MC_NetContainer", c, 2) for c in NEGATIVES}
    f_deep = None if quick else pool.submit(tlc.mc, "MC_NetContainer", "MC_NetContainerDeep.cfg", 8, 1500, False)
    f_sim = pool.submit(tlc.simulate, "MC_NetContainer", "MC_NetContainerSim.cfg", 40 if quick else 400, 40 if quick else 60, seed)
    common.boot()
    install()
    mark("boot")

    behs, info = f_sim.result()
    worlds: List[World] = []
    stim_counts: Dict[str, int] = {}
    for i, beh in enumerate(behs):
        for st in beh[1:]:
            stim_counts[st["action"]] = stim_counts.get(st["action"], 0) + 1
        worlds += replay(beh, i, rng, follow=(i % 4 != 3))
    missing = [a for a in MC_ACTIONS if stim_counts.get(a, 0) == 0]
    if missing:
        raise RuntimeError(f"EXT-network: the behaviours never take the model actions {missing}")
    worlds += directed(rng)
    traces = [t for w in worlds for t in w.traces]
    mark("replayed")
    for t in traces:
        chk.add_case([t["stimulus"], t["cfg"]["init"]["present"], t["cfg"]["init"]["links"]])
    res = tlc.validate("NetContainerTrace", traces, chunk=80, parallel=8)
    mark("validated")
    # the binding self-test (JVMs) runs beside the scenario-scale runs (Python)
    f_judge = pool.submit(judge, chk, traces, res, "replay", 4 if quick else 8)
    sworlds: List[World] = []
    names = ["data_manipulation.yaml"] if quick else ["data_manipulation.yaml", "uc7_config.yaml"]
    for nm in names:
        sworlds += scenario_run(nm, 24 if quick else 64, seed, rng)
    mark("scenario_run")
    straces = [t for w in sworlds for t in w.traces]
    sres = tlc.validate("NetContainerTrace", straces, chunk=12, parallel=8)
    f_judge.result()
    mark("selftest")
    judge(chk, straces, sres, "scenario")
    mark("scenario")

    r = f_mc.result()
    if not r["ok"]:
        chk.violation({"module": "MC_NetContainer", "clause": str(r["violation"])}, {"tlc": r["output_tail"]})
    never = [a for a in MC_ACTIONS if r["coverage"].get(a, (0, 0))[1] == 0]
    if never:
        raise tlc.TLCError(f"vacuous model MC_NetContainer: actions never taken: {never}")
    chk.add_mc("MC_NetContainer(a:2 NICs, b, switch s:2 ports; empty or wired start; <= 3 links ever; a2 detachable; a, s powered)", r)
    for c, f in f_neg.items():
        rn = f.result()
        if rn["ok"] or rn["violation"] is None or rn["violation"][1] not in NEGATIVES[c]:
            raise tlc.TLCError(f"negative configuration {c} was not refuted as expected: {rn['violation']}")
        chk.add_mc(f"{c[:-4]} (as coded: refuted, {rn['violation'][1]})", rn)
    if f_deep is not None:
        rd = f_deep.result()
        if not rd["ok"]:
            chk.violation({"module": "MC_NetContainerDeep", "clause": str(rd["violation"])}, {"tlc": rd["output_tail"]})
        chk.add_mc("MC_NetContainerDeep(<= 4 links ever; a, b, s powered)", rd)
    mark("model_checked")
    chk.cov["phase_wall_s"] = phases

    counts: Dict[str, int] = {}
    for w in worlds + sworlds:
        for k, v in w.counts.items():
            counts[k] = counts.get(k, 0) + v
    never = [e for e in EVENTS if counts.get(e, 0) == 0]
    if never:
        raise RuntimeError(f"EXT-network: actions of the model never exercised in the code: {never}")
    allres = list(zip(traces + straces, res["results"] + sres["results"]))
    accepted = sum(1 for _t, (a, b) in allres if a == b + 1)
    judged: Dict[str, int] = {}
    for t, (a, b) in allres:
        for e in t["ev"][: min(a, b)]:
            judged[e["ev"]] = judged.get(e["ev"], 0) + 1
    unjudged = [e for e in EVENTS if judged.get(e, 0) == 0]
    if unjudged or accepted == 0:
        raise RuntimeError(f"EXT-network: vacuous validation: accepted traces={accepted}, events never judged: {unjudged}")
    sc = [w for w in sworlds if w.counts.get("Power", 0) + w.counts.get("Enable", 0) + w.counts.get("Disable", 0) > 0]
    if not sc or not any(w.counts.get("Connect", 0) for w in sworlds):
        raise RuntimeError("EXT-network: the scenario-scale run recorded no construction / no power or NIC event")
    chk.cov["impl_events_recorded"] = counts
    chk.cov["impl_events_judged"] = judged
    chk.cov["stimulus_actions"] = stim_counts
    chk.cov["behaviours_replayed"] = len(behs)
    chk.cov["traces"] = {"replay": len(traces), "scenario": len(straces), "accepted": accepted}
    chk.cov["scenario_events"] = {w.meta.get("scenario", "?") + f"#{k}": dict(w.counts) for k, w in enumerate(sworlds)}
    chk.cov["simulate"] = {"states": info["states"], "wall_s": round(info["wall_s"], 1)}
    chk.cov["exceptions_from_repository_code"] = sorted({x for w in worlds + sworlds for x in w.raised})[:20]
    chk.assumptions += [
        "hostnames are unique (get_node_by_hostname docstring); one Network per node",
        "connect: the nodes owning the endpoints are added first, also when the link is then refused (documented note)",
        "a refused connect may return None or raise RuntimeError (docstring names both)",
        "power is environment: only ON / not ON is used (NodePower.tla / C12 decide the state machine); a node entering ON "
        "enables its interfaces that have a link, a node leaving ON disables all of them",
        "wireless interfaces are not wired ones: outside this component",
        "half-open links (one end disconnected by disconnect_link) may stay in Network.links; they must not be up and "
        "describe_state must still answer",
    ]
    if traces:
        chk.sample({"init_present": traces[0]["cfg"]["init"]["present"],
                    "ev": [{k: v for k, v in e.items() if k != "st"} for e in traces[0]["ev"][:6]]})
    return chk.finish()
