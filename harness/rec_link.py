"""Recorder for Link.tla: one trace per wired link / wireless channel (C18)."""
from __future__ import annotations

import math
from typing import Any, Dict, List

from . import tracer

UNIT = 131072.0  # bytes per "Mbit" as the simulator converts (bits / 1024**2)
CLIP = 2**30


def _b(mbits: float) -> int:
    return min(CLIP, int(round(mbits * UNIT)))


class LinkRecorder:
    def __init__(self):
        self.traces: Dict[Any, Dict[str, Any]] = {}
        self.order: List[Any] = []
        self.active = False
        self.keep = {}  # keep objects alive so id() stays unique

    # -- helpers
    def _wired(self, link, create: bool):
        k = ("L", id(link))
        tr = self.traces.get(k)
        if tr is None and create:
            self.keep[k] = link
            tr = {
                "cfg": {
                    "bw": min(CLIP, int(math.floor(link.bandwidth * UNIT + 1e-9))),
                    "wireless": False,
                    "upA": bool(link.endpoint_a.enabled),
                    "upB": bool(link.endpoint_b.enabled),
                },
                "ev": [],
                "meta": {"link": str(link), "bandwidth_mbit": link.bandwidth},
            }
            self.traces[k] = tr
            self.order.append(k)
        return tr

    def _air(self, airspace, freq, create: bool):
        k = ("W", id(airspace), freq.frequency_hz)
        tr = self.traces.get(k)
        if tr is None and create:
            self.keep[k] = airspace
            cap = airspace.get_frequency_max_capacity_mbps(freq.name)
            tr = {
                "cfg": {"bw": min(CLIP, int(math.floor(cap * UNIT + 1e-9))), "wireless": True, "upA": True, "upB": True},
                "ev": [],
                "meta": {"channel": freq.name, "capacity_mbit": cap},
            }
            self.traces[k] = tr
            self.order.append(k)
        return tr

    @staticmethod
    def _ev(kind, load, upA=True, upB=True, **kw):
        d = {"ev": kind, "size": 0, "ok": False, "recv": False, "side": "", "en": False, "load": load, "upA": upA, "upB": upB}
        d.update(kw)
        return d

    def _wev(self, link, kind, **kw):
        tr = self._wired(link, create=(kind == "PreTick"))
        if tr is None:
            return
        tr["ev"].append(
            self._ev(kind, _b(link.current_load), bool(link.endpoint_a.enabled), bool(link.endpoint_b.enabled), **kw)
        )

    def _aev(self, airspace, freq, kind, **kw):
        tr = self._air(airspace, freq, create=(kind == "PreTick"))
        if tr is None:
            return
        tr["ev"].append(self._ev(kind, _b(airspace.bandwidth_load.get(freq.frequency_hz, 0.0)), **kw))

    # -- installation
    def install(self):
        from primaite.simulator.network.airspace import AirSpace
        from primaite.simulator.network.hardware.base import Link, NetworkInterface

        rec = self

        def after_can(link, tok, ret, exc, frame):
            if exc is None:
                rec._wev(link, "Admit", size=_b(frame.size_Mbits), ok=bool(ret))

        # "taken by the far end" is also observed independently of what the far end ANSWERS: a switch that has been handed
        # the frame by its port (Switch.receive_frame entered during this delivery) has taken it, whatever became of it there
        txstack: List[Dict[str, bool]] = []

        def before_tx(link, sender_nic, frame):
            rec._wev(link, "Begin", size=_b(frame.size_Mbits))
            txstack.append({"switch": False})
            return True

        def after_tx(link, tok, ret, exc, sender_nic, frame):
            top = txstack.pop() if txstack else {"switch": False}
            rec._wev(link, "End", recv=(bool(ret) or top["switch"]) if exc is None else False)

        def before_switch(sw, frame, from_network_interface=None, **kw):
            if txstack:
                txstack[-1]["switch"] = True
            return None

        def after_pre(link, tok, ret, exc, timestep):
            rec._wev(link, "PreTick")

        def on_enabled(nic, name, old, new):
            link = getattr(nic, "_connected_link", None)
            if link is None or bool(old) == bool(new):
                return
            if rec._wired(link, create=False) is None:
                return
            side = "A" if link.endpoint_a is nic else "B"
            rec._wev(link, "SetEnd", side=side, en=bool(new))

        def after_acan(air, tok, ret, exc, frame, sender):
            if exc is None:
                rec._aev(air, sender.frequency, "Admit", size=_b(frame.size_Mbits), ok=bool(ret))

        def before_atx(air, frame, sender):
            rec._aev(air, sender.frequency, "Begin", size=_b(frame.size_Mbits))

        def after_atx(air, tok, ret, exc, frame, sender):
            rec._aev(air, sender.frequency, "End", recv=True)

        def after_areset(air, tok, ret, exc):
            seen = set()
            for wi in list(air.wireless_interfaces.values()):
                f = wi.frequency
                if f.frequency_hz not in seen:
                    seen.add(f.frequency_hz)
                    rec._aev(air, f, "PreTick")

        tracer.wrap(Link, "can_transmit_frame", after=after_can)
        tracer.wrap(Link, "transmit_frame", before=before_tx, after=after_tx)
        from primaite.simulator.network.hardware.nodes.network.switch import Switch

        tracer.wrap(Switch, "receive_frame", before=before_switch)
        # the start of a tick is taken from the NETWORK's pre-timestep (every link of the network, whether or not the
        # link's own pre_timestep was called): "loads start every tick at zero" is judged on what the link then reports
        from primaite.simulator.network.container import Network

        def after_net_pre(net, tok, ret, exc, timestep):
            for link in list(net.links.values()):
                rec._wev(link, "PreTick")

        tracer.wrap(Network, "pre_timestep", after=after_net_pre)
        tracer.watch(NetworkInterface, {"enabled"}, on_enabled)
        tracer.wrap(AirSpace, "can_transmit_frame", after=after_acan)
        tracer.wrap(AirSpace, "transmit", before=before_atx, after=after_atx)
        tracer.wrap(AirSpace, "reset_bandwidth_load", after=after_areset)

    def take(self, stimulus=None, min_events: int = 2) -> List[Dict[str, Any]]:
        out = []
        for k in self.order:
            tr = self.traces[k]
            if len(tr["ev"]) >= min_events:
                if stimulus is not None:
                    tr["stimulus"] = stimulus
                out.append(tr)
        self.traces, self.order, self.keep = {}, [], {}
        return out
