"""Multi-instance trajectory worker (C04): executes an interleaving of construct / reset / step / close
operations over several PrimaiteGymEnv instances in ONE process and dumps each instance's canonical
trajectory (same record format as harness.traj).  `python -m harness.traj_multi spec.json out.json`"""
from __future__ import annotations

import copy
import json
import sys
from typing import Any, Dict, List

from .traj import _h, _plain


def _owned_objects(game) -> Dict[int, Any]:
    """ids of the mutable component / agent objects reachable from a game."""
    from primaite.game.agent.interface import AbstractAgent
    from primaite.simulator.core import SimComponent

    seen: Dict[int, Any] = {}
    stack = [game.simulation] + list(game.agents.values())
    while stack:
        o = stack.pop()
        if id(o) in seen:
            continue
        if isinstance(o, (SimComponent, AbstractAgent)):
            seen[id(o)] = o
        elif not isinstance(o, (dict, list, tuple, set)):
            continue
        if isinstance(o, dict):
            stack.extend(o.values())
            continue
        if isinstance(o, (list, tuple, set)):
            stack.extend(o)
            continue
        for src in (getattr(o, "__dict__", None), getattr(o, "__pydantic_private__", None)):
            if isinstance(src, dict):
                for k, v in src.items():
                    if k in ("_parent", "parent", "sys_log", "pcap", "logger"):
                        continue
                    if isinstance(v, (SimComponent, AbstractAgent, dict, list, tuple, set)):
                        stack.append(v)
    return seen


def run(spec: Dict[str, Any]) -> Dict[str, Any]:
    from . import common, project, scenarios

    common.boot()
    from primaite.session.environment import PrimaiteGymEnv
    from primaite.simulator import SIM_OUTPUT

    envs: Dict[str, Any] = {}
    out: Dict[str, Any] = {k: {"steps": [], "raised": None, "agents": [], "shared": []} for k in spec["instances"]}
    canon: Dict[str, Any] = {}

    def cfg_of(k):
        sc = spec["instances"][k]
        if "shipped" in sc:
            c = scenarios.shipped(sc["shipped"])
        elif "dir" in sc:
            return sc["dir"]
        else:
            c = copy.deepcopy(sc["cfg"])
        io = c.setdefault("io_settings", {})
        for f in ("save_agent_actions", "save_step_metadata", "save_pcap_logs", "save_sys_logs", "save_agent_logs"):
            io[f] = False
        return c

    def rec(k, kind, obs, reward=0.0, term=False, trunc=False):
        env = envs[k]
        agents = {}
        for name, ag in env.game.agents.items():
            if ag.history:
                hi = ag.history[-1]
                agents[name] = {"action": hi.action, "params": _h(_plain(hi.parameters)),
                                "status": getattr(hi.response, "status", "none"),
                                "data": _h(canon[k].text(json.dumps(_plain(getattr(hi.response, "data", {})), sort_keys=True, default=str))),
                                "reward": _h(round(float(ag.reward_function.current_reward), 9))}
            else:
                agents[name] = {"action": "-", "params": "-", "status": "-", "data": "-", "reward": "-"}
        out[k]["agents"] = list(env.game.agents)
        # the action mask the environment hands out at this point (asked for after every step and every reset, as a learner
        # that keeps "the next mask" does) is part of what an episode shows
        try:
            mk = _h([int(bool(x)) for x in env.action_masks()])[:6]
        except Exception as e:  # noqa
            mk = f"raised:{type(e).__name__}"
        out[k]["steps"].append({"kind": kind, "obs": _h(_plain(obs)), "reward": _h(round(float(reward), 9)),
                                "flags": f"{bool(term)}{bool(trunc)}", "agents": agents,
                                "state": project.digest(env.game.simulation, project.Canon())[:12] + ":" + mk})

    for op in spec["ops"]:
        kind, k = op[0], op[1]
        if out[k]["raised"]:
            continue
        try:
            if kind == "new":
                envs[k] = PrimaiteGymEnv(env_config=cfg_of(k))
                SIM_OUTPUT.save_pcap_logs = SIM_OUTPUT.save_sys_logs = SIM_OUTPUT.save_agent_logs = False
                canon[k] = project.Canon()
            elif k not in envs:
                continue
            elif kind == "reset":
                old = _owned_objects(envs[k].game)
                obs, info = envs[k].reset(seed=op[2])
                canon[k] = project.Canon()
                new = _owned_objects(envs[k].game)
                shared = [type(old[i]).__name__ for i in old if i in new]
                out[k]["shared"].append(sorted(set(shared)))
                rec(k, "reset", obs)
            elif kind == "step":
                env = envs[k]
                obs, reward, term, trunc, info = env.step(int(op[2]) % env.action_space.n)
                rec(k, "step", obs, reward, term, trunc)
            elif kind == "close":
                envs[k].close()
                del envs[k]
        except Exception as e:  # noqa
            out[k]["raised"] = f"{kind}: {e!r}"[:300]
    return out


def main():
    import pickle

    spec = pickle.load(open(sys.argv[1], "rb"))
    json.dump(run(spec), open(sys.argv[2], "w"))


if __name__ == "__main__":
    main()
