"""C01 - stepping/resetting the environment is total and keeps the episode contract.

Model: spec/Episode.tla (MC_Episode: every schedule of steps of each action class and resets, mid-episode
and past truncation, over consecutive episodes; liveness: every step returns).  Binding: TLC schedules are
replayed on PrimaiteGymEnv for every shipped scenario (incl. the episode-scheduled directories), on the
agent-free network examples through PrimaiteGame.step(), and on generated scenarios whose proxy agent's
action map is drawn from all registered action types (incl. entries aimed at missing components); wrappers
on env.step/reset, PrimaiteGame.pre_timestep, AbstractAgent.process_action_response and
Simulation.apply_timestep emit the pipeline events; TLC validates every run against EpisodeTrace.tla.
"""
from __future__ import annotations

import copy
import math
import random
import re
from typing import Any, Dict, List, Optional

from . import common, scenarios, tlc, tracer
from . import rec_requests as rq

PROP = "C01"
STATUSES = {"success", "failure", "unreachable", "pending"}


class Recorder:
    def __init__(self):
        self.ev: Optional[List[Dict[str, Any]]] = None
        self.game = None
        self.order: List[Any] = []

    def _e(self, ev, **kw):
        d = {"ev": ev, "agent": 0, "steps": 0, "h": [], "obsOK": False, "rFinite": False, "respOK": False, "term": False,
             "trunc": False, "nInfo": 0, "totZero": False, "n2": 0, "m2": 0}
        d.update(kw)
        if self.ev is not None:
            self.ev.append(d)

    def bind(self, game):
        self.game = game
        self.order = list(game.agents.values())

    def install(self):
        from primaite.game.agent.interface import AbstractAgent
        from primaite.game.game import PrimaiteGame
        from primaite.simulator.sim_container import Simulation

        rec = self

        def after_pre(game, tok, ret, exc):
            if rec.ev is not None and game is rec.game:
                rec._e("PreTick")

        def after_par(agent, tok, ret, exc, *a, **k):
            if rec.ev is not None and exc is None and agent in rec.order:
                rec._e("Act", agent=rec.order.index(agent) + 1)

        def after_tick(sim, tok, ret, exc, timestep):
            if rec.ev is not None and rec.game is not None and sim is rec.game.simulation and exc is None:
                rec._e("Tick")

        tracer.wrap(PrimaiteGame, "pre_timestep", after=after_pre)
        tracer.wrap(AbstractAgent, "process_action_response", after=after_par)
        tracer.wrap(Simulation, "apply_timestep", after=after_tick)

    # -- the two brackets
    def step_return(self, game, obs_ok, reward, term, trunc, n_info):
        agents = list(game.agents.values())
        resp_ok = all(
            len(a.history) > 0 and getattr(a.history[-1].response, "status", None) in STATUSES for a in agents
        ) if agents else True
        rfin = isinstance(reward, (int, float)) and math.isfinite(float(reward)) and all(
            math.isfinite(float(a.reward_function.current_reward)) for a in agents)
        self._e("StepReturn", steps=int(game.step_counter), h=[len(a.history) for a in agents], obsOK=bool(obs_ok),
                rFinite=bool(rfin), respOK=bool(resp_ok), term=bool(term), trunc=bool(trunc), nInfo=int(n_info))

    def reset_return(self, game, obs_ok):
        agents = list(game.agents.values())
        self._e("ResetReturn", steps=int(game.step_counter), h=[len(a.history) for a in agents], obsOK=bool(obs_ok),
                totZero=all(float(a.reward_function.total_reward) == 0.0 for a in agents),
                n2=len(agents), m2=int(game.options.max_episode_length))


def classify(env, rng: random.Random) -> Dict[str, List[int]]:
    amap = env.agent.action_manager.action_map
    masks = env.action_masks()
    cl = {"allowed": [], "masked": [], "power": [], "any": list(amap)}
    for i, (a, o) in amap.items():
        (cl["allowed"] if masks[i] else cl["masked"]).append(i)
        if a in ("node-shutdown", "node-startup", "node-reset", "node-service-stop", "node-application-remove",
                 "node-file-delete", "host-nic-disable", "network-port-disable", "node-service-disable"):
            cl["power"].append(i)
    return cl


def set_max_len(env, m: int):
    sch = env.episode_scheduler
    if hasattr(sch, "config"):
        sch.config.setdefault("game", {})["max_episode_length"] = m
    elif hasattr(sch, "base_scenario"):
        sch.base_scenario = re.sub(r"max_episode_length:\s*\d+", f"max_episode_length: {m}", sch.base_scenario)
    env.game.options.max_episode_length = m


def run_env(rec: Recorder, label: str, env_config, sched: List[str], max_len: int, rng: random.Random, avoid=()) -> Dict[str, Any]:
    from primaite.session.environment import PrimaiteGymEnv

    env = PrimaiteGymEnv(env_config=copy.deepcopy(env_config) if isinstance(env_config, dict) else env_config)
    set_max_len(env, max_len)
    rec.bind(env.game)
    trace = {"cfg": {"nAg": len(env.game.agents), "maxLen": max_len}, "ev": [], "meta": {"scenario": label},
             "stimulus": {"scenario": label, "schedule": []}}
    # the gymnasium contract: reset before the first step
    sched = ["reset"] + list(sched)
    rec.ev = trace["ev"]
    try:
        for s in sched:
            if s == "reset":
                seed = rng.randrange(10**6)
                trace["stimulus"]["schedule"].append(["reset", seed])
                rec._e("ResetBegin")
                obs, info = env.reset(seed=seed)
                rec.bind(env.game)
                rec.reset_return(env.game, obs is not None)
            else:
                if isinstance(s, tuple):
                    # a scripted step (transition tour): ("act", abstract name, action index, hook before the step)
                    _, s, a, hook = s
                    if hook is not None:
                        hook(env.game)
                else:
                    cl = classify(env, rng)
                    pool = [i for i in (cl.get(s) or cl["any"]) if i not in avoid] or [0]
                    a = rng.choice(pool)
                trace["stimulus"]["schedule"].append([s, a])
                rec._e("StepBegin")
                obs, reward, term, trunc, info = env.step(a)
                rec.step_return(env.game, obs is not None, reward, term, trunc, len(info.get("agent_actions", {})))
    except Exception as e:  # noqa - an exception out of repository code is an event no module allows
        rec._e("Raised")
        trace["meta"]["exception"] = repr(e)[:300]
        import traceback

        trace["meta"]["where"] = traceback.format_exc().strip().split("\n")[-3:]
    finally:
        rec.ev = None
        try:
            env.close()
        except Exception:  # noqa
            pass
    return trace


def run_game(rec: Recorder, label: str, cfg: Dict[str, Any], steps: int) -> Dict[str, Any]:
    game = scenarios.build(cfg)
    rec.bind(game)
    trace = {"cfg": {"nAg": len(game.agents), "maxLen": int(game.options.max_episode_length)}, "ev": [],
             "meta": {"scenario": label}, "stimulus": {"scenario": label, "steps": steps}}
    rec.ev = trace["ev"]
    try:
        for _ in range(steps):
            rec._e("StepBegin")
            game.step()
            rec.step_return(game, True, 0.0, False, game.calculate_truncated(), len(game.agents))
    except Exception as e:  # noqa
        rec._e("Raised")
        trace["meta"]["exception"] = repr(e)[:300]
    finally:
        rec.ev = None
    return trace


def schedules(behs) -> List[List[str]]:
    out = []
    for beh in behs:
        s = []
        for st in beh[1:]:
            if st["action"] == "MStep":
                s.append(st["params"].strip('"'))
            elif st["action"] == "MReset":
                s.append("reset")
        if s:
            out.append(s)
    return out


def generated(base: Dict[str, Any], rng: random.Random, per_type: int) -> Dict[str, Any]:
    """`base` with a proxy agent whose action map covers all action types, incl. missing targets."""
    game = scenarios.build(base)
    insts = rq.action_instances(game, rng, per_type=per_type)
    ok = []
    for (a, o, ex) in insts:
        try:
            rq.form(a, o)
            ok.append((a, o))
        except Exception:  # noqa
            pass
    cfg = copy.deepcopy(base)
    agents = [ag for ag in cfg.get("agents", []) if ag.get("type") != "proxy-agent"]
    agents.append(scenarios.proxy_agent(scenarios.action_map_from(ok), masking=bool(rng.getrandbits(1)), flatten=bool(rng.getrandbits(1))))
    cfg["agents"] = agents
    return cfg


def sig_fn(tr, event, stuck):
    exc = re.sub(r"[0-9a-f]{8}-[0-9a-f]{4}-[0-9a-f]{4}-[0-9a-f]{4}-[0-9a-f]{12}", "UUID", tr["meta"].get("exception", ""))
    exc = re.sub(r"\d+", "N", exc)[:100]
    return {"scenario": re.sub(r"#\d+$", "", tr["meta"]["scenario"]), "exc": exc}


def main(tier: str, seed: int) -> int:
    chk = common.Check(PROP, "model_checking", tier, seed)
    rng = random.Random(seed)
    r = tlc.mc("MC_Episode")
    if not r["ok"]:
        chk.violation({"module": "MC_Episode", "clause": str(r["violation"])}, {"tlc": r["output_tail"]})
    chk.add_mc("MC_Episode(<=3 agents, maxLen<=3, 2 episodes, 6 steps; liveness)", r)
    for act in ("MStep", "MPreTick", "MAct", "MTick", "MReturn", "MReset", "MResetReturn"):
        if r["coverage"].get(act, (0, 0))[1] == 0:
            raise tlc.TLCError(f"vacuous model: action {act} never taken")
    n = 40 if tier == "quick" else 300
    behs, info = tlc.simulate("MC_Episode", num=n, depth=60, seed=seed + 3)
    chk.cov["transitions"] += info["states"]
    scheds = schedules(behs)
    common.boot()
    from primaite.session.io import PrimaiteIO

    _scratch_sessions = common.tmpdir("verif_c01_sessions_")
    PrimaiteIO.generate_session_path = lambda self, timestamp=None: _scratch_sessions  # (nothing is written under the home directory)
    rec = Recorder()
    rec.install()
    traces = []
    PKG = scenarios.PKG
    envs = [
        ("data_manipulation", scenarios.shipped("data_manipulation.yaml")),
        ("uc7_config", scenarios.shipped("uc7_config.yaml")),
        ("uc7_config_tap003", scenarios.shipped("uc7_config_tap003.yaml")),
        ("scenario_with_placeholders", str(PKG / "scenario_with_placeholders")),
        ("uc7_multiple_attack_variants", str(PKG / "uc7_multiple_attack_variants")),
        ("mini_scenario_with_simulation_variation", str(PKG / "mini_scenario_with_simulation_variation")),
    ]
    reps = 1 if tier == "quick" else 6
    k = 0
    for label, cfg in envs:
        for rep in range(reps):
            # lengthen the TLC schedule: every scheduled step stands for a burst of steps of that class
            base = scheds[k % len(scheds)]
            k += 1
            burst = 3 if tier == "quick" else 8
            sched = []
            for s in base:
                sched += [s] if s == "reset" else [s] * burst
            max_len = max(2, sum(1 for s in sched if s != "reset") // 2)
            traces.append(run_env(rec, f"{label}#{rep}", cfg, sched, max_len, rng))
            chk.add_case({"s": label, "sched": sched})
    # generated families
    bases = [("gen:firewalled_dmz", scenarios.firewalled(dmz=True)), ("gen:switched", scenarios.switched(3)),
             ("gen:routed", scenarios.routed()), ("gen:wireless", scenarios.test_asset("wireless_wan_network_config.yaml")),
             ("gen:data_manipulation", scenarios.shipped("data_manipulation.yaml"))]
    # a LAN whose hosts carry every configurable application (their configure actions take addresses and ports)
    red = scenarios.switched(3)
    for n in red["simulation"]["network"]["nodes"]:
        if n["type"] in ("computer", "server"):
            n["applications"] = [{"type": "dos-bot"}, {"type": "ransomware-script"}, {"type": "c2-beacon"}, {"type": "database-client"},
                                 {"type": "c2-server"}]
    bases.append(("gen:configurable_applications", red))
    nfam = 6 if tier == "quick" else 60
    for i in range(nfam):
        label, base = bases[i % len(bases)]
        cfg = generated(base, rng, per_type=2 if tier == "quick" else 3)
        if i % 2 == 1 or label == "gen:configurable_applications":
            # the agents' histories are written out at every reset / close (session directory redirected to scratch)
            cfg.setdefault("io_settings", {})["save_agent_actions"] = True
            label += "+save_agent_actions"
        sched = []
        for s in scheds[(k + i) % len(scheds)]:
            sched += [s] if s == "reset" else [s] * 4
        if label.startswith("gen:configurable_applications"):
            # every configure / command action of the map once, then a reset (the histories are written out), twice
            am = cfg["agents"][-1]["action_space"]["action_map"]
            conf = [k for k, e in am.items() if e["action"].startswith(("configure-", "c2-server-"))]
            sched = ([("act", "configure", k, None) for k in conf] + ["reset"]) * 2 + sched
        max_len = max(2, sum(1 for s in sched if s != "reset") // 2)
        traces.append(run_env(rec, f"{label}#{i}", cfg, sched, max_len, rng))
        chk.add_case({"s": label, "sched": [x if isinstance(x, str) else list(x[:3]) for x in sched], "i": i})
    # directed: the red applications that talk to the database meet a database whose file is gone (deleted by the defender),
    # corrupted or being restored - ransomware (ENCRYPT) and the data-manipulation bot (DELETE) before and after
    dcfg = scenarios.shipped("data_manipulation.yaml")
    for n in dcfg["simulation"]["network"]["nodes"]:
        if n["hostname"] == "client_1":
            n["applications"] = list(n.get("applications") or []) + [{"type": "ransomware-script", "options": {"server_ip": "192.168.1.14"}}]
    dam = dcfg["agents"][-1]["action_space"]["action_map"]
    dkeys = {}
    for nm, ent in (
        ("ransom", {"action": "node-application-execute", "options": {"node_name": "client_1", "application_name": "ransomware-script"}}),
        ("dmbot", {"action": "node-application-execute", "options": {"node_name": "client_1", "application_name": "data-manipulation-bot"}}),
        ("delete", {"action": "node-file-delete", "options": {"node_name": "database_server", "folder_name": "database", "file_name": "database.db"}}),
        ("corrupt", {"action": "node-file-corrupt", "options": {"node_name": "database_server", "folder_name": "database", "file_name": "database.db"}}),
        ("restore", {"action": "node-file-restore", "options": {"node_name": "database_server", "folder_name": "database", "file_name": "database.db"}}),
        ("fix", {"action": "node-service-fix", "options": {"node_name": "database_server", "service_name": "database-service"}}),
    ):
        dkeys[nm] = max(dam) + 1
        dam[dkeys[nm]] = ent
    dsched = [("act", nm, dkeys[nm], None) for nm in ("ransom", "restore", "fix", "delete", "ransom", "dmbot", "ransom", "restore", "ransom",
                                                       "corrupt", "ransom", "dmbot", "delete", "dmbot", "fix", "ransom")]
    dsched = dsched + ["reset"] + dsched[3:]
    traces.append(run_env(rec, "directed:red_applications_vs_missing_database_file", dcfg, dsched, len(dsched) + 5, rng))
    chk.add_case({"s": "directed:red_applications_vs_missing_database_file", "sched": [x if isinstance(x, str) else x[1] for x in dsched]})
    # transition tours of the life-cycle product (spec/Lifecycle.tla): every (power state x component state, action)
    # edge, i.e. every operation at every reachable state of a node and a service / application / file on it
    from . import tour

    for facet in ("svc", "app", "fs", "ssh"):
        g = tour.graph(facet)
        eps, st = tour.tour(g, random.Random(seed), episode_len=300, level="timers" if tier == "quick" else "exact")
        chk.add_mc(f"Lifecycle({facet}, PowDur=2, FixDur=2, RestDur=2)", g["tlc"])
        chk.cov[f"tour_{facet}"] = st
        if st["covered"] != st["wanted"]:
            raise tlc.TLCError(f"tour of Lifecycle/{facet} incomplete: {st}")
        tcfg, idx = tour.scenario(facet, flatten=(seed % 2 == 1), masking=(seed % 3 == 1))
        for ei, ep in enumerate(eps):
            sched = [("act", a, idx[a], (lambda game, f=facet: tour.compromise(game, f)) if a == "red-compromise" else None) for a in ep]
            traces.append(run_env(rec, f"tour:{facet}#{ei}", tcfg, sched, len(ep) + 5, rng))
            chk.add_case({"s": f"tour:{facet}", "episode": ei, "first": ep[:12], "len": len(ep)})
    # agent-free network examples through PrimaiteGame.step()
    for name in ("basic_lan_network_example.yaml", "client_server_p2p_network_example.yaml", "multi_lan_internet_network_example.yaml"):
        traces.append(run_game(rec, name, scenarios.shipped(name), 5 if tier == "quick" else 30))
        chk.add_case({"s": name})
    res = tlc.validate("EpisodeTrace", traces)
    common.judge_traces(chk, "Episode", traces, res, sig_fn, selftest="EpisodeTrace")
    for tr in traces[:2]:
        chk.sample({"scenario": tr["meta"]["scenario"], "schedule": tr["stimulus"].get("schedule", [])[:10], "events": tr["ev"][:8]})
    chk.assumptions += [
        "data_manipulation_marl.yaml (two proxy agents) is not driven through the single-agent PrimaiteGymEnv",
        "max_episode_length is overridden with small values so that truncation and steps past truncation are reached",
    ]
    return chk.finish()
