"""C09 - each element of an agent's observation equals the documented encoding of the corresponding simulation
quantity at the end of the step (visible value exactly when scanning is required, true value otherwise; absent
components and all components of a node that is not ON read as the default).

Model: spec/ObsEncoding.tla - EncodeSet(kind, cfg, truth), transcribed from the documentation (notebook tables,
docstrings, changelog; sources listed in the module header), a singleton wherever the documentation pins the
value; MC_ObsEncoding enumerates the finite component domain.

Binding (TLC judges every record against ObsEncodingTrace.tla, clause ObservedEqualsEncoding = `Enc_<kind>_<field>`,
`EncFields_<kind>`, NoRaise_*):
 (i)  component level, exhaustive: as in C02 - every generator state of MC_ObsEncoding through the real
      observation classes, the truth being the generator state;
 (ii) environment level: PrimaiteGymEnv on shipped scenarios and edited copies (see rec_obs.variants); after
      every reset / step the DECLARED observation tree (parsed from the scenario options) is walked and for every
      leaf group the truth is read directly from the simulator objects (node.operating_state, nic.enabled,
      software.operating_state / health_state_actual / health_state_visible, folder / file health_status /
      visible_health_status / _scanned_this_step / deleted, acl._acl[i], link.current_load / bandwidth, num_executions, num_access,
      num_file_creations / deletions, nic.nmne, user sessions) - never from describe_state() - and logged with the
      observed values.  NMNE and the folder health under requires_scan are validated as small state machines: the
      event carries the previous step's totals / the value at the last scan the observation saw.
"""
from __future__ import annotations

from . import common, rec_obs

PROP = "C09"


def main(tier: str, seed: int) -> int:
    chk = common.Check(PROP, "model_checking", tier, seed)
    comp = rec_obs.component_level(PROP, chk, tier)
    env = rec_obs.environment_level(PROP, chk, tier, seed)
    chk.cov["component_level"] = comp
    chk.cov["environment_level"] = env
    chk.cov["not_pinned_by_documentation"] = rec_obs.NOT_PINNED
    chk.notes += [
        "generator states are enumerated by TLC (state dump of MC_ObsEncoding), not mirrored in Python",
        "leaves with memory: NMNE (category of the count since the previous observation, or of the cumulative count: "
        "the documentation does not say which, both are accepted; the previous totals travel in the event); folder "
        "health under file_system_requires_scan (ObsEncoding!FolderEnc: the visible status at the last step in which the "
        "observation saw the folder's scanned-this-step flag set, 0 before - the reading fixed by the repository's unit test "
        "test_folder_require_scan): the memory travels in the event (truth.last), read from folder._scanned_this_step / "
        "folder.visible_health_status at every observation; at component level a fresh FolderObservation is driven through "
        "real observe() sequences (scan-completing state, visible changing without a scan, the generator state, a later "
        "non-scanning state); a visible status changed without a folder scan (node OS scan) is counted as drift",
        "a step that raises produces no observation: recorded as a Raised event, the environment is reset, the run continues",
        "services / applications present in several instances with different states on one node are not examined "
        "(which instance is 'the' service is not documented); counted under environment_level.notes",
        "an ACL rule field that is None or falsy (port 0) is read as 'any' (the simulator's own convention for an "
        "unspecified field)",
        "one trace = one leaf group of one observation, so a divergence never hides another leaf or a later step",
    ]
    chk.assumptions += [
        "TLC 1.8.0 and the CommunityModules (JsonDeserialize)",
        "the truth readers of rec_obs.ObsWalker (one attribute read per field) and the declared-tree parser "
        "(pydantic ConfigSchema classes of the repository are used for parsing only, never their observe() paths)",
        "loads and traffic are exact multiples of 1 byte (Mbit = bytes*8/1024^2 is exact in floating point)",
    ]
    return chk.finish()
