"""C02 - every observation returned by reset or step, nested or flattened, is an element of the declared
observation space; for a constant scenario that space and the action space are the same in every episode.

Model: spec/ObsEncoding.tla (documented encoding + documented sizes) with MC_ObsEncoding, whose initial states
are the finite component domain (every enumeration value, counts 0..high+2, a covering set of utilisations,
sessions 0..5, present / absent / deleted, node ON / not ON, requires_scan on / off); TLC checks EncodeInSpace
in every one of them.

Binding (TLC judges every record against ObsEncodingTrace.tla, clauses SpaceAsDocumented `Space_*`,
ObservedInSpace `In_*` / `InFields_*` / `Contains_*`, NestedInSpace / FlatInSpace / LeavesInRange,
ObsSpaceConstant / ActionSpaceConstant, NoRaise_*):
 (i)  component level, exhaustive: every generator state read back from TLC's state dump is turned into the
      state dictionary describe_state() would produce, the REAL observation class is instantiated with that cfg,
      `.observe(state)` is called directly and through the parent (host / router / firewall) observation, and
      (observed fields, real Discrete sizes, real_subspace.contains) are logged;
 (ii) environment level: PrimaiteGymEnv on the shipped scenarios and on edited copies of data_manipulation.yaml
      (flattened / nested, requires_scan and include_* toggles, tight thresholds, thin links) driven by seeded
      random actions including adversarial ones, plus scripted flood agents acting in the same tick; after every
      reset / step observation_space.contains (nested and flattened), every leaf (value < size) and, per episode,
      a structural digest of observation_space and action_space are logged.  A step or reset that raises is a
      `Raised` event; the environment is reset and the run goes on.
"""
from __future__ import annotations

from . import common, rec_obs

PROP = "C02"


def main(tier: str, seed: int) -> int:
    chk = common.Check(PROP, "model_checking", tier, seed)
    comp = rec_obs.component_level(PROP, chk, tier)
    env = rec_obs.environment_level(PROP, chk, tier, seed)
    chk.cov["component_level"] = comp
    chk.cov["environment_level"] = env
    chk.cov["not_pinned_by_documentation"] = rec_obs.NOT_PINNED
    chk.notes += [
        "generator states are enumerated by TLC (state dump of MC_ObsEncoding), not mirrored in Python; the number of "
        "dumped states is cross-checked with TLC's distinct-state count",
        "per-tick quantities (file creations / deletions, accesses, executions, traffic) arise only from agents' actions "
        "inside env.step: the blue action drawn by the driver plus scripted flood agents declared in the scenario; no "
        "request is issued by the harness between pre_timestep and the observation",
        "traffic above the nominal NIC speed (100 Mbit/s, not configurable in a scenario) needs ~25 000 frames in one tick "
        "and is not reached at environment level; it is covered at component level (utilisation 10/9 and 2)",
        "more than 3 remote sessions cannot exist in a simulation (max_remote_sessions = 3): covered at component level",
        "data_manipulation_marl.yaml (multi-agent, RLlib wrapper) is not run; its blue agents use the same observation "
        "classes as data_manipulation.yaml",
        "one trace = one leaf group of one observation, so a divergence never hides another leaf or a later step; the "
        "known-risk stimuli (ACL rule outside ip_list, include_nmne with capture_nmne off) run in variants of their own",
    ]
    chk.assumptions += [
        "TLC 1.8.0 and the CommunityModules (JsonDeserialize); gymnasium's Space.contains / flatten_space",
        "the documented sizes (ObsEncoding!Space) are lower bounds of the real sizes: a larger declared space is drift, "
        "not a violation",
        "the synthetic state dictionaries are patched copies of real describe_state() output (key names checked)",
    ]
    return chk.finish()
