"""Extension (beyond the listed properties): transport sessions and payload delivery inside a host against
spec/Transport.tla (SessionManager, SoftwareManager, IOSoftware send / receive / connections, HostNode's port check).

(a) MC_Transport exhaustively (+ two negative configurations TLC must refute), (b) TLC -simulate behaviours of
MC_Transport replayed as stimulus (install / uninstall, service and application requests, shutdown / startup, outbound
payloads, hand-built inbound frames sent by a peer's interface, connections, SessionManager.clear, get_open_ports)
into a real network a, b, c -- sw whose host a carries three small IOSoftware subclasses defined here (two of them
share a port, one listens on the others' port), (c) one event per spec action recorded at the handlers of the real
code with the projection read from the real objects, one trace per host, (d) the traces validated by TLC against
spec/TransportTrace.tla, (e) shipped scenarios stepped through the real environment with random actions, every host
projected onto this component.   Run: ./check EXT-sessions_ports"""
from __future__ import annotations

import copy
import random
import time
from typing import Any, Dict, List, Optional

from . import common, scenarios, tlc, tracer

BLANK = {
    "ev": "", "n": "", "st": "", "proto": "", "ip": 0, "sp": 0, "dp": 0, "kind": "", "tome": False, "new": False,
    "ok": False, "built": False, "fproto": "", "fip": 0, "fsp": 0, "fdp": 0, "cid": 0, "cnt": 0, "nsess": 0,
    "key": [], "power": "", "inst": [], "ops": [], "owners": [], "sess": [], "open": [], "cc": [],
}

# the world of MC_Transport: model numbering -> real names / addresses / ports
MC_SW = {"s1": "vt-s1", "a1": "vt-a1", "s2": "vt-s2"}
MC_PORT = {1: 8080, 2: 5353, 3: 1433, 4: 49152}
MC_IP = {1: "192.168.1.3", 2: "192.168.1.4", 9: "192.168.1.99"}
DUT, DUT_IP, ELSEWHERE = "a", "192.168.1.2", "192.168.1.77"
PEER = {1: "b", 2: "c"}

_STUBS: Dict[str, Any] = {}


def stubs() -> Dict[str, Any]:
    """Three IOSoftware subclasses (defined once per process, after boot): what they do with a payload is the least
    possible - ask the base class whether they may act, answer an 'echo' on the session it came on."""
    if _STUBS:
        return _STUBS
    from pydantic import Field

    from primaite.simulator.system.applications.application import Application
    from primaite.simulator.system.services.service import Service

    def common_receive(self, base, payload, session_id, **kw):
        if not base.receive(self, payload=payload, session_id=session_id, **kw):
            return False
        if isinstance(payload, dict) and payload.get("vt") == "echo":
            self.send({"vt": "re", "k": payload.get("k", 0)}, session_id=session_id)
        return True

    def service(name, port, proto, listen, max_sessions):
        class Stub(Service, discriminator=name):
            class ConfigSchema(Service.ConfigSchema):
                type: str = name
                listen_on_ports: set = Field(default_factory=lambda: set(listen))

            config: ConfigSchema = Field(default_factory=lambda: Stub.ConfigSchema())

            def __init__(self, **kw):
                kw["name"], kw["port"], kw["protocol"], kw["max_sessions"] = name, port, proto, max_sessions
                super().__init__(**kw)

            def describe_state(self):
                return super().describe_state()

            def receive(self, payload, session_id, **kw):
                return common_receive(self, Service, payload, session_id, **kw)

        Stub.__name__ = Stub.__qualname__ = "Vt" + name[3:].upper()
        return Stub

    def application(name, port, proto, listen, max_sessions):
        class Stub(Application, discriminator=name):
            class ConfigSchema(Application.ConfigSchema):
                type: str = name
                listen_on_ports: set = Field(default_factory=lambda: set(listen))

            config: ConfigSchema = Field(default_factory=lambda: Stub.ConfigSchema())

            def __init__(self, **kw):
                kw["name"], kw["port"], kw["protocol"], kw["max_sessions"] = name, port, proto, max_sessions
                super().__init__(**kw)

            def describe_state(self):
                return super().describe_state()

            def receive(self, payload, session_id, **kw):
                return common_receive(self, Application, payload, session_id, **kw)

        Stub.__name__ = Stub.__qualname__ = "Vt" + name[3:].upper()
        return Stub

    _STUBS["vt-s1"] = service("vt-s1", MC_PORT[1], "tcp", (), 2)
    _STUBS["vt-a1"] = application("vt-a1", MC_PORT[1], "tcp", (), 1)
    _STUBS["vt-s2"] = service("vt-s2", MC_PORT[2], "udp", (MC_PORT[1],), 2)
    return _STUBS


class _KeyLog(dict):
    """SessionManager.sessions_by_key of a tracked host: reports every session that is created."""

    def __init__(self, data, rec, sm):
        super().__init__(data)
        self.rec, self.sm = rec, sm

    def __setitem__(self, key, value):
        is_new = key not in self
        super().__setitem__(key, value)
        if is_new:
            self.rec._on_session_created(self.sm, key)


class Scene:
    """The tracked hosts of one real network, the numbering of addresses / connection ids, and the catalogue of software
    seen on every host."""

    def __init__(self, network, only: Optional[List[str]] = None):
        from primaite.simulator.network.hardware.nodes.host.host_node import HostNode

        self.nodes = [nd for nd in network.nodes.values() if isinstance(nd, HostNode)
                      and (only is None or nd.config.hostname in only)]
        self.node_ix = {id(nd): k for k, nd in enumerate(self.nodes)}
        self.sm_ix = {id(nd.software_manager): k for k, nd in enumerate(self.nodes)}
        self.sess_ix = {id(nd.session_manager): k for k, nd in enumerate(self.nodes)}
        self.ips: Dict[str, int] = {}
        self.cids: List[Dict[str, int]] = [{} for _ in self.nodes]
        self.cat: List[Dict[str, Dict[str, Any]]] = [{} for _ in self.nodes]

    def ip(self, a) -> int:
        s = str(a)
        if s not in self.ips:
            self.ips[s] = len(self.ips) + 1
        return self.ips[s]

    def cid(self, k: int, c) -> int:
        d = self.cids[k]
        c = str(c)
        if c not in d:
            d[c] = len(d) + 1
        return d[c]

    def catalogue(self, k: int, sw) -> str:
        from primaite.simulator.system.services.service import Service

        ent = {"n": sw.name, "port": int(sw.port), "proto": str(sw.protocol), "svc": isinstance(sw, Service),
               "listen": sorted(int(p) for p in (sw.listen_on_ports or ())), "max": int(sw.max_sessions),
               "track": type(sw).__name__ != "Terminal"}  # the terminal keeps its connections without add_connection
        old = self.cat[k].get(sw.name)
        if old is not None and old != ent:
            raise RuntimeError(f"software {sw.name} changed its port / protocol / listen ports / max_sessions: {old} -> {ent}")
        self.cat[k][sw.name] = ent
        return sw.name


def _port(p) -> int:
    return 0 if p is None else int(p)


class Recorder:
    """Wrappers on the real classes; one event per action of Transport.tla, per tracked host, while a scene is recorded."""

    def __init__(self):
        self.scene: Optional[Scene] = None
        self.ev: List[List[Dict[str, Any]]] = []
        self.initial: List[Dict[str, Any]] = []
        self.ctx: List[Dict[str, Any]] = []  # open calls of the real code, innermost last (calls nest across hosts)
        self.mute = 0
        self.installed = False
        self.raised_in: set = set()

    # -- life cycle
    def install(self):
        if self.installed:
            return
        from primaite.simulator.network.airspace import WirelessNetworkInterface
        from primaite.simulator.network.hardware.base import Node, WiredNetworkInterface
        from primaite.simulator.network.hardware.nodes.host.host_node import HostNode
        from primaite.simulator.system.core.session_manager import SessionManager
        from primaite.simulator.system.core.software_manager import SoftwareManager
        from primaite.simulator.system.software import IOSoftware

        stubs()
        tracer.wrap(SoftwareManager, "install", before=self._b_install, after=self._a_install)
        tracer.wrap(SoftwareManager, "uninstall", before=self._b_uninstall, after=self._a_uninstall)
        tracer.wrap(SoftwareManager, "get_open_ports", after=self._a_open)
        tracer.wrap(SoftwareManager, "receive_payload_from_session_manager", before=self._b_dispatch, after=self._a_dispatch)
        tracer.wrap(SessionManager, "receive_payload_from_software_manager", before=self._b_send, after=self._a_send)
        tracer.wrap(SessionManager, "receive_frame", before=self._b_sessin, after=self._a_sessin)
        tracer.wrap(SessionManager, "clear", after=self._a_clear)
        tracer.wrap(HostNode, "receive_frame", before=self._b_node, after=self._a_node)
        tracer.wrap(WiredNetworkInterface, "send_frame", before=self._b_nic_send)
        tracer.wrap(WirelessNetworkInterface, "send_frame", before=self._b_nic_send)
        tracer.wrap(IOSoftware, "add_connection", after=self._a_addconn)
        tracer.wrap(IOSoftware, "terminate_connection", before=self._b_termconn, after=self._a_termconn)
        tracer.wrap(IOSoftware, "clear_connections", after=self._a_clearconns)
        seen, todo = set(), [IOSoftware]
        while todo:  # every class that defines a receive of its own
            c = todo.pop()
            todo.extend(c.__subclasses__())
            if c in seen:
                continue
            seen.add(c)
            if "receive" in c.__dict__:
                tracer.wrap(c, "receive", before=self._b_recv, after=self._a_recv)
        tracer.watch(IOSoftware, ["operating_state"], self._w_op)
        tracer.watch(Node, ["operating_state"], self._w_power)
        self.installed = True

    def start(self, scene: Scene):
        self.scene, self.ctx, self.mute, self.raised_in = scene, [], 0, set()
        self.reported: List[Any] = []
        self.raised_log: List[str] = []
        self.ev = [[] for _ in scene.nodes]
        self.initial = []
        for k, nd in enumerate(scene.nodes):
            sm = nd.session_manager
            if not isinstance(sm.sessions_by_key, _KeyLog):
                sm.sessions_by_key = _KeyLog(sm.sessions_by_key, self, sm)
            for sw in nd.software_manager.software.values():
                scene.catalogue(k, sw)
            p = self.project(k)
            conns = []
            for sw in nd.software_manager.software.values():
                if scene.cat[k][sw.name]["track"]:
                    conns += [{"n": sw.name, "c": scene.cid(k, c)} for c in sw._connections]
            self.initial.append({"power": p["power"], "inst": p["inst"], "ops": p["ops"], "owners": p["owners"],
                                 "sess": p["sess"], "cc": conns})

    def stop(self, meta: Dict[str, Any], stimulus: Any) -> List[Dict[str, Any]]:
        sc = self.scene
        self.scene = None
        out = []
        for k, nd in enumerate(sc.nodes):
            cfg = dict(self.initial[k], cat=sorted(sc.cat[k].values(), key=lambda c: c["n"]), skip=[])
            m = dict(meta, host=nd.config.hostname)
            if self.raised_log:
                m["raised"] = [x[-1500:] for x in self.raised_log[:3]]
            out.append({"cfg": cfg, "ev": self.ev[k], "meta": m, "stimulus": stimulus})
        return out

    # -- projection of a host onto the specification's state
    def project(self, k: int) -> Dict[str, Any]:
        sc = self.scene
        nd = sc.nodes[k]
        swm, sem = nd.software_manager, nd.session_manager
        self.mute += 1
        try:
            open_ports = sorted({int(p) for p in swm.get_open_ports()})
        finally:
            self.mute -= 1
        owners = []
        for (port, proto), sw in swm.port_protocol_mapping.items():
            name = sw.name if swm.software.get(sw.name) is sw else "<gone>" + sw.name
            owners.append({"port": _port(port), "proto": str(proto), "n": name})
        sess = [{"proto": str(key[0]), "ip": sc.ip(key[1]), "sp": _port(key[2]), "dp": _port(key[3])} for key in sem.sessions_by_key]
        if len(sem.sessions_by_uuid) != len(sem.sessions_by_key):
            sess.append({"proto": "<uuid-table-differs>", "ip": 0, "sp": len(sem.sessions_by_uuid), "dp": len(sem.sessions_by_key)})
        return {
            "power": nd.operating_state.name,
            "inst": list(swm.software.keys()),
            "ops": [{"n": n, "st": sw.operating_state.name} for n, sw in swm.software.items()],
            "owners": sorted(owners, key=lambda d: (d["port"], d["proto"])),
            "sess": sess,
            "open": open_ports,
            "cc": [{"n": n, "c": len(sw._connections)} for n, sw in swm.software.items()],
        }

    def _emit(self, k: int, ev_name: str, /, **kw):
        e = copy.deepcopy(BLANK)
        e["ev"] = ev_name
        e.update(kw)
        self.ev[k].append(e)

    def quiet(self):
        for k in range(len(self.scene.nodes)):
            self._emit(k, "Quiet", **self.project(k))

    def raised(self, exc: BaseException, default_k: int = 0):
        import traceback

        self.raised_log.append("".join(traceback.format_exception(type(exc), exc, exc.__traceback__)[-6:]))
        ks = sorted(self.raised_in) or [default_k]
        for k in ks:
            self._emit(k, "Raised:" + type(exc).__name__)
        self.raised_in = set()
        self.ctx = []

    def _note_exc(self, k: int, exc):
        if exc is not None:
            self.raised_in.add(k)

    def _k_sm(self, swm) -> Optional[int]:
        return self.scene.sm_ix.get(id(swm)) if self.scene is not None else None

    def _k_sess(self, sem) -> Optional[int]:
        return self.scene.sess_ix.get(id(sem)) if self.scene is not None else None

    def _k_sw(self, sw) -> Optional[int]:
        """The host a piece of software is installed on (None when it is not the installed instance of a tracked host)."""
        swm = getattr(sw, "software_manager", None)
        k = self._k_sm(swm)
        if k is None or swm.software.get(sw.name) is not sw:
            return None
        return k

    # -- install / uninstall
    def _b_install(self, swm, *a, **kw):
        k = self._k_sm(swm)
        if k is None:
            return None
        self.ctx.append({"kind": "install", "k": k})
        return (k, list(swm.software.values()))

    def _a_install(self, swm, tok, ret, exc, *a, **kw):
        if tok is None or self.scene is None:
            return
        k, before = tok
        self._pop("install")
        self._note_exc(k, exc)
        for sw in swm.software.values():
            if not any(sw is b for b in before) and not any(sw is b for b in self.reported):
                self.reported.append(sw)  # (an install nested in this one has been reported already)
                n = self.scene.catalogue(k, sw)
                p = self.project(k)
                self._emit(k, "Install", n=n, st=sw.operating_state.name, inst=p["inst"], owners=p["owners"])

    def _b_uninstall(self, swm, software_name=None, *a, **kw):
        k = self._k_sm(swm)
        if k is None:
            return None
        inside_install = bool(self.ctx) and self.ctx[-1]["kind"] == "install"
        self.ctx.append({"kind": "install", "k": k})
        return (k, software_name, software_name in swm.software, inside_install)

    def _a_uninstall(self, swm, tok, ret, exc, *a, **kw):
        if tok is None or self.scene is None:
            return
        k, name, was, inside_install = tok
        self._pop("install")
        self._note_exc(k, exc)
        if was and not inside_install:  # (an install that replaces an instance is one Install event)
            p = self.project(k)
            self._emit(k, "Uninstall", n=str(name), inst=p["inst"], owners=p["owners"])

    def _pop(self, kind: str):
        if self.ctx and self.ctx[-1]["kind"] == kind:
            self.ctx.pop()

    # -- operating states
    def _w_op(self, sw, name, old, new):
        if self.scene is None or old == new:
            return
        if self.ctx and self.ctx[-1]["kind"] == "install":
            return  # the software being installed / removed: its state is part of the Install event
        k = self._k_sw(sw)
        if k is not None:
            self._emit(k, "SetOp", n=sw.name, st=getattr(new, "name", str(new)))

    def _w_power(self, nd, name, old, new):
        if self.scene is None or old == new:
            return
        k = self.scene.node_ix.get(id(nd))
        if k is not None:
            self._emit(k, "Power", st=getattr(new, "name", str(new)))

    # -- outbound
    def _on_session_created(self, sem, key):
        for c in reversed(self.ctx):
            if c["kind"] in ("send", "in") and c.get("sem") is sem and not c.get("done"):
                c["new"] = True
                c["key"] = [str(key[0]), self.scene.ip(key[1]), _port(key[2]), _port(key[3])]
                return

    def _b_send(self, sem, payload=None, dst_ip_address=None, src_port=None, dst_port=None, session_id=None,
                ip_protocol="tcp", icmp_packet=None, *a, **kw):
        k = self._k_sess(sem)
        if k is None:
            return None
        c = {"kind": "send", "k": k, "sem": sem, "new": False, "done": False, "sid": session_id, "known": False,
             "s": None, "req": (str(ip_protocol), dst_ip_address, dst_port)}
        if payload.__class__.__name__ == "ARPPacket":
            c["req"] = ("udp", dst_ip_address, dst_port)
        if session_id:
            s = sem.sessions_by_uuid.get(session_id)
            if s is not None:
                c["known"] = True
                c["s"] = (str(s.protocol), self.scene.ip(s.with_ip_address), _port(s.src_port), _port(s.dst_port))
        self.ctx.append(c)
        return c

    def _emit_send(self, c, frame):
        sc = self.scene
        c["done"] = True
        built = frame is not None
        hdr = {"fproto": "", "fip": 0, "fsp": 0, "fdp": 0}
        if built:
            t = frame.tcp or frame.udp
            hdr = {"fproto": str(frame.ip.protocol), "fip": sc.ip(frame.ip.dst_ip_address),
                   "fsp": _port(t.src_port) if t else 0, "fdp": _port(t.dst_port) if t else 0}
        nsess = len(c["sem"].sessions_by_key)
        if c["sid"]:
            s = c["s"] or ("", 0, 0, 0)
            self._emit(c["k"], "SendSess", proto=s[0], ip=s[1], sp=s[2], dp=s[3], ok=c["known"], built=built, new=c["new"],
                       key=c.get("key", []), nsess=nsess, **hdr)
        else:
            proto, ip, dp = c["req"]
            self._emit(c["k"], "SendNew", proto=hdr["fproto"] if built else proto,
                       ip=hdr["fip"] if built else (sc.ip(ip) if ip is not None else 0), dp=_port(dp), built=built,
                       fsp=hdr["fsp"], fdp=hdr["fdp"], new=c["new"], key=c.get("key", []), nsess=nsess)

    def _b_nic_send(self, ni, frame=None, *a, **kw):
        if self.scene is None or not self.ctx:
            return None
        c = self.ctx[-1]
        if c["kind"] == "send" and not c["done"] and getattr(ni, "_connected_node", None) is self.scene.nodes[c["k"]]:
            self._emit_send(c, frame)  # the frame is built and its session exists: the linearisation point of the send
        return None

    def _a_send(self, sem, tok, ret, exc, *a, **kw):
        if tok is None or self.scene is None:
            return
        if self.ctx and self.ctx[-1] is tok:
            self.ctx.pop()
        self._note_exc(tok["k"], exc)
        if not tok["done"]:
            self._emit_send(tok, None)

    def _a_clear(self, sem, tok, ret, exc, *a, **kw):
        k = self._k_sess(sem)
        if k is not None:
            self._emit(k, "Clear", nsess=len(sem.sessions_by_key))

    # -- inbound
    def _frame(self, frame) -> Dict[str, Any]:
        t = frame.tcp or frame.udp
        return {"proto": str(frame.ip.protocol), "ip": self.scene.ip(frame.ip.src_ip_address),
                "sp": _port(t.src_port) if t else 0, "dp": _port(t.dst_port) if t else 0,
                "kind": "scan" if frame.payload.__class__.__name__ == "PortScanPayload" else "data"}

    def _b_node(self, nd, frame=None, from_network_interface=None, *a, **kw):
        if self.scene is None:
            return None
        k = self.scene.node_ix.get(id(nd))
        if k is None or frame is None or frame.ip is None:
            return None
        dst = frame.ip.dst_ip_address
        tome = bool(nd.ip_is_network_interface(dst)) or dst == from_network_interface.ip_network.broadcast_address
        c = {"kind": "node", "k": k, "frame": frame, "tome": tome, "accepted": False}
        self.ctx.append(c)
        return c

    def _a_node(self, nd, tok, ret, exc, *a, **kw):
        if tok is None or self.scene is None:
            return
        if self.ctx and self.ctx[-1] is tok:
            self.ctx.pop()
        self._note_exc(tok["k"], exc)
        if not tok["accepted"] and exc is None:
            self._emit(tok["k"], "Drop", tome=tok["tome"], **self._frame(tok["frame"]))

    def _b_sessin(self, sem, frame=None, from_network_interface=None, *a, **kw):
        k = self._k_sess(sem)
        if k is None:
            return None
        tome = True
        if self.ctx and self.ctx[-1]["kind"] == "node" and self.ctx[-1]["k"] == k:
            self.ctx[-1]["accepted"] = True
            tome = self.ctx[-1]["tome"]
        self._emit(k, "Accept", tome=tome, **self._frame(frame))
        c = {"kind": "in", "k": k, "sem": sem, "new": False, "done": False}
        self.ctx.append(c)
        return c

    def _a_sessin(self, sem, tok, ret, exc, *a, **kw):
        if tok is None or self.scene is None:
            return
        if self.ctx and self.ctx[-1] is tok:
            self.ctx.pop()
        self._note_exc(tok["k"], exc)

    def _b_dispatch(self, swm, *a, **kw):
        k = self._k_sm(swm)
        if k is None:
            return None
        new, key = False, []
        if self.ctx and self.ctx[-1]["kind"] == "in" and self.ctx[-1]["k"] == k:
            self.ctx[-1]["done"] = True
            new, key = self.ctx[-1]["new"], self.ctx[-1].get("key", [])
        self._emit(k, "SessIn", new=new, key=key, nsess=len(self.scene.nodes[k].session_manager.sessions_by_key))
        c = {"kind": "dispatch", "k": k}
        self.ctx.append(c)
        return c

    def _a_dispatch(self, swm, tok, ret, exc, *a, **kw):
        if tok is None or self.scene is None:
            return
        if self.ctx and self.ctx[-1] is tok:
            self.ctx.pop()
        self._note_exc(tok["k"], exc)
        self._emit(tok["k"], "DispatchEnd")

    def _b_recv(self, sw, *a, **kw):
        if self.scene is None:
            return None
        top = self.ctx[-1] if self.ctx else None
        if top is not None and top["kind"] == "recv" and top["obj"] is sw:
            c = {"kind": "recv", "obj": sw, "k": top["k"], "nested": True}  # super().receive(...) of the same delivery
            self.ctx.append(c)
            return c
        swm = getattr(sw, "software_manager", None)
        k = self._k_sm(swm)
        if k is None or top is None or top["kind"] != "dispatch" or top["k"] != k:
            return None
        name = sw.name if swm.software.get(sw.name) is sw else "<gone>" + sw.name
        self._emit(k, "Deliver", n=name)
        c = {"kind": "recv", "obj": sw, "k": k, "nested": False}
        self.ctx.append(c)
        return c

    def _a_recv(self, sw, tok, ret, exc, *a, **kw):
        if tok is None or self.scene is None:
            return
        if self.ctx and self.ctx[-1] is tok:
            self.ctx.pop()
        self._note_exc(tok["k"], exc)

    # -- connections, queries
    def _a_addconn(self, sw, tok, ret, exc, connection_id=None, session_id=None, *a, **kw):
        k = self._k_sw(sw) if self.scene is not None else None
        if k is None or not self.scene.cat[k].get(sw.name, {}).get("track"):
            return
        self._note_exc(k, exc)
        self._emit(k, "AddConn", n=sw.name, cid=self.scene.cid(k, connection_id), ok=bool(ret), cnt=len(sw._connections))

    def _b_termconn(self, sw, connection_id=None, *a, **kw):
        return True

    def _a_termconn(self, sw, tok, ret, exc, connection_id=None, *a, **kw):
        k = self._k_sw(sw) if self.scene is not None else None
        if k is None or not self.scene.cat[k].get(sw.name, {}).get("track"):
            return
        self._note_exc(k, exc)
        self._emit(k, "TermConn", n=sw.name, cid=self.scene.cid(k, connection_id), ok=bool(ret), cnt=len(sw._connections))

    def _a_clearconns(self, sw, tok, ret, exc, *a, **kw):
        k = self._k_sw(sw) if self.scene is not None else None
        if k is None or not self.scene.cat[k].get(sw.name, {}).get("track"):
            return
        self._emit(k, "ClearConns", n=sw.name, cnt=len(sw._connections))

    def _a_open(self, swm, tok, ret, exc, *a, **kw):
        if self.mute:
            return
        k = self._k_sm(swm)
        if k is not None and exc is None:
            self._emit(k, "OpenPorts", open=sorted({int(p) for p in ret}))


# ------------------------------------------------------------------------------------------------
# stimulus
# ------------------------------------------------------------------------------------------------


def tick(game, n: int = 1):
    for _ in range(n):
        game.pre_timestep()
        game.advance_timestep()


def stimuli_of(beh: List[Dict[str, Any]]) -> List[List[Any]]:
    """The stimulus steps of a TLC behaviour of MC_Transport (the pipeline's own steps are taken by the code)."""
    out, prev = [], 0
    for st in beh:
        s = st["state"]
        if s.get("nstim", 0) == prev:
            continue
        prev = s["nstim"]
        a = st["action"]
        p = tlc.parse_value("<<" + st["params"] + ">>") if st["params"] else []
        if a == "MInstall":
            out.append(["install", p[0]])
        elif a == "MUninstall":
            out.append(["uninstall", p[0]])
        elif a in ("MStart", "MStop", "MPause", "MResume", "MRun", "MClose"):
            out.append([a[1:].lower(), p[0]])
        elif a == "MPowerOff":
            out.append(["off"])
        elif a == "MPowerOn":
            out.append(["on"])
        elif a == "MSendNew":
            out.append(["send", p[0], p[1], p[2], p[3]])
        elif a == "MFrame":
            f = p[0]
            out.append(["frame", f["proto"], f["ip"], f["sp"], f["dp"], bool(f["tome"]), bool(p[1])])
        elif a == "MAddConn":
            out.append(["addconn", p[0], p[1]])
        elif a == "MTermConn":
            out.append(["termconn", p[0], p[1]])
        elif a == "MClearConns":
            out.append(["clearconns", p[0]])
        elif a == "MClear":
            out.append(["clear"])
        elif a == "MOpenPorts":
            out.append(["openports"])
        else:
            raise tlc.TLCError(f"unexpected stimulus action {a} {p}")
    return out


FULL = [["install", "s1"], ["install", "s2"], ["install", "a1"], ["run", "a1"]]  # the initial state of MC_TransportSimFull

SCRIPTED = [
    # every kind of event at least once, whatever the seed
    {"dur": 0, "steps": [
        ["frame", "tcp", 1, 1, 1, True, True], ["install", "s1"], ["openports"], ["frame", "tcp", 1, 1, 1, True, True],
        ["frame", "tcp", 1, 1, 1, True, False], ["frame", "tcp", 2, 1, 1, True, True], ["frame", "tcp", 1, 3, 3, True, False],
        ["frame", "udp", 1, 1, 1, True, False], ["frame", "tcp", 1, 1, 1, False, True], ["install", "s2"],
        ["frame", "tcp", 1, 1, 1, True, True], ["frame", "udp", 1, 2, 2, True, True], ["pause", "s1"], ["frame", "tcp", 1, 1, 1, True, True],
        ["resume", "s1"], ["stop", "s2"], ["frame", "tcp", 1, 1, 1, True, False], ["start", "s2"], ["send", "s1", "tcp", 1, 1],
        ["send", "s1", "tcp", 1, 1], ["send", "s2", "udp", 2, 3], ["send", "s1", "tcp", 9, 1], ["addconn", "s1", 1], ["addconn", "s1", 2],
        ["addconn", "s1", 3], ["addconn", "s1", 1], ["termconn-loud", "s1", 1], ["termconn-loud", "s1", 1], ["addconn", "s1", 3],
        ["clearconns", "s1"], ["scan", 1], ["off"], ["frame", "tcp", 1, 1, 1, True, True], ["on"],
        ["frame", "tcp", 1, 1, 1, True, True], ["uninstall", "s1"], ["frame", "tcp", 1, 1, 1, True, True], ["uninstall", "s2"],
        ["frame", "tcp", 1, 1, 1, True, True], ["clear"], ["openports"]]},
    # an application installed and removed through the node's requests, started by the install countdown, closed by request;
    # the shared pair goes to the last installed and back
    {"dur": 2, "steps": [
        ["reqinstall", "a1"], ["frame", "tcp", 1, 1, 1, True, True], ["tick"], ["tick"], ["tick"], ["frame", "tcp", 1, 1, 1, True, True],
        ["install", "s1"], ["frame", "tcp", 1, 1, 1, True, True], ["uninstall", "s1"], ["frame", "tcp", 1, 1, 1, True, True],
        ["close", "a1"], ["frame", "tcp", 1, 1, 1, True, True], ["requninstall", "a1"], ["frame", "tcp", 1, 1, 1, True, True],
        ["install", "a1"], ["run", "a1"], ["install", "a1"], ["run", "a1"], ["frame", "tcp", 1, 1, 1, True, True],
        ["off"], ["on"], ["frame", "tcp", 1, 1, 1, True, True], ["openports"]]},
    # real software next to the stubs: a database service and a DoS bot share 5432 / tcp, web server and browser 80 / tcp
    {"dur": 0, "real": True, "steps": [
        ["realinstall", "database-service"], ["realframe", 5432, 1], ["realinstall", "web-server"], ["realframe", 80, 1],
        ["realinstall", "ftp-server"], ["realframe", 21, 1], ["openports"], ["realuninstall", "web-server"], ["realframe", 80, 1]]},
    # the registered owner of a shared pair is closed while the other claimant runs
    {"dur": 0, "steps": [["install", "s1"], ["install", "a1"], ["frame", "tcp", 1, 1, 1, True, True], ["run", "a1"],
                         ["frame", "tcp", 1, 1, 1, True, True], ["close", "a1"], ["frame", "tcp", 1, 1, 1, True, True]]},
    # a frame whose source port differs from its destination port, answered on its session
    {"dur": 0, "steps": [["install", "s1"], ["frame", "tcp", 1, 4, 1, True, True], ["frame", "tcp", 1, 4, 1, True, True]]},
    # an echo request and its reply: the session of an outbound ICMP packet
    {"dur": 0, "steps": [["ping", 1], ["ping", 1]]},
    # a connection terminated without a disconnect message
    {"dur": 0, "steps": [["install", "s1"], ["frame", "tcp", 1, 1, 1, True, False], ["addconn", "s1", 1], ["termconn-quiet", "s1", 1],
                         ["addconn", "s1", 1], ["termconn-loud", "s1", 1]]},
]


def replay(rec: Recorder, steps: List[List[Any]], dur: int, rng: random.Random, meta: Dict[str, Any],
           full: bool = False) -> List[Dict[str, Any]]:
    from primaite.simulator.network.transmission.data_link_layer import EthernetHeader, Frame
    from primaite.simulator.network.transmission.network_layer import IPPacket
    from primaite.simulator.network.transmission.transport_layer import TCPHeader, UDPHeader
    from primaite.simulator.system.applications.application import Application
    from primaite.simulator.system.services.service import Service

    cfg = scenarios.switched(3)
    for n in cfg["simulation"]["network"]["nodes"]:
        if n["hostname"] == DUT:
            n.update(start_up_duration=dur, shut_down_duration=dur)
    game = scenarios.build(cfg)
    net = game.simulation.network
    dut = net.get_node_by_hostname(DUT)
    swm = dut.software_manager
    cls = stubs()
    net.get_node_by_hostname(PEER[1]).software_manager.install(cls["vt-s1"])  # peer 1 can take the answers

    def sw(n):
        return swm.software.get(MC_SW.get(n, n))

    def req(*path):
        return game.simulation.apply_request(["network", "node", DUT, *path])

    def inject(proto, ipn, sport, dport, tome, payload):
        peer = net.get_node_by_hostname(PEER[ipn]).network_interface[1]
        to = dut.network_interface[1]
        hdr = {"tcp": TCPHeader(src_port=sport, dst_port=dport)} if proto == "tcp" else {"udp": UDPHeader(src_port=sport, dst_port=dport)}
        peer.send_frame(Frame(ethernet=EthernetHeader(src_mac_addr=peer.mac_address, dst_mac_addr=to.mac_address),
                              ip=IPPacket(src_ip_address=str(peer.ip_address), dst_ip_address=DUT_IP if tome else ELSEWHERE, protocol=proto),
                              payload=payload, **hdr))

    def apply(st):
        k = st[0]
        if k == "install":
            swm.install(cls[MC_SW[st[1]]])
        elif k == "uninstall":
            swm.uninstall(MC_SW[st[1]])
        elif k == "reqinstall":
            req("software_manager", "application", "install", MC_SW[st[1]])
        elif k == "requninstall":
            req("software_manager", "application", "uninstall", MC_SW[st[1]])
        elif k in ("start", "stop", "pause", "resume"):
            req("service", MC_SW[st[1]], k)
        elif k == "close":
            req("application", MC_SW[st[1]], "close")
        elif k == "run":
            if sw(st[1]) is not None:
                sw(st[1]).run()
        elif k in ("off", "on"):
            req("shutdown" if k == "off" else "startup")
            tick(game, dur + 1)
        elif k == "tick":
            tick(game, 1)
        elif k == "send":
            if sw(st[1]) is not None:
                sw(st[1]).send({"vt": "msg"}, dest_ip_address=MC_IP[st[3]], dest_port=MC_PORT[st[4]], ip_protocol=st[2])
        elif k == "frame":
            _k, proto, ipn, sp, dp, tome, echo = st
            inject(proto, ipn, MC_PORT[sp], MC_PORT[dp], tome, {"vt": "echo" if echo else "msg", "k": len(applied)})
        elif k == "addconn":
            if sw(st[1]) is not None:
                me = sw(st[1])  # a session of this software's own conversations (or none)
                sids = [u for u, x in dut.session_manager.sessions_by_uuid.items() if x.dst_port == me.port and x.protocol == me.protocol]
                me.add_connection(connection_id=f"c{st[2]}", session_id=rng.choice(sids) if sids else None)
        elif k in ("termconn", "termconn-quiet", "termconn-loud"):
            s = sw(st[1])
            if s is not None:
                has_session = bool((s._connections.get(f"c{st[2]}") or {}).get("session_id"))
                loud = has_session and (k == "termconn-loud" or (k == "termconn" and rng.random() < 0.7))
                s.terminate_connection(f"c{st[2]}", send_disconnect=loud)
        elif k == "clearconns":
            if sw(st[1]) is not None:
                sw(st[1]).clear_connections()
        elif k == "clear":
            dut.session_manager.clear()
        elif k == "openports":
            swm.get_open_ports()
        elif k == "ping":
            net.get_node_by_hostname(PEER[st[1]]).ping(DUT_IP, 1)
            dut.ping(MC_IP[st[1]], 1)
        elif k == "scan":
            nm = net.get_node_by_hostname(PEER[st[1]]).software_manager.software.get("nmap")
            nm.port_scan(target_ip_address=DUT_IP, target_port=[MC_PORT[1], 22, MC_PORT[3]], target_protocol=["tcp"], show=False)
        elif k == "realinstall":
            c = Service._registry.get(st[1]) or Application._registry.get(st[1])
            swm.install(c)
        elif k == "realuninstall":
            swm.uninstall(st[1])
        elif k == "realframe":
            inject("tcp", st[2], st[1], st[1], True, {"vt": "msg"})
        else:
            raise RuntimeError(f"unknown stimulus {st}")

    applied: List[List[Any]] = []
    if full:
        for st in FULL:
            apply(st)
    scene = Scene(net)
    rec.start(scene)
    dut_k = scene.node_ix[id(dut)]
    for st in steps:
        try:
            apply(st)
        except Exception as e:  # noqa  an exception out of the repository's code is an event no module allows
            rec.raised(e, dut_k)
        rec.quiet()
        applied.append(st)
    return rec.stop(dict(meta, dur=dur), applied)


def scenario_run(rec: Recorder, name: str, steps: int, seed: int) -> List[Dict[str, Any]]:
    """A shipped scenario through the real environment with random actions; every host projected onto this component."""
    from primaite.session.environment import PrimaiteGymEnv

    cfg = scenarios.shipped(name)
    io = cfg.setdefault("io_settings", {})
    for k in ("save_agent_actions", "save_step_metadata", "save_pcap_logs", "save_sys_logs", "save_agent_logs"):
        io[k] = False
    try:
        env = PrimaiteGymEnv(env_config=copy.deepcopy(cfg))
        env.reset(seed=seed)
        env.action_space.seed(seed)
        game = env.game
    except StopIteration:  # no proxy agent: the game is stepped directly
        env = None
        game = scenarios.build(cfg)
    rng = random.Random(seed)
    scene = Scene(game.simulation.network)
    rec.start(scene)
    stim = []
    for step in range(steps):
        try:
            if env is not None:
                act = env.action_space.sample() if rng.random() < 0.7 else 0
                env.step(act)
            else:
                act = 0
                game.step()
            stim.append(["step", int(act) if not isinstance(act, dict) else str(act)])
        except Exception as e:  # noqa
            rec.raised(e, 0)
            rec.quiet()
            break
        rec.quiet()
    trs = rec.stop({"kind": "scenario", "scenario": name, "steps": steps}, stim)
    if env is not None:
        env.close()
    return trs


# ------------------------------------------------------------------------------------------------


def key_of(e: Dict[str, Any]) -> str:
    k = e["ev"]
    if k in ("Accept", "Drop"):
        k += ":" + e["kind"] + ("" if e["tome"] else ":elsewhere")
    elif k in ("SendNew", "SendSess"):
        k += "" if e["built"] else ":unbuilt"
    elif k in ("AddConn", "TermConn"):
        k += "" if e["ok"] else ":refused"
    elif k in ("SessIn",):
        k += ":new" if e["new"] else ":known"
    return k


def main(tier: str, seed: int) -> int:
    chk = common.Check("EXT-sessions_ports", "model_checking", tier, seed)
    quick = tier == "quick"
    phases: Dict[str, float] = {}
    t_ph = [time.time()]

    def phase(name: str):
        phases[name] = round(time.time() - t_ph[0], 1)
        t_ph[0] = time.time()

    # (a) the model, its negative configurations and the behaviours, side by side
    from concurrent.futures import ThreadPoolExecutor

    negs = (("MC_TransportShadowAsCoded.cfg", "ServedWhenOpen"), ("MC_TransportReplyAsCoded.cfg", "ReplyOnSameSession"))
    nbeh = 30 if quick else 400
    with ThreadPoolExecutor(max_workers=5) as ex:
        f_mc = ex.submit(tlc.mc, "MC_Transport", cfg="MC_Transport.cfg" if quick else "MC_TransportDeep.cfg", timeout=1500)
        f_neg = [ex.submit(tlc.mc, "MC_Transport", cfg=neg, coverage=False, workers=4) for neg, _ in negs]
        f_sim = ex.submit(tlc.simulate, "MC_Transport", cfg="MC_TransportSim.cfg", num=nbeh, depth=70, seed=seed)
        f_sim2 = ex.submit(tlc.simulate, "MC_Transport", cfg="MC_TransportSimFull.cfg", num=nbeh, depth=70, seed=seed + 1000)
        common.boot()  # (primaite's import takes as long as the model runs)
        r, rneg = f_mc.result(), [f.result() for f in f_neg]
        (behs, _info), (behs_full, _info2) = f_sim.result(), f_sim2.result()
    phase("tlc_model_runs_and_boot")
    if not r["ok"]:
        chk.violation({"module": "MC_Transport", "clause": str(r["violation"])}, {"tlc": r["output_tail"]})
    need = ["MInstall", "MUninstall", "MStart", "MStop", "MPause", "MResume", "MRun", "MClose", "MPowerOff", "MPowerOn",
            "MSendNew", "MFrame", "MAddConn", "MTermConn", "MClearConns", "MClear", "MOpenPorts", "MSettle", "MSessIn",
            "MDeliver", "MReply", "MDispatchEnd"]
    idle = sorted(a for a in need if r["coverage"].get(a, (0, 0))[1] == 0)
    if idle:
        raise tlc.TLCError(f"vacuous model MC_Transport: actions never taken: {idle}")
    chk.add_mc("MC_Transport(s1, a1 share 1/tcp; s2 on 2/udp listens on 1; %s; <= 2 sessions)" % ("5 stimuli, 1 peer" if quick else "6 stimuli, 2 peers"), r)
    for (neg, inv), rn in zip(negs, rneg):
        if rn["ok"] or rn["violation"] != ("invariant", inv):
            raise tlc.TLCError(f"negative configuration {neg}: TLC did not refute {inv} ({rn['violation']})")
        chk.notes.append(f"{neg}: TLC refutes {inv} for that variant of the model ({rn['distinct']} states)")

    # (b), (c) behaviours of the model as stimulus for real hosts
    rec = Recorder()
    rec.install()
    traces: List[Dict[str, Any]] = []
    for k, sc in enumerate(SCRIPTED):
        traces += replay(rec, sc["steps"], sc["dur"], random.Random(f"{seed}:s:{k}"), {"kind": "scripted", "index": k})
    for full, bb in ((False, behs), (True, behs_full)):
        for k, beh in enumerate(bb):
            steps = stimuli_of(beh)
            if not steps:
                continue
            dur = 0 if k % 3 else 2
            traces += replay(rec, steps, dur, random.Random(f"{seed}:b:{k}:{full}"), {"kind": "tlc-behaviour", "index": k, "full": full}, full=full)
            chk.add_case(steps)
    phase("replay")
    # (e) scenario scale
    shipped = [("data_manipulation.yaml", 60), ("uc7_config.yaml", 15)] if quick else [("data_manipulation.yaml", 120), ("uc7_config.yaml", 60),
                                                              ("basic_lan_network_example.yaml", 20), ("data_manipulation.yaml", 120)]
    for j, (name, n) in enumerate(shipped):
        t0 = time.time()
        trs = scenario_run(rec, name, n, seed * 7 + j)
        traces += trs
        chk.notes.append(f"scenario {name}: {n} steps, {len(trs)} hosts, {sum(len(t['ev']) for t in trs)} events recorded in {time.time() - t0:.1f}s")
    phase("scenarios")

    # (d) TLC judges
    chunk = max(8, -(-len(traces) // 6)) if quick else 40  # quick: six JVMs
    res = tlc.validate("TransportTrace", traces, chunk=chunk, parallel=8)

    ROOT = ("ReplyOnSameSession", "SessionKeyedByConversation", "ServedWhenOpen", "TerminateReportsRemoval")

    def together(fail, e) -> set:
        """Clauses that are faces of one divergence: skipped together when looking behind it, named by one of them."""
        fail = set(fail)
        if fail & {"ReplyOnSameSession", "NoGrowthOnReply"} and e.get("ev") == "SendSess":
            fail |= {"ReplyOnSameSession", "NoGrowthOnReply"}
        if fail & {"SessionKeyedByConversation", "OneSessionPerConversation"} and e.get("ev") == "SendNew" and e.get("proto") == "icmp":
            fail |= {"SessionKeyedByConversation", "OneSessionPerConversation"}  # the session of an outbound ICMP packet
        return fail

    def clause_of(fail, e) -> str:
        fail = together(fail, e)
        for c in ROOT:
            if c in fail:
                return c
        return ",".join(sorted(fail)) if fail else "no-matching-action"

    def sig(t, e, st):
        d = {"ev": e.get("ev")}
        if st.get("fail"):
            d["clause"] = clause_of(st["fail"], e)
        return d

    small = [i for i, t in enumerate(traces) if t["meta"].get("kind") != "scenario"]
    sub = {"results": [res["results"][i] for i in small], "stuck": [res["stuck"][i] for i in small], "states": 0, "distinct": 0}
    common.binding_selftest(chk, "TransportTrace", [traces[i] for i in small], sub, n=2 if quick else 4)
    common.judge_traces(chk, "Transport", traces, res, sig)
    phase("validate_and_selftest")
    # a rejected trace is examined no further than its first divergence: look behind it with the failed clauses skipped
    # (this can only add violations - the verdict above stands)
    beyond = {"rounds": 0, "re_examined": 0, "further_divergences": 0}
    todo = [(t, (s or {}).get("fail") or [], reached) for t, (reached, length), s in zip(traces, res["results"], res["stuck"])
            if reached != length + 1]
    while todo and beyond["rounds"] < 4:
        beyond["rounds"] += 1
        again = []
        for t, fail, at in todo:
            if fail:
                more = together(fail, t["ev"][at - 1] if 0 < at <= len(t["ev"]) else {})
                again.append({"cfg": dict(t["cfg"], skip=sorted(set(t["cfg"]["skip"]) | more)), "ev": t["ev"],
                              "meta": dict(t["meta"], stuck_at=at), "stimulus": t["stimulus"]})
        if not again:
            break
        beyond["re_examined"] += len(again)
        r2 = tlc.validate("TransportTrace", again, chunk=max(4, -(-len(again) // 8)), parallel=8)
        todo = []
        for t2, (reached, length), st in zip(again, r2["results"], r2["stuck"]):
            if reached == length + 1:
                continue
            fail = (st or {}).get("fail") or []
            if not fail and reached == t2["meta"]["stuck_at"]:
                continue  # the same divergence, seen through the guard of the action
            event = t2["ev"][reached - 1] if 0 < reached <= length else {}
            beyond["further_divergences"] += 1
            chk.violation(dict(sig(t2, event, st or {}), module="Transport", event=event.get("ev"), clause=clause_of(fail, event)),
                          {"meta": t2["meta"], "behind": t2["cfg"]["skip"], "position": reached, "event": event, "spec_state_before": (st or {}).get("st"),
                           "failing_clauses": fail, "prefix": t2["ev"][: reached - 1][-30:], "stimulus": t2["stimulus"]})
            todo.append((t2, fail, reached))
    chk.cov["beyond_first_divergence"] = beyond
    phase("beyond_first_divergence")
    chk.cov["phase_wall_s"] = phases

    # vacuity
    accepted = [t for t, (reached, length) in zip(traces, res["results"]) if reached == length + 1]
    counts: Dict[str, int] = {}
    for t in traces:
        for e in t["ev"]:
            counts[key_of(e)] = counts.get(key_of(e), 0) + 1
    chk.cov["recorded_events"] = dict(sorted(counts.items()))
    chk.cov["traces"] = {"total": len(traces), "accepted": len(accepted), "events": sum(len(t["ev"]) for t in traces),
                         "behaviours": len(behs) + len(behs_full),
                         "scenario_traces": sum(1 for t in traces if t["meta"].get("kind") == "scenario"),
                         "scenario_events": sum(len(t["ev"]) for t in traces if t["meta"].get("kind") == "scenario")}
    must = ["Install", "Uninstall", "SetOp", "Power", "SendNew", "SendNew:unbuilt", "SendSess", "Clear", "Accept:data", "Accept:scan",
            "Drop:data", "Drop:data:elsewhere", "SessIn:new", "SessIn:known", "Deliver", "DispatchEnd", "AddConn", "AddConn:refused",
            "TermConn", "TermConn:refused", "ClearConns", "OpenPorts", "Quiet"]
    missing = [m for m in must if not counts.get(m)]
    if missing:
        raise RuntimeError(f"vacuous replay: actions never exercised in the code: {missing}")
    if not accepted:
        raise RuntimeError("no trace was accepted")
    scen = [t for t in traces if t["meta"].get("kind") == "scenario"]
    if not any(e["ev"] == "Deliver" for t in scen for e in t["ev"]):
        raise RuntimeError("vacuous scenario runs: no payload was delivered to any software")
    if raised := [t for t in traces if any(e["ev"].startswith("Raised") for e in t["ev"])]:
        chk.notes.append(f"{len(raised)} trace(s) contain an exception raised by repository code")
    chk.sample({"scripted": traces[0]["stimulus"][:6],
                "events": [{k: v for k, v in e.items() if v not in (0, "", False, [])} for e in traces[0]["ev"][:10]]})
    chk.assumptions += [
        "one trace per host (Computer / Server); routers, firewalls and switches are not tracked; what a receiver does with a "
        "payload belongs to the modules of the services",
        "the first port check may go either way for a frame whose port is open for another protocol only (the documentation "
        "names port and protocol, the code looks at the port)",
        "no event that ends a session or a connection other than SessionManager.clear / terminate_connection / "
        "clear_connections / uninstall is documented; none is demanded (sessions and connections survive stop and shut-down)",
        "addresses and connection ids are numbered by first occurrence per run; the Terminal service keeps its connections "
        "without add_connection and is left out of the connection clauses",
    ]
    return chk.finish()
