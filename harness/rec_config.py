"""C20 recorders: the two independent flatteners (scenario dict -> declaration facts, built object
graph -> inventory facts), scenario re-serialisation (mapping-key order / flow style / quoting) and
seeded trajectories with canonical per-step digests.

A fact is ``{"kind": str, "key": [str, ...], "val": [str, ...]}`` - strings only, so that TLC compares
them without type clashes.  ``""`` in a *declared* value means "the file does not state it" (the
defaulting rule of spec/ConfigSem.tla then applies, or the value stays unconstrained: ``"*"``).

Nothing in this file decides anything: the declaration side only transcribes what the file says, the
inventory side only reads objects, ``spec/ConfigSemTrace.tla`` compares.
"""
from __future__ import annotations

import copy
import enum
import hashlib
import ipaddress
import json
import random
from typing import Any, Dict, List, Optional, Tuple

import yaml

from . import project

HOST_TYPES = ("computer", "server", "printer")
FW_PORTS = {"external_port": "1", "internal_port": "2", "dmz_port": "3"}  # firewall.rst: port 1 / 2 / 3
FW_ACLS = ("internal_inbound_acl", "internal_outbound_acl", "dmz_inbound_acl", "dmz_outbound_acl",
           "external_inbound_acl", "external_outbound_acl")
ODDITIES: Dict[str, int] = {}  # observations outside the statement (reported as drift in the evidence)
NET = "<net>"  # pseudo host of the network-level trace (links, agents, counts)


def F(kind: str, key: List[Any], val: List[Any]) -> Dict[str, Any]:
    return {"kind": kind, "key": [str(k) for k in key], "val": [str(v) for v in val]}


# ---------------------------------------------------------------------------------------
# value normalisation (shared vocabulary of the two flatteners; no defaulting here)
# ---------------------------------------------------------------------------------------


def norm(v: Any) -> str:
    if v is None:
        return "none"
    if isinstance(v, bool):
        return "true" if v else "false"
    if isinstance(v, enum.Enum):
        return v.name
    if isinstance(v, int):
        return str(v)
    if isinstance(v, float):
        return str(int(v)) if v == int(v) else repr(round(v, 9))
    if isinstance(v, (ipaddress.IPv4Address, ipaddress.IPv4Network)):
        return str(v)
    if isinstance(v, dict):
        return ";".join(sorted(f"{norm(k)}={norm(x)}" for k, x in v.items()))
    if isinstance(v, (list, tuple, set, frozenset)):
        return ",".join(sorted(norm(x) for x in v))
    return str(v)


def _port_no(p: Any) -> str:
    """Port vocabulary: a name of the documented port list or a number -> number."""
    from primaite.utils.validation.port import PORT_LOOKUP

    if p is None or p == "":
        return "ANY"
    if isinstance(p, str) and p in PORT_LOOKUP:
        return str(PORT_LOOKUP[p])
    return str(p)


def _proto(p: Any) -> str:
    from primaite.utils.validation.ip_protocol import PROTOCOL_LOOKUP

    if p is None or p == "":
        return "ANY"
    if isinstance(p, str) and p in PROTOCOL_LOOKUP:
        return str(PROTOCOL_LOOKUP[p])
    return str(p)


def _ports_list(v: Any) -> str:
    return ",".join(sorted({_port_no(x) for x in (v or [])}, key=lambda s: (len(s), s)))


def _optval(k: str, v: Any) -> str:
    """Option value in the shared vocabulary: port names -> numbers, protocol names -> protocol values."""
    if k == "listen_on_ports":
        return _ports_list(v)
    if k.endswith("port") and v is not None:
        return _port_no(v)
    if k.endswith("protocol") and v is not None:
        return _proto(v)
    return norm(v)


def _plain(v: Any) -> bool:
    return v is None or isinstance(v, (str, int, float, bool, enum.Enum, ipaddress.IPv4Address, dict, list, tuple, set, frozenset))


def file_identity(name: str, ftype: str) -> Tuple[str, str]:
    """The file system's naming convention (file.py File.__init__, relied upon by the repository's tests): a name
    without extension and with a known type is stored as ``name.<type>``; a name with an extension determines the
    type itself (the declared type is then not an independent attribute)."""
    if "." in name:
        # the extension (the text after the LAST dot) names the type; file_type.py: "If a matching extension does not
        # exist, FileType.UNKNOWN is returned" (the enum's member names are the vocabulary of extensions)
        from primaite.simulator.file_system.file_type import FileType

        ext = name.rsplit(".", 1)[1].upper()
        return name, (ext if ext in FileType.__members__ else "UNKNOWN")
    if ftype and ftype.upper() != "UNKNOWN":
        return f"{name}.{ftype.lower()}", ftype.upper()
    return name, ftype.upper()


def _milli(x: Any) -> str:
    try:
        return str(int(round(float(x) * 1000)))
    except Exception:  # noqa
        return str(x)


def _opt(d: Dict[str, Any], k: str) -> str:
    """Declared value or "" when the file does not state it."""
    if not isinstance(d, dict) or k not in d or d[k] is None:
        return ""
    return norm(d[k])


def _acl_val(r: Dict[str, Any]) -> List[str]:
    g = lambda k: "ANY" if r.get(k) in (None, "") else norm(r.get(k))  # noqa
    return [norm(r.get("action", "")), _proto(r.get("protocol")), g("src_ip"), g("src_wildcard_mask"), g("dst_ip"),
            g("dst_wildcard_mask"), _port_no(r.get("src_port")), _port_no(r.get("dst_port"))]


def _link_key(a: str, ap: Any, b: str, bp: Any) -> List[str]:
    e = sorted([(str(a), str(ap)), (str(b), str(bp))])
    return [e[0][0], e[0][1], e[1][0], e[1][1]]


# ---------------------------------------------------------------------------------------
# (1) scenario dict -> declaration facts
# ---------------------------------------------------------------------------------------


def flatten_declared(cfg: Dict[str, Any]) -> Dict[str, List[Dict[str, Any]]]:
    """{hostname | NET: [fact, ...]} - a transcription of the file, nothing defaulted."""
    out: Dict[str, List[Dict[str, Any]]] = {NET: []}
    net = (cfg.get("simulation") or {}).get("network") or {}
    nodes = net.get("nodes") or []
    out[NET].append(F("count", ["nodes"], [len(nodes) if not net.get("node_sets") else "*"]))
    # the `defaults' block: written at the top level or inside `simulation' (the shipped UC7 scenarios and their notebook:
    # "the simulation `defaults` section"); it gives the value of an option that the item itself does not state.  Where an
    # item states the option AND the block names it, nothing is claimed (no document says which one wins).
    dflt = {**((cfg.get("simulation") or {}).get("defaults") or {}), **(cfg.get("defaults") or {})}

    def with_default(item: Dict[str, Any], own: str, block: str) -> str:
        # (a default applies where the item does not state the option itself)
        if isinstance(item, dict) and item.get(own) is not None:
            return norm(item[own])
        return norm(dflt[block]) if dflt.get(block) is not None else ""

    for n in nodes:
        h = str(n.get("hostname"))
        t = str(n.get("type"))
        fs = out.setdefault(h, [])
        fs.append(F("node", [h], [t, _opt(n, "operating_state").upper(), with_default(n, "start_up_duration", "node_start_up_duration"),
                                  with_default(n, "shut_down_duration", "node_shut_down_duration")]))
        if "node_scan_duration" in dflt or n.get("node_scan_duration") is not None:
            fs.append(F("nodeopt", [h, "node_scan_duration"], [with_default(n, "node_scan_duration", "node_scan_duration")]))
        for k in ("default_gateway", "dns_server"):
            if n.get(k) is not None:
                fs.append(F("nodeopt", [h, k], [norm(n[k])]))
        if "num_ports" in n and n["num_ports"] is not None:
            fs.append(F("nports", [h], [norm(n["num_ports"])]))
        # interfaces
        if t in HOST_TYPES:
            fs.append(F("nic", [h, "1"], [norm(n.get("ip_address")), _opt(n, "subnet_mask")]))
            for k, nc in (n.get("network_interfaces") or {}).items():
                fs.append(F("nic", [h, norm(k)], [norm(nc.get("ip_address")), _opt(nc, "subnet_mask")]))
        elif t == "router":
            for k, pc in (n.get("ports") or {}).items():
                fs.append(F("nic", [h, norm(k)], [norm(pc.get("ip_address")), _opt(pc, "subnet_mask")]))
        elif t == "firewall":
            for k, pc in (n.get("ports") or {}).items():
                fs.append(F("nic", [h, FW_PORTS.get(k, str(k))], [norm(pc.get("ip_address")), _opt(pc, "subnet_mask")]))
        elif t == "wireless-router":
            if n.get("router_interface"):
                ri = n["router_interface"]
                fs.append(F("nic", [h, "router_interface"], [norm(ri.get("ip_address")), _opt(ri, "subnet_mask")]))
            if n.get("wireless_access_point"):
                w = n["wireless_access_point"]
                fs.append(F("nic", [h, "wireless_access_point"], [norm(w.get("ip_address")), _opt(w, "subnet_mask")]))
                if w.get("frequency") is not None:
                    fs.append(F("nodeopt", [h, "frequency"], [norm(w["frequency"])]))
        # ACLs
        if t in ("router", "wireless-router"):
            for pos, r in (n.get("acl") or {}).items():
                fs.append(F("acl", [h, "acl", norm(pos)], _acl_val(r)))
        elif t == "firewall":
            for lst, rules in (n.get("acl") or {}).items():
                for pos, r in (rules or {}).items():
                    fs.append(F("acl", [h, lst, norm(pos)], _acl_val(r)))
        # routes
        for r in n.get("routes") or []:
            fs.append(F("route", [h, norm(r.get("address")), _opt(r, "subnet_mask"), norm(r.get("next_hop_ip_address"))],
                        ["" if r.get("metric") is None else _milli(r["metric"])]))
        if isinstance(n.get("default_route"), dict) and n["default_route"].get("next_hop_ip_address"):
            fs.append(F("defroute", [h], [norm(n["default_route"]["next_hop_ip_address"])]))
        # software and options
        for cat, key in (("service", "services"), ("application", "applications")):
            for s in n.get(key) or []:
                name = str(s.get("type"))
                fs.append(F("software", [h, name], [cat]))
                for ok, ov in (s.get("options") or {}).items():
                    if ok == "type":
                        continue
                    fs.append(F("opt", [h, name, str(ok)], [_optval(str(ok), ov)]))
                if cat == "service" and dflt.get("service_fix_duration") is not None and (s.get("options") or {}).get("fixing_duration") is None:
                    fs.append(F("opt", [h, name, "fixing_duration"], [_optval("fixing_duration", dflt["service_fix_duration"])]))
                if cat == "service" and dflt.get("service_restart_duration") is not None:
                    fs.append(F("opt", [h, name, "restart_duration"], [_optval("restart_duration", dflt["service_restart_duration"])]))
        # users
        for u in n.get("users") or []:
            fs.append(F("user", [h, norm(u.get("username"))], [norm(u.get("password")), _opt(u, "is_admin")]))
        # folders and files
        for fo in n.get("folders") or []:
            fs.append(F("folder", [h, norm(fo.get("folder_name"))], []))
            if dflt.get("folder_scan_duration") is not None or dflt.get("folder_restore_duration") is not None:
                fs.append(F("nodeopt", [h, "folder_durations:" + norm(fo.get("folder_name"))],
                            [norm(dflt.get("folder_scan_duration", "*")), norm(dflt.get("folder_restore_duration", "*"))]))
            for fi in fo.get("files") or []:
                fname, ftype = file_identity(norm(fi.get("file_name")), _opt(fi, "type"))
                fs.append(F("file", [h, norm(fo.get("folder_name")), fname], [_opt(fi, "size"), ftype]))
    # node sets (office-lan): what node_sets.rst / the adder's schema declares - the computers and their addresses
    for ns in net.get("node_sets") or []:
        if ns.get("type") != "office-lan":
            continue
        lan, base, start = ns.get("lan_name"), ns.get("subnet_base"), int(ns.get("pcs_ip_block_start", 0))
        for i in range(1, int(ns.get("num_pcs", 0)) + 1):
            h = f"pc_{i}_{lan}"
            out.setdefault(h, []).extend([
                F("node", [h], ["computer", "", "*", "*"]),
                F("nic", [h, "1"], [f"192.168.{base}.{i + start - 1}", ""]),
            ])
    # links
    links = net.get("links") or []
    out[NET].append(F("count", ["links"], [len(links) if not net.get("node_sets") else "*"]))
    for l in links:
        bw = l.get("bandwidth")
        out[NET].append(F("link", _link_key(l.get("endpoint_a_hostname"), l.get("endpoint_a_port"),
                                           l.get("endpoint_b_hostname"), l.get("endpoint_b_port")),
                          ["" if bw is None else _milli(bw)]))
    # agents
    agents = cfg.get("agents") or []
    out[NET].append(F("count", ["agents"], [len(agents)]))
    for a in agents:
        am = ((a.get("action_space") or {}).get("action_map")) or {}
        out[NET].append(F("agent", [norm(a.get("ref"))], [norm(a.get("type")), _opt(a, "team"), len(am)]))
    return out


# ---------------------------------------------------------------------------------------
# (2) built object graph -> inventory facts (reads objects only)
# ---------------------------------------------------------------------------------------


def _type_of(node) -> str:
    from primaite.simulator.network.hardware.base import Node

    for name, cls in Node._registry.items():
        if type(node) is cls:
            return name
    return type(node).__name__


def _agent_type(agent) -> str:
    from primaite.game.agent.interface import AbstractAgent

    for name, cls in AbstractAgent._registry.items():
        if type(agent) is cls:
            return name
    return type(agent).__name__


def _rule_val(r) -> List[str]:
    g = lambda v: "ANY" if v is None else norm(v)  # noqa
    return [norm(r.action), _proto(r.protocol), g(r.src_ip_address), g(r.src_wildcard_mask), g(r.dst_ip_address),
            g(r.dst_wildcard_mask), _port_no(r.src_port), _port_no(r.dst_port)]


def _acl_facts(h: str, lst: str, acl) -> List[Dict[str, Any]]:
    fs = [F("aclimplicit", [h, lst], [norm(acl.implicit_action)])]
    for pos, r in enumerate(acl._acl):
        if r is not None:
            fs.append(F("acl", [h, lst, pos], _rule_val(r)))
    return fs


def _software_category(sw) -> str:
    from primaite.simulator.system.applications.application import Application
    from primaite.simulator.system.services.service import Service

    return "application" if isinstance(sw, Application) else "service" if isinstance(sw, Service) else "software"


def flatten_built(game) -> Dict[str, List[Dict[str, Any]]]:
    out: Dict[str, List[Dict[str, Any]]] = {NET: []}
    net = game.simulation.network
    out[NET].append(F("count", ["nodes"], [len(net.nodes)]))
    for node in net.nodes.values():
        h = str(node.config.hostname)
        t = _type_of(node)
        fs = out.setdefault(h, [])
        fs.append(F("node", [h], [t, norm(node.operating_state), norm(node.config.start_up_duration), norm(node.config.shut_down_duration)]))
        for k in ("default_gateway", "dns_server", "node_scan_duration"):
            v = getattr(node.config, k, None)
            if v is not None:
                fs.append(F("nodeopt", [h, k], [norm(v)]))
        fs.append(F("nports", [h], [len(node.network_interface)]))
        for num, nic in node.network_interface.items():
            ip = getattr(nic, "ip_address", None)
            cls = type(nic).__name__
            key = str(num)
            if t == "wireless-router":
                key = "wireless_access_point" if cls == "WirelessAccessPoint" else "router_interface"
                if cls == "WirelessAccessPoint":
                    fr = getattr(nic, "frequency", None)
                    fs.append(F("nodeopt", [h, "frequency"], [getattr(fr, "name", norm(fr))]))
            if ip is not None:
                fs.append(F("nic", [h, key], [norm(ip), norm(getattr(nic, "subnet_mask", None))]))
        # ACLs, routes
        if t in ("router", "wireless-router"):
            fs += _acl_facts(h, "acl", node.acl)
        if t == "firewall":
            for lst in FW_ACLS:
                fs += _acl_facts(h, lst, getattr(node, lst))
        rt = getattr(node, "route_table", None)
        if rt is not None:
            for r in rt.routes:
                fs.append(F("route", [h, norm(r.address), norm(r.subnet_mask), norm(r.next_hop_ip_address)], [_milli(r.metric)]))
            if rt.default_route is not None:
                fs.append(F("defroute", [h], [norm(rt.default_route.next_hop_ip_address)]))
        # software: EFFECTIVE instances = what the software manager resolves a name to
        eff = node.software_manager.software
        eff_ids = {id(s) for s in eff.values()}
        for name, sw in eff.items():
            fs.append(F("software", [h, str(name)], [_software_category(sw)]))
            fs.append(F("swstate", [h, str(name)], [norm(sw.operating_state), norm(sw.health_state_actual)]))
            cfg_fields = list(type(sw.config).model_fields)
            for k in cfg_fields:
                v = getattr(sw.config, k, None)
                fs.append(F("opt", [h, str(name), k], [_optval(k, v)]))
                if hasattr(sw, k):  # runtime attribute of the same name: what the behaviour reads
                    a = getattr(sw, k)
                    if _plain(a):
                        fs.append(F("optattr", [h, str(name), k], [_optval(k, a)]))
                    else:
                        ODDITIES[f"{type(sw).__name__}.{k} is a {type(a).__name__}, not data"] = ODDITIES.get(
                            f"{type(sw).__name__}.{k} is a {type(a).__name__}, not data", 0) + 1
            if "restart_duration" not in cfg_fields and hasattr(sw, "restart_duration") and _plain(getattr(sw, "restart_duration")):
                fs.append(F("opt", [h, str(name), "restart_duration"], [_optval("restart_duration", sw.restart_duration)]))
        for coll in (node.services, node.applications):
            for sw in coll.values():
                if id(sw) not in eff_ids:
                    fs.append(F("leftover", [h, str(sw.name)], [_software_category(sw), type(sw).__name__, norm(sw.operating_state)]))
        # users
        um = eff.get("user-manager")
        if um is not None:
            seen: Dict[str, int] = {}
            for u in um.users.values():
                seen[u.username] = seen.get(u.username, 0) + 1
                fs.append(F("user", [h, norm(u.username)], [norm(u.password), norm(u.is_admin)]))
            for name, c in seen.items():
                if c > 1:
                    fs.append(F("user", [h, norm(name) + "#dup"], [str(c), ""]))
        # folders / files (live ones)
        for fo in node.file_system.folders.values():
            if getattr(fo, "deleted", False):
                continue
            fs.append(F("folder", [h, norm(fo.name)], []))
            fs.append(F("nodeopt", [h, "folder_durations:" + norm(fo.name)], [norm(fo.scan_duration), norm(fo.restore_duration)]))
            for fi in fo.files.values():
                if getattr(fi, "deleted", False):
                    continue
                fs.append(F("file", [h, norm(fo.name), norm(fi.name)], [norm(fi.size), norm(fi.file_type)]))
    out[NET].append(F("count", ["links"], [len(net.links)]))
    for l in net.links.values():
        a, b = l.endpoint_a, l.endpoint_b
        out[NET].append(F("link", _link_key(a._connected_node.config.hostname, a.port_num, b._connected_node.config.hostname, b.port_num),
                          [_milli(l.bandwidth)]))
    out[NET].append(F("count", ["agents"], [len(game.agents)]))
    for ref, ag in game.agents.items():
        out[NET].append(F("agent", [norm(ref)], [_agent_type(ag), "" if ag.config.team is None else norm(ag.config.team),
                                                len(ag.action_manager.action_map)]))
    return out


def dedup(facts: List[Dict[str, Any]]) -> List[Dict[str, Any]]:
    seen, out = set(), []
    for f in facts:
        k = json.dumps(f, sort_keys=True)
        if k not in seen:
            seen.add(k)
            out.append(f)
    return out


# ---------------------------------------------------------------------------------------
# (3) re-serialisation: mapping-key order, flow/block style, quoting  (lists are never reordered)
# ---------------------------------------------------------------------------------------


def _kkey(k: Any):
    return (type(k).__name__, k if isinstance(k, (int, float, str)) else str(k))


def reorder(o: Any, mode: str, keep: Tuple[str, ...] = ()) -> Any:
    """A copy of ``o`` whose MAPPINGS have their keys in sorted / reversed-sorted / reversed-original order; a mapping
    that is the value of a key listed in ``keep`` retains its own key order (its sub-mappings are still reordered)."""

    def go(x: Any, fixed: bool) -> Any:
        if isinstance(x, dict):
            ks = list(x.keys())
            if not fixed:
                if mode == "sorted":
                    ks = sorted(ks, key=_kkey)
                elif mode == "rsorted":
                    ks = sorted(ks, key=_kkey, reverse=True)
                elif mode == "reversed":
                    ks = ks[::-1]
            return {k: go(x[k], k in keep) for k in ks}
        if isinstance(x, list):
            return [go(y, False) for y in x]
        return copy.deepcopy(x)

    return go(o, False)


VARIANTS = {
    # name: (key order, yaml.safe_dump options)
    "sorted_block": ("sorted", dict(default_flow_style=False)),
    "reversed_flow": ("reversed", dict(default_flow_style=True, width=4000)),
    "rsorted_quoted": ("rsorted", dict(default_flow_style=False, default_style='"', width=60, indent=6)),
}


def variant(cfg: Dict[str, Any], name: str, keep: Tuple[str, ...] = ()) -> Tuple[Dict[str, Any], str]:
    """(scenario dict loaded back from the re-serialised text, the text)."""
    mode, opts = VARIANTS[name]
    text = yaml.safe_dump(reorder(cfg, mode, keep), sort_keys=False, **opts)
    back = yaml.safe_load(text)
    if back != cfg:  # dict equality ignores key order: the variant differs ONLY in formatting / key order
        raise RuntimeError(f"re-serialisation {name} changed the scenario's content (harness bug)")
    return back, text


# ---------------------------------------------------------------------------------------
# seeded trajectory with canonical digests
# ---------------------------------------------------------------------------------------


def _sort_dicts(o: Any) -> Any:
    """project.snapshot keeps dict insertion order ({"d": [[k, v], ...]}); behaviour is not insertion order."""
    if isinstance(o, dict):
        if set(o.keys()) == {"d"} and isinstance(o["d"], list):
            items = [[_sort_dicts(k), _sort_dicts(v)] for k, v in o["d"]]
            return {"d": sorted(items, key=lambda kv: json.dumps(kv[0], sort_keys=True, default=str))}
        return {k: _sort_dicts(v) for k, v in o.items()}
    if isinstance(o, list):
        return [_sort_dicts(x) for x in o]
    return o


def _num(s: str) -> int:
    return int(hashlib.sha1(s.encode()).hexdigest()[:7], 16)  # < 2^28


def sim_digests(sim) -> Tuple[int, int]:
    """(order-insensitive digest, insertion-order-sensitive digest) of the simulation state."""
    snap = project.snapshot(sim)
    strict = json.dumps(snap, sort_keys=True, default=str)
    loose = json.dumps(_sort_dicts(snap), sort_keys=True, default=str)
    return _num(loose), _num(strict)


_AMBIENT = {"installed": False, "base": 0, "n": 0}


def _control_ambient_entropy(seed: int):
    """gymnasium spaces draw their generator from OS entropy when nobody seeds them (``random-agent`` samples from a
    freshly made space every step): an ambient input of a run, not part of the scenario.  In the harness process only,
    an unseeded ``seeding.np_random()`` gets a reproducible seed, restarted at every trajectory (DESIGN.md 4.5)."""
    import gymnasium.utils.seeding as sd

    if not _AMBIENT["installed"]:
        orig = sd.np_random

        def np_random(seed=None):
            if seed is None:
                _AMBIENT["n"] += 1
                seed = (_AMBIENT["base"] * 100003 + _AMBIENT["n"]) % (2 ** 31)
            return orig(seed)

        sd.np_random = np_random
        _AMBIENT["installed"] = True
    _AMBIENT["base"], _AMBIENT["n"] = seed, 0


def run_trajectory(cfg: Dict[str, Any], steps: int, seed: int, snap_at: Optional[int] = None) -> Dict[str, Any]:
    """Build, then ``steps`` seeded steps; proxy agents get seeded random action indices (by ref)."""
    import numpy as np
    from primaite.game.game import PrimaiteGame

    random.seed(seed)
    np.random.seed(seed)
    _control_ambient_entropy(seed)
    out: Dict[str, Any] = {"loose": [], "strict": [], "agents": [], "exc": ""}
    try:
        game = PrimaiteGame.from_config(copy.deepcopy(cfg))
    except Exception as ex:  # noqa
        out["exc"] = f"from_config:{type(ex).__name__}"
        return out
    d = sim_digests(game.simulation)
    out["loose"].append(d[0])
    out["strict"].append(d[1])
    if snap_at == 0:
        out["snapshot"] = _sort_dicts(project.snapshot(game.simulation))
        return out
    arng = random.Random(seed + 17)
    refs = sorted(game.rl_agents)
    sizes = {r: max(1, len(game.rl_agents[r].action_manager.action_map)) for r in refs}
    keys = {r: sorted(game.rl_agents[r].action_manager.action_map) for r in refs}
    for _ in range(steps):
        for r in refs:
            i = arng.randrange(sizes[r])
            game.rl_agents[r].store_action(keys[r][i] if keys[r] else 0)
        try:
            game.step()
        except Exception as ex:  # noqa
            out["exc"] = f"step:{type(ex).__name__}"
            out["loose"].append(_num(out["exc"]))
            out["strict"].append(_num(out["exc"]))
            break
        d = sim_digests(game.simulation)
        out["loose"].append(d[0])
        out["strict"].append(d[1])
        if snap_at is not None and len(out["loose"]) - 1 == snap_at:
            out["snapshot"] = _sort_dicts(project.snapshot(game.simulation))
            return out
        hist = []
        for ref in sorted(game.agents):
            ag = game.agents[ref]
            if ag.history:
                it = ag.history[-1]
                hist.append([ref, it.action, norm(it.parameters), str(it.response.status),
                             _milli(ag.reward_function.current_reward)])
        out["agents"].append(_num(json.dumps(hist, sort_keys=True, default=str)))
    return out


def explain(cfg_a: Dict[str, Any], cfg_b: Dict[str, Any], steps: int, seed: int, index: int) -> List[Any]:
    """First differences between the two simulations at digest position ``index`` (0 = at the return of from_config)."""
    a = run_trajectory(cfg_a, steps, seed, snap_at=index)
    b = run_trajectory(cfg_b, steps, seed, snap_at=index)
    if "snapshot" not in a or "snapshot" not in b:
        return []
    return [list(x) for x in project.diff(a["snapshot"], b["snapshot"], limit=6)]
