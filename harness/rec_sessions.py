"""Recorder / driver for Sessions.tla (C16): one server node and its client nodes.

A ``Rig`` owns a freshly built game (three connected real nodes), applies one stimulus per spec action
through the request API the agent actions use, and after every call appends one event carrying the
arguments, the answer, the *effect* of a command (the fresh folder exists on the server) and the
projection of the real objects: accounts, current local user, the server's table of remote sessions,
the connection handles each client holds, power and terminal-service flags.

Session ids (uuid4 strings) are canonicalised to 1, 2, ... by first appearance; a uuid keeps its number
for the whole trace, so an id that came back after its session ended would be seen as such.

Which handle a client used for a command / a logoff is observed, not assumed: wrappers on
``RemoteTerminalConnection.execute`` and ``Terminal._disconnect`` (installed in the harness process only)
note the connection id of the first call made on behalf of the client's terminal during the request.
"""
from __future__ import annotations

from typing import Any, Dict, List, Optional, Tuple

from . import scenarios, tracer

_installed = False
_used: List[Tuple[int, str]] = []   # (id(terminal), connection uuid) of RemoteTerminalConnection.execute calls
_disc: List[Tuple[int, str]] = []   # (id(terminal), connection uuid) of Terminal._disconnect calls


def install():
    """Install the two observation wrappers (idempotent)."""
    global _installed
    if _installed:
        return
    from primaite.simulator.system.services.terminal.terminal import RemoteTerminalConnection, Terminal

    def before_exec(conn, command, *a, **k):
        _used.append((id(conn.parent_terminal), str(conn.connection_uuid)))

    def before_disc(term, connection_uuid=None, *a, **k):
        _disc.append((id(term), str(connection_uuid)))

    tracer.wrap(RemoteTerminalConnection, "execute", before=before_exec)
    tracer.wrap(Terminal, "_disconnect", before=before_disc)
    _installed = True


# ---------------------------------------------------------------------------------------------
# topologies: (config dict, server hostname, {model client name: (hostname, server ip seen from it)})
# ---------------------------------------------------------------------------------------------

SERVER_KINDS = ["server", "router", "firewall"]


def _zero_durations(cfg: Dict[str, Any]) -> Dict[str, Any]:
    for n in cfg["simulation"]["network"]["nodes"]:
        n["start_up_duration"] = 0
        n["shut_down_duration"] = 0
    return cfg


def topology(kind: str):
    if kind == "server":
        return _zero_durations(scenarios.switched(3)), "a", {"b": ("b", "192.168.1.2"), "c": ("c", "192.168.1.2")}
    if kind == "router":
        return _zero_durations(scenarios.routed()), "r", {"b": ("a", "192.168.1.1"), "c": ("b", "192.168.2.1")}
    if kind == "firewall":
        return _zero_durations(scenarios.firewalled()), "fw", {"b": ("ext", "192.168.20.1"), "c": ("int", "192.168.1.1")}
    raise ValueError(kind)


FIELDS = {"ev": "", "c": "", "u": "", "p": "", "np": "", "adm": False, "ok": False, "exec": False, "sid": 0,
          "node": "", "kind": "", "during": ""}


class Rig:
    """Three real nodes + the event log of one trace."""

    def __init__(self, kind: str, max_remote: int, timeout: int, admin_pw: str = "p"):
        install()
        cfg, srv, clients = topology(kind)
        self.kind = kind
        self.game = scenarios.build(cfg)
        net = self.game.simulation.network
        self.srv_name = srv
        self.srv = net.get_node_by_hostname(srv)
        self.cli_host = {m: h for m, (h, _ip) in clients.items()}
        self.cli_ip = {m: ip for m, (_h, ip) in clients.items()}
        self.cli = {m: net.get_node_by_hostname(h) for m, (h, _ip) in clients.items()}
        self.ip_to_client: Dict[str, str] = {}
        self.client_addr: Dict[str, str] = {}
        for m, node in self.cli.items():
            for nic in node.network_interface.values():
                self.ip_to_client[str(nic.ip_address)] = m
                self.client_addr.setdefault(m, str(nic.ip_address))
        usm = self.srv.user_session_manager
        usm.remote_session_timeout_steps = timeout
        usm.local_session_timeout_steps = timeout
        usm.max_remote_sessions = max_remote
        # the model's initial account: admin / "p"
        if admin_pw != "admin":
            r = self.req_srv(["service", "user-manager", "change_password", "admin", "admin", admin_pw])
            if getattr(r, "status", None) != "success":
                raise RuntimeError("could not set the initial administrator password")
        self.ids: Dict[str, int] = {}
        self.nfolder = 0
        p0 = self.project()
        self.trace: Dict[str, Any] = {
            "cfg": {"maxRemote": max_remote, "timeout": timeout, "clients": sorted(self.cli), "users": p0["users"],
                    "srvOn": p0["srvOn"], "srvTerm": p0["srvTerm"], "cliOn": p0["cliOn"], "cliTerm": p0["cliTerm"]},
            "ev": [],
            "meta": {"server_type": kind, "server": srv, "clients": dict(self.cli_host)},
            "stimulus": {"server_type": kind, "maxRemote": max_remote, "timeout": timeout, "actions": []},
        }

    # -- plumbing
    def req(self, path: List[Any]):
        return self.game.simulation.apply_request(path)

    def req_srv(self, tail: List[Any]):
        return self.req(["network", "node", self.srv_name] + tail)

    def req_cli(self, c: str, tail: List[Any]):
        return self.req(["network", "node", self.cli_host[c]] + tail)

    def node_name(self, n: str) -> str:
        return self.srv_name if n == "srv" else self.cli_host[n]

    def canon(self, uuid: str) -> int:
        k = self.ids.get(uuid)
        if k is None:
            k = len(self.ids) + 1
            self.ids[uuid] = k
        return k

    def fresh_folder(self) -> str:
        self.nfolder += 1
        return f"vf{self.nfolder}"

    def folder_exists(self, name: str) -> bool:
        return self.srv.file_system.get_folder(name) is not None

    # -- projection (read from the objects, nothing cached)
    def project(self) -> Dict[str, Any]:
        from primaite.simulator.network.hardware.node_operating_state import NodeOperatingState
        from primaite.simulator.system.services.service import ServiceOperatingState
        from primaite.simulator.system.services.terminal.terminal import RemoteTerminalConnection

        um, usm = self.srv.user_manager, self.srv.user_session_manager
        users = [{"name": str(n), "pw": str(u.password), "disabled": bool(u.disabled), "admin": bool(u.is_admin)}
                 for n, u in sorted(um.users.items())]
        rem = []
        for sid, s in usm.remote_sessions.items():
            rem.append({"sid": self.canon(str(sid)), "user": str(s.user.username),
                        "origin": self.ip_to_client.get(str(s.remote_ip_address), "?")})
        conn = {}
        for m, node in self.cli.items():
            held = []
            term = node.terminal
            if term is not None:
                for cid, cn in term._connections.items():
                    if isinstance(cn, RemoteTerminalConnection) and str(cn.ip_address) == self.cli_ip[m]:
                        held.append(self.canon(str(cid)))
            conn[m] = sorted(held)

        def on(node):
            return node.operating_state == NodeOperatingState.ON

        def term_up(node):
            t = node.terminal
            return t is not None and t.operating_state == ServiceOperatingState.RUNNING

        return {
            "users": users,
            "local": str(usm.local_session.user.username) if usm.local_session else "",
            "rem": sorted(rem, key=lambda x: x["sid"]),
            "conn": conn,
            "srvOn": on(self.srv), "srvTerm": term_up(self.srv),
            "cliOn": {m: on(n) for m, n in self.cli.items()},
            "cliTerm": {m: term_up(n) for m, n in self.cli.items()},
        }

    def emit(self, ev: str, **kw):
        e = dict(FIELDS)
        e["ev"] = ev
        e.update(kw)
        e.update(self.project())
        self.trace["ev"].append(e)
        return e

    # -- live facts the driver may consult to choose stimulus variants (never used in the verdict)
    def sessions_of(self, user: str) -> int:
        return sum(1 for s in self.srv.user_session_manager.remote_sessions.values() if s.user.username == user)

    # -- stimuli: one real call per spec action -------------------------------------------------
    @staticmethod
    def _ok(r) -> bool:
        return getattr(r, "status", None) == "success"

    def add_user(self, u: str, pw: str, adm: bool):
        r = self.req_srv(["service", "user-manager", "add_user", u, pw, adm])
        self.emit("AddUser", u=u, p=pw, adm=bool(adm), ok=self._ok(r))

    def disable_user(self, u: str):
        r = self.req_srv(["service", "user-manager", "disable_user", u])
        self.emit("DisableUser", u=u, ok=self._ok(r))

    def change_password(self, u: str, cur: str, new: str):
        r = self.req_srv(["service", "user-manager", "change_password", u, cur, new])
        self.emit("ChangePassword", u=u, p=cur, np=new, ok=self._ok(r))

    def local_login(self, u: str, p: str):
        f = self.fresh_folder()
        r = self.req_srv(["service", "terminal", "send_local_command", u, p,
                          {"command": ["file_system", "create", "folder", f]}])
        self.emit("LocalLogin", u=u, p=p, ok=self._ok(r), exec=self.folder_exists(f))

    def remote_login(self, c: str, u: str, p: str):
        r = self.req_cli(c, ["service", "terminal", "node_session_remote_login", u, p, self.cli_ip[c]])
        self.emit("RemoteLogin", c=c, u=u, p=p, ok=self._ok(r))

    def direct_login(self, c: str, u: str, p: str, entry: str):
        """A remote login that does not come through a client's terminal: the server's own
        ``user-session-manager remote_login`` request (entry "usm-request") or the method behind it
        (entry "usm-api"), with the client's address as the remote address."""
        ip = self.client_addr[c]
        if entry == "usm-request":
            r = self.req_srv(["service", "user-session-manager", "remote_login", u, p, ip])
            ok = self._ok(r)
        else:
            ok = self.srv.user_session_manager.remote_login(u, p, ip) is not None
        self.emit("RemoteLogin", c=c, u=u, p=p, ok=ok)

    def _first(self, log: List[Tuple[int, str]], c: str) -> int:
        term = self.cli[c].terminal
        for tid_, uuid in log:
            if term is not None and tid_ == id(term):
                return self.canon(uuid)
        return 0

    def remote_command(self, c: str):
        f = self.fresh_folder()
        del _used[:]
        try:
            r = self.req_cli(c, ["service", "terminal", "send_remote_command", self.cli_ip[c],
                                 {"command": ["file_system", "create", "folder", f]}])
        finally:
            sid = self._first(_used, c)
        self.emit("RemoteCommand", c=c, sid=sid, ok=self._ok(r), exec=self.folder_exists(f))

    def logoff(self, c: str):
        del _disc[:]
        try:
            r = self.req_cli(c, ["service", "terminal", "remote_logoff", self.cli_ip[c]])
        finally:
            sid = self._first(_disc, c)
        self.emit("Logoff", c=c, sid=sid, ok=self._ok(r))

    def tick(self):
        self.game.pre_timestep()
        self.game.advance_timestep()
        self.emit("Tick", ok=True)

    def power(self, ev: str, n: str, svc_name: str = ""):
        if ev in ("ServiceStop", "ServiceStart") and svc_name:
            tail = ["service", svc_name, "stop" if ev == "ServiceStop" else "start"]
        elif ev in ("ServiceStop", "ServiceStart"):
            # one of the services a session depends on: the terminal, or (every third stop) the user session manager; a start
            # starts whatever was stopped last on that node
            self._svc_events = getattr(self, "_svc_events", 0) + (1 if ev == "ServiceStop" else 0)
            stopped = getattr(self, "_stopped", {})
            if ev == "ServiceStop":
                svc = "user-session-manager" if self._svc_events % 3 == 0 else "terminal"
                stopped[n] = svc
            else:
                svc = stopped.get(n, "terminal")
            self._stopped = stopped
            tail = ["service", svc, "stop" if ev == "ServiceStop" else "start"]
        else:
            tail = {"NodeOff": ["shutdown"], "NodeOn": ["startup"]}[ev]
        r = self.req(["network", "node", self.node_name(n)] + tail)
        self.emit(ev, node=n, ok=self._ok(r))

    def raised(self, during: str, exc: BaseException):
        self.emit("Raised", kind=type(exc).__name__, during=during)
        self.trace["meta"]["exception"] = repr(exc)
