"""Instrumentation without touching the repository: wrappers installed in the harness process.

``wrap(cls, method, before=, after=)`` replaces ``cls.method`` by a function that calls the
callbacks around the original (the linearisation point of an action in this sequential simulator
is the return of the call; DESIGN.md 4.1).  ``watch(cls, field, cb)`` interposes ``__setattr__`` so
every write to a field - including direct assignments from other classes - is reported.
All wrappers can be removed again with ``unwrap_all``.
"""
from __future__ import annotations

from typing import Any, Callable, Dict, List, Optional, Tuple

_installed: List[Tuple[type, str, Any]] = []
DEPTH = [0]
CTX: List[str] = []


def wrap(cls: type, method: str, before: Optional[Callable] = None, after: Optional[Callable] = None,
         ctx: Optional[str] = None):
    if method not in cls.__dict__:
        # inherited: wrap a forwarding definition on this class only
        parent_impl = getattr(cls, method)

        def orig(self, *a, **k):
            return parent_impl(self, *a, **k)

        had = False
    else:
        orig = cls.__dict__[method]
        had = True
    if isinstance(orig, (staticmethod, classmethod, property)):
        raise TypeError(f"cannot wrap {cls.__name__}.{method}")

    def wrapper(self, *a, **k):
        tok = before(self, *a, **k) if before else None
        DEPTH[0] += 1
        if ctx:
            CTX.append(ctx)
        exc = None
        ret = None
        try:
            ret = orig(self, *a, **k)
            return ret
        except BaseException as e:  # noqa
            exc = e
            raise
        finally:
            if ctx:
                CTX.pop()
            DEPTH[0] -= 1
            if after:
                after(self, tok, ret, exc, *a, **k)

    wrapper.__name__ = method
    wrapper.__wrapped__ = orig
    _installed.append((cls, method, cls.__dict__[method] if had else None))
    setattr(cls, method, wrapper)


def watch(cls: type, fields, cb: Callable[[Any, str, Any, Any], None]):
    """Report every assignment ``obj.field = v`` (old, new) for objects of cls (and subclasses)."""
    fields = set(fields)
    orig = cls.__setattr__
    had = "__setattr__" in cls.__dict__

    def sa(self, name, value):
        if name in fields:
            old = getattr(self, name, None)
            orig(self, name, value)
            cb(self, name, old, value)
        else:
            orig(self, name, value)

    _installed.append((cls, "__setattr__", cls.__dict__["__setattr__"] if had else None))
    cls.__setattr__ = sa


def unwrap_all():
    while _installed:
        cls, name, old = _installed.pop()
        if old is None:
            try:
                delattr(cls, name)
            except AttributeError:
                pass
        else:
            setattr(cls, name, old)
