"""C20 - the simulation built from a scenario file is what the file says.

Model: spec/ConfigSem.tla - ``Expected(decl)``, the semantic function from the declarations of a
scenario file to the inventory of the simulation (declared facts + the documented defaulting rules),
and the abstract builder whose order-insensitivity MC_ConfigSem checks exhaustively.

Binding (both directions):
 * spec -> code: spec/ScenarioGen.tla is a model whose states are small scenario descriptions; TLC's
   simulator yields N distinct members, each turned into a config dict (the structure a YAML file has)
   and given to ``PrimaiteGame.from_config``.
 * code -> spec: for every shipped scenario (every episode of the scheduled directories), every test
   asset that is a scenario, and every generated member, the scenario DICT is flattened into
   declaration facts and the BUILT OBJECT GRAPH into inventory facts, independently
   (harness/rec_config.py); spec/ConfigSemTrace.tla judges Built = Expected(Declared) fact kind by fact
   kind, one trace per node (+ one per scenario for links/agents) so that a divergence stays local.
 * formatting / key order: each scenario is re-serialised (mapping keys sorted / reversed, flow / block,
   quoted), loaded back, built and stepped under one seed; the per-step canonical digests of the
   simulation and of the agents' histories must be equal (clause SameTrajectoryUnderReordering).
"""
from __future__ import annotations

import contextlib
import copy
import io
import json
import random
import time
from pathlib import Path
from typing import Any, Dict, List, Optional, Tuple

from . import common, scenarios, tlc
from . import rec_config as rc

PROP = "C20"
MODULE = "ConfigSem"

CLAUSE_OF_KIND = {
    "node": "NodesAsDeclared", "nodeopt": "NodesAsDeclared", "count": "NodesAsDeclared", "state": "InitialStateAsDeclared",
    "nic": "InterfacesAsDeclared", "nports": "InterfacesAsDeclared", "link": "LinksAsDeclared",
    "route": "RoutesAsDeclared", "defroute": "RoutesAsDeclared", "acl": "AclAsDeclared", "aclimplicit": "AclAsDeclared",
    "software": "SoftwareAsDeclared", "opt": "SoftwareAsDeclared", "optattr": "SoftwareAsDeclared",
    "user": "UsersAsDeclared", "folder": "FilesAsDeclared", "file": "FilesAsDeclared", "agent": "AgentsAsDeclared",
    "leftover": "NoShadowedLeftovers",
}
EMPTY = {"declared": [], "built": [], "a": [], "b": [], "exc": ""}


def _ev(name: str, **kw) -> Dict[str, Any]:
    e = dict(EMPTY)
    e.update(kw)
    e["ev"] = name
    return e


# ---------------------------------------------------------------------------------------
# scenario sources
# ---------------------------------------------------------------------------------------


def shipped_scenarios() -> List[Tuple[str, Dict[str, Any]]]:
    """Every shipped scenario file, every episode of every scheduled directory, every test asset that
    has the shape of a scenario (``game`` + ``simulation``)."""
    import yaml
    from primaite.session.episode_schedule import build_scheduler

    out: List[Tuple[str, Dict[str, Any]]] = []
    for p in sorted(scenarios.PKG.glob("*.yaml")):
        out.append((f"shipped/{p.name}", scenarios.load_yaml(p)))
    dirs = [d for d in sorted(scenarios.PKG.iterdir()) if d.is_dir() and (d / "schedule.yaml").exists()]
    dirs += [d for d in sorted(scenarios.TEST_CFG.iterdir()) if d.is_dir() and (d / "schedule.yaml").exists()]
    for d in dirs:
        sched = build_scheduler(d)
        n = len(yaml.safe_load((d / "schedule.yaml").read_text())["schedule"])
        for ep in range(n):
            tag = "shipped" if str(d).startswith(str(scenarios.PKG)) else "asset"
            out.append((f"{tag}/{d.name}#episode{ep}", sched(ep)))
    for p in sorted(scenarios.TEST_CFG.glob("*.yaml")):
        try:
            cfg = scenarios.load_yaml(p)
        except Exception:  # noqa  (not YAML this loader accepts: outside the statement)
            continue
        if isinstance(cfg, dict) and "game" in cfg and isinstance(cfg.get("simulation"), dict):
            out.append((f"asset/{p.name}", cfg))
    return out


# ---------------------------------------------------------------------------------------
# traces
# ---------------------------------------------------------------------------------------


def inventory_traces(label: str, cfg: Dict[str, Any], origin: str, game=None) -> Tuple[List[Dict[str, Any]], Optional[Any]]:
    """Build the scenario (or take the game the environment built from it) and return one trace per node + one for the
    network level."""
    from primaite.game.game import PrimaiteGame

    stim = {"scenario": label, "origin": origin}
    try:
        declared = rc.flatten_declared(cfg)
    except Exception as ex:  # noqa  - a file this transcription cannot read is outside the family
        raise RuntimeError(f"declaration flattener failed on {label}: {type(ex).__name__}: {ex}") from ex
    try:
        if game is None:
            game = PrimaiteGame.from_config(copy.deepcopy(cfg))
    except Exception as ex:  # noqa
        tr = {"cfg": {"scenario": label, "host": rc.NET, "type": "", "scope": "net"},
              "ev": [_ev("Raised", exc=type(ex).__name__)],
              "meta": {"scenario": label, "exception": f"{type(ex).__name__}: {str(ex)[:300]}"}, "stimulus": stim}
        return [tr], None
    built = rc.flatten_built(game)
    traces = []
    for h in sorted(set(declared) | set(built)):
        d, b = rc.dedup(declared.get(h, [])), rc.dedup(built.get(h, []))
        ntype = next((f["val"][0] for f in d if f["kind"] == "node"), next((f["val"][0] for f in b if f["kind"] == "node"), ""))
        traces.append({"cfg": {"scenario": label, "host": h, "type": ntype, "scope": "net" if h == rc.NET else "node"},
                       "ev": [_ev("Built", declared=d, built=b)],
                       "meta": {"scenario": label, "host": h, "type": ntype}, "stimulus": stim})
    return traces, game


def files_say(d: Path, ep: int) -> Dict[str, Any]:
    """What the files of an episode-scheduled directory say for episode `ep` (the documented composition: the listed
    variation files followed by the base scenario, one YAML document; agent lists flattened), read independently of
    primaite's scheduler."""
    import yaml

    sch = yaml.safe_load((d / "schedule.yaml").read_text())
    entries = sch["schedule"]
    keys = sorted(entries)
    files = entries[keys[ep % len(keys)]]
    cfg = yaml.safe_load("\n".join([(d / f).read_text() for f in files] + [(d / sch["base_scenario"]).read_text()]))
    flat = []
    for a in cfg.get("agents", []):
        flat += a if isinstance(a, list) else [a]
    cfg["agents"] = flat
    return cfg


def env_schedule_traces(d: Path, episodes: int) -> List[Dict[str, Any]]:
    """The environment's own path: PrimaiteGymEnv over an episode-scheduled directory, reset through `episodes`
    episodes (past the end of the schedule, where it wraps around); the simulation of every episode against what the
    files say for it."""
    from primaite.session.environment import PrimaiteGymEnv

    out: List[Dict[str, Any]] = []
    env = PrimaiteGymEnv(env_config=str(d))
    try:
        for ep in range(episodes):
            if ep:
                env.reset(seed=ep)
            trs, _ = inventory_traces(f"env/{d.name}#episode{ep}", files_say(d, ep), "environment", game=env.game)
            out += trs
    finally:
        try:
            env.close()
        except Exception:  # noqa
            pass
    return out


def env_door_traces(label: str, cfg: Dict[str, Any]) -> List[Dict[str, Any]]:
    """The same declaration through the environment's door, after a reset (what an RL library trains on)."""
    from primaite.session.environment import PrimaiteGymEnv

    ecfg = copy.deepcopy(cfg)
    if not ecfg.get("agents"):
        ecfg["agents"] = [scenarios.proxy_agent({0: {"action": "do-nothing", "options": {}}})]
    try:
        env = PrimaiteGymEnv(env_config=copy.deepcopy(ecfg))
        env.reset(seed=1)
        etrs, _g = inventory_traces(label + "#after_env_reset", ecfg, "probe", game=env.game)
        env.close()
    except Exception as ex:  # noqa
        etrs = [{"cfg": {"scenario": label + "#after_env_reset", "host": rc.NET, "type": "", "scope": "net"},
                 "ev": [_ev("Raised", exc=type(ex).__name__)],
                 "meta": {"scenario": label + "#after_env_reset", "exception": f"{type(ex).__name__}: {str(ex)[:300]}"},
                 "stimulus": {"scenario": label, "origin": "probe"}}]
    return etrs


def pair_traces(label: str, cfg: Dict[str, Any], variants: List[str], steps: int, seed: int, origin: str,
                notes: Dict[str, int], repeat_check: bool = True) -> List[Dict[str, Any]]:
    base = rc.run_trajectory(cfg, steps, seed)
    again = rc.run_trajectory(cfg, steps, seed) if repeat_check else base
    if repeat_check:
        notes["repeatability_checks"] = notes.get("repeatability_checks", 0) + 1
    if (base["loose"], base["agents"], base["exc"]) != (again["loose"], again["agents"], again["exc"]):
        # the SAME text does not repeat its trajectory under one seed: determinism is C03's matter, and a difference
        # between variants could not be attributed to the re-serialisation
        notes["scenarios_not_repeatable_under_one_seed_skipped"] = notes.get("scenarios_not_repeatable_under_one_seed_skipped", 0) + 1
        return []
    if base["exc"]:
        notes["trajectories_cut_short_by_an_exception_in_step"] = notes.get("trajectories_cut_short_by_an_exception_in_step", 0) + 1
    a = base["loose"] + base["agents"] + [rc._num(base["exc"])]
    out = []

    def one(v: str, keep: Tuple[str, ...]) -> bool:
        vcfg, text = rc.variant(cfg, v, keep)
        other = rc.run_trajectory(vcfg, steps, seed)
        b = other["loose"] + other["agents"] + [rc._num(other["exc"])]
        if a == b and base["strict"] != other["strict"]:
            notes["insertion_order_only_differences"] = notes.get("insertion_order_only_differences", 0) + 1
        why: List[Any] = []
        if a != b:
            i = next((i for i, (x, y) in enumerate(zip(base["loose"], other["loose"])) if x != y), None)
            if i is not None:
                why = rc.explain(cfg, vcfg, steps, seed, i)
        name = v if not keep else f"{v}/keeping_order_of:{','.join(keep)}"
        out.append({"cfg": {"scenario": label, "host": name, "type": "", "scope": "pair"},
                    "ev": [_ev("Pair", a=a, b=b)],
                    "meta": {"scenario": label, "variant": name, "steps": steps, "seed": seed,
                             "exc": [base["exc"], other["exc"]],
                             "first_difference": next((i for i, (x, y) in enumerate(zip(a, b)) if x != y), None),
                             "first_state_differences": why,
                             "layout": {"sim_digests": len(base["loose"]), "agent_digests": len(base["agents"])}},
                    "stimulus": {"scenario": label, "origin": origin, "variant": name, "steps": steps, "seed": seed,
                                 "yaml_head": text[:400]}})
        return a == b

    for v in variants:
        if not one(v, ()):
            # so that ONE order-dependent mapping does not hide another: the same re-serialisation again with the
            # mappings already seen to matter kept in their original key order
            one(v, ("network_interfaces",))
    return out


# ---------------------------------------------------------------------------------------
# judging: one violation per failing clause (a defect of one fact kind does not hide another)
# ---------------------------------------------------------------------------------------


def _facts(v: Any) -> List[Dict[str, Any]]:
    if isinstance(v, dict) and "__set__" in v:
        return v["__set__"]
    return v if isinstance(v, list) else []


def _shape(f: Dict[str, Any]) -> str:
    """A fact without the scenario-specific parts: kind + the item's own name."""
    k, key = f.get("kind"), list(f.get("key", []))
    if k in ("link",):
        return "link"
    if k in ("agent", "count"):
        return f"{k}:{'/'.join(key)}" if k == "count" else "agent"
    if k in ("nic", "route", "user", "folder", "file", "acl"):
        tail = key[1:2] if k in ("nic", "acl") else []
        if k == "acl":
            tail = key[1:]
        if k == "user" and key[1:] and (key[1] == "admin" or key[1].endswith("#dup")):
            tail = [key[1] if key[1] == "admin" else "#dup"]
        return f"{k}:{'/'.join(tail)}" if tail else k
    return f"{k}:{'/'.join(key[1:])}"


def judge(chk: common.Check, traces: List[Dict[str, Any]], res: Dict[str, Any], label: str = ""):
    chk.cov["states"] += res["distinct"]
    chk.cov["transitions"] += res["states"]
    per_event: Dict[str, int] = chk.cov.setdefault("impl_events", {})
    per_clause: Dict[str, int] = chk.cov.setdefault("rejected_by_clause", {})
    for tr, (reached, length), stuck in zip(traces, res["results"], res["stuck"]):
        chk.cov["traces_validated_against_impl"] += 1
        if reached == length + 1:
            for e in tr["ev"]:
                per_event[e["ev"]] = per_event.get(e["ev"], 0) + 1
            continue
        event = tr["ev"][reached - 1] if 0 < reached <= length else {}
        st = stuck or {}
        fail = sorted(st.get("fail") or []) or ["no-matching-action"]
        diffs = st.get("st") if isinstance(st.get("st"), dict) else {}
        for clause in fail:
            per_clause[clause] = per_clause.get(clause, 0) + 1
            facts = _facts(diffs.get(clause))
            if clause == "NoShadowedLeftovers":  # one signature per shadowed piece of software
                for name in sorted({f["key"][1] for f in facts}):
                    chk.violation({"module": MODULE, "event": "Built", "clause": clause, "software": name},
                                  {"meta": tr.get("meta"), "cfg": tr.get("cfg"), "leftover_instances": [f for f in facts if f["key"][1] == name],
                                   "declared_software": [f for f in event["declared"] if f["kind"] == "software"],
                                   "stimulus": tr.get("stimulus")})
                continue
            sig = {"module": MODULE, "event": event.get("ev"), "clause": clause, "node_type": tr["cfg"].get("type", ""),
                   "items": sorted({_shape(f) for f in facts})[:8]}
            if clause == "Loads":
                sig["exception"] = event.get("exc")
            if str(tr["cfg"].get("scenario", "")).startswith("probe/"):
                sig["probe"] = tr["cfg"]["scenario"].split("/", 1)[1]
            if clause == "SameTrajectoryUnderReordering":
                sig["variant"] = tr["cfg"].get("host")
                sig["family"] = (tr.get("stimulus") or {}).get("origin")
                sig["at"] = "build" if (tr["meta"].get("first_difference") == 0) else "step"
                import re as _re
                sig["what"] = sorted({_re.sub(r"d\[\d+\]\[1\]|\[\d+\]", "*", str(w[0])).split("/")[-1] + "@" +
                                      "/".join(x for x in _re.sub(r"d\[\d+\]\[1\]|\[\d+\]", "*", str(w[0])).split("/")[1:4])
                                      for w in (tr["meta"].get("first_state_differences") or [])})[:4]
            detail = {"trace_label": label, "meta": tr.get("meta"), "cfg": tr.get("cfg"), "failing_clauses": fail,
                      "divergent_expected_or_built_facts": facts, "stimulus": tr.get("stimulus")}
            if event.get("ev") == "Built":
                kinds = {k for k, c in CLAUSE_OF_KIND.items() if c == clause}
                detail["declared_of_clause"] = [f for f in event["declared"] if f["kind"] in kinds]
                detail["built_of_clause"] = [f for f in event["built"] if f["kind"] in kinds][:60]
            elif event.get("ev") == "Pair":
                detail["a"], detail["b"] = event["a"], event["b"]
            chk.violation(sig, detail)


# ---------------------------------------------------------------------------------------
# ScenarioGen member -> config dict (the structure a YAML scenario file has)
# ---------------------------------------------------------------------------------------

MASKS = {24: "255.255.255.0", 28: "255.255.255.240", 30: "255.255.255.252"}
RULE_SHAPES = {
    1: {"action": "PERMIT"},
    2: {"action": "DENY", "protocol": "TCP", "dst_port": "HTTP"},
    3: {"action": "PERMIT", "protocol": "UDP", "src_ip": "192.168.1.0", "src_wildcard_mask": "0.0.0.255", "dst_ip": "192.168.2.2"},
    4: {"action": "DENY", "protocol": "ICMP"},
    5: {"action": "PERMIT", "src_port": "POSTGRES_SERVER", "dst_port": "POSTGRES_SERVER"},
}
ROUTES = {
    1: {"address": "10.0.1.0", "subnet_mask": "255.255.255.0", "next_hop_ip_address": "192.168.2.2"},
    2: {"address": "10.0.2.0", "next_hop_ip_address": "192.168.2.2"},  # mask left to its documented default
}
FW_LIST_ORDER = ["internal_inbound_acl", "internal_outbound_acl", "dmz_inbound_acl", "dmz_outbound_acl",
                 "external_inbound_acl", "external_outbound_acl"]


def _software_mix(m: int, own_ip: str, other_ip: str) -> Tuple[List[Dict], List[Dict]]:
    """(services, applications) of mix m."""
    if m == 1:
        return [{"type": "web-server"}], [{"type": "database-client", "options": {"db_server_ip": other_ip, "server_password": "pw1"}}]
    if m == 2:
        return [{"type": "database-service", "options": {"db_password": "pw1", "backup_server_ip": other_ip}}], []
    if m == 3:
        return [{"type": "dns-server", "options": {"domain_mapping": {"arcd.com": other_ip, "b.example.org": own_ip}}}], []
    if m == 4:
        return [{"type": "ftp-server", "options": {"server_password": "ftppw"}}, {"type": "ntp-server"}], []
    if m == 5:  # software that the node type already has as system software, configured
        # (the NTP server address is one where nobody lives: an NTP request delivered to a node that only runs an NTP
        #  client raises AttributeError in this tree - a totality matter of C01, kept out of C20's trajectories)
        free = own_ip.rsplit(".", 1)[0] + ".14"
        return ([{"type": "dns-client", "options": {"dns_server": other_ip}}, {"type": "ntp-client", "options": {"ntp_server_ip": free}}],
                [{"type": "web-browser", "options": {"target_url": "http://arcd.com/users/"}}])
    if m == 6:
        return [], [
            {"type": "data-manipulation-bot", "options": {"server_ip": other_ip, "payload": "DELETE", "port_scan_p_of_success": 0.8,
                                                           "data_manipulation_p_of_success": 0.5}},
            {"type": "dos-bot", "options": {"target_ip_address": other_ip, "payload": "SPOOF DATA", "repeat": True, "max_sessions": 50}},
            {"type": "ransomware-script", "options": {"server_ip": other_ip}},
        ]
    return [], []


def _rules_of(member: Dict[str, Any]) -> Dict[int, Dict[str, Any]]:
    r = member.get("rules")
    if isinstance(r, list):  # TLC prints a function with domain 1..n as a tuple
        r = {i + 1: v for i, v in enumerate(r)}
    return {int(p): copy.deepcopy(RULE_SHAPES[int(s)]) for p, s in (r or {}).items()}


def _setlist(v: Any) -> List[Any]:
    return sorted(v["__set__"]) if isinstance(v, dict) and "__set__" in v else sorted(v or [])


def member_to_cfg(m: Dict[str, Any]) -> Dict[str, Any]:
    mask = MASKS[int(m["mask"])]
    topo = m["topo"]
    nh = int(m["nhosts"])
    if int(m["mask"]) == 30 and topo == "lan":
        nh = 2  # a /30 has two usable addresses
    names = [f"h{i}" for i in range(1, nh + 1)]
    # addressing
    if topo == "lan":
        first = 1 if int(m["mask"]) == 30 else 2
        ips = [f"192.168.1.{first + i}" for i in range(nh)]
        gws = [None] * nh
    else:
        ips = [f"192.168.{i + 1}.2" for i in range(nh)]
        gws = [f"192.168.{i + 1}.1" for i in range(nh)]
    nodes: List[Dict[str, Any]] = []
    for i, h in enumerate(names):
        n = scenarios.host(h, ips[i], m["htype"][i], gw=gws[i])
        if int(m["mask"]) == 24 and i == nh - 1:
            del n["subnet_mask"]  # left to its documented default
        else:
            n["subnet_mask"] = mask
        other = ips[(i + 1) % nh]
        sv, ap = _software_mix(int(m["mix"][i]), ips[i], other)
        if sv:
            n["services"] = sv
        if ap:
            n["applications"] = ap
        nodes.append(n)
    h1, h2 = nodes[0], nodes[1]
    if m["opstate"]:
        h2["operating_state"] = m["opstate"]
    if int(m["durUp"]) != 9:
        h1["start_up_duration"] = int(m["durUp"])
    if int(m["durDown"]) != 9:
        h1["shut_down_duration"] = int(m["durDown"])
    h1["dns_server"] = ips[1]
    x = int(m["xnic"])
    if x:
        extra = {2: {"ip_address": "192.168.12.2", "subnet_mask": "255.255.255.0"}, 3: {"ip_address": "192.168.13.2", "subnet_mask": "255.255.255.252"}}
        order = {1: [2], 2: [2, 3], 3: [3, 2]}[x]
        h1["network_interfaces"] = {k: extra[k] for k in order}
    # options on the first declared piece of software
    first_sw = next((s for n in nodes for s in (n.get("services") or []) + (n.get("applications") or [])), None)
    if first_sw is not None:
        if int(m["fixopt"]):
            first_sw.setdefault("options", {})["fixing_duration"] = int(m["fixopt"])
        if int(m["listen"]) == 1:
            first_sw.setdefault("options", {})["listen_on_ports"] = [631]
        elif int(m["listen"]) == 2:
            first_sw.setdefault("options", {})["listen_on_ports"] = ["SMB", 9999, "IPP"]
    # users and files
    if int(m["users"]) >= 1:
        h1["users"] = [{"username": "jane.doe", "password": "1234", "is_admin": True}]
    if m["adminDecl"]:
        h1.setdefault("users", []).append({"username": "admin", "password": "changed", "is_admin": True})
    if int(m["files"]) >= 1:
        h2["folders"] = [{"folder_name": "docs", "files": [{"file_name": "a.txt"}, {"file_name": "report.pdf", "size": 2048},
                                                           {"file_name": "export.final.csv"}, {"file_name": "backup.2024.01.zip", "size": 77}]}]
    if int(m["files"]) >= 2:
        h2["folders"] += [{"folder_name": "empty_folder"}, {"folder_name": "root", "files": [{"file_name": "secret", "size": 663, "type": "TXT"}]}]
    bw = int(m["bw"]) or None
    links: List[Dict[str, Any]] = []
    rules = _rules_of(m)
    routes = [copy.deepcopy(ROUTES[i]) for i in _setlist(m["routes"])]
    if routes and int(m["metric"]):
        routes[0]["metric"] = int(m["metric"])
    netnode: Dict[str, Any]
    if topo == "lan":
        netnode = {"hostname": "sw", "type": "switch"}
        if int(m["nports"]):
            netnode["num_ports"] = int(m["nports"])
        links = [scenarios.link(h, 1, "sw", i + 1, bw) for i, h in enumerate(names)]
    elif topo == "routed":
        netnode = {"hostname": "r", "type": "router",
                   "ports": {i + 1: {"ip_address": gws[i], "subnet_mask": mask} for i in range(nh)}}
        if int(m["mask"]) == 24:
            del netnode["ports"][1]["subnet_mask"]
        if int(m["nports"]):
            netnode["num_ports"] = int(m["nports"])
        if rules:
            netnode["acl"] = rules
        if routes:
            netnode["routes"] = routes
        if m["defroute"]:
            netnode["default_route"] = {"next_hop_ip_address": "192.168.2.2"}
        links = [scenarios.link(h, 1, "r", i + 1, bw) for i, h in enumerate(names)]
    else:
        pnames = ["external_port", "internal_port", "dmz_port"]
        netnode = {"hostname": "fw", "type": "firewall",
                   "ports": {pnames[i]: {"ip_address": gws[i], "subnet_mask": mask} for i in range(nh)}}
        rl = int(m["rlist"])
        if rules or rl > 3:
            acl = {k: {} for k in FW_LIST_ORDER}
            if rl <= 2:  # the external lists are optional (firewall.rst)
                del acl["external_inbound_acl"], acl["external_outbound_acl"]
            if rules:
                acl[FW_LIST_ORDER[rl - 1]] = rules
            netnode["acl"] = acl
        if routes:
            netnode["routes"] = routes
        if m["defroute"]:
            netnode["default_route"] = {"next_hop_ip_address": "192.168.2.2"}
        links = [scenarios.link(h, 1, "fw", i + 1, bw) for i, h in enumerate(names)]
    if int(m["users"]) >= 2 and netnode["type"] != "switch":
        netnode["users"] = [{"username": "john.doe", "password": "password_1"}]
    elif int(m["users"]) >= 2:
        h2["users"] = [{"username": "john.doe", "password": "password_1"}]
    if int(m["durUp"]) != 9:
        netnode["start_up_duration"] = int(m["durUp"])
    nodes.append(netnode)
    # agents
    agents: List[Dict[str, Any]] = []
    # (no action executes a web browser: one without target_url raises ValidationError out of step() - C01's matter)
    acts = [
        {"action": "do-nothing", "options": {}},
        {"action": "node-service-stop", "options": {"node_name": "h1", "service_name": "dns-client"}},
        {"action": "node-service-start", "options": {"node_name": "h1", "service_name": "dns-client"}},
        {"action": "node-shutdown", "options": {"node_name": "h2"}},
        {"action": "node-startup", "options": {"node_name": "h2"}},
    ]
    for kind in _setlist(m["agents"]):
        if kind == "periodic":
            agents.append({"ref": "green_periodic", "team": "GREEN", "type": "periodic-agent",
                           "agent_settings": {"start_step": 2, "start_variance": 1, "frequency": 3, "variance": 1,
                                              "possible_start_nodes": ["h1"], "target_application": "nmap"}})
        elif kind == "probabilistic":
            agents.append({"ref": "green_prob", "team": "GREEN", "type": "probabilistic-agent",
                           "agent_settings": {"action_probabilities": {0: 0.4, 1: 0.3, 2: 0.3}},
                           "action_space": {"action_map": {i: copy.deepcopy(acts[i]) for i in range(3)}}})
        elif kind == "random":
            agents.append({"ref": "red_random", "team": "RED", "type": "random-agent", "agent_settings": {},
                           "action_space": {"action_map": {i: copy.deepcopy(acts[i]) for i in range(4)}}})
    if m["proxy"]:
        agents.append(scenarios.proxy_agent({i: copy.deepcopy(a) for i, a in enumerate(acts)}))
    return scenarios.base_cfg(nodes, links, agents=agents)


def probes() -> List[Tuple[str, Dict[str, Any]]]:
    """Hand-written members outside ScenarioGen's dimensions: keys the loader reads or the documentation
    describes that no generated member uses."""
    out: List[Tuple[str, Dict[str, Any]]] = []
    base = lambda: scenarios.routed()  # noqa
    # declared operating_state on every node type (common_node_attributes.rst)
    for kind in ("computer", "server", "printer", "switch", "router", "firewall", "wireless-router"):
        for state in ("OFF", "ON"):
            d = scenarios.dut_net(kind, 3, 3)
            cfg = d["cfg"]
            for n in cfg["simulation"]["network"]["nodes"]:
                if n["hostname"] == d["dut"]:
                    n["operating_state"] = state
                    del n["start_up_duration"], n["shut_down_duration"]
            out.append((f"probe/operating_state_{kind}_{state}", cfg))
    # rules declared at the positions where a router keeps its built-in rules (22: ARP, 23: ICMP), and at both ends of the list
    c = base()
    for n in c["simulation"]["network"]["nodes"]:
        if n["hostname"] == "r":
            n["acl"] = {0: {"action": "PERMIT", "protocol": "TCP"},
                        1: {"action": "PERMIT"},
                        22: {"action": "DENY", "protocol": "ICMP", "src_ip": "192.168.1.2", "src_wildcard_mask": "0.0.0.0"},
                        23: {"action": "PERMIT", "protocol": "UDP", "src_port": "DNS", "dst_port": "DNS"}}
    out.append(("probe/env/router_acl_at_default_positions", c))
    # the loader's `defaults:' block
    c = base()
    c["defaults"] = {"node_start_up_duration": 1, "node_shut_down_duration": 1}
    out.append(("probe/defaults_block_node_durations", c))
    c = base()
    c["defaults"] = {"node_scan_duration": 4, "folder_scan_duration": 1, "folder_restore_duration": 1}
    out.append(("probe/defaults_block_scan_durations", c))
    # the same block where the shipped UC7 scenarios write it (inside `simulation'), with nodes and a service that state
    # some of the options themselves
    for where in ("top", "simulation"):
        c = base()
        blk = {"node_start_up_duration": 1, "node_shut_down_duration": 2, "node_scan_duration": 4, "service_fix_duration": 5}
        if where == "top":
            c["defaults"] = blk
        else:
            c["simulation"]["defaults"] = blk
        for n in c["simulation"]["network"]["nodes"]:
            if n["hostname"] == "b":
                n["services"] = [{"type": "dns-server"}, {"type": "ftp-server"}]
            if n["hostname"] == "a":
                n["start_up_duration"] = 0
        out.append((f"probe/defaults_block_{where}_level_with_services", c))
    # the block with every duration at its lower end (0 is a value, not "not stated")
    for where in ("top", "simulation"):
        c = base()
        blk = {"node_start_up_duration": 0, "node_shut_down_duration": 0, "node_scan_duration": 0, "service_fix_duration": 0,
               "service_restart_duration": 0}
        if where == "top":
            c["defaults"] = blk
        else:
            c["simulation"]["defaults"] = blk
        for n in c["simulation"]["network"]["nodes"]:
            if n["hostname"] == "b":
                n["services"] = [{"type": "dns-server"}, {"type": "ftp-server"}]
        out.append((f"probe/defaults_block_{where}_level_all_zero", c))
    c = base()
    c["defaults"] = {"service_restart_duration": 3}
    for n in c["simulation"]["network"]["nodes"]:
        if n["hostname"] == "b":
            n["services"] = [{"type": "dns-server"}]
    out.append(("probe/defaults_block_service_restart_duration", c))
    # own options next to the defaults block (the item's own statement wins), folder durations for declared folders
    c = base()
    c["defaults"] = {"node_scan_duration": 7, "service_fix_duration": 9, "folder_scan_duration": 1, "folder_restore_duration": 4}
    for n in c["simulation"]["network"]["nodes"]:
        if n["hostname"] == "b":
            n["node_scan_duration"] = 2
            n["services"] = [{"type": "dns-server", "options": {"fixing_duration": 4}}, {"type": "ftp-server"}]
            n["folders"] = [{"folder_name": "docs", "files": [{"file_name": "a.txt"}]}, {"folder_name": "empty"}]
    out.append(("probe/defaults_block_next_to_own_options", c))
    # a firewall that declares only some of its six rule lists
    for only in ("external_inbound_acl", "dmz_outbound_acl", "internal_inbound_acl"):
        c = scenarios.firewalled(dmz=True)
        for n in c["simulation"]["network"]["nodes"]:
            if n["hostname"] == "fw":
                n["acl"] = {only: {1: {"action": "PERMIT"}, 3: {"action": "DENY", "protocol": "ICMP"}}}
        out.append((f"probe/firewall_only_{only}", c))
    # link bandwidths that are not whole numbers of Mbps
    c = scenarios.switched(4)
    for l, bw in zip(c["simulation"]["network"]["links"], (0.5, 2.5, 0.001, 1000.25)):
        l["bandwidth"] = bw
    out.append(("probe/fractional_link_bandwidth", c))
    # node_sets (node_sets.rst)
    c = base()
    c["simulation"]["network"]["node_sets"] = [{"type": "office-lan", "lan_name": "CORP_LAN", "subnet_base": 7, "pcs_ip_block_start": 10,
                                               "num_pcs": 4, "include_router": False, "bandwidth": 150}]
    out.append(("probe/node_set_office_lan", c))
    c = base()
    c["simulation"]["network"]["node_sets"] = [{"type": "office-lan", "lan_name": "B", "subnet_base": 8, "pcs_ip_block_start": 30, "num_pcs": 2}]
    out.append(("probe/node_set_office_lan_with_router", c))
    # a wireless router declaring what its schema accepts: routes and a default route
    c = scenarios.test_asset("wireless_wan_network_config.yaml")
    for n in c["simulation"]["network"]["nodes"]:
        if n["hostname"] == "router_1":
            n["default_route"] = {"next_hop_ip_address": "192.168.1.2"}
    out.append(("probe/wireless_router_default_route", c))
    # one setting declared at two levels: the node's dns_server and the dns-client service's own dns_server option (the
    # option of the service is the more specific declaration; a node with only one of the two uses that one)
    for which in ("both_differ", "node_only", "service_only"):
        c = scenarios.switched(3)
        for n in c["simulation"]["network"]["nodes"]:
            if n["hostname"] == "b":
                if which != "service_only":
                    n["dns_server"] = "192.168.1.2"
                if which != "node_only":
                    n["services"] = [{"type": "dns-client", "options": {"dns_server": "192.168.1.4"}}]
        out.append((f"probe/dns_server_declared_{which}", c))
    # primary / backup routes: several routes to ONE destination (same address and mask, different next hop and metric),
    # in both orders, on every node type that has a route table
    for order in (0, 1):
        rts = [{"address": "10.9.0.0", "subnet_mask": "255.255.0.0", "next_hop_ip_address": "192.168.2.2", "metric": 10},
               {"address": "10.9.0.0", "subnet_mask": "255.255.0.0", "next_hop_ip_address": "192.168.1.2", "metric": 1},
               {"address": "10.9.1.0", "subnet_mask": "255.255.255.0", "next_hop_ip_address": "192.168.2.2", "metric": 0}]
        rts = rts if order == 0 else rts[::-1]
        c = base()
        for n in c["simulation"]["network"]["nodes"]:
            if n["hostname"] == "r":
                n["routes"] = copy.deepcopy(rts)
        out.append((f"probe/routes_same_destination_router_order{order}", c))
        c = scenarios.firewalled(dmz=True)
        for n in c["simulation"]["network"]["nodes"]:
            if n["hostname"] == "fw":
                n["routes"] = [dict(r, next_hop_ip_address=r["next_hop_ip_address"].replace("192.168.2.2", "192.168.20.2")) for r in rts]
        out.append((f"probe/routes_same_destination_firewall_order{order}", c))
        c = scenarios.test_asset("wireless_wan_network_config.yaml")
        for n in c["simulation"]["network"]["nodes"]:
            if n["hostname"] == "router_1":
                n["routes"] = [dict(r, next_hop_ip_address="192.168.1.2" if r["metric"] == 1 else "192.168.0.2") for r in rts]
        out.append((f"probe/routes_same_destination_wireless_router_order{order}", c))
    # (two forms that only the DOCUMENTATION describes - a node-level ``file_system:`` key and a database-service
    # ``password`` option - are rejected by the loader's schema with a ValidationError: they are not well-formed
    # scenario files for this code base, so they are outside the statement's quantifier; they were tried once and are
    # recorded in DESIGN.md 11.3 as documentation drift, not as probes of this check)
    return out


def generated_members(n: int, seed: int) -> Tuple[List[Tuple[str, Dict[str, Any], Dict[str, Any]]], Dict[str, Any]]:
    """n DISTINCT members of ScenarioGen (TLC -simulate; a behaviour's last state is a member)."""
    members: Dict[str, Dict[str, Any]] = {}
    info_all = {"states": 0, "behaviours": 0, "wall_s": 0.0}
    rounds = 0
    while len(members) < n and rounds < 6:
        want = int((n - len(members)) * 1.15) + 5
        behs, info = tlc.simulate("ScenarioGen", num=want, depth=10, seed=seed + 101 * rounds, timeout=900)
        info_all["states"] += info["states"]
        info_all["behaviours"] += len(behs)
        info_all["wall_s"] += info["wall_s"]
        for b in behs:
            st = b[-1]["state"]
            if st.get("stage") != 8:
                continue
            st = {k: v for k, v in st.items() if k != "stage"}
            members.setdefault(json.dumps(st, sort_keys=True), st)
            if len(members) >= n:
                break
        rounds += 1
    out = []
    for i, (k, st) in enumerate(members.items()):
        out.append((f"gen/{i}", member_to_cfg(st), st))
    info_all["distinct_members"] = len(out)
    return out, info_all


# ---------------------------------------------------------------------------------------
# node sets: only what the adder's schema / node_sets.rst declares is constrained
# ---------------------------------------------------------------------------------------


def _restrict_node_set_traces(cfg: Dict[str, Any], traces: List[Dict[str, Any]], notes: Dict[str, int]) -> List[Dict[str, Any]]:
    """Infrastructure an office-lan adder creates on its own (switches, router, their links) is not declared item by
    item: those nodes/links are left unconstrained (counted in the evidence)."""
    net = (cfg.get("simulation") or {}).get("network") or {}
    if not net.get("node_sets"):
        return traces
    out = []
    for tr in traces:
        ev = tr["ev"][0]
        if ev["ev"] != "Built":
            out.append(tr)
            continue
        if tr["cfg"]["scope"] == "node" and not any(f["kind"] == "node" for f in ev["declared"]):
            notes["node_set_infrastructure_nodes_unconstrained"] = notes.get("node_set_infrastructure_nodes_unconstrained", 0) + 1
            continue
        if tr["cfg"]["scope"] == "net":
            declared_hosts = {str(n.get("hostname")) for n in net.get("nodes") or []}
            ev["built"] = [f for f in ev["built"] if f["kind"] != "link" or (f["key"][0] in declared_hosts and f["key"][2] in declared_hosts)]
        out.append(tr)
    return out


# ---------------------------------------------------------------------------------------
# binding self-test: a flipped / dropped / added fact must be rejected by the right clause
# ---------------------------------------------------------------------------------------


def binding_selftest(accepted: List[Dict[str, Any]]) -> Dict[str, int]:
    """Take accepted traces and (a) drop the built fact of a declared item, (b) flip a pinned value of it, (c) add an
    item nobody declared: every mutant must be rejected, by the clause of its fact kind."""
    muts: List[Tuple[str, Dict[str, Any]]] = []
    kinds = ["node", "nic", "link", "route", "defroute", "acl", "software", "opt", "user", "file", "agent", "nports"]

    def candidates(kind):
        for t in accepted:
            e = t["ev"][0]
            if e["ev"] != "Built":
                continue
            for d in e["declared"]:
                if d["kind"] != kind or not d["val"] or d["val"][-1] in ("", "*") or (kind == "user" and d["key"][1] == "admin"):
                    continue
                if kind == "route" and d["key"][2] == "":
                    continue
                if kind == "file" and "." in d["key"][2] and not d["val"][0]:
                    continue
                idx = [i for i, f in enumerate(e["built"]) if f["kind"] == kind and f["key"] == d["key"]]
                if idx:
                    yield t, d, idx[0]

    for kind in kinds:
        c = next(candidates(kind), None)
        if c is None:
            continue
        src, d, i = c
        clause = CLAUSE_OF_KIND[kind]
        t = copy.deepcopy(src)  # (a) drop
        t["ev"][0]["built"] = [f for f in t["ev"][0]["built"] if not (f["kind"] in (kind, "optattr") and f["key"] == d["key"])]
        muts.append((clause, t))
        t = copy.deepcopy(src)  # (b) flip the pinned value
        f = t["ev"][0]["built"][i]
        j = 0 if kind in ("node", "file") and d["val"][0] not in ("", "*") else len(f["val"]) - 1
        f["val"][j] = f["val"][j] + "~"
        for g in t["ev"][0]["built"]:
            if g["kind"] == "optattr" and kind == "opt" and g["key"] == d["key"]:
                g["val"][0] = g["val"][0] + "~"
        muts.append((clause, t))
        if kind in ("link", "route", "defroute", "acl", "software", "user", "file", "agent"):
            t = copy.deepcopy(src)  # (c) an extra item
            f = copy.deepcopy(t["ev"][0]["built"][i])
            f["key"][-1] = f["key"][-1] + "~x"
            if kind == "defroute":
                f["key"][0] = d["key"][0]
                t["ev"][0]["built"] = [g for g in t["ev"][0]["built"] if g["kind"] != "defroute"]
                t["ev"][0]["declared"] = [g for g in t["ev"][0]["declared"] if g["kind"] != "defroute"]
            t["ev"][0]["built"].append(f)
            muts.append((clause, t))
    src = next((t for t in accepted if t["ev"][0]["ev"] == "Built" and t["cfg"]["scope"] == "node"), None)
    if src is not None:
        t = copy.deepcopy(src)
        t["ev"][0]["built"].append(rc.F("leftover", [t["cfg"]["host"], "dns-client"], ["service", "DNSClient", "RUNNING"]))
        muts.append(("NoShadowedLeftovers", t))
        t = copy.deepcopy(src)
        for f in t["ev"][0]["built"]:
            if f["kind"] == "node":
                f["val"][1] = "BOOTING"
        muts.append(("InitialStateAsDeclared", t))
        t = copy.deepcopy(src)
        t["ev"] = [_ev("Raised", exc="KeyError")]
        muts.append(("Loads", t))
    pair = next((t for t in accepted if t["ev"][0]["ev"] == "Pair"), None)
    if pair is not None:
        t = copy.deepcopy(pair)
        t["ev"][0]["b"][-1] = (t["ev"][0]["b"][-1] + 1) % (2 ** 28)
        muts.append(("SameTrajectoryUnderReordering", t))
    if len(muts) < 10:
        raise tlc.TLCError("binding self-test: too few accepted traces to mutate")
    res = tlc.validate("ConfigSemTrace", [t for _, t in muts], chunk=200)
    bad = []
    by_clause: Dict[str, int] = {}
    for (clause, t), (reached, length), st in zip(muts, res["results"], res["stuck"]):
        if reached == length + 1 or clause not in ((st or {}).get("fail") or []):
            bad.append((clause, t["cfg"], (st or {}).get("fail")))
        by_clause[clause] = by_clause.get(clause, 0) + 1
    if bad:
        raise tlc.TLCError(f"binding self-test: {len(bad)} mutated trace(s) not rejected by their clause: {bad[:3]}")
    return {"mutants_rejected": len(muts), "by_clause": by_clause}


# ---------------------------------------------------------------------------------------
# main
# ---------------------------------------------------------------------------------------


def _member_job(job) -> Tuple[List[Dict[str, Any]], Dict[str, int], Dict[str, int]]:
    label, cfg, st, variants, steps, seed, repeat = job
    notes: Dict[str, int] = {}
    rc.ODDITIES.clear()
    with contextlib.redirect_stdout(io.StringIO()):
        trs, game = inventory_traces(label, cfg, "generated")
        if game is not None:
            trs = trs + pair_traces(label, cfg, variants, steps, seed, "generated", notes, repeat_check=repeat)
    for t in trs:
        t["stimulus"]["member"] = st
    return trs, notes, dict(rc.ODDITIES)


def _shipped_pair_job_safe(job):
    try:
        return _shipped_pair_job(job)
    except Exception as ex:  # noqa  (a scenario that does not load has its Raised event from the inventory part)
        return [], {f"pair_job_failed:{type(ex).__name__}": 1}, {}


def _shipped_pair_job(job) -> Tuple[List[Dict[str, Any]], Dict[str, int], Dict[str, int]]:
    label, cfg, variants, steps, seed, origin = job
    notes: Dict[str, int] = {}
    rc.ODDITIES.clear()
    with contextlib.redirect_stdout(io.StringIO()):
        trs = pair_traces(label, cfg, variants, steps, seed, origin, notes)
    return trs, notes, dict(rc.ODDITIES)


QUICK_PAIR = {"data_manipulation.yaml", "basic_lan_network_example.yaml", "client_server_p2p_network_example.yaml",
              "multi_lan_internet_network_example.yaml", "basic_firewall.yaml", "dmz_network.yaml", "basic_node_with_users.yaml",
              "nodes_with_initial_files.yaml", "wireless_wan_network_config.yaml", "software_fixing_duration.yaml",
              "basic_node_with_software_listening_ports.yaml", "basic_c2_setup.yaml"}


def _n_nodes(cfg: Dict[str, Any]) -> int:
    return len(((cfg.get("simulation") or {}).get("network") or {}).get("nodes") or [])


def main(tier: str, seed: int) -> int:
    chk = common.Check(PROP, "model_checking", tier, seed)
    thorough = tier == "thorough"
    notes: Dict[str, int] = {}
    phases: Dict[str, float] = {}
    t_phase = [time.time()]

    def mark(name: str):
        phases[name] = round(phases.get(name, 0) + time.time() - t_phase[0], 1)
        t_phase[0] = time.time()

    # 1. the model: every order of independent build steps yields Expected(decl)
    r = tlc.mc("MC_ConfigSem")
    if not r["ok"]:
        chk.violation({"module": "MC_ConfigSem", "clause": str(r["violation"])}, {"tlc": r["output_tail"]})
    chk.add_mc("MC_ConfigSem(2 declarations: 17 + 16 facts, all build orders)", r)
    for act in ("MCAddNode", "MCConfigure", "MCSetPorts", "MCAddNic", "MCConnect", "MCAddRoute", "MCAddRule", "MCInstall",
                "MCSetOption", "MCAddUser", "MCCreateFile", "MCAddAgent"):
        if r["coverage"].get(act, (0, 0))[1] == 0:
            raise tlc.TLCError(f"vacuous model: action {act} never taken")

    mark("mc")
    # 2. the family
    n_members = 60 if not thorough else 1500
    members, ginfo = generated_members(n_members, seed)
    chk.cov["transitions"] += ginfo["states"]
    chk.cov["scenario_gen"] = ginfo
    if len(members) < n_members * 0.9:
        raise tlc.TLCError(f"ScenarioGen produced only {len(members)} distinct members")

    mark("scenario_gen")
    common.boot()
    mark("boot")
    sink = io.StringIO()  # the airspace prints to stdout when a capacity is overridden
    steps = 10
    variants = ["sorted_block", "reversed_flow"] + (["rsorted_quoted"] if thorough else [])
    traces: List[Dict[str, Any]] = []
    skipped_assets: Dict[str, str] = {}
    t_build = time.time()

    # 3. shipped scenarios, scheduled episodes, test assets
    shipped = shipped_scenarios()
    n_scen = 0
    n_pairs_shipped = 0
    pair_jobs: List[Any] = []
    stack = contextlib.ExitStack()
    stack.enter_context(contextlib.redirect_stdout(sink))
    for label, cfg in shipped:
        trs, game = inventory_traces(label, cfg, "shipped")
        if game is None and label.startswith("asset/"):
            # in scope are the test assets THAT LOAD (several are deliberately broken or need plug-ins)
            skipped_assets[label] = trs[0]["meta"]["exception"][:160]
            continue
        n_scen += 1
        traces += _restrict_node_set_traces(cfg, trs, notes)
        chk.add_case({"scenario": label})
        if game is not None and "#episode" not in label and (thorough or _n_nodes(cfg) <= 15):
            # the same file with its node list and its link list written in the opposite order: the same network is declared
            rcfg = copy.deepcopy(cfg)
            net_ = rcfg["simulation"]["network"]
            if isinstance(net_.get("links"), list) and isinstance(net_.get("nodes"), list) and len(net_["links"]) > 1:
                net_["links"].reverse()
                net_["nodes"].reverse()
                rtrs, _g = inventory_traces(label + "#lists_reversed", rcfg, "shipped")
                traces += _restrict_node_set_traces(rcfg, rtrs, notes)
                chk.add_case({"scenario": label + "#lists_reversed"})
                notes["scenarios_also_loaded_with_node_and_link_lists_reversed"] = notes.get("scenarios_also_loaded_with_node_and_link_lists_reversed", 0) + 1
        if game is not None and ((cfg.get("simulation") or {}).get("defaults")):
            notes["scenarios_with_a_defaults_block_inside_simulation"] = notes.get("scenarios_with_a_defaults_block_inside_simulation", 0) + 1
        small = _n_nodes(cfg) <= 15
        if game is None:
            continue
        if thorough:
            if not small and "#episode" in label and not label.endswith(("#episode0", "#episode7")):
                continue  # the 20 UC7 episodes share one 41-node base scenario: two of them are stepped
        elif not (small and "#episode" not in label and label.split("/")[-1] in QUICK_PAIR):
            continue
        big = not small
        pair_jobs.append((label, cfg, variants[:2] if big else variants, steps, seed + 1, "shipped"))
        n_pairs_shipped += 1
    # 3b. the environment's own path over the episode-scheduled directories, past the end of the schedule
    import yaml as _yaml

    n_env_eps = 0
    for d in [x for x in sorted(scenarios.PKG.iterdir()) if x.is_dir() and (x / "schedule.yaml").exists()]:
        n = len(_yaml.safe_load((d / "schedule.yaml").read_text())["schedule"])
        big = "uc7" in d.name
        eps = (5 if big else n + 3) if not thorough else (n + 3)
        etr = env_schedule_traces(d, eps)
        n_env_eps += eps
        traces += _restrict_node_set_traces(files_say(d, 0), etr, notes)
        chk.add_case({"scenario": f"env/{d.name}", "episodes": eps})
    chk.cov["environment_episodes_of_scheduled_directories"] = n_env_eps
    mark("shipped")
    chk.cov["shipped_scenarios_stepped_under_reordering"] = n_pairs_shipped
    chk.cov["shipped_and_asset_scenarios_validated"] = n_scen
    chk.cov["assets_not_loading_skipped"] = skipped_assets

    # 4. generated members and probes (members in forked workers: they are independent of each other)
    import multiprocessing as mp
    import os

    # every member under two re-serialisations, every third one under the third as well; one member in eight also
    # repeats its own trajectory (the ambient entropy is controlled, see rec_config._control_ambient_entropy)
    jobs = [(label, cfg, st, variants if i % 3 == 0 else variants[:2], steps, seed + 2, i % 8 == 0)
            for i, (label, cfg, st) in enumerate(members)]
    probe_list = probes()
    for label, cfg in probe_list:
        if thorough:
            pair_jobs.append((label, cfg, variants[:2], steps, seed + 3, "probe"))
    workers = max(1, min(12 if thorough else 4, (os.cpu_count() or 2) - 2))

    def merge(result):
        trs, n_notes, odd = result
        traces.extend(trs)
        for k, v in n_notes.items():
            notes[k] = notes.get(k, 0) + v
        for k, v in odd.items():
            rc.ODDITIES[k] = rc.ODDITIES.get(k, 0) + v

    with mp.get_context("fork").Pool(workers) as pool:
        big_first = sorted(pair_jobs, key=lambda j: -_n_nodes(j[1]))
        pending = pool.imap_unordered(_shipped_pair_job_safe, big_first, chunksize=1)
        for result in pool.imap(_member_job, jobs, chunksize=4):
            merge(result)
        for result in pending:
            merge(result)
    traces.sort(key=lambda t: (t["cfg"]["scope"] == "pair", 0))  # stable: inventory traces first
    for label, cfg, st in members:
        chk.add_case({"member": st})
    for label, cfg in probe_list:
        trs, game = inventory_traces(label, cfg, "probe")
        for t in trs:
            t["stimulus"]["config_network"] = cfg.get("simulation", {}).get("network", {}).get("node_sets") or cfg.get("defaults")
        traces += _restrict_node_set_traces(cfg, trs, notes)
        chk.add_case({"probe": label})
        if game is not None and label.startswith(("probe/operating_state_", "probe/env/")):
            traces += env_door_traces(label, cfg)
            chk.add_case({"probe": label + "#after_env_reset"})
            notes["probes_also_inventoried_after_env_reset"] = notes.get("probes_also_inventoried_after_env_reset", 0) + 1
    stack.close()
    mark("generated")
    chk.cov["generated_members_validated"] = len(members)
    chk.cov["build_and_step_wall_s"] = round(time.time() - t_build, 1)

    # 5. what reset does to a node declared OFF (note; the #after_env_reset probes judge it)
    try:
        d = scenarios.dut_net("computer", 3, 3)
        for n in d["cfg"]["simulation"]["network"]["nodes"]:
            if n["hostname"] == d["dut"]:
                n["operating_state"] = "OFF"
        g = scenarios.build(d["cfg"])
        node = g.simulation.network.get_node_by_hostname(d["dut"])
        s0 = node.operating_state.name
        g.setup_for_episode(episode=1)
        chk.notes.append(f"a computer declared operating_state OFF is {s0} at the return of from_config and "
                         f"{node.operating_state.name} after setup_for_episode (judged since session four by the #after_env_reset probes)")
    except Exception as ex:  # noqa
        chk.notes.append(f"drift probe failed: {type(ex).__name__}")

    # 6. TLC judges every trace
    res = tlc.validate("ConfigSemTrace", traces, chunk=150, timeout=1800)
    mark("tlc_validation")
    judge(chk, traces, res)
    accepted = [t for t, (reached, length) in zip(traces, res["results"]) if reached == length + 1]
    chk.cov["binding_selftest"] = binding_selftest(accepted)

    mark("binding_selftest")
    chk.cov["phase_wall_s"] = phases
    # evidence
    kinds: Dict[str, int] = {}
    for t in traces:
        for f in t["ev"][0]["declared"]:
            kinds[f["kind"]] = kinds.get(f["kind"], 0) + 1
    chk.cov["declared_facts_by_kind"] = kinds
    chk.cov["trace_scopes"] = {s: sum(1 for t in traces if t["cfg"]["scope"] == s) for s in ("node", "net", "pair")}
    chk.cov["notes_counts"] = notes
    chk.cov["oddities_outside_the_statement"] = dict(rc.ODDITIES)
    for t in traces[:2] + [t for t in traces if t["cfg"]["scope"] == "pair"][:1]:
        e = t["ev"][0]
        chk.sample({"cfg": t["cfg"], "event": e["ev"], "declared": e["declared"][:10], "built": e["built"][:10], "a": e["a"][:6], "b": e["b"][:6]})
    for k in sorted(notes):
        chk.notes.append(f"{k}: {notes[k]}")
    chk.assumptions += [
        "TLC 1.8.0 and the CommunityModules; PyYAML (yaml.safe_load / safe_dump) as the reader and writer of scenario files",
        "the two flatteners of harness/rec_config.py (transcription of the file / reads of object attributes) and their shared value "
        "vocabulary (port and protocol names of the documented lookup tables, IPv4 text form, bandwidth and metric in 1/1000 units)",
        "file identity follows the file system's naming convention (name without extension + declared type -> name.<type>; a name "
        "with an extension fixes the type)",
        "NOT PINNED by documentation or class defaults, hence unconstrained: addresses of undeclared router/firewall ports; number "
        "of ports of a wireless router; size of a file whose size is not declared and type of a file without declared type; "
        "attributes of a declared user called `admin' (collides with the default administrator); operating/health state of software; "
        "software a declared service brings along (database-service -> ftp-client) and folders software creates (database, primaite, "
        "downloads); the router-level ACL of a firewall; nodes/links an office-lan node set creates besides its computers; default "
        "values of options other than fixing_duration; the `defaults:' block (undocumented: judged only through `Loads')",
        "trajectory equality is judged on an insertion-order-insensitive digest of harness.project.snapshot(game.simulation) plus the "
        "agents' (action, parameters, response status, reward) per step; 10 seeded steps",
    ]
    return chk.finish()


# ---------------------------------------------------------------------------------------
# replay
# ---------------------------------------------------------------------------------------


def _resolve(stim: Dict[str, Any]) -> Dict[str, Any]:
    label = stim["scenario"]
    if "member" in stim:
        return member_to_cfg(stim["member"])
    if label.startswith("probe/"):
        return dict(probes())[label]
    return dict(shipped_scenarios())[label]


def replay(path: str) -> int:
    """Re-execute the stimulus of a replay file and print what TLC cannot explain."""
    d = json.loads(Path(path).read_text())
    det, sig = d["detail"], d["signature"]
    stim = det["stimulus"]
    common.boot()
    cfg = _resolve(stim)
    notes: Dict[str, int] = {}
    with contextlib.redirect_stdout(io.StringIO()):
        if sig.get("clause") == "SameTrajectoryUnderReordering":
            traces = [t for t in pair_traces(stim["scenario"], cfg, [stim["variant"].split("/")[0]], stim["steps"], stim["seed"],
                                             stim.get("origin", ""), notes)]
        else:
            traces, _ = inventory_traces(stim["scenario"], cfg, stim.get("origin", ""))
            traces = _restrict_node_set_traces(cfg, traces, notes)
            host = (det.get("cfg") or {}).get("host")
            traces = [t for t in traces if t["cfg"]["host"] == host] or traces
    res = tlc.validate("ConfigSemTrace", traces)
    rc_ = 0
    for tr, (reached, length), st in zip(traces, res["results"], res["stuck"]):
        if reached == length + 1:
            print(f"accepted: {tr['cfg']}")
            continue
        rc_ = 1
        print(f"REJECTED: {tr['cfg']}  failing clauses: {sorted((st or {}).get('fail') or [])}")
        diffs = (st or {}).get("st") if isinstance((st or {}).get("st"), dict) else {}
        for clause, v in diffs.items():
            for f in _facts(v)[:12]:
                print(f"   {clause}: expected-or-built fact without its counterpart: {f}")
        if tr["ev"][0]["ev"] == "Pair":
            print(f"   first state differences: {tr['meta'].get('first_state_differences')}")
        if tr["ev"][0]["ev"] == "Raised":
            print(f"   {tr['meta'].get('exception')}")
    return rc_
