"""Entry point: ./check <Cxx|all> [--tier quick|thorough]."""
from __future__ import annotations

import argparse
import importlib
import os
import subprocess
import sys

from . import common

CHECKS = {f"C{i:02d}": f"harness.c{i:02d}" for i in range(1, 21)}


def main():
    ap = argparse.ArgumentParser()
    ap.add_argument("what")
    ap.add_argument("--tier", default=None)
    ap.add_argument("--seed", type=int, default=None)
    ap.add_argument("--replay", default=None)
    a = ap.parse_args()
    tier = a.tier or common.tier_from_env()
    seed = a.seed if a.seed is not None else common.seed_from_env()
    if a.what == "all":
        rc = 0
        for pid in sorted(CHECKS):
            try:
                importlib.import_module(CHECKS[pid])
            except ModuleNotFoundError:
                continue
            p = subprocess.run([sys.executable, "-m", "harness.main", pid, "--tier", tier, "--seed", str(seed)])
            rc = max(rc, p.returncode)
        sys.exit(rc)
    if a.what == "selftest":
        from . import selftest

        common.run_main(lambda: selftest.main(tier, seed))
    pid = a.what.upper()
    if pid == "EXT":
        # every extension module (behaviour beyond the listed properties): harness/ext_<name>.py, each its own process
        import glob

        rc = 0
        for f in sorted(glob.glob(os.path.join(os.path.dirname(__file__), "ext_*.py"))):
            name = os.path.basename(f)[4:-3]
            p = subprocess.run([sys.executable, "-m", "harness.main", f"EXT-{name}", "--tier", tier, "--seed", str(seed)])
            rc = max(rc, p.returncode)
        sys.exit(rc)
    if pid.startswith("EXT-"):
        mod = importlib.import_module("harness.ext_" + a.what[4:].lower())
        common.run_main(lambda: mod.main(tier, seed))
    if pid not in CHECKS:
        print(f"unknown check {a.what}")
        sys.exit(2)

    def run():
        mod = importlib.import_module(CHECKS[pid])
        if a.replay:
            return mod.replay(a.replay)
        return mod.main(tier, seed)

    common.run_main(run)


if __name__ == "__main__":
    main()
