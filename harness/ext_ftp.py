"""Extension EXT-ftp (beyond the listed properties): FTPClient / FTPServer against spec/Ftp.tla.

(a) MC_Ftp is checked exhaustively (and MC_FtpAsCoded.cfg must be refuted); (b) TLC -simulate behaviours of
MC_FtpSim.cfg plus a few directed sequences are replayed as stimulus on a real network  c1, c2 -- sw -- r -- s
(FTPClient on the computers, FTPServer on s, the router's ACL for port blocking) through the Python API
(send_file / request_file), the `send' request of the client, service / node requests and ticks; (c) wrappers on
FTPClient.send_file / request_file / _process_ftp_command, FTPServer._process_ftp_command and
Simulation.pre_timestep record one event per spec action with the post-state projected from the real objects;
(d) TLC validates the recorded traces against FtpTrace.tla; (e) a shipped scenario (data_manipulation.yaml, in the
thorough tier also uc7_config.yaml) is stepped with random / scripted blue actions and scripted client transfers and
projected onto its FTP server and clients (the reachability between them is left "unknown" there).
Part of the behaviours and a few directed sequences are replayed on a thin variant  c1 -- s  (one 100 Mbit wire, files of
60 Mbit and of more than the bandwidth, several transfers per timestep): the sender's network interface then refuses
data frames ("Link is at capacity"), which is recorded as the environment fault SendFail of Ftp.tla.
Run: ./check EXT-ftp"""
from __future__ import annotations

import copy
import random
import re
from typing import Any, Dict, List, Optional

from . import common, scenarios, tlc, tracer

SERVER = "s"
HOSTS = {"c1": "c1", "c2": "c2", "s": "s"}
SERVER_IP = "192.168.2.2"
MC_ACTIONS = ("MBegin", "MSrvPort", "MSrvStor", "MSrvQuit", "MCliData", "MSrvRetr", "MReturn", "MSendFail", "MSvcReq", "MPower",
              "MBlock", "MCreateFile", "MDeleteFile", "MTick")
REPLAY_EVENTS = ("Begin", "SrvPort", "SrvStor", "SrvQuit", "CliData", "SrvRetr", "SendFail", "Return", "SvcReq", "Power", "Block",
                 "CreateFile", "DeleteFile", "Tick")
DEFAULTS = {"c": "", "node": "", "kind": "", "src": "", "dst": "", "p": "", "size": 0, "health": "", "verb": "",
            "flag": False, "ok": False, "st": ""}
BLOCK_POS = 1
_CUR: List[Optional["World"]] = [None]
_INSTALLED = [False]


def net_cfg() -> Dict[str, Any]:
    S = scenarios
    dur = {"start_up_duration": 0, "shut_down_duration": 0}
    nodes = [
        S.host("c1", "192.168.1.2", "computer", gw="192.168.1.1", **dur),
        S.host("c2", "192.168.1.3", "computer", gw="192.168.1.1", **dur),
        S.host("s", SERVER_IP, "server", gw="192.168.2.1", services=[{"type": "ftp-server"}], **dur),
        {"hostname": "sw", "type": "switch", "num_ports": 4},
        {"hostname": "r", "type": "router", "num_ports": 3,
         "ports": {1: {"ip_address": "192.168.1.1", "subnet_mask": "255.255.255.0"},
                   2: {"ip_address": "192.168.2.1", "subnet_mask": "255.255.255.0"}},
         "acl": {10: {"action": "PERMIT"}}},
    ]
    links = [S.link("c1", 1, "sw", 1), S.link("c2", 1, "sw", 2), S.link("sw", 3, "r", 1), S.link("s", 1, "r", 2)]
    return S.base_cfg(nodes, links)


THIN_SERVER_IP = "192.168.1.3"
BIG = 7_500_000        # bytes: 60 Mbit, one such transfer fits on the 100 Mbit wire in a timestep, a second does not
OVERSIZE = 13_000_000  # more than the wire carries in a timestep


def thin_cfg() -> Dict[str, Any]:
    """c1 and s on one wire of the default bandwidth: whatever the wire cannot carry is refused by the sender's interface."""
    S = scenarios
    dur = {"start_up_duration": 0, "shut_down_duration": 0}
    nodes = [S.host("c1", "192.168.1.2", "computer", **dur),
             S.host("s", THIN_SERVER_IP, "server", services=[{"type": "ftp-server"}], **dur)]
    return S.base_cfg(nodes, [S.link("c1", 1, "s", 1)])


def split(path: str):
    folder, _, name = path.partition("/")
    return folder, name


class World:
    """One recorded run: the real objects of one FTP server and its clients, and the trace being written."""

    def __init__(self, game, names: Dict[str, str], net: str, meta: Dict[str, Any]):
        from primaite.simulator.network.hardware.node_operating_state import NodeOperatingState
        from primaite.simulator.system.services.service import ServiceOperatingState

        self.NOS, self.SOS = NodeOperatingState, ServiceOperatingState
        self.game = game
        network = game.simulation.network
        self.node = {m: network.get_node_by_hostname(h) for m, h in names.items()}
        self.host = dict(names)
        self.clients = sorted(m for m in names if m != SERVER)
        self.svc = {m: self.node[m].software_manager.software["ftp-server" if m == SERVER else "ftp-client"] for m in names}
        self.ip2name: Dict[str, str] = {}
        for m, nd in self.node.items():
            for nic in nd.network_interface.values():
                if getattr(nic, "ip_address", None) is not None:
                    self.ip2name[str(nic.ip_address)] = m
        self.server_ips = {ip for ip, m in self.ip2name.items() if m == SERVER}
        self.net = net
        self.paths = set()
        self.declared = False
        self.strict = True      # replay runs: every handled FTP message is an event, inside a call or not
        self.in_call = False
        self.last_env: Optional[Dict[str, Any]] = None
        self.calls = {"send": [0, 0], "retr": [0, 0]}
        self.trace: Dict[str, Any] = {"cfg": None, "ev": [], "meta": meta, "stimulus": []}

    # -- projection of the real objects onto the variables of Ftp.tla
    def project(self) -> Dict[str, Any]:
        fs, on, op, rep, act = {}, {}, {}, {}, {}
        for m, nd in self.node.items():
            files = []
            for fo in nd.file_system.folders.values():
                for fi in fo.files.values():
                    p = f"{fo.name}/{fi.name}"
                    self.paths.add(p)
                    files.append({"p": p, "size": int(fi.sim_size or 0), "health": fi.health_status.name,
                                  "type": fi.file_type.name})
            fs[m] = sorted(files, key=lambda d: d["p"])
            on[m] = nd.operating_state == self.NOS.ON
            s = self.svc[m]
            op[m] = s.operating_state.name
            rep[m] = self.SOS(s.describe_state()["operating_state"]).name
            act[m] = bool(s._active)  # noqa
        conn = []
        for v in self.svc[SERVER].connections.values():
            ip = str(v.get("ip_address"))
            conn.append(self.ip2name.get(ip, ip))
        return {"fs": fs, "conn": sorted(conn), "on": on, "op": op, "rep": rep, "active": act, "net": self.net}

    def start(self):
        pr = self.project()
        self.trace["cfg"] = {"clients": self.clients, "ext": {}, "fs": pr["fs"], "on": pr["on"], "op": pr["op"],
                             "net": pr["net"], "conn": pr["conn"], "active": pr["active"]}
        self.last_env = {k: copy.deepcopy(pr[k]) for k in ("fs", "on", "op", "net")}

    def emit(self, ev: str, **kw):
        e = dict(DEFAULTS)
        e.update(kw)
        pr = self.project()
        e.update(pr)
        e["ev"] = ev
        for k in ("src", "dst", "p"):
            if e[k]:
                self.paths.add(e[k])
        self.last_env = {k: copy.deepcopy(pr[k]) for k in ("fs", "on", "op", "net")}
        self.trace["ev"].append(e)

    def sync(self):
        """Whatever the rest of the simulation did to the file systems / power / service states since the last event."""
        pr = self.project()
        if self.last_env is not None and {k: pr[k] for k in ("fs", "on", "op", "net")} != self.last_env:
            self.emit("Env")

    def close(self) -> Dict[str, Any]:
        if _CUR[0] is self:
            _CUR[0] = None
        ext = {}
        for p in self.paths:
            name = p.rsplit("/", 1)[-1]
            ext[p] = name.rsplit(".", 1)[1] if "." in name else ""
        self.trace["cfg"]["ext"] = ext
        self.trace["meta"]["calls"] = self.calls
        return self.trace

    # -- lookups used by the wrappers
    def client_of(self, svc) -> Optional[str]:
        for m in self.clients:
            if self.svc[m] is svc:
                return m
        return None

    def client_of_session(self, srv, session_id) -> str:
        try:
            ip = str(srv._get_session_details(session_id).with_ip_address)  # noqa
        except Exception:  # noqa
            return "?"
        return self.ip2name.get(ip, ip)

    # -- stimulus
    def req(self, model_node: str, *tail):
        return self.game.simulation.apply_request(["network", "node", self.host.get(model_node, model_node), *tail])

    def has(self, m: str, path: str) -> bool:
        fo, name = split(path)
        return self.node[m].file_system.get_file(folder_name=fo, file_name=name) is not None


def _call_args(a, k):
    names = ["dest_ip_address", "src_folder_name", "src_file_name", "dest_folder_name", "dest_file_name"]
    d = dict(zip(names, a))
    d.update({n: k[n] for n in names if n in k})
    return d


def install():
    """Wrappers in the harness process (never edits /repo); they report to the World in _CUR."""
    if _INSTALLED[0]:
        return
    _INSTALLED[0] = True
    from primaite.simulator.network.hardware.base import WiredNetworkInterface
    from primaite.simulator.network.protocols.ftp import FTPPacket
    from primaite.simulator.sim_container import Simulation
    from primaite.simulator.system.services.ftp.ftp_client import FTPClient
    from primaite.simulator.system.services.ftp.ftp_server import FTPServer

    def before_call(kind):
        def before(cli, *a, **k):
            w = _CUR[0]
            if w is None or w.declared:
                return None
            c = w.client_of(cli)
            d = _call_args(a, k)
            if c is None or str(d.get("dest_ip_address")) not in w.server_ips:
                return None
            w.sync()
            w.emit("Begin", c=c, kind=kind, src=f"{d.get('src_folder_name')}/{d.get('src_file_name')}",
                   dst=f"{d.get('dest_folder_name')}/{d.get('dest_file_name')}")
            w.in_call = True
            return (w, c, kind)

        return before

    def after_call(cli, tok, ret, exc, *a, **k):
        if tok is None:
            return
        w, c, kind = tok
        w.in_call = False
        if exc is not None:
            w.emit("Raised", c=c, kind=kind, verb=type(exc).__name__)
            return
        w.calls[kind][0] += 1
        w.calls[kind][1] += int(bool(ret))
        w.emit("Return", c=c, kind=kind, ok=bool(ret))

    tracer.wrap(FTPClient, "send_file", before=before_call("send"), after=after_call)
    tracer.wrap(FTPClient, "request_file", before=before_call("retr"), after=after_call)

    def after_srv(srv, tok, ret, exc, *a, **k):
        w = _CUR[0]
        if w is None or srv is not w.svc[SERVER] or exc is not None or not (w.strict or w.in_call):
            return
        payload = k.get("payload", a[0] if a else None)
        session_id = k.get("session_id", a[1] if len(a) > 1 else None)
        ev = {"PORT": "SrvPort", "STOR": "SrvStor", "QUIT": "SrvQuit", "RETR": "SrvRetr"}.get(payload.ftp_command.name)
        if ev is None:
            return
        st = payload.status_code.name if payload.status_code is not None else "NONE"
        w.emit(ev, c=w.client_of_session(srv, session_id), st=st)

    tracer.wrap(FTPServer, "_process_ftp_command", after=after_srv)

    def after_cli(cli, tok, ret, exc, *a, **k):
        w = _CUR[0]
        if w is None or exc is not None:
            return
        c = w.client_of(cli)
        payload = k.get("payload", a[0] if a else None)
        if c is None or payload.ftp_command.name != "STOR" or not (w.strict or w.in_call):
            return
        w.emit("CliData", c=c, st=payload.status_code.name if payload.status_code is not None else "NONE")

    tracer.wrap(FTPClient, "_process_ftp_command", after=after_cli)

    def after_nic_send(nic, tok, ret, exc, *a, **k):
        # the environment fault SendFail: the sender's interface refused an FTP frame (link at capacity / disabled)
        w = _CUR[0]
        if w is None or exc is not None or ret or not (w.strict or w.in_call):
            return
        frame = k.get("frame", a[0] if a else None)
        payload = getattr(frame, "payload", None)
        if not isinstance(payload, FTPPacket):
            return
        node = getattr(nic, "_connected_node", None)
        who = next((m for m, nd in w.node.items() if nd is node), None)
        if who is None:
            return
        if who == SERVER:
            ip = str(frame.ip.dst_ip_address)
            w.emit("SendFail", c=w.ip2name.get(ip, ip), verb="server", st=payload.ftp_command.name)
        else:
            w.emit("SendFail", c=who, verb="client", st=payload.ftp_command.name)

    tracer.wrap(WiredNetworkInterface, "send_frame", after=after_nic_send)

    def before_tick(sim, *a, **k):
        w = _CUR[0]
        if w is not None and w.game.simulation is sim:
            w.sync()
            return w
        return None

    def after_tick(sim, tok, ret, exc, *a, **k):
        if tok is not None and exc is None:
            tok.emit("Tick")

    tracer.wrap(Simulation, "pre_timestep", before=before_tick, after=after_tick)


# ---------------------------------------------------------------------------------------------------------------
# replay of model behaviours / directed sequences
# ---------------------------------------------------------------------------------------------------------------


def stimulus_of(beh) -> List[List[Any]]:
    out: List[List[Any]] = []
    for st in beh[1:]:
        p = [x.strip().strip('"') for x in st["params"].split(",")] if st["params"] else []
        a = st["action"]
        if a == "MBegin":
            out.append(["begin", p[0], p[1], p[2], p[3]])
        elif a == "MSvcReq":
            out.append(["svc", p[0], p[1]])
        elif a == "MPower":
            out.append(["power", p[0]])
        elif a == "MBlock":
            out.append(["block"])
        elif a == "MCreateFile":
            out.append(["create", p[0], p[1]])
        elif a == "MDeleteFile":
            out.append(["delete", p[0], p[1]])
        elif a == "MTick":
            out.append(["tick"])
    return out


def directed() -> List[Dict[str, Any]]:
    """Sequences in the model's alphabet that random simulation reaches rarely (validated by TLC like the others)."""
    A, B, K = "d/a.txt", "e/b.pdf", "k/c.txt"
    T = ["tick"]
    return [
        {"name": "store-then-fetch-by-other-client", "steps": [["begin", "c1", "send", A, B], T, ["begin", "c2", "retr", B, K],
                                                               ["begin", "c2", "send", A, "e/x"], ["begin", "c1", "retr", "e/x", "k/y.txt"], T, T]},
        {"name": "duplicate-destination-and-missing-source", "steps": [["begin", "c1", "send", A, B], ["begin", "c2", "send", A, B],
                                                                       ["begin", "c1", "send", "d/none.txt", K], ["begin", "c1", "retr", "e/none.pdf", K],
                                                                       ["delete", "s", B], ["begin", "c2", "send", A, B], ["begin", "c1", "retr", B, K]]},
        {"name": "server-stopped-paused-disabled", "steps": [["svc", "s", "stop"], ["begin", "c1", "send", A, B], ["begin", "c1", "retr", B, K],
                                                             ["svc", "s", "start"], ["begin", "c1", "send", A, B], ["svc", "s", "pause"],
                                                             ["begin", "c2", "retr", B, K], ["svc", "s", "resume"], ["begin", "c2", "retr", B, K],
                                                             ["svc", "s", "disable"], ["begin", "c2", "send", A, "e/z.txt"], ["svc", "s", "enable"],
                                                             ["svc", "s", "start"], T, ["begin", "c2", "send", A, "e/z.txt"]]},
        {"name": "port-blocked", "steps": [["block"], ["begin", "c1", "send", A, B], ["begin", "c1", "retr", B, K], ["block"],
                                           ["begin", "c1", "send", A, B], ["block"], ["begin", "c2", "retr", B, K], ["block"],
                                           ["begin", "c2", "retr", B, K]]},
        {"name": "power-cycles", "steps": [["power", "s"], ["begin", "c1", "send", A, B], ["power", "s"], ["begin", "c1", "send", A, B],
                                           ["power", "c1"], ["begin", "c1", "retr", B, K], ["begin", "c1", "send", A, "e/q.txt"], ["power", "c1"], T,
                                           ["begin", "c1", "retr", B, K], ["power", "s"], ["power", "s"], ["begin", "c2", "retr", B, K]]},
        {"name": "client-not-running-first-contact", "steps": [["svc", "c1", "stop"], ["begin", "c1", "send", A, B], ["begin", "c1", "retr", B, K],
                                                               ["svc", "c1", "start"], ["svc", "c2", "disable"], ["begin", "c2", "send", A, B],
                                                               ["begin", "c1", "send", A, B], ["svc", "c2", "enable"], ["svc", "c2", "start"],
                                                               ["begin", "c2", "retr", B, K]]},
        {"name": "connection-table", "steps": [["begin", "c1", "retr", "e/none.pdf", K], ["begin", "c2", "retr", "e/none.pdf", K],
                                               ["begin", "c1", "retr", "e/none.pdf", K], ["begin", "c1", "send", A, B],
                                               ["begin", "c2", "send", A, B], ["begin", "c2", "send", A, "e/w.txt"], T]},
        # the two triggers found on the unchanged tree, each on its own so that they mask nothing else
        {"name": "retr-onto-existing-file", "steps": [["begin", "c1", "send", A, B], ["begin", "c1", "retr", B, A]]},
        {"name": "retr-by-stopped-client-after-earlier-contact", "steps": [["begin", "c1", "send", A, B], ["svc", "c1", "stop"],
                                                                           ["begin", "c1", "retr", B, K]]},
    ]


def directed_thin() -> List[Dict[str, Any]]:
    """Transfers whose data frame cannot leave the sender: the wire has no capacity left in the timestep / is too small."""
    A, B = "d/a.txt", "e/b.pdf"
    T = ["tick"]
    return [
        {"name": "two-big-retrievals-in-one-timestep", "steps": [["create", "s", B, BIG], T, ["begin", "c1", "retr", B, "k/1.pdf"],
                                                                 ["begin", "c1", "retr", B, "k/2.pdf"], ["begin", "c1", "retr", B, "k/3.pdf"], T,
                                                                 ["begin", "c1", "retr", B, "k/2.pdf"], T, ["begin", "c1", "retr", "e/none.pdf", "k/9.pdf"]]},
        {"name": "two-big-stores-in-one-timestep", "steps": [T, ["begin", "c1", "send", A, "e/1.txt"], ["begin", "c1", "send", A, "e/2.txt"],
                                                             ["begin", "c1", "send", A, "e/3.txt"], T, ["begin", "c1", "send", A, "e/2.txt"], T]},
        {"name": "file-larger-than-the-wire", "steps": [["create", "s", "e/huge.mp4", OVERSIZE], ["create", "c1", "d/huge.mp4", OVERSIZE], T,
                                                        ["begin", "c1", "retr", "e/huge.mp4", "k/huge.mp4"], T,
                                                        ["begin", "c1", "send", "d/huge.mp4", "e/up.mp4"], T,
                                                        ["create", "s", "e/small.txt", 900], ["begin", "c1", "retr", "e/small.txt", "k/small.txt"]]},
        {"name": "store-then-fetch-in-one-timestep", "steps": [T, ["begin", "c1", "send", A, "e/1.txt"], ["begin", "c1", "retr", "e/1.txt", "k/back.txt"],
                                                               ["create", "s", "e/small.txt", 900], ["begin", "c1", "retr", "e/small.txt", "k/small.txt"], T,
                                                               ["begin", "c1", "retr", "e/1.txt", "k/back.txt"], ["begin", "c1", "send", A, "e/4.txt"]]},
    ]


def run_steps(steps: List[List[Any]], clients: List[str], rng: random.Random, avoid: bool, meta: Dict[str, Any],
              thin: bool = False) -> Dict[str, Any]:
    from ipaddress import IPv4Address

    from primaite.simulator.file_system.file_system_item_abc import FileSystemItemHealthStatus as H

    if thin:
        clients = ["c1"]
    game = scenarios.build(thin_cfg() if thin else net_cfg())
    w = World(game, {m: HOSTS[m] for m in clients + [SERVER]}, "open", meta)
    # the initial files of MC_Ftp.Init (thin variant: files that load the wire)
    for m, (size, health) in {"c1": (BIG if thin else 1, H.GOOD), "c2": (2, H.CORRUPT)}.items():
        if m in w.node:
            f = w.node[m].file_system.create_file("a.txt", size=size, folder_name="d")
            f.health_status = health
    _CUR[0] = w
    w.start()
    sip = THIN_SERVER_IP if thin else SERVER_IP
    ip = IPv4Address(sip)
    for st in steps:
        kind = st[0]
        n_before = len(w.trace["ev"])
        try:
            if kind == "begin":
                _, c, what, src, dst = st
                if c not in w.clients:
                    continue
                (sf, sn), (df, dn) = split(src), split(dst)
                if what == "retr":
                    if avoid and (w.svc[c].operating_state.name != "RUNNING" or w.has(c, dst)):
                        continue  # keeps away from the triggers of the two divergences found on the unchanged tree
                    w.svc[c].request_file(ip, sf, sn, df, dn)
                elif rng.random() < 0.5:
                    w.svc[c].send_file(ip, sf, sn, df, dn)
                else:  # the client's `send' request is the API call
                    w.sync()
                    w.declared = True
                    w.in_call = True
                    w.emit("Begin", c=c, kind="send", src=src, dst=dst)
                    try:
                        resp = w.req(c, "service", "ftp-client", "send",
                                     {"dest_ip_address": sip, "src_folder_name": sf, "src_file_name": sn,
                                      "dest_folder_name": df, "dest_file_name": dn})
                    finally:
                        w.declared = False
                        w.in_call = False
                    ok = resp.status == "success"
                    w.calls["send"][0] += 1
                    w.calls["send"][1] += int(ok)
                    w.emit("Return", c=c, kind="send", ok=ok)
            elif kind == "svc":
                _, m, verb = st
                if m not in w.node:
                    continue
                w.req(m, "service", "ftp-server" if m == SERVER else "ftp-client", verb)
                w.emit("SvcReq", node=m, verb=verb)
            elif kind == "power":
                m = st[1]
                if m not in w.node:
                    continue
                was_on = w.node[m].operating_state == w.NOS.ON
                resp = w.req(m, "shutdown" if was_on else "startup")
                now_on = w.node[m].operating_state == w.NOS.ON
                if resp.status == "success" and now_on != was_on:
                    w.emit("Power", node=m, flag=now_on)
            elif kind == "block":
                if thin:
                    continue  # no router on the single wire
                if w.net == "open":
                    resp = w.req("r", "acl", "add_rule", "DENY", "TCP", "ALL", "NONE", "ALL", "ALL", "NONE", "FTP", BLOCK_POS)
                    new = "blocked"
                else:
                    resp = w.req("r", "acl", "remove_rule", BLOCK_POS)
                    new = "open"
                if resp.status != "success":
                    raise RuntimeError(f"harness: ACL request refused: {resp}")
                w.net = new
                w.emit("Block", flag=new == "blocked")
            elif kind == "create":
                m, p = st[1], st[2]
                if m not in w.node or w.has(m, p):
                    continue
                fo, name = split(p)
                size = st[3] if len(st) > 3 else ((BIG if rng.random() < 0.8 else OVERSIZE) if thin else 3)
                w.node[m].file_system.create_file(name, size=size, folder_name=fo)
                w.emit("CreateFile", node=m, p=p, size=size, health="GOOD")
            elif kind == "delete":
                _, m, p = st
                if m not in w.node or not w.has(m, p):
                    continue
                fo, name = split(p)
                w.node[m].file_system.delete_file(folder_name=fo, file_name=name)
                w.emit("DeleteFile", node=m, p=p)
            elif kind == "tick":
                game.pre_timestep()
                game.advance_timestep()
        except Exception as e:  # noqa - an exception out of repository code is an event no action allows
            if not (len(w.trace["ev"]) > n_before and w.trace["ev"][-1]["ev"] == "Raised"):
                w.emit("Raised", verb=type(e).__name__)
            w.trace["meta"]["exception"] = repr(e)[:300]
            w.trace["stimulus"].append(st)
            break
        w.trace["stimulus"].append(st)
    w.sync()
    return w.close()


# ---------------------------------------------------------------------------------------------------------------
# scenario-scale run
# ---------------------------------------------------------------------------------------------------------------


def run_scenario(name: str, seed: int, n_steps: int, episodes: int) -> List[Dict[str, Any]]:
    from ipaddress import IPv4Address

    from primaite.session.environment import PrimaiteGymEnv
    from primaite.simulator import SIM_OUTPUT

    cfg = copy.deepcopy(scenarios.shipped(name))
    io = cfg.setdefault("io_settings", {})
    for k in ("save_agent_actions", "save_step_metadata", "save_pcap_logs", "save_sys_logs", "save_agent_logs"):
        io[k] = False
    env = PrimaiteGymEnv(env_config=cfg)
    SIM_OUTPUT.save_pcap_logs = SIM_OUTPUT.save_sys_logs = SIM_OUTPUT.save_agent_logs = False
    rng = random.Random(seed * 7919 + 17)
    traces = []
    for ep in range(episodes):
        env.reset(seed=seed + ep)
        game = env.game
        names: Dict[str, str] = {}
        for nd in game.simulation.network.nodes.values():
            sw = getattr(nd, "software_manager", None)
            if sw is None:
                continue
            if "ftp-server" in sw.software and SERVER not in names:
                names[SERVER] = nd.config.hostname
            elif "ftp-client" in sw.software:
                names["h_" + re.sub(r"[^A-Za-z0-9_]", "_", nd.config.hostname)] = nd.config.hostname
        if SERVER not in names or len(names) < 2:
            raise RuntimeError(f"harness: no FTP server / client in {name}")
        w = World(game, names, "unknown", {"scenario": name, "episode": ep, "seed": seed})
        w.strict = False
        _CUR[0] = w
        w.start()
        sip = IPv4Address(sorted(w.server_ips)[0])
        amap = env.agent.action_manager.action_map
        n_act = env.action_space.n
        by_name: Dict[str, List[int]] = {}
        for i, (an, _opt) in amap.items():
            by_name.setdefault(an, []).append(i)
        favourites = by_name.get("node-service-fix", []) + by_name.get("node-file-delete", []) + by_name.get("node-folder-restore", [])
        hosts = [m for m in w.clients if "client" in m.lower() or "pc" in m.lower()] or w.clients
        sent: List[str] = []
        try:
            for t in range(n_steps):
                r = rng.random()
                if r < 0.25 and hosts:  # a scripted transfer by one of the office clients
                    c = rng.choice(hosts)
                    if rng.random() < 0.6 or not sent:
                        fname = f"report{t}.{rng.choice(['pdf', 'txt', 'docx'])}"
                        if rng.random() < 0.85:
                            w.node[c].file_system.create_file(fname, size=rng.choice([0, 500, 70000]) or None, folder_name="docs")
                        dst = rng.choice(sent) if sent and rng.random() < 0.2 else f"inbox/{fname}"
                        resp = w.req(c, "service", "ftp-client", "send",
                                     {"dest_ip_address": str(sip), "src_folder_name": "docs", "src_file_name": fname,
                                      "dest_folder_name": split(dst)[0], "dest_file_name": split(dst)[1]})
                        if resp.status == "success":
                            sent.append(dst)
                    else:
                        src = rng.choice(sent)
                        w.svc[c].request_file(sip, split(src)[0], split(src)[1], "downloads", f"{t}_{split(src)[1]}")
                a = rng.choice(favourites) if favourites and rng.random() < 0.25 else rng.randrange(n_act)
                env.step(a)
        except Exception as e:  # noqa
            w.emit("Raised", verb=type(e).__name__)
            w.trace["meta"]["exception"] = repr(e)[:300]
        w.sync()
        traces.append(w.close())
    try:
        env.close()
    except Exception:  # noqa
        pass
    return traces


def sig_fn(tr, event, stuck) -> Dict[str, Any]:
    """Canonical key of a rejected trace: the root cause, not the circumstances (those are in the replay file)."""
    st = (stuck or {}).get("st") or {}
    fail = set((stuck or {}).get("fail") or [])
    call = st.get("call") if isinstance(st, dict) else None
    call = call if isinstance(call, dict) else {}
    op = st.get("op") if isinstance(st, dict) and isinstance(st.get("op"), dict) else {}
    kind = call.get("kind", "")
    if "OnlyRunningClient" in fail:
        return {"kind": kind, "clause": "OnlyRunningClient", "finding": "exchange-by-a-client-that-is-not-running"}
    if "RetrOkOnlyIfDelivered" in fail and call.get("fault"):
        return {"kind": kind, "clause": "RetrOkOnlyIfDelivered", "event": "SrvRetr",
                "finding": "retr-ok-although-the-data-frame-never-left-the-server"}
    if "RetrOkOnlyIfDelivered" in fail or ("ReturnTrueIffTransferred" in fail and kind == "retr" and event.get("ok")):
        return {"kind": kind, "clause": "RetrOkOnlyIfDelivered", "event": "SrvRetr", "finding": "retr-ok-without-delivery"}
    c = event.get("c") or call.get("c") or ""
    return {"kind": kind, "client_state": op.get(c, ""), "where": "scenario" if tr["meta"].get("scenario") else "replay"}


def main(tier: str, seed: int) -> int:
    import time
    from concurrent.futures import ThreadPoolExecutor

    chk = common.Check("EXT-ftp", "model_checking", tier, seed)
    quick = tier == "quick"
    rng = random.Random(seed)
    t0 = time.time()
    phases: Dict[str, float] = {}
    pool = ThreadPoolExecutor(max_workers=4)

    # (a) exhaustive model + the negative configuration, (b) behaviours of the model: TLC runs while primaite boots
    n_beh = 70 if quick else 700
    f_mc = pool.submit(tlc.mc, "MC_Ftp", workers=8)
    f_neg = pool.submit(tlc.mc, "MC_Ftp", cfg="MC_FtpAsCoded.cfg", workers=4)
    f_sim = pool.submit(tlc.simulate, "MC_Ftp", cfg="MC_FtpSim.cfg", num=n_beh, depth=70, seed=seed + 31)
    common.boot()
    install()
    phases["boot"] = round(time.time() - t0, 1)
    behs, info = f_sim.result()
    chk.cov["transitions"] += info["states"]

    traces: List[Dict[str, Any]] = []
    for i, beh in enumerate(behs):
        cl = sorted(beh[0]["state"]["clients"]["__set__"])
        steps = stimulus_of(beh)
        tr = run_steps(steps, cl, rng, avoid=bool(i % 2), meta={"source": "tlc-simulate", "index": i, "avoid": bool(i % 2)})
        traces.append(tr)
        chk.add_case(tr["stimulus"], nontrivial=any(s[0] == "begin" for s in tr["stimulus"]))
    for d in directed():
        for rep in range(1 if quick else 4):
            tr = run_steps(d["steps"], ["c1", "c2"], rng, avoid=False, meta={"source": "directed", "name": d["name"]})
            traces.append(tr)
            chk.add_case(tr["stimulus"])
    # the thin variant: the same alphabet on one wire with files that load it (SendFail)
    thin_behs = [b for b in behs if any(st["action"] == "MBegin" for st in b[1:])][: (16 if quick else 160)]
    for i, beh in enumerate(thin_behs):
        tr = run_steps([st for st in stimulus_of(beh) if len(st) < 2 or st[1] != "c2"], ["c1"], rng, avoid=False,
                       meta={"source": "tlc-simulate", "index": i, "variant": "thin"}, thin=True)
        traces.append(tr)
        chk.add_case(["thin"] + tr["stimulus"], nontrivial=any(s[0] == "begin" for s in tr["stimulus"]))
    for d in directed_thin():
        for rep in range(1 if quick else 3):
            tr = run_steps(d["steps"], ["c1"], rng, avoid=False, meta={"source": "directed", "name": d["name"], "variant": "thin"}, thin=True)
            traces.append(tr)
            chk.add_case(["thin"] + tr["stimulus"])
    phases["replay"] = round(time.time() - t0, 1)
    f_val = pool.submit(tlc.validate, "FtpTrace", traces, chunk=40 if quick else 120)

    # (e) scenario-scale, recorded while TLC validates the replay traces
    sc_traces: List[Dict[str, Any]] = []
    for name, steps_n, eps in ([("data_manipulation.yaml", 60, 2)] if quick else
                               [("data_manipulation.yaml", 120, 6), ("uc7_config.yaml", 100, 2)]):
        try:
            sc_traces += run_scenario(name, seed, steps_n, eps)
        except StopIteration:
            chk.notes.append(f"{name}: no single proxy agent, skipped")
    if not sc_traces:
        raise RuntimeError("no scenario-scale trace recorded")
    phases["scenario"] = round(time.time() - t0, 1)
    f_val_sc = pool.submit(tlc.validate, "FtpTrace", sc_traces, chunk=2)

    r = f_mc.result()
    if not r["ok"]:
        chk.violation({"module": "MC_Ftp", "clause": str(r["violation"])}, {"tlc": r["output_tail"]})
    chk.add_mc("MC_Ftp(1 and 2 clients, 2 paths, 6 verbs, 4 calls/environment steps)", r)
    for act in MC_ACTIONS:
        if r["coverage"].get(act, (0, 0))[1] == 0:
            raise tlc.TLCError(f"vacuous model: action {act} never taken")
    rn = f_neg.result()
    if rn["ok"] or not rn["violation"] or rn["violation"][1] not in ("OkOnlyOnSuccess", "ExactlyOneCreated"):
        raise tlc.TLCError(f"negative configuration MC_FtpAsCoded was not refuted as expected: {rn['violation']}")
    chk.cov["negative_configuration"] = {"model": "MC_FtpAsCoded", "refuted_by": list(rn["violation"]),
                                         "distinct_states": rn["distinct"]}
    if not quick:
        rd = tlc.mc("MC_Ftp", cfg="MC_FtpDeep.cfg")
        if not rd["ok"]:
            chk.violation({"module": "MC_FtpDeep", "clause": str(rd["violation"])}, {"tlc": rd["output_tail"]})
        chk.add_mc("MC_FtpDeep(5 calls/environment steps)", rd)
    phases["mc"] = round(time.time() - t0, 1)

    res = f_val.result()
    common.judge_traces(chk, "Ftp", traces, res, sig_fn, label="replay", selftest="FtpTrace")
    accepted = sum(1 for (a, b) in res["results"] if a == b + 1)
    res_sc = f_val_sc.result()
    common.judge_traces(chk, "Ftp", sc_traces, res_sc, sig_fn, label="scenario")
    pool.shutdown()
    phases["validated"] = round(time.time() - t0, 1)
    sc_calls = {k: [sum(t["meta"]["calls"][k][j] for t in sc_traces) for j in (0, 1)] for k in ("send", "retr")}
    accepted_sc = sum(1 for (a, b) in res_sc["results"] if a == b + 1)

    # vacuity guards
    per_event = chk.cov.get("impl_events", {})
    missing = [e for e in REPLAY_EVENTS + ("Env",) if per_event.get(e, 0) == 0]
    if missing:
        raise RuntimeError(f"vacuous binding: no accepted event of {missing}")
    if accepted == 0:
        raise RuntimeError("vacuous binding: TLC accepted no replay trace")
    if sum(v[0] for v in sc_calls.values()) == 0 or sc_calls["send"][1] == 0:
        raise RuntimeError(f"vacuous scenario-scale run: FTP calls {sc_calls}")
    chk.cov["traces"] = {"replay": len(traces), "replay_accepted": accepted, "scenario": len(sc_traces),
                         "scenario_accepted": accepted_sc,
                         "events_replay": sum(len(t["ev"]) for t in traces),
                         "events_scenario": sum(len(t["ev"]) for t in sc_traces)}
    chk.cov["calls_replay_[made,true]"] = {k: [sum(t["meta"]["calls"][k][j] for t in traces) for j in (0, 1)] for k in ("send", "retr")}
    chk.cov["calls_scenario_[made,true]"] = sc_calls
    chk.cov["calls_refused_by_sender_interface"] = sum(
        1 for t in traces for i, e in enumerate(t["ev"]) if e["ev"] == "SendFail" and (i == 0 or t["ev"][i - 1]["ev"] != "SendFail"))
    chk.cov["phase_end_s"] = phases
    chk.sample({"cfg": traces[0]["cfg"], "events": traces[0]["ev"][:3]})
    chk.assumptions += [
        "an existing destination file is not replaced by a transfer (FileSystem.create_file), the transfer then fails",
        "the server's connection table survives stopping the service / power-cycling the node (as coded; undocumented)",
        "service verbs are either applied as documented or refused (the lifecycle is C13's); node power is instantaneous",
        "port blocking = a DENY rule for TCP/FTP on the router between clients and server (both directions)",
        "scenario-scale runs leave the reachability between client and server unknown: a failed call is always "
        "explainable there, a call that returns True must satisfy every clause",
        "the type of a created file is only pinned when the destination keeps the extension of the source",
        "SendFail (the sender's own interface refuses a frame) is observed at WiredNetworkInterface.send_frame of the hosts; "
        "frames lost further along the path are not modelled (the thin variant has one wire, the routed one tiny files)",
    ]
    return chk.finish()
