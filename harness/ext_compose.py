"""Extension (beyond the listed properties): scenario-scale composition.  Whole episodes of the shipped scenarios are
run through the real PrimaiteGymEnv (scripted green/red agents acting, the blue agent drawing actions with a bias to
power and interface actions) while *passive* recorders project the run onto several component models at once:

  * every node        -> NodePower.tla   (one trace per node: power requests, other requests, ticks, traffic),
  * every link / band -> Link.tla        (rec_link's recorder, one trace per link),
  * every switch      -> Switch.tla      (learning and forwarding of every frame a switch port receives).

TLC validates each projection with the component's trace specification: every clause of the component models is
evaluated at every step of executions in which all components interact.  Run: ./check EXT-compose"""
from __future__ import annotations

import copy
import random
from typing import Any, Dict, List

from . import common, scenarios, tlc, tracer
from .c12 import ST
from .rec_link import LinkRecorder


class PowerRecorder:
    """One NodePowerTrace trace per node of the running game."""

    def __init__(self):
        self.tr: Dict[int, Dict[str, Any]] = {}
        self.node: Dict[int, Any] = {}
        self.acc: Dict[int, int] = {}
        self.emit: Dict[int, int] = {}
        self.active = False
        self.rm: Dict[int, Any] = {}
        self.prog0: Dict[int, int] = {}

    @staticmethod
    def project(n) -> Dict[str, Any]:
        from primaite.simulator.system.applications.application import ApplicationOperatingState
        from primaite.simulator.system.services.service import ServiceOperatingState

        run = [name for name, sw in n.software_manager.software.items()
               if getattr(sw, "operating_state", None) in (ServiceOperatingState.RUNNING, ApplicationOperatingState.RUNNING)]
        return {"st": ST[n.operating_state.name], "nic": [bool(n.network_interface[k].enabled) for k in sorted(n.network_interface)],
                "run": sorted(run)}

    def begin(self, game, label: str):
        self.tr, self.node, self.acc, self.emit, self.rm = {}, {}, {}, {}, {}
        for n in game.simulation.network.nodes.values():
            p = self.project(n)
            self.node[id(n)] = n
            self.rm[id(n._request_manager)] = n
            self.acc[id(n)] = self.emit[id(n)] = 0
            self.tr[id(n)] = {"cfg": {"up": int(n.config.start_up_duration), "down": int(n.config.shut_down_duration), **p}, "ev": [],
                              "meta": {"scenario": label, "node": n.config.hostname, "node_type": type(n).__name__}, "stimulus": []}
        self.active = True

    def _ev(self, n, ev, kind="", ok=False, acc=0, em=0):
        from .c12 import progress

        self.tr[id(n)]["ev"].append({"ev": ev, "kind": kind, "ok": bool(ok), "acc": acc, "emit": em, "prog0": self.prog0.pop(id(n), 0) if ev == "Tick" else 0,
                                     "prog": progress(n), **self.project(n)})

    def _flush(self, n):
        i = id(n)
        if self.acc.get(i) or self.emit.get(i):
            self._ev(n, "FrameIn", "passive", False, self.acc[i], self.emit[i])
            self.acc[i] = self.emit[i] = 0

    def install(self):
        from primaite.simulator.network.airspace import AirSpace, WirelessNetworkInterface
        from primaite.simulator.network.hardware.base import Link, Node

        r = self

        def mine(n) -> bool:
            return r.active and n is not None and id(n) in r.tr

        def before_req(rm, request, context=None):
            n = r.rm.get(id(rm)) if r.active else None
            if mine(n) and request and request[0] in ("startup", "shutdown", "reset"):
                r._flush(n)  # traffic so far happened in the state before this request

        def after_req(rm, tok, ret, exc, request, context=None):
            n = r.rm.get(id(rm)) if r.active else None
            if not mine(n) or not request:
                return
            ok = getattr(ret, "status", None) == "success"
            if exc is not None:
                r._flush(n)
                r._ev(n, "Raised", type(exc).__name__)
                r.tr[id(n)]["meta"]["exception"] = repr(exc)[:200]
            elif request[0] in ("startup", "shutdown", "reset"):
                r._ev(n, "ReqPower", str(request[0]), ok)
            else:
                r._flush(n)
                r._ev(n, "ReqOther", "/".join(str(x) for x in request[:3]), ok)

        def before_tick(n, timestep):
            if mine(n):
                r._flush(n)
                from .c12 import progress

                r.prog0[id(n)] = progress(n)

        def after_tick(n, tok, ret, exc, timestep):
            if mine(n):
                r._ev(n, "Tick")

        def before_tx(link, sender_nic, frame):
            n = getattr(sender_nic, "_connected_node", None)
            if mine(n):
                r.emit[id(n)] += 1

        def after_tx(link, tok, ret, exc, sender_nic, frame):
            if exc is not None or not ret:
                return
            receiver = link.endpoint_a if link.endpoint_a is not sender_nic else link.endpoint_b
            n = getattr(receiver, "_connected_node", None)
            if mine(n):
                r.acc[id(n)] += 1

        def before_air(air, frame, sender):
            n = getattr(sender, "_connected_node", None)
            if mine(n):
                r.emit[id(n)] += 1

        def after_wrecv(wi, tok, ret, exc, frame):
            n = getattr(wi, "_connected_node", None)
            if exc is None and ret and mine(n):
                r.acc[id(n)] += 1

        from primaite.simulator.core import RequestManager

        tracer.wrap(RequestManager, "__call__", before=before_req, after=after_req)  # (the network calls a node's manager directly)
        tracer.wrap(Node, "apply_timestep", before=before_tick, after=after_tick)
        tracer.wrap(Link, "transmit_frame", before=before_tx, after=after_tx)
        tracer.wrap(AirSpace, "transmit", before=before_air)
        tracer.wrap(WirelessNetworkInterface, "receive_frame", after=after_wrecv)

    def take(self) -> List[Dict[str, Any]]:
        self.active = False
        for i, n in self.node.items():
            self._flush(n)
        out = [t for t in self.tr.values() if len(t["ev"]) >= 2]
        self.tr = {}
        return out


class SwitchRecorder:
    """One SwitchTrace trace per switch: every frame a switch port takes in, with the ports it left through."""

    def __init__(self):
        self.tr: Dict[int, Dict[str, Any]] = {}
        self.names: Dict[int, Dict[str, str]] = {}
        self.cur: List[Any] = []
        self.active = False

    def begin(self, game, label: str):
        from primaite.simulator.network.hardware.nodes.network.switch import Switch

        self.tr, self.names = {}, {}
        for n in game.simulation.network.nodes.values():
            if isinstance(n, Switch):
                ports = sorted(n.network_interface)
                self.names[id(n)] = {"ff:ff:ff:ff:ff:ff": "ff"}
                self.tr[id(n)] = {"cfg": {"nPorts": len(ports), "enabled": [bool(n.network_interface[i].enabled) for i in ports],
                                          "tbl": self._tbl(n)}, "ev": [],
                                  "meta": {"scenario": label, "node": n.config.hostname}, "stimulus": [], "sw": n}
        self.active = True

    def _name(self, sw, mac: str) -> str:
        d = self.names[id(sw)]
        mac = str(mac).lower()
        if mac not in d:
            d[mac] = f"m{len(d)}"
        return d[mac]

    def _tbl(self, sw):
        return sorted(({"mac": self._name(sw, m), "port": int(pt.port_num)} for m, pt in sw.mac_address_table.items()), key=lambda x: x["mac"])

    def install(self):
        from primaite.simulator.network.hardware.nodes.network.switch import Switch, SwitchPort

        r = self

        def before_recv(port, frame):
            sw = getattr(port, "_connected_node", None)
            if r.active and sw is not None and id(sw) in r.tr:
                en = [bool(sw.network_interface[i].enabled) for i in sorted(sw.network_interface)]
                t = r.tr[id(sw)]
                last = t.get("en", t["cfg"]["enabled"])
                for i, (a, b) in enumerate(zip(last, en)):
                    if a != b:  # interface switched since the last frame (request or power transition)
                        t["ev"].append({"ev": "SetPort", "src": "", "dst": "", "inp": 0, "outs": [], "port": i + 1, "en": b, "tbl": r._tbl(sw)})
                t["en"] = en
                # (read the addresses now: later hops rewrite the header of the same frame object in place)
                r.cur.append((sw, [], str(frame.ethernet.src_mac_addr), str(frame.ethernet.dst_mac_addr)))
                return True
            return None

        def after_recv(port, tok, ret, exc, frame):
            if not tok:
                return
            sw, outs, src, dst = r.cur.pop()
            if not port.enabled or sw.operating_state.name != "ON":
                return
            r.tr[id(sw)]["ev"].append({"ev": "Receive", "src": r._name(sw, src), "dst": r._name(sw, dst),
                                       "inp": int(port.port_num), "outs": sorted(outs), "port": 0, "en": False, "tbl": r._tbl(sw)})

        def before_send(port, frame):
            # the forwarding decision: the switch hands the frame to an enabled port (whether the link behind it
            # is up and has capacity left is the link's business - Link.tla)
            if r.cur and port.enabled and getattr(port, "_connected_node", None) is r.cur[-1][0]:
                r.cur[-1][1].append(int(port.port_num))

        tracer.wrap(SwitchPort, "receive_frame", before=before_recv, after=after_recv)
        tracer.wrap(SwitchPort, "send_frame", before=before_send)

    def take(self) -> List[Dict[str, Any]]:
        self.active = False
        out = []
        for t in self.tr.values():
            t.pop("sw", None)
            t.pop("en", None)
            if t["ev"]:
                out.append(t)
        self.tr = {}
        return out


BIAS = ("node-shutdown", "node-startup", "node-reset", "host-nic-disable", "host-nic-enable", "network-port-disable",
        "network-port-enable", "node-service-stop", "node-service-start", "node-application-close", "node-application-execute")


def run_env(cfg, label: str, steps: int, rng: random.Random, power: PowerRecorder, links: LinkRecorder, sw: SwitchRecorder, chk):
    from primaite.session.environment import PrimaiteGymEnv

    cfg = copy.deepcopy(cfg)
    io = cfg.setdefault("io_settings", {})
    for f in ("save_agent_actions", "save_step_metadata", "save_pcap_logs", "save_sys_logs", "save_agent_logs"):
        io[f] = False
    env = PrimaiteGymEnv(env_config=cfg)
    env.reset(seed=rng.randrange(10**6))
    names = [a for (a, o) in env.agent.action_manager.action_map.values()]
    biased = [i for i, a in enumerate(names) if a in BIAS]
    power.begin(env.game, label)
    sw.begin(env.game, label)
    acts = []
    raised = None
    for _ in range(steps):
        a = rng.choice(biased) if biased and rng.random() < 0.5 else rng.randrange(len(names))
        acts.append(names[a])
        try:
            _, _, term, trunc, _ = env.step(a)
        except Exception as e:  # noqa - reported by the node traces ("Raised") or as its own violation below
            raised = repr(e)[:300]
            break
        if term or trunc:
            break
    out = {"power": power.take(), "switch": sw.take(), "link": links.take({"scenario": label}, min_events=2)}
    for t in out["link"]:
        t.setdefault("meta", {})["scenario"] = label
    env.close()
    chk.add_case({"scenario": label, "actions": acts}, nontrivial=any(a in BIAS for a in acts))
    if raised:
        chk.violation({"module": "compose", "scenario": label, "clause": "StepTotal", "exc": raised.split("(")[0]}, {"raised": raised, "actions": acts})
    return out


def run_tour(facet: str, seed: int, power: PowerRecorder, links: LinkRecorder, sw: SwitchRecorder, chk):
    """The transition tours of spec/Lifecycle.tla (every agent operation at every power x component state) under the
    same passive recorders."""
    from primaite.session.environment import PrimaiteGymEnv

    from . import tour

    g = tour.graph(facet)
    eps, st = tour.tour(g, random.Random(seed), episode_len=300, level="coarse")
    chk.cov[f"tour_{facet}"] = st
    cfg, idx = tour.scenario(facet)
    env = PrimaiteGymEnv(env_config=cfg)
    out: Dict[str, List[Dict[str, Any]]] = {"power": [], "switch": [], "link": []}
    for ei, ep in enumerate(eps):
        env.reset(seed=seed + ei)
        links.take()
        power.begin(env.game, f"tour:{facet}")
        sw.begin(env.game, f"tour:{facet}")
        raised = None
        for a in ep:
            if a == "red-compromise":
                tour.compromise(env.game, facet)
            try:
                env.step(idx[a])
            except Exception as e:  # noqa
                raised = repr(e)[:300]
                break
        out["power"] += power.take()
        out["switch"] += sw.take()
        lt = links.take({"scenario": f"tour:{facet}", "episode": ei}, min_events=2)
        for t in lt:
            t.setdefault("meta", {})["scenario"] = f"tour:{facet}"
        out["link"] += lt
        chk.add_case({"scenario": f"tour:{facet}", "episode": ei, "len": len(ep)}, nontrivial=True)
        if raised:
            chk.violation({"module": "compose", "scenario": f"tour:{facet}", "clause": "StepTotal", "exc": raised.split("(")[0]}, {"raised": raised})
    env.close()
    return out


def main(tier: str, seed: int) -> int:
    chk = common.Check("EXT-compose", "model_checking", tier, seed)
    rng = random.Random(seed)
    common.boot()
    power, links, sw = PowerRecorder(), LinkRecorder(), SwitchRecorder()
    power.install()
    links.install()
    sw.install()
    runs = [("data_manipulation", scenarios.shipped("data_manipulation.yaml"), 60 if tier == "quick" else 256),
            ("uc7_config", scenarios.shipped("uc7_config.yaml"), 40 if tier == "quick" else 128)]
    if tier != "quick":
        runs += [("uc7_config_tap003", scenarios.shipped("uc7_config_tap003.yaml"), 128),
                 ("data_manipulation#2", scenarios.shipped("data_manipulation.yaml"), 256),
                 ("uc7_config#2", scenarios.shipped("uc7_config.yaml"), 128)]
    acc: Dict[str, List[Dict[str, Any]]] = {"power": [], "switch": [], "link": []}
    for label, cfg, steps in runs:
        out = run_env(cfg, label, steps, rng, power, links, sw, chk)
        for k in acc:
            acc[k] += out[k]
    for facet in (("svc", "app", "fs")[seed % 3],) if tier == "quick" else ("svc", "app", "fs"):
        out = run_tour(facet, seed, power, links, sw, chk)
        for k in acc:
            acc[k] += out[k]
    for k, mod, spec in (("power", "NodePower", "NodePowerTrace"), ("link", "Link", "LinkTrace"), ("switch", "Switch", "SwitchTrace")):
        traces = acc[k]
        if not traces:
            raise tlc.TLCError(f"no {k} traces were recorded (vacuous)")
        res = tlc.validate(spec, traces)
        common.judge_traces(chk, mod, traces, res,
                            lambda tr, e, stuck: {"scenario": tr.get("meta", {}).get("scenario", ""), "node": tr.get("meta", {}).get("node", "")},
                            selftest=spec)
        chk.cov[f"{k}_traces"] = len(traces)
        chk.cov[f"{k}_events"] = sum(len(t["ev"]) for t in traces)
        chk.sample({"projection": k, "meta": traces[0].get("meta"), "events": traces[0]["ev"][:4]})
    kinds: Dict[str, int] = {}
    for t in acc["power"]:
        for e in t["ev"]:
            kinds[e["ev"]] = kinds.get(e["ev"], 0) + 1
    chk.cov["power_event_kinds"] = kinds
    for need in ("ReqPower", "Tick", "ReqOther", "FrameIn"):
        if not kinds.get(need):
            raise tlc.TLCError(f"vacuous composition run: no {need} event")
    chk.assumptions += ["passive projection: traffic counted between two events of a node is attributed to the node's power state "
                        "between those events (flushed before every power request and every node tick)"]
    return chk.finish()
