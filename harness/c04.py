"""C04 - episodes and environment instances are isolated from one another.

Models: spec/Instances.tla (two instances, per-instance option cells; TLC exhausts all interleavings of
construct / reset / step / close and refutes the process-level-cell variant) and spec/Pair.tla (comparator).
Binding: (a) episodes - `dirty ; reset(seed) ; sigma` against `fresh ; reset(seed) ; sigma` in separate
processes, where `dirty` covers the dirtying action classes; (b) instances - every TLC-generated interleaving
is executed on real PrimaiteGymEnv instances in one process and instance A's trajectory (observations,
rewards, responses, whole-simulation digests) is compared with A's solo run; (c) ownership - after every reset
no mutable component or agent object is shared between the old and the new game.  TLC validates all pairs.
"""
from __future__ import annotations

import copy
import random
from typing import Any, Dict, List

from . import common, pairs, scenarios, tlc
from .c11 import generated_cfg

PROP = "C04"

DIRTY = ("node-file-delete", "node-file-corrupt", "node-folder-scan", "router-acl-add-rule", "firewall-acl-add-rule",
         "node-shutdown", "node-reset", "node-service-stop", "node-service-disable", "node-service-restart",
         "node-application-remove", "node-application-install", "node-application-execute", "host-nic-disable",
         "network-port-disable", "node-session-remote-login", "node-account-add-user", "node-account-change-password",
         "node-file-create", "node-folder-create", "node-nmap-ping-scan", "node-application-close", "node-service-fix")


def deterministic(cfg: Dict[str, Any]) -> Dict[str, Any]:
    """Drop scripted agents (they draw from the process-wide RNGs that two instances necessarily share) and the
    reward components that refer to them."""
    c = copy.deepcopy(cfg)
    keep = []
    for ag in c.get("agents", []):
        if ag.get("type") == "proxy-agent":
            rc = ag.get("reward_function", {}).get("reward_components", [])
            ag["reward_function"]["reward_components"] = [r for r in rc if r.get("type") != "shared-reward"] or [{"type": "dummy"}]
            keep.append(ag)
    c["agents"] = keep
    # the attacker's tool stays, driven by the learning agent itself and always successful: malicious traffic (what NMNE
    # capture, a process-relevant option, counts) then depends on the declared actions only
    bots = []
    for n in c["simulation"]["network"].get("nodes", []):
        for app in n.get("applications") or []:
            if app.get("type") == "data-manipulation-bot":
                app.setdefault("options", {}).update({"port_scan_p_of_success": 1.0, "data_manipulation_p_of_success": 1.0})
                bots.append(n["hostname"])
    if keep and bots:
        am = keep[0]["action_space"]["action_map"]
        for h in bots:
            am[max(int(k) for k in am) + 1] = {"action": "node-application-execute", "options": {"node_name": h, "application_name": "data-manipulation-bot"}}
    return c


def attack_entries(cfg) -> List[int]:
    """Indices of the action-map entries that run a data-manipulation-bot (added by deterministic())."""
    for ag in cfg.get("agents", []):
        if ag.get("type") == "proxy-agent":
            return [int(k) for k, v in ag["action_space"]["action_map"].items()
                    if v.get("action") == "node-application-execute" and v.get("options", {}).get("application_name") == "data-manipulation-bot"]
    return []


def variant_y(cfg: Dict[str, Any]) -> Dict[str, Any]:
    """The same scenario with different process-relevant options."""
    c = copy.deepcopy(cfg)
    net = c["simulation"]["network"]
    nm = dict(net.get("nmne_config", {}))
    nm["capture_nmne"] = not nm.get("capture_nmne", False)
    nm.setdefault("nmne_capture_keywords", ["DELETE"])
    net["nmne_config"] = nm
    c["game"]["thresholds"] = {"nmne": {"high": 3, "medium": 2, "low": 1}}
    if not nm["capture_nmne"]:
        # an observation space that includes NMNE needs NMNE capture: keep the variant a valid scenario of its own
        def strip(o):
            if isinstance(o, dict):
                if "include_nmne" in o:
                    o["include_nmne"] = False
                for v in o.values():
                    strip(v)
            elif isinstance(o, list):
                for v in o:
                    strip(v)
        strip(c.get("agents", []))
    if any(n.get("type") == "wireless-router" for n in net.get("nodes", [])):
        net["airspace"] = {"frequency_max_capacity_mbps": {"WIFI_2_4": 0.02}}
    return c


def action_table(cfg) -> List[str]:
    from primaite.session.environment import PrimaiteGymEnv

    env = PrimaiteGymEnv(env_config=copy.deepcopy(cfg) if isinstance(cfg, dict) else cfg)
    names = [a for (a, o) in env.agent.action_manager.action_map.values()]
    env.close()
    return names


def scheduled_folders(work, rng) -> Dict[str, Any]:
    """An episode-scheduled scenario (folder with schedule.yaml) over a routed network, in every rotation of its
    two-entry schedule: episode k of rotation 0 must behave like episode 1 (first use, after one reset) of the
    rotation that puts the same entry at position 1."""
    import yaml

    cfg = scenarios.routed()
    acts = [("node-application-execute", {"node_name": "a", "application_name": "web-browser"}),
            ("router-acl-add-rule", {"target_router": "r", "position": 0, "permission": "DENY", "src_ip": "192.168.1.2",
                                     "src_wildcard": "NONE", "src_port": "ALL", "dst_ip": "ALL", "dst_wildcard": "NONE",
                                     "dst_port": "ALL", "protocol_name": "ALL"}),
            ("router-acl-remove-rule", {"target_router": "r", "position": 0}),
            ("node-shutdown", {"node_name": "b"}), ("node-startup", {"node_name": "b"}),
            ("host-nic-disable", {"node_name": "b", "nic_num": 1}), ("host-nic-enable", {"node_name": "b", "nic_num": 1}),
            ("node-nmap-ping-scan", {"source_node": "a", "target_ip_address": ["192.168.2.2"], "show": False})]
    comps = [{"type": "nodes", "label": "NODES", "options": {
                 "hosts": [{"hostname": "a"}, {"hostname": "b"}], "routers": [{"hostname": "r"}], "firewalls": [],
                 "num_services": 1, "num_applications": 2, "num_folders": 1, "num_files": 1, "num_nics": 1,
                 "include_nmne": False, "include_num_access": False, "monitored_traffic": {"icmp": ["NONE"]},
                 "ip_list": ["192.168.1.2", "192.168.2.2"], "wildcard_list": ["0.0.0.1"], "port_list": [80, 5432],
                 "protocol_list": ["ICMP", "TCP", "UDP"], "num_rules": 4, "num_ports": 3}}]
    cfg["agents"] = [scenarios.proxy_agent(scenarios.action_map_from(acts), masking=False, components=comps)]
    cfg["game"]["max_episode_length"] = 64
    for n in cfg["simulation"]["network"]["nodes"]:
        if n["hostname"] == "a":
            n["applications"] = "__VAR_APPS__"
    base = yaml.safe_dump(cfg, sort_keys=False).replace("'__VAR_APPS__'", "*var_apps").replace("__VAR_APPS__", "*var_apps")
    var = ["var_apps: &var_apps\n  - type: web-browser\n", "var_apps: &var_apps\n  - type: web-browser\n  - type: database-client\n"]
    out = {}
    for rot in (0, 1):
        d = work / f"sched_rot{rot}"
        d.mkdir()
        (d / "scenario.yaml").write_text(base)
        for i, v in enumerate(var):
            (d / f"var_{i}.yaml").write_text(v)
        order = [0, 1] if rot == 0 else [1, 0]
        (d / "schedule.yaml").write_text(yaml.safe_dump({"base_scenario": "scenario.yaml", "schedule": {i: [f"var_{o}.yaml"] for i, o in enumerate(order)}}))
        out[rot] = str(d)
    return out


def sig_fn(tr, event, stuck):
    if tr["meta"].get("part") == "instances":
        return {"part": "instances", "scenario": tr["meta"]["scenario"], "raised": tr["meta"].get("raised", ""), "options": tr["meta"].get("options")}
    return {"part": tr["meta"]["part"], "scenario": tr["meta"]["scenario"], "raised": tr["meta"].get("raised", "")}


def main(tier: str, seed: int) -> int:
    chk = common.Check(PROP, "model_checking", tier, seed)
    rng = random.Random(seed)
    r = tlc.mc("MC_Instances")
    if not r["ok"]:
        chk.violation({"module": "MC_Instances", "clause": str(r["violation"])}, {"tlc": r["output_tail"]})
    chk.add_mc("MC_Instances(2 instances, 2 option values, 8 operations)", r)
    neg = tlc.mc("MC_Instances", "MC_InstancesAsCoded.cfg", coverage=False)
    if neg["ok"]:
        raise tlc.TLCError("the process-level-cell variant should be refuted by TLC")
    chk.notes.append("MC_InstancesAsCoded.cfg (a process-level option cell) is refuted by TLC on NonInterference, as intended")
    nb = 8 if tier == "quick" else 40
    pool, info = tlc.simulate("MC_Instances", num=400, depth=9, seed=seed + 5)
    chk.cov["transitions"] += info["states"]

    def interesting(beh) -> int:
        """A steps after another instance with *different* options was built (the shape of the design-level
        counterexample TLC gives for the process-level-cell variant) - these behaviours go first."""
        opt, last_other, score = {}, None, 0
        for st in beh[1:]:
            p = [x.strip().strip('"') for x in st["params"].split(",")]
            if st["action"] == "MConstruct":
                opt[p[0]] = p[1]
            if st["action"] in ("MConstruct", "MReset") and p[0] != "A":
                last_other = opt.get(p[0])
            if st["action"] in ("MConstruct", "MReset") and p[0] == "A":
                last_other = None
            if st["action"] == "MStep" and p[0] == "A" and last_other is not None and last_other != opt.get("A"):
                score += 1
        return score

    pool.sort(key=interesting, reverse=True)
    behs = pool[: nb // 2] + pool[len(pool) // 2 : len(pool) // 2 + nb - nb // 2]
    chk.cov["interleavings_with_foreign_build_before_A_steps"] = sum(1 for b in behs if interesting(b) > 0)
    common.boot()
    dm = scenarios.shipped("data_manipulation.yaml")
    # stand-alone components next to the collections (a custom space may name a single link): the two uplinks of the router
    for ag in dm["agents"]:
        comps = ((ag.get("observation_space") or {}).get("options") or {}).get("components")
        if ag.get("type") == "proxy-agent" and isinstance(comps, list):
            comps += [{"type": "link", "label": "UPLINK_1", "options": {"link_reference": "router_1:eth-1<->switch_1:eth-8"}},
                      {"type": "link", "label": "UPLINK_2", "options": {"link_reference": "router_1:eth-2<->switch_2:eth-8"}}]
    scen = [
        ("data_manipulation", dm),
        ("firewalled_dmz+all_actions", generated_cfg(scenarios.firewalled(dmz=True), rng, 2)),
        ("wireless+all_actions", generated_cfg(scenarios.test_asset("wireless_wan_network_config.yaml"), rng, 2)),
    ]
    sigma_len = 12 if tier == "quick" else 50
    dirty_len = 20 if tier == "quick" else 80
    specs, index = [], []
    # (a) episodes
    ep_scen = list(scen) + [("scenario_with_placeholders", str(scenarios.PKG / "scenario_with_placeholders"))]
    for label, cfg in ep_scen:
        names = action_table(cfg)
        dirt_idx = [i for i, a in enumerate(names) if a in DIRTY] or list(range(len(names)))
        inst = {"A": ({"dir": cfg} if isinstance(cfg, str) else {"cfg": cfg})}
        for rep in range(1 if tier == "quick" else 3):
            s0, s1 = rng.randrange(10**6), rng.randrange(10**6)
            if rep == 0 and label in ("data_manipulation", "scenario_with_placeholders"):
                s1 = 0  # a boundary value of the seed: reset(seed=0) re-seeds like any other seed
            dirty = [rng.choice(dirt_idx) if rng.random() < 0.8 else rng.randrange(len(names)) for _ in range(dirty_len)]
            sigma = [rng.randrange(len(names)) for _ in range(sigma_len)]
            if isinstance(cfg, str):
                # an episode schedule: the reference must be at the same episode index
                ops_d = [["new", "A"], ["reset", "A", s0]] + [["step", "A", a] for a in dirty] + [["reset", "A", s1]] + [["step", "A", a] for a in sigma]
                ops_f = [["new", "A"], ["reset", "A", s0], ["reset", "A", s1]] + [["step", "A", a] for a in sigma]
            else:
                # a constant scenario: the episode started by reset(seed=s1) is determined by (scenario, s1, actions) whatever
                # came before - seeded and unseeded resets, dirtying steps - and equals the first episode of a new environment
                h = len(dirty) // 2
                ops_d = ([["new", "A"], ["reset", "A", s0]] + [["step", "A", a] for a in dirty[:h]] + [["reset", "A", None]]
                         + [["step", "A", a] for a in dirty[h:]] + [["reset", "A", s1]] + [["step", "A", a] for a in sigma])
                ops_f = [["new", "A"], ["reset", "A", s1]] + [["step", "A", a] for a in sigma]
            specs += [{"instances": inst, "ops": ops_d}, {"instances": inst, "ops": ops_f}]
            index.append(("episodes", label, len(specs) - 2, len(specs) - 1, 1 + dirty_len, 1, {"dirty": [names[a] for a in dirty][:20]}))
            chk.add_case({"part": "episodes", "s": label, "dirty": dirty, "sigma": sigma})
    # (b) instances: interleavings from the model
    det = [(l, deterministic(c)) for l, c in scen]
    det_names = {l: action_table(c) for l, c in det}
    jobs = []
    for bi, beh in enumerate(behs):
        if interesting(beh) > 0:
            # the option values are symmetric in the model: run both orientations on every scenario
            for label, cfg in det:
                jobs += [(beh, label, cfg, False), (beh, label, cfg, True)]
        else:
            label, cfg = det[bi % len(det)]
            jobs.append((beh, label, cfg, False))
    if tier == "quick":
        jobs = jobs[:14]
    for bi, (beh, label, cfg, swap) in enumerate(jobs):
        names = det_names[label]
        cfgs = {"x": cfg, "y": variant_y(cfg)}
        if swap:
            cfgs = {"x": cfgs["y"], "y": cfgs["x"]}
        ops, inst = [], {}
        for st in beh[1:]:
            a = st["action"]
            p = [x.strip().strip('"') for x in st["params"].split(",")]
            if a == "MConstruct":
                if p[0] in inst and inst[p[0]] is not cfgs[p[1]]:
                    # one configuration per instance name within a run (the worker builds from a fixed table)
                    p[1] = "x" if inst[p[0]] is cfgs["x"] else "y"
                inst[p[0]] = cfgs[p[1]]
                ops += [["new", p[0]], ["reset", p[0], 1000 + bi]]
            elif a == "MReset":
                ops.append(["reset", p[0], 2000 + bi])
            elif a == "MStep":
                atk = attack_entries(cfg)
                # (four steps per model step; where the scenario has an attacker's tool, three of them run it - the whole
                # kill chain within two model steps - so that malicious traffic flows before and after the other instance's operations)
                ops += [["step", p[0], rng.choice(atk) if atk and j else rng.randrange(len(names))] for j in range(4)]
            elif a == "MClose":
                ops.append(["close", p[0]])
        if "A" not in inst or not any(o[0] == "step" and o[1] == "A" for o in ops):
            continue
        spec_i = {"instances": {k: {"cfg": v} for k, v in inst.items()}, "ops": ops}
        spec_s = {"instances": {"A": {"cfg": inst["A"]}}, "ops": [o for o in ops if o[1] == "A"]}
        specs += [spec_i, spec_s]
        # (whether an instance with OTHER process-relevant options than A's exists in this run: the class-level NMNE settings
        # - known finding - only show then; instances with equal options must not see each other whatever is shared)
        same = all(v is inst["A"] for v in inst.values())
        index.append(("instances", label, len(specs) - 2, len(specs) - 1, 0, 0,
                      {"ops": [o[:2] for o in ops], "swapped": swap, "options": "same" if same else "different"}))
        chk.add_case({"part": "instances", "s": label, "ops": ops, "swap": swap})
    # (b') directed: a sibling with EQUAL options is built, used and CLOSED around A's attack steps (every hook of an instance's
    # life - construction, reset, step, close - is a place where process-wide settings may be touched)
    label, cfg = det[0]
    atk = attack_entries(cfg) or [0]
    A = lambda n: [["step", "A", rng.choice(atk)] for _ in range(n)]  # noqa
    Bs = lambda n: [["step", "B", rng.choice(atk)] for _ in range(n)]  # noqa
    for di, ops in enumerate([
        [["new", "A"], ["reset", "A", 5], ["new", "B"], ["reset", "B", 6]] + Bs(2) + [["close", "B"]] + A(8),
        [["new", "A"], ["reset", "A", 5]] + A(3) + [["new", "B"], ["reset", "B", 6], ["close", "B"]] + A(6),
        [["new", "B"], ["reset", "B", 6], ["new", "A"], ["reset", "A", 5]] + A(2) + [["close", "B"]] + A(6) + [["reset", "A", 7]] + A(4),
    ]):
        specs += [{"instances": {"A": {"cfg": cfg}, "B": {"cfg": cfg}}, "ops": ops},
                  {"instances": {"A": {"cfg": cfg}}, "ops": [o for o in ops if o[1] == "A"]}]
        index.append(("instances", label, len(specs) - 2, len(specs) - 1, 0, 0, {"ops": [o[:2] for o in ops], "swapped": False, "options": "same",
                                                                                  "directed": di}))
        chk.add_case({"part": "instances-directed", "s": label, "ops": ops})
    # (d) schedule wrap-around: episode k of a looping schedule against the first use of the same schedule entry
    work = common.tmpdir("verif_c04_")
    folders = scheduled_folders(work, rng)
    sched_names = action_table(folders[0])
    for k in ((2, 3) if tier == "quick" else (2, 3, 4, 5, 6, 7)):
        sigma = [rng.randrange(len(sched_names)) for _ in range(sigma_len)]
        sd = rng.randrange(10**6)
        ops_k = [["new", "A"]] + [["reset", "A", 77 + j] for j in range(k - 1)] + [["reset", "A", sd]] + [["step", "A", a] for a in sigma]
        ops_1 = [["new", "A"], ["reset", "A", sd]] + [["step", "A", a] for a in sigma]
        # entry used by episode k of rotation 0 is k mod 2; rotation r has entry (1 + r) mod 2 at position 1
        rot = 0 if k % 2 == 1 else 1
        specs += [{"instances": {"A": {"dir": folders[0]}}, "ops": ops_k}, {"instances": {"A": {"dir": folders[rot]}}, "ops": ops_1}]
        index.append(("schedule", "scheduled_routed", len(specs) - 2, len(specs) - 1, k, 1, {"episode": k, "entry": k % 2}))
        chk.add_case({"part": "schedule", "episode": k, "sigma": sigma})
    outs = pairs.run_workers(specs, module="harness.traj_multi")
    traces = []
    for part, label, i, j, skip_i, skip_j, extra in index:
        a, b = outs[i]["A"], outs[j]["A"]
        sa, sb = a["steps"], b["steps"]
        if b["raised"] or len(sb) < 3:
            # the reference run itself did not get anywhere: nothing would be compared (vacuous) - unless the
            # implementation raised inside a step/reset, which the pair comparison below reports
            if not sb or str(b["raised"]).startswith("new"):
                raise tlc.TLCError(f"vacuous reference run for {part}/{label}: {b['raised']}")
        if part == "episodes":
            # compare from the last reset on
            ka = [n for n, s in enumerate(sa) if s["kind"] == "reset"]
            kb = [n for n, s in enumerate(sb) if s["kind"] == "reset"]
            sa = sa[ka[-1]:] if len(ka) > 1 else []
            sb = sb[kb[-1]:] if len(kb) > 0 else []
        if part == "schedule":
            # compare from the last reset on (episode k against the first use of the same schedule entry)
            ka = [n for n, s in enumerate(sa) if s["kind"] == "reset"]
            kb = [n for n, s in enumerate(sb) if s["kind"] == "reset"]
            if len(ka) != skip_i or len(kb) != 1:
                if not a["raised"]:
                    raise tlc.TLCError(f"schedule part: resets not recorded ({len(ka)}/{skip_i}, {len(kb)}/1): {a['raised']} {b['raised']}")
            sa = sa[ka[-1]:] if ka else []
            sb = sb[kb[-1]:] if kb else []
        traces.append(pairs.pair_trace(a, b, sa, sb, meta={"part": part, "scenario": label, "raised": str(a.get("raised") or ""), **extra}))
        # (c) ownership: nothing mutable survives a reset
        for which, o in (("dirty/interleaved", a), ("fresh/solo", b)):
            shared = [x for lst in o.get("shared", []) for x in lst]
            fake = {"steps": [{"kind": "reset", "obs": "-", "reward": "-", "flags": "-", "agents": {}, "state": "shared:" + ",".join(sorted(set(shared)))}],
                    "agents": [], "raised": None}
            want = {"steps": [{"kind": "reset", "obs": "-", "reward": "-", "flags": "-", "agents": {}, "state": "shared:"}], "agents": [], "raised": None}
            traces.append(pairs.pair_trace(fake, want, meta={"part": "ownership", "scenario": label, "run": which}))
    res = tlc.validate("PairTrace", traces)
    common.judge_traces(chk, "Pair", traces, res, sig_fn, selftest="PairTrace")
    chk.sample({"pair": traces[0]["meta"], "first_positions": traces[0]["ev"][:1]})
    chk.assumptions += [
        "instances are compared on scenarios without scripted agents: random/numpy RNGs are process-wide and are the declared "
        "randomness inputs of an environment (two instances in one process necessarily share them)",
        "reference point for episodes is fresh-then-reset (the Gymnasium contract requires reset before step)",
    ]
    return chk.finish()
