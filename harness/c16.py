"""C16 - logins need valid credentials; remote commands need a live session.

Model: spec/Sessions.tla (MC_Sessions exhaustive: 1 server + 2 clients, users {admin, u1}, passwords
{p, q, wrong}, MaxRemote 2, Timeout 2).  Binding: TLC -simulate behaviours of the model (MaxRemote and
Timeout 1..3, refused attempts included) are replayed request by request / tick by tick on three
connected real nodes (a server, router or firewall as the SSH target and two hosts as clients) through the
request API the agent actions use; after every call the accounts, local user, the server's remote
sessions, the clients' connection handles, power / service flags, the answer and the *effect* of the
command (a fresh folder exists on the server) are read from the objects and TLC validates the histories
(SessionsTrace.tla).
"""
from __future__ import annotations

import re
from typing import Any, Dict, List

from . import common, tlc

PROP = "C16"

MC_ACTIONS = ["MAddUser", "MDisableUser", "MChangePassword", "MLocalLogin", "MRemoteLogin", "MRemoteCommand",
              "MRemoteCommandStale", "MLogoff", "MTick", "MTickTimeout", "MNodeOff", "MNodeOn", "MServiceStop",
              "MServiceStart"]
# the refused attempts exist only as stimuli (stuttering steps of the design): checked on the simulation output
SIM_ACTIONS = MC_ACTIONS + ["MAddUserNo", "MDisableUserNo", "MChangePasswordNo", "MLocalLoginNo", "MRemoteLoginNo",
                            "MRemoteCommandNo", "MLogoffNo"]

# Stimulus variants (DESIGN 5.3: after a divergence the rest of a trace is not examined, so every behaviour
# family is also run in a variant that avoids the trigger of a divergence already seen):
#   full        every step of the behaviour
#   one-session a password change is skipped while that user holds two or more remote sessions
#   usm-request / usm-api  (a few behaviours only) the remote logins do not come through a client's terminal but
#               through the server's own `user-session-manager remote_login` request - the other login entry of
#               the request tree, used by no agent action - resp. the method behind it; password changes as in
#               one-session
VARIANTS = ["full", "one-session"]
DIRECT = ["usm-request", "usm-api"]


def _params(s: str) -> List[Any]:
    out: List[Any] = []
    for tok in re.findall(r'"[^"]*"|TRUE|FALSE|-?\d+', s or ""):
        if tok.startswith('"'):
            out.append(tok[1:-1])
        elif tok in ("TRUE", "FALSE"):
            out.append(tok == "TRUE")
        else:
            out.append(int(tok))
    return out


def abstract(beh: List[Dict[str, Any]]) -> List[List[Any]]:
    """A TLC behaviour as a list of [spec action, arguments...] (outcome variants and weights folded)."""
    out = []
    for stp in beh[1:]:
        a = stp["action"]
        args = _params(stp["params"])
        base = a[1:-2] if a.endswith("No") else a[1:]
        base = {"RemoteCommandStale": "RemoteCommand", "TickTimeout": "Tick"}.get(base, base)
        if base not in ARITY:
            raise tlc.TLCError(f"no binding for model action {a}")
        out.append([base] + args[: ARITY[base]])
    return out


ARITY = {"AddUser": 3, "DisableUser": 1, "ChangePassword": 3, "LocalLogin": 2, "RemoteLogin": 3, "RemoteCommand": 1,
         "Logoff": 1, "Tick": 0, "NodeOff": 1, "NodeOn": 1, "ServiceStop": 1, "ServiceStart": 1}


def run_actions(kind: str, variant: str, max_remote: int, timeout: int, actions: List[List[Any]]) -> Dict[str, Any]:
    """Apply the abstract actions to three fresh real nodes, one real call per action, and record."""
    from .rec_sessions import Rig

    rig = Rig(kind, max_remote, timeout)
    tr = rig.trace
    tr["meta"]["variant"] = variant
    tr["stimulus"]["variant"] = variant
    acts = tr["stimulus"]["actions"]
    base, args = "", []
    try:
        for act in actions:
            base, args = act[0], list(act[1:])
            if variant != "full" and base == "ChangePassword" and rig.sessions_of(args[0]) >= 2:
                continue
            acts.append([base] + args)
            if base == "AddUser":
                rig.add_user(args[0], args[1], args[2])
            elif base == "DisableUser":
                rig.disable_user(args[0])
            elif base == "ChangePassword":
                rig.change_password(args[0], args[1], args[2])
            elif base == "LocalLogin":
                rig.local_login(args[0], args[1])
            elif base == "RemoteLogin" and variant in DIRECT:
                rig.direct_login(args[0], args[1], args[2], variant)
            elif base == "RemoteLogin":
                rig.remote_login(args[0], args[1], args[2])
            elif base == "RemoteCommand":
                rig.remote_command(args[0])
            elif base == "Logoff":
                rig.logoff(args[0])
            elif base == "Tick":
                rig.tick()
            elif base in ("NodeOff", "NodeOn", "ServiceStop", "ServiceStart"):
                rig.power(base, args[0], *(args[1:2]))
            else:
                raise tlc.TLCError(f"no binding for action {base}")
    except tlc.TLCError:
        raise
    except Exception as e:  # noqa - an exception out of repository code is an event no module allows
        extra = {}
        if base in ("RemoteLogin", "RemoteCommand", "Logoff") and args:
            extra["c"] = args[0]
        elif base in ("NodeOff", "NodeOn", "ServiceStop", "ServiceStart") and args:
            extra["node"] = args[0]
        elif args and isinstance(args[0], str):
            extra["u"] = args[0]
        rig.emit("Raised", kind=type(e).__name__, during=base, **extra)
        tr["meta"]["exception"] = repr(e)
    return tr


def run_behaviour(kind: str, variant: str, beh: List[Dict[str, Any]]) -> Dict[str, Any]:
    st0 = beh[0]["state"]
    return run_actions(kind, variant, int(st0["maxRemote"]), int(st0["timeout"]), abstract(beh))


def replay(path: str) -> int:
    """Re-execute the stimulus of a replay file and print the first event TLC cannot explain."""
    import json

    d = json.loads(open(path).read())
    stim = d["detail"]["stimulus"]
    common.boot()
    variant = stim.get("variant") if stim.get("variant") in DIRECT else "full"
    tr = run_actions(stim["server_type"], variant, stim["maxRemote"], stim["timeout"], stim["actions"])
    res = tlc.validate("SessionsTrace", [tr])
    (reached, length), stuck = res["results"][0], res["stuck"][0]
    if reached == length + 1:
        print(f"replay: all {length} events accepted")
        return 0
    print(f"replay: event {reached} of {length} not explained; failing clauses: {(stuck or {}).get('fail') or 'no-matching-action'}")
    for e in tr["ev"][max(0, reached - 4): reached]:
        print("  ", json.dumps(e))
    print("  spec state before:", json.dumps((stuck or {}).get("st"), default=str))
    return 1


def _cause(tr: Dict[str, Any], pos: int, sid: int) -> str:
    """Why the module counts session `sid` as ended before event `pos` (1-based): the first event that ended it
    while it was in the server's table (a logoff of it, a password change of its user), else the time-out."""
    prev: List[Dict[str, Any]] = []
    for e in tr["ev"][: max(0, pos - 1)]:
        mine = [x for x in prev if x["sid"] == sid]
        if mine:
            if e["ev"] == "Logoff" and e["ok"] and e["sid"] == sid:
                return "logoff"
            if e["ev"] == "ChangePassword" and e["ok"] and e["u"] == mine[0]["user"]:
                return "password-change"
        prev = e["rem"]
    return "time-out"


def sig_fn(tr, event, stuck):
    sig: Dict[str, Any] = {}
    ev = event.get("ev")
    fail = (stuck or {}).get("fail") or []
    if ev == "Raised":
        sig["exception"] = event.get("kind")
        sig["during"] = event.get("during")
        sig["clause"] = "no-matching-action"   # whatever else the half-done call left behind
    if tr["meta"].get("variant") in DIRECT:
        sig["login_entry"] = tr["meta"]["variant"]
    if ev == "RemoteCommand" and "NoExecAfterEnd" in fail:
        sig["ended_by"] = _cause(tr, (stuck or {}).get("pos", 0), event.get("sid", 0))
    if ev in ("RemoteLogin", "LocalLogin") and any(f.startswith("Login") for f in fail):
        st = (stuck or {}).get("st") or {}
        sig["server_on"] = st.get("srvOn") if isinstance(st, dict) else None
    return sig


def _outcomes(traces: List[Dict[str, Any]]) -> Dict[str, int]:
    c: Dict[str, int] = {}

    def inc(k):
        c[k] = c.get(k, 0) + 1

    for tr in traces:
        prev_rem = 0
        for e in tr["ev"]:
            n = e["ev"]
            if n in ("RemoteLogin", "AddUser", "DisableUser", "ChangePassword", "Logoff"):
                inc(f"{n}:{'success' if e['ok'] else 'refused'}")
            elif n in ("RemoteCommand", "LocalLogin"):
                inc(f"{n}:{'executed' if e['exec'] else 'not-executed'}")
                if e["ok"] and not e["exec"]:
                    inc(f"{n}:answered-success-without-effect")
            elif n == "Tick" and len(e["rem"]) < prev_rem:
                inc("Tick:session-ended")
            else:
                inc(n)
            prev_rem = len(e["rem"])
    return c


def main(tier: str, seed: int) -> int:
    chk = common.Check(PROP, "model_checking", tier, seed)
    # 1. the design satisfies every clause, exhaustively
    runs = [("MC_Sessions.cfg", "MC_Sessions(1 server, 2 clients, 2 users, 3 passwords, MaxRemote 2, Timeout 2, depth 7)")]
    if tier != "quick":
        runs.append(("MC_SessionsDeep.cfg", "MC_Sessions(same, depth 8)"))
        runs.append(("MC_SessionsWide.cfg", "MC_Sessions(MaxRemote 1..2 x Timeout {1,3}, depth 7)"))
    for cfg, label in runs:
        r = tlc.mc("MC_Sessions", cfg=cfg, timeout=1800)
        if not r["ok"]:
            chk.violation({"module": "MC_Sessions", "clause": str(r["violation"])}, {"tlc": r["output_tail"]})
        chk.add_mc(label, r)
        for act in MC_ACTIONS:
            if r["coverage"].get(act, (0, 0))[1] == 0:
                raise tlc.TLCError(f"vacuous model: action {act} never taken ({cfg})")
    # 2. spec -> code: behaviours of the model as stimuli
    nbeh = 480 if tier == "quick" else 1500
    ndirect = 8 if tier == "quick" else 60   # of which: logins through the server's own login entry
    depth = 24 if tier == "quick" else 36
    behs, info = tlc.simulate("MC_Sessions", cfg="MC_SessionsSim.cfg", num=nbeh, depth=depth, seed=seed + 16)
    chk.cov["transitions"] += info["states"]
    seen = {s["action"] for b in behs for s in b}
    missing = [a for a in SIM_ACTIONS if a not in seen]
    if missing:
        raise tlc.TLCError(f"vacuous stimulus set: model actions never taken in {len(behs)} behaviours: {missing}")
    common.boot()
    from .rec_sessions import SERVER_KINDS

    traces = []
    for i, beh in enumerate(behs):
        # the plain server is the main target; routers and firewalls carry the same user services
        # (both variants of every kind: the kind changes every second behaviour, the variant every behaviour)
        slot = (i // 2) % (8 if tier == "quick" else 4)
        kind = SERVER_KINDS[2] if slot == (7 if tier == "quick" else 3) else \
            SERVER_KINDS[1] if slot == (6 if tier == "quick" else 2) else SERVER_KINDS[0]
        variant = VARIANTS[i % len(VARIANTS)]
        if i >= len(behs) - ndirect:
            variant = DIRECT[i % len(DIRECT)]
        tr = run_behaviour(kind, variant, beh)
        traces.append(tr)
        nontrivial = any(e["ev"] == "RemoteLogin" and e["ok"] for e in tr["ev"])
        chk.add_case({"kind": kind, "variant": variant, "cfg": [tr["cfg"]["maxRemote"], tr["cfg"]["timeout"]],
                      "acts": tr["stimulus"]["actions"]}, nontrivial=nontrivial)
    # directed: what ends a session must end it whichever of the services a session depends on happens to be stopped
    for svc in ("user-session-manager", "terminal", "user-manager"):
        for ender in (["ChangePassword", "admin", "p", "q"], ["Tick"], ["Logoff", "b"]):
            for kind in (SERVER_KINDS[0],):
                seq = [["RemoteLogin", "b", "admin", "p"], ["RemoteCommand", "b"], ["RemoteLogin", "c", "admin", "p"],
                       ["ServiceStop", "srv", svc], ender, ["Tick"], ["ServiceStart", "srv", svc], ["RemoteCommand", "b"], ["RemoteCommand", "c"],
                       ["RemoteLogin", "b", "admin", "p"], ["RemoteCommand", "b"]]
                tr = run_actions(kind, "full", 3, 1 if ender == ["Tick"] else 8, seq)
                tr["meta"]["directed"] = f"{svc}/{ender[0]}"
                traces.append(tr)
                chk.add_case({"kind": kind, "directed": f"stop {svc}, {ender[0]}, start", "acts": seq}, nontrivial=True)
    # 3. code -> spec: TLC judges the recorded histories
    res = tlc.validate("SessionsTrace", traces)
    common.judge_traces(chk, "Sessions", traces, res, sig_fn)
    chk.cov["impl_outcomes"] = _outcomes(traces)
    chk.cov["server_types"] = {k: sum(1 for t in traces if t["meta"]["server_type"] == k) for k in SERVER_KINDS}
    chk.cov["variants"] = {v: sum(1 for t in traces if t["meta"]["variant"] == v) for v in VARIANTS + DIRECT}
    need = ["RemoteLogin:success", "RemoteLogin:refused", "RemoteCommand:executed", "RemoteCommand:not-executed",
            "LocalLogin:executed", "LocalLogin:not-executed", "Logoff:success", "ChangePassword:success",
            "DisableUser:success", "DisableUser:refused", "Tick:session-ended"]
    lacking = [k for k in need if not chk.cov["impl_outcomes"].get(k)]
    if lacking:
        raise tlc.TLCError(f"vacuous binding: outcomes never observed on the implementation: {lacking}")
    stale = {k: v for k, v in chk.cov["impl_outcomes"].items() if k.endswith("without-effect")}
    if stale:
        chk.notes.append(f"responses are not used in the verdict: {stale} (send_local_command always answers success; "
                         "send_remote_command can return the terminal's previous _last_response)")
    for tr in traces[:2]:
        chk.sample({"cfg": tr["cfg"], "meta": tr["meta"], "events": tr["ev"][:8]})
    chk.assumptions += [
        "'login succeeded' = answered success, or a new entry in the server's remote_sessions, or a new connection "
        "handle at the client (remote); the local user became that user or the command took effect (local, whose "
        "request always answers success)",
        "'executed' = the fresh folder named in the command exists on the server afterwards (effect, not response)",
        "'live' = the session id the client's RemoteTerminalConnection.execute was called with is in the server's "
        "remote_sessions; ids are canonicalised by first appearance",
        "activity = login and executed commands; a session must be unusable once idle for timeout+1 ticks (ending at "
        "`timeout` accepted, DESIGN 5.2); nothing demands that a valid login succeeds or that a session survives",
        "power and terminal-service flags are read from the objects and not constrained here (C12/C13)",
        "power durations 0; MaxRemote / Timeout set through the UserSessionManager attributes before recording",
    ]
    return chk.finish()
