SPECIFICATION Spec
CONSTANTS
  Variant = "leafonly"
INVARIANT DispatchMatchesResolve
INVARIANT RaiseOnlyWhenTruncated
INVARIANT MaskExact
INVARIANT StatusDomain
CHECK_DEADLOCK FALSE
