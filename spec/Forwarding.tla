----------------------------- MODULE Forwarding -----------------------------
(***************************************************************************)
(* One unicast IP frame walking a small internetwork.  Property C08.       *)
(*                                                                         *)
(* Vocabulary.  `topo' is the (never changing) configuration: a sequence   *)
(* of nodes                                                                *)
(*   [name, kind \in {"host","router","switch"}, ifs, gw, routes, dflt]    *)
(* ifs = sequence of [addr, plen] - the address of an interface and the    *)
(* prefix length of its subnet (for a switch: the subnet it serves; a      *)
(* switch owns no address); gw = a host's default gateway (NoHop: none);   *)
(* routes / dflt = a router's static routes and default next hop, as in    *)
(* Routes.tla.  Addresses are naturals of AddrBits bits.                   *)
(*                                                                         *)
(* The frame: destination address `dst', time to live `ttl', the node that *)
(* holds it `at', the address of the layer-2 next hop it was sent to `to', *)
(* and `phase':                                                            *)
(*   idle -> (Emit) wire -> (SwitchHop)* -> (RecvAtInterface) node         *)
(*        -> (Local, Deliver) delivered | (RouterForward) wire | (Drop)    *)
(* Stages are the stages of the code: an interface takes the frame in      *)
(* (ttl lowered; exhausted -> not taken), a router forwards (next hop from *)
(* the route table; ttl lowered; exhausted -> not sent), the session layer *)
(* of the owner hands it to software.                                      *)
(*                                                                         *)
(* Actions take the logged values (ttl after the stage, accepted / sent,   *)
(* chosen next hop) as parameters: the exhaustive model passes the         *)
(* design's values, the trace specification the recorded ones.  The        *)
(* statement says "lowers", not "by one": any strictly smaller ttl is      *)
(* accepted.                                                               *)
(***************************************************************************)
EXTENDS Routes, Integers

VARIABLES
    topo,     \* configuration
    dst,      \* destination address of the frame
    ttl,      \* current time to live
    ttl0,     \* time to live at emission
    origin,   \* emitting node
    at,       \* node that last took the frame in (or emitted it)
    to,       \* address of the next hop the frame is on its way to
    phase,    \* "idle" | "wire" | "node" | "local" | "delivered" | "dropped"
    swdone,   \* the frame has passed the switch of the subnet it is crossing
    path      \* forwarding decisions so far: sequence of [node, nh]

fvars == <<topo, dst, ttl, ttl0, origin, at, to, phase, swdone, path>>

Nodes == 1..Len(topo)
IsRouter(n) == topo[n].kind = "router"
IsHost(n)   == topo[n].kind = "host"
IsSwitch(n) == topo[n].kind = "switch"

Ifs(n) == {topo[n].ifs[i] : i \in 1..Len(topo[n].ifs)}
Owns(n, a)   == ~IsSwitch(n) /\ \E f \in Ifs(n) : f.addr = a
Owners(a)    == {n \in Nodes : Owns(n, a)}
OnLink(n, a) == ~IsSwitch(n) /\ \E f \in Ifs(n) : InNet(a, f.addr, f.plen)
\* switches on the subnet that contains address a
SwitchesOf(a) == {s \in Nodes : IsSwitch(s) /\ \E f \in Ifs(s) : InNet(a, f.addr, f.plen)}

(* Is nh an acceptable layer-3 next hop for a frame to d leaving node n ?  *)
(*  - destination on a connected subnet: the destination itself (nothing   *)
(*    is said when nobody owns that address);                              *)
(*  - otherwise at a router: the next hop of a best route (Routes.tla);    *)
(*  - otherwise at a host: the default gateway.                            *)
NextHopOK(n, d, nh) ==
    IF OnLink(n, d) THEN (Owners(d) # {} => nh = d)
    ELSE IF IsRouter(n) THEN nh \in BestHops(topo[n].routes, topo[n].dflt, d)
    ELSE topo[n].gw # NoHop /\ nh = topo[n].gw

(* At emission: a host sending to an address on its own subnet is left     *)
(* free (the statement only pins the default gateway for the rest).        *)
EmitOK(n, d, nh) == IF IsHost(n) /\ OnLink(n, d) THEN TRUE ELSE NextHopOK(n, d, nh)

\* the set form (used by the exhaustive model and by Reaches)
NextHops(n, d) ==
    IF OnLink(n, d) THEN {d}
    ELSE IF IsRouter(n) THEN BestHops(topo[n].routes, topo[n].dflt, d)
    ELSE IF topo[n].gw # NoHop THEN {topo[n].gw} ELSE {}

(* Whatever acceptable next hops are chosen, a frame to d held by n gets   *)
(* to a node that owns d within k hops (every next hop exists).            *)
RECURSIVE Reaches(_, _, _)
Reaches(n, d, k) ==
    IF Owns(n, d) THEN TRUE
    ELSE IF k = 0 THEN FALSE
    ELSE /\ NextHops(n, d) # {}
         /\ \A nh \in NextHops(n, d) :
               /\ Owners(nh) # {}
               /\ \A m \in Owners(nh) : (Owns(m, d) \/ IsRouter(m)) /\ Reaches(m, d, k - 1)

FwdInit(t) ==
    /\ topo = t
    /\ dst = 0 /\ ttl = 0 /\ ttl0 = 0 /\ origin = 0 /\ at = 0 /\ to = 0
    /\ phase = "idle" /\ swdone = FALSE /\ path = <<>>

(* Node n sends a new frame to d with time to live t towards next hop nh.  *)
Emit(n, d, t, nh) ==
    /\ phase = "idle"
    /\ n \in Nodes /\ ~IsSwitch(n)
    /\ EmitOK(n, d, nh)
    /\ dst' = d /\ ttl' = t /\ ttl0' = t /\ origin' = n /\ at' = n /\ to' = nh
    /\ phase' = "wire" /\ swdone' = FALSE
    /\ path' = <<[node |-> n, nh |-> nh]>>
    /\ UNCHANGED topo

(* A switch port takes the frame in and the switch passes it on.           *)
SwitchHop(s, ta, acc) ==
    /\ phase # "idle"
    /\ s \in Nodes /\ IsSwitch(s)
    /\ ta <= ttl
    /\ acc => (ta < ttl /\ ta >= 1)
    /\ ttl' = ta
    /\ swdone' = TRUE
    /\ UNCHANGED <<topo, dst, ttl0, origin, at, to, phase, path>>

(* An interface of node n sees the frame: the ttl is lowered; the frame is *)
(* taken in (acc) only by the node it was sent to and only if its ttl is   *)
(* not exhausted.                                                          *)
RecvAtInterface(n, ta, acc) ==
    /\ phase # "idle"
    /\ n \in Nodes /\ ~IsSwitch(n)
    /\ ta <= ttl
    /\ acc => /\ phase = "wire"
              /\ Owns(n, to)
              /\ ta < ttl
              /\ ta >= 1
    /\ ttl' = ta
    /\ IF acc THEN phase' = "node" /\ at' = n ELSE UNCHANGED <<phase, at>>
    /\ UNCHANGED <<topo, dst, ttl0, origin, to, swdone, path>>

(* The node's session layer takes the frame (it is for this node).         *)
Local(n) ==
    /\ phase = "node" /\ at = n
    /\ phase' = "local"
    /\ UNCHANGED <<topo, dst, ttl, ttl0, origin, at, to, swdone, path>>

(* The payload is handed to software: only on a node that owns dst.        *)
Deliver(n) ==
    /\ phase = "local" /\ at = n
    /\ Owns(n, dst)
    /\ phase' = "delivered"
    /\ UNCHANGED <<topo, dst, ttl, ttl0, origin, at, to, swdone, path>>

(* Router n forwards the frame to next hop nh: ttl lowered; not sent when  *)
(* exhausted.                                                              *)
RouterForward(n, nh, ta, sent) ==
    /\ phase = "node" /\ at = n
    /\ IsRouter(n)
    /\ NextHopOK(n, dst, nh)
    /\ ta < ttl
    /\ sent => ta >= 1
    /\ ttl' = ta
    /\ path' = Append(path, [node |-> n, nh |-> nh])
    /\ IF sent THEN phase' = "wire" /\ to' = nh /\ swdone' = FALSE
               ELSE phase' = "dropped" /\ UNCHANGED <<to, swdone>>
    /\ UNCHANGED <<topo, dst, ttl0, origin, at>>

(* Node n discards the frame it holds (no route, not for this host, port   *)
(* closed, ttl exhausted while forwarding, ...).                           *)
Drop(n, ta) ==
    /\ phase \in {"node", "local"} /\ at = n
    /\ ta <= ttl
    /\ ttl' = ta
    /\ phase' = "dropped"
    /\ UNCHANGED <<topo, dst, ttl0, origin, at, to, swdone, path>>

(* A frame on the wire is lost: nobody owns the next hop address, or its   *)
(* ttl is exhausted.                                                       *)
Lost ==
    /\ phase = "wire"
    /\ phase' = "dropped"
    /\ UNCHANGED <<topo, dst, ttl, ttl0, origin, at, to, swdone, path>>

-----------------------------------------------------------------------------
(* C08 clauses on the model *)

InFlight == phase \in {"wire", "node", "local"}
Done     == phase \in {"delivered", "dropped"}

\* handed to software only on the node that owns the destination address
DeliverOnlyAtOwner == phase = "delivered" => Owns(at, dst)

\* every forwarding decision taken so far is a best-route decision
ForwardUsesBestRoute ==
    \A i \in 1..Len(path) :
        IF i = 1 THEN EmitOK(path[i].node, dst, path[i].nh) ELSE NextHopOK(path[i].node, dst, path[i].nh)

\* a frame held by a node still has time to live
HeldFramesAlive == phase \in {"node", "local"} => ttl >= 1

\* the number of forwarding decisions is bounded by the initial ttl
BoundedHops == phase # "idle" => Len(path) <= ttl0 + 1

\* every step that moves the frame lowers the ttl; no step raises it
TtlStrictlyDecreases ==
    [][ phase # "idle" =>
          /\ ttl' <= ttl
          /\ (phase' \in {"wire", "node"} /\ (phase' # phase \/ at' # at \/ to' # to)) => ttl' < ttl ]_fvars

\* a frame with exhausted ttl is never taken in, forwarded or delivered
ExhaustedIsDropped == [][ (phase # "idle" /\ ttl < 1) => phase' \in {phase, "dropped"} ]_fvars
=============================================================================
