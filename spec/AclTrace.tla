---------------------------- MODULE AclTrace ----------------------------
(* Trace validation of recorded executions of primaite AccessControlList   *)
(* (router list, the six firewall lists, stand-alone lists) against        *)
(* Acl.tla (batch idiom, DESIGN.md 4.4).  One trace = one list object.     *)
(*                                                                         *)
(* A trace is [cfg |-> [n, implicit, tab, ihits], ev |-> <<event, ...>>];  *)
(* an event is                                                             *)
(*   [ev |-> "Add"|"Remove"|"Check"|"Load"|"Elsewhere"|"Refused"|"Raised", *)
(*    pos, rule,            \* Add / Remove: the position and rule ASKED for*)
(*    es,                   \* Load: <<[pos, r], ...>> asked for            *)
(*    pkt, permit, decider, \* Check: the packet, the verdict returned      *)
(*    tab, ihits]           \* the list READ FROM THE OBJECT after the call *)
(* (unused fields carry 0 / NoRule / <<>> / a dummy packet; "Elsewhere" =   *)
(* an operation was applied to a sibling list, e.g. another of the six      *)
(* lists of the same firewall).  `tab' is                                   *)
(* sparse: <<[pos, r, h], ...>> for the occupied positions, h = the rule's  *)
(* hit counter; `ihits' the implicit rule's counter.  Positions are the     *)
(* real 0-based positions; addresses / masks are the model's small          *)
(* naturals (the harness inverts its embedding into IPv4), ports are the    *)
(* real non-zero port numbers, protocols the real protocol names.  A real   *)
(* rule port of None or NONE(0) - this code base's "no port" value - is     *)
(* read back as unspecified (AnyN); see harness/rec_acl.py.                 *)
EXTENDS Acl, TLC, TLCExt, Json, IOUtils

Traces == JsonDeserialize(IOEnv.TRACE_FILE)

VARIABLES tid, l
tvars == <<npos, implicit, acl, hits, ihits, tid, l>>

T == Traces[tid].ev
Cfg == Traces[tid].cfg

\* sparse table -> functions over 0 .. n-1
Has(sp, i)  == \E k \in DOMAIN sp : sp[k].pos = i
At(sp, i)   == sp[CHOOSE k \in DOMAIN sp : sp[k].pos = i]
DenseRules(sp, n) == [i \in 0 .. n - 1 |-> IF Has(sp, i) THEN At(sp, i).r ELSE NoRule]
DenseHits(sp, n)  == [i \in 0 .. n - 1 |-> IF Has(sp, i) THEN At(sp, i).h ELSE 0]
EsPos(es) == {es[k].pos : k \in DOMAIN es}

\* named clauses, all predicates of (current state, event): the guard of the step
Clauses(e) ==
    LET a2 == DenseRules(e.tab, npos)
        h2 == DenseHits(e.tab, npos)
    IN
    [ \* the call came back normally and reported success
      Completed             |-> e.ev \notin {"Raised", "Refused"},
      \* stimulus sanity: positions are inside the list (outside is outside the statement)
      InsideList            |-> /\ e.ev \in {"Add", "Remove"} => e.pos \in Pos
                                /\ e.ev = "Load" => EsPos(e.es) \subseteq Pos,
      \* the verdict is that of the lowest-positioned matching rule, else the implicit action
      VerdictIsLowestMatch  |-> e.ev = "Check" => VerdictIsLowestMatch(e.pkt, e.permit),
      \* each verdict increments the hit counter of exactly the deciding rule
      RuleCountersExact     |-> e.ev = "Check" => h2 = HitsAfter(e.pkt),
      ImplicitCounterExact  |-> e.ev = "Check" => e.ihits = IHitsAfter(e.pkt),
      CheckKeepsRules       |-> e.ev = "Check" => a2 = acl,
      \* adding puts the rule at the addressed position and changes nothing else
      AddStoresRule         |-> (e.ev = "Add" /\ e.pos \in Pos) => a2[e.pos] = e.rule,
      AddOnlyAtPosition     |-> e.ev = "Add" => OnlyPositions({e.pos}, a2, h2, e.ihits),
      \* removing empties the addressed position and changes nothing else
      RemoveEmptiesPosition |-> (e.ev = "Remove" /\ e.pos \in Pos) => a2[e.pos] = NoRule,
      RemoveOnlyAtPosition  |-> e.ev = "Remove" => OnlyPositions({e.pos}, a2, h2, e.ihits),
      \* scenario loading = adding every listed rule at its position
      LoadStoresRules       |-> (e.ev = "Load" /\ EsPos(e.es) \subseteq Pos) =>
                                   \A k \in DOMAIN e.es : a2[e.es[k].pos] = e.es[k].r,
      LoadOnlyAtPositions   |-> e.ev = "Load" => OnlyPositions(EsPos(e.es), a2, h2, e.ihits),
      \* operations on another list change no position (and no counter) of this one
      OtherListsUntouched   |-> e.ev = "Elsewhere" => OnlyPositions({}, a2, h2, e.ihits)
    ]
Failing(e) == LET C == Clauses(e) IN {c \in DOMAIN C : ~C[c]}

Step(e) ==
    LET h2 == DenseHits(e.tab, npos) IN
    CASE e.ev = "Add"    -> Add(e.pos, e.rule, h2[e.pos])
      [] e.ev = "Remove" -> Remove(e.pos)
      [] e.ev = "Check"  -> Check(e.pkt)
      [] e.ev = "Elsewhere" -> Elsewhere
      [] e.ev = "Load"   -> Load([k \in DOMAIN e.es |-> [pos |-> e.es[k].pos, r |-> e.es[k].r, h |-> h2[e.es[k].pos]]])
      [] OTHER -> FALSE

TraceInit ==
    /\ tid \in 1 .. Len(Traces)
    /\ l = 1
    /\ AclInit(Cfg.n, Cfg.implicit, DenseRules(Cfg.tab, Cfg.n), DenseHits(Cfg.tab, Cfg.n), Cfg.ihits)

TraceNext ==
    /\ l <= Len(T)
    /\ Failing(T[l]) = {}
    /\ Step(T[l])
    /\ l' = l + 1
    /\ UNCHANGED tid

TraceSpec == TraceInit /\ [][TraceNext]_tvars

\* progress bookkeeping in TLC registers (one per trace); -workers 1
Seen == TLCGet(tid)
Occupied == {i \in Pos : acl[i] # NoRule}
Record ==
    IF l > Seen.pos
    THEN TLCSet(tid, [pos |-> l,
                      fail |-> IF l <= Len(T) THEN Failing(T[l]) ELSE {},
                      st |-> [implicit |-> implicit, ihits |-> ihits,
                              rules |-> {<<i, hits[i], acl[i]>> : i \in Occupied},
                              decider |-> IF l <= Len(T) /\ T[l].ev = "Check"
                                          THEN Decider(acl, T[l].pkt) ELSE -2]])
    ELSE TRUE
InitRegs == \A i \in 1 .. Len(Traces) : TLCSet(i, [pos |-> 0, fail |-> {}, st |-> <<>>])
ASSUME InitRegs

Report ==
    \A i \in 1 .. Len(Traces) :
        LET r == TLCGet(i) IN
        /\ PrintT(<<"TRACE", i, r.pos, Len(Traces[i].ev)>>)
        /\ (r.pos = Len(Traces[i].ev) + 1 \/ PrintT(<<"STUCK", i, r.pos, r.fail, r.st>>))
=============================================================================
