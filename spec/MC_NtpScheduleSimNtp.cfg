SPECIFICATION Spec
CONSTANTS
  Comps = {"ntp"}
  MaxClock = 2
  MaxCalls = 4
  MaxK = 6
  AsCoded = FALSE
  Shallow = FALSE
CHECK_DEADLOCK FALSE
