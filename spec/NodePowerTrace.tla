-------------------------- MODULE NodePowerTrace --------------------------
(* Trace validation of recorded node power histories against NodePower.tla *)
(* trace:  cfg = [up, down, st, nic, run]                                  *)
(* event:  [ev |-> "ReqPower"|"Tick"|"ReqOther"|"FrameIn"|"TryEmit",       *)
(*          kind, ok, acc, emit, st, nic, run]  (post-state from objects)  *)
EXTENDS NodePower, TLC, TLCExt, Json, IOUtils

Traces == JsonDeserialize(IOEnv.TRACE_FILE)

VARIABLES tid, l
tvars == <<upDur, downDur, st, age, resetting, nic, run, snapNic, snapRun, tid, l>>

T == Traces[tid].ev
Cfg == Traces[tid].cfg
SetOf(s) == {s[i] : i \in 1..Len(s)}

ExpSt(e) ==
    CASE e.ev = "ReqPower" -> IF PowerAccepted(e.kind) THEN AfterPower(e.kind) ELSE st
      [] e.ev = "Tick"     -> AfterTick
      [] OTHER             -> st

Leaving(e) == e.ev = "ReqPower" /\ PowerAccepted(e.kind) /\ e.kind \in {"shutdown", "reset"}
SN(e) == IF Leaving(e) THEN nic ELSE snapNic
SR(e) == IF Leaving(e) THEN run ELSE snapRun
Refused(e) ==
    \/ e.ev = "ReqPower" /\ ~PowerAccepted(e.kind)
    \/ e.ev = "ReqOther" /\ st # "ON"

Clauses(e) ==
    [ StateAsSpecified   |-> e.st = ExpSt(e),
      AcceptedIffAllowed |-> e.ev = "ReqPower" => (e.ok <=> PowerAccepted(e.kind)),
      RefusedUnlessOn    |-> (e.ev = "ReqOther" /\ st # "ON") => ~e.ok,
      RefusalChangesNothing |-> Refused(e) => (e.nic = nic /\ SetOf(e.run) = run),
      NicsDownUnlessOn   |-> NicsDownUnlessOn(e.st, e.nic),
      NothingRunsWhenOff |-> NothingRunsWhenOff(e.st, SetOf(e.run)),
      ComesBackUp        |-> e.st = ExpSt(e) => ComesBackUp(e.st, e.nic, SetOf(e.run), SN(e), SR(e)),
      NoTrafficUnlessOn  |-> (e.ev \in {"FrameIn", "TryEmit"} /\ st # "ON") => (e.acc = 0 /\ e.emit = 0),
      QuietUnlessOn      |-> (e.ev \in {"FrameIn", "TryEmit"} /\ st # "ON") => (e.nic = nic /\ SetOf(e.run) = run),
      \* a tick that neither starts nor ends with the node ON does no software work: no timed operation (restart,
      \* install, fix, scan, restore - their counters summed in prog0 / prog around the tick) advances, nothing starts
      NoWorkUnlessOn     |-> (e.ev = "Tick" /\ st # "ON" /\ ExpSt(e) # "ON" /\ "prog" \in DOMAIN e)
                                => (e.prog = e.prog0 /\ SetOf(e.run) \subseteq run)
    ]
Failing(e) == {c \in DOMAIN Clauses(e) : ~Clauses(e)[c]}

Step(e) ==
    CASE e.ev = "ReqPower" -> ReqPower(e.kind, e.ok, e.nic, SetOf(e.run))
      [] e.ev = "Tick"     -> Tick(e.nic, SetOf(e.run))
      [] e.ev = "ReqOther" -> ReqOther(e.ok, e.nic, SetOf(e.run))
      [] e.ev = "FrameIn"  -> FrameIn(e.acc, e.emit, e.nic, SetOf(e.run))
      [] e.ev = "TryEmit"  -> TryEmit(e.emit, e.nic, SetOf(e.run))
      [] OTHER -> FALSE

TraceInit ==
    /\ tid \in 1..Len(Traces)
    /\ l = 1
    /\ PowerInit(Cfg.up, Cfg.down, Cfg.st, Cfg.nic, SetOf(Cfg.run))

TraceNext ==
    /\ l <= Len(T)
    /\ Failing(T[l]) = {}
    /\ Step(T[l])
    /\ l' = l + 1
    /\ UNCHANGED tid

TraceSpec == TraceInit /\ [][TraceNext]_tvars

Seen == TLCGet(tid)
Record ==
    IF l > Seen.pos
    THEN TLCSet(tid, [pos |-> l,
                      fail |-> IF l <= Len(T) THEN Failing(T[l]) ELSE {},
                      st |-> [st |-> st, age |-> age, resetting |-> resetting, nic |-> nic, run |-> run,
                              up |-> upDur, down |-> downDur]])
    ELSE TRUE
InitRegs == \A i \in 1..Len(Traces) : TLCSet(i, [pos |-> 0, fail |-> {}, st |-> <<>>])
ASSUME InitRegs

Report ==
    \A i \in 1..Len(Traces) :
        LET r == TLCGet(i) IN
        /\ PrintT(<<"TRACE", i, r.pos, Len(Traces[i].ev)>>)
        /\ (r.pos = Len(Traces[i].ev) + 1 \/ PrintT(<<"STUCK", i, r.pos, r.fail, r.st>>))
=============================================================================
