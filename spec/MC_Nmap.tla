------------------------------ MODULE MC_Nmap ------------------------------
(* Exhaustive model of Nmap: hosts a (.2) and c (.3) and router r (.1) on  *)
(* network 1 (192.168.1.0/29), host b (.2) behind r on network 2           *)
(* (192.168.2.0/29, r = .1).  The router ACL denies one of DenyOpts.  Up   *)
(* to MaxEnv environment changes (power, interface, software) and up to    *)
(* MaxScans scans; a scan runs to its end before the next stimulus (the    *)
(* simulator is synchronous).  The model passes the design's values:       *)
(* a ping answers iff PathModel, a probe is answered iff the target's NMAP *)
(* runs and the port is open, the scan reports what the exchange found -   *)
(* and the invariants say that this is what the state of the world says.   *)
(* Negative configuration TLC must refute (MC_NmapAsCoded.cfg):            *)
(* CheckFirst = FALSE - the readiness test comes after the scanning, as in *)
(* the request handlers of nmap.py:96-123 (NoTrafficUnlessRunning).        *)
(* EnvPerScan > 0 (MC_NmapSim.cfg, for -simulate): that many environment   *)
(* changes between two scans, so that behaviours mix both kinds of stimulus.*)
EXTENDS Nmap, TLC

CONSTANTS MaxEnv, MaxScans, CheckFirst, Scanners, Vias, EnvPerScan

VARIABLES nenv, nscan
mvars == <<nvars, nenv, nscan>>

KIND == [a |-> "host", b |-> "host", c |-> "host", r |-> "router"]
GW == [a |-> 1001, b |-> 2001, c |-> 1001, r |-> 0]
INST == [a |-> {"nmap", "terminal", "ntp_client"}, b |-> {"nmap", "terminal", "web_server", "ntp_client"},
         c |-> {"nmap", "terminal", "web_server"}, r |-> {"nmap", "terminal"}]
OWN == (1001 :> "r") @@ (1002 :> "a") @@ (1003 :> "c") @@ (2001 :> "r") @@ (2002 :> "b")
NETS == (1 :> [lo |-> 1000, hi |-> 1007]) @@ (2 :> [lo |-> 2000, hi |-> 2007])
IFNET == [x \in DOMAIN OWN |-> IF x < 2000 THEN NETS[1] ELSE NETS[2]]
SWPP == [terminal |-> <<"tcp", 22>>, web_server |-> <<"tcp", 80>>, ntp_client |-> <<"udp", 123>>]
DenyOpts == {{}, {ICMPc}, {<<"tcp", 80>>}, {ICMPc, <<"udp", 123>>}}
TargetOpts == {<<1000001>>, <<2002, 1003, 2001, 2002>>, <<1007, 2000, 9001, 1003, 1002>>, <<1000002, 1003>>}
ProtoOpts == {<<"tcp">>, <<"udp", "tcp">>}
PortOpts == {<<80>>, <<123, 22, 80>>}
NicToggle == {1003, 2002, 2001}
SwToggle == {<<"b", "web_server">>, <<"b", "ntp_client">>, <<"c", "terminal">>, <<"c", "nmap">>, <<"a", "nmap">>, <<"b", "nmap">>}

Init ==
    /\ \E d \in DenyOpts :
         NmapInit(KIND, GW, INST, OWN, NETS, IFNET, SWPP, {}, d, TRUE, DOMAIN KIND, DOMAIN OWN, INST)
    /\ nenv = 0 /\ nscan = 0

Idle == scan.phase = "idle"
EnvStim == Idle /\ nenv < MaxEnv /\ nscan < MaxScans /\ (EnvPerScan > 0 => nenv < EnvPerScan * (nscan + 1)) /\ nenv' = nenv + 1 /\ UNCHANGED nscan
MPower(n, up) == EnvStim /\ ((n \in on) # up) /\ Power(n, up, PowerSt(n, up))
MNic(a, up) == EnvStim /\ ((a \in nicUp) # up) /\ (up => Owner(a) \in on) /\ Nic(a, up, NicSt(a, up))
MSw(n, s, up) == EnvStim /\ n \in on /\ ((s \in run[n]) # up) /\ Sw(n, s, up, SwSt(n, s, up))

MScanStart(n, k, via, ts, pr, po) ==
    /\ Idle /\ nscan < MaxScans /\ nenv >= EnvPerScan * nscan /\ nscan' = nscan + 1 /\ UNCHANGED nenv
    /\ ScanStart(n, k, via, ts, pr, po)

Going == scan.phase # "idle" /\ (scan.ready \/ ~CheckFirst)
Same == UNCHANGED <<nenv, nscan>>
NextPing == scan.tg[CHOOSE j \in (scan.pi + 1)..Len(scan.tg) :
                        Owner(scan.tg[j]) # scan.n /\ \A i \in (scan.pi + 1)..(j - 1) : Owner(scan.tg[i]) = scan.n]
MPing ==
    /\ Going /\ scan.phase = "ping" /\ ~PingPhaseDone /\ Same
    /\ Ping(NextPing, PathModel(scan.n, NextPing, ICMPc), IF CanSend(scan.n) THEN MaxEcho ELSE 0, 0)
MPortPhase == Going /\ scan.kind = "recon" /\ scan.phase = "ping" /\ PingPhaseDone /\ Same /\ PortPhase(scan.live)
\* the design probes in request order
NextTriple == CHOOSE t \in scan.todo : \A u \in scan.todo \ {t} :
                  Before3(Key(t, scan.pt, scan.pr, scan.po), Key(u, scan.pt, scan.pr, scan.po))
Cur == scan.cur
Reaches == PathModel(scan.n, Cur.a, <<Cur.p, Cur.q>>) /\ "nmap" \in run[Owner(Cur.a)]
MProbe == Going /\ scan.phase = "port" /\ Cur = NoCur /\ scan.todo # {} /\ Same
          /\ Probe(NextTriple[1], NextTriple[2], NextTriple[3])
MAnswer == scan.phase = "port" /\ Cur # NoCur /\ ~Cur.seen /\ Reaches /\ Same
           /\ Answer(Owner(Cur.a), <<Cur.p, Cur.q>> \in Open(Owner(Cur.a)))
MResponse == scan.phase = "port" /\ Cur # NoCur /\ Cur.ans /\ ~Cur.resp /\ scan.ready /\ Same /\ Response(scan.n)
MProbeEnd ==
    /\ scan.phase = "port" /\ Cur # NoCur /\ Same
    /\ ~Reaches \/ (Cur.seen /\ (~Cur.ans \/ Cur.resp \/ ~scan.ready))
    /\ ProbeEnd(Cur.a, Cur.p, Cur.q, Cur.resp, IF CanSend(scan.n) THEN 1 ELSE 0, 0)
AsPing(s) == [i \in 1..Len(s) |-> <<s[i], "", 0>>]
MScanEnd ==
    /\ scan.phase # "idle" /\ Same
    /\ IF Going THEN ScanFinished ELSE TRUE
    /\ ScanEnd(scan.ready \/ scan.via = "api",
               IF ~scan.ready THEN <<>> ELSE IF scan.kind = "ping" THEN AsPing(scan.live) ELSE scan.found)

Next ==
    \/ \E n \in DOMAIN KIND, up \in BOOLEAN : MPower(n, up)
    \/ \E a \in NicToggle, up \in BOOLEAN : MNic(a, up)
    \/ \E x \in SwToggle, up \in BOOLEAN : MSw(x[1], x[2], up)
    \/ \E n \in Scanners, via \in Vias, ts \in TargetOpts : MScanStart(n, "ping", via, ts, <<>>, <<>>)
    \/ \E n \in Scanners, k \in {"port", "recon"}, via \in Vias, ts \in TargetOpts, pr \in ProtoOpts, po \in PortOpts :
           MScanStart(n, k, via, ts, pr, po)
    \/ MPing \/ MPortPhase \/ MProbe \/ MAnswer \/ MResponse \/ MProbeEnd \/ MScanEnd
Spec == Init /\ [][Next]_mvars

TypeOK ==
    /\ on \subseteq Nodes /\ nicUp \subseteq DOMAIN own /\ \A n \in Nodes : run[n] \subseteq inst[n]
    /\ scan.phase \in {"idle", "ping", "port"} /\ scan.kind \in {"none", "ping", "port", "recon"}
    /\ (scan.phase = "idle") = (scan = IdleScan)
\* an interface is only enabled, and software only runs, on a node that is ON
EnvSane == (\A a \in nicUp : Owner(a) \in on) /\ (\A n \in Nodes \ on : run[n] = {})
MTargetsUntouched == [][scan.phase # "idle" => UNCHANGED evars]_mvars
MConfigNeverChanges == [][UNCHANGED cvars]_mvars
=============================================================================
