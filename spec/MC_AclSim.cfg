SPECIFICATION Spec
CONSTANTS
  NPos = 3
  MaxRules = 3
  Modes = {"free"}
  Domain = "product"
INVARIANT TypeOK
INVARIANT NoCounterWithoutRule
PROPERTY VerdictProp
PROPERTY AddProp
PROPERTY RemoveProp
PROPERTY CounterProp
CHECK_DEADLOCK FALSE
