------------------------------ MODULE Requests ------------------------------
(***************************************************************************)
(* Resolution of a request by the tree of request managers.  C05, C11.     *)
(*                                                                         *)
(* A request is a path of keys.  At every level the manager looks the key  *)
(* up (missing -> "unreachable"), asks the permission rule registered for  *)
(* that key (refuses -> "failure" with the reason) and either descends     *)
(* into the sub-manager or calls the handler (leaf).                       *)
(*                                                                         *)
(* The *observation* of one resolution is the sequence of                  *)
(*     [present |-> BOOLEAN, guard |-> BOOLEAN]                            *)
(* along the path, up to and including the first missing key or the leaf.  *)
(***************************************************************************)
EXTENDS Naturals, Sequences, FiniteSets

Statuses == {"success", "failure", "unreachable", "pending"}

\* position of the first element at which the request is turned away, 0 if it reaches its handler
FirstBad(p) ==
    IF \E i \in 1..Len(p) : ~p[i].present \/ ~p[i].guard
    THEN CHOOSE i \in 1..Len(p) :
            /\ ~p[i].present \/ ~p[i].guard
            /\ \A j \in 1..(i - 1) : p[j].present /\ p[j].guard
    ELSE 0

Dispatch(p) ==
    IF FirstBad(p) = 0 THEN "handled"
    ELSE IF ~p[FirstBad(p)].present THEN "unreachable" ELSE "failure"

\* the action mask: available exactly when executing now would reach the handler
MaskAllows(p) == Dispatch(p) = "handled"

-----------------------------------------------------------------------------
(* A code-shaped reference: trees of managers.                             *)
(* A tree is a function from keys to [guard, leaf, sub] (sub = a tree).    *)
(* Resolution is written recursively like RequestManager.__call__ and      *)
(* check_valid; MC_Requests compares it with Dispatch/MaskAllows.          *)

RECURSIVE Resolve(_, _)
Resolve(tree, path) ==
    IF path = <<>> THEN "raise"   \* an empty request cannot be resolved
    ELSE LET k == Head(path) IN
         IF k \notin DOMAIN tree THEN "unreachable"
         ELSE IF ~tree[k].guard THEN "failure"
         ELSE IF tree[k].leaf THEN "handled"
         ELSE Resolve(tree[k].sub, Tail(path))

\* the intended check_valid: every permission rule along the path is consulted
RECURSIVE CheckValid(_, _)
CheckValid(tree, path) ==
    IF path = <<>> THEN FALSE
    ELSE LET k == Head(path) IN
         IF k \notin DOMAIN tree THEN FALSE
         ELSE IF ~tree[k].guard THEN FALSE
         ELSE IF tree[k].leaf THEN TRUE
         ELSE CheckValid(tree[k].sub, Tail(path))

\* check_valid as found in the pinned tree: only the leaf's rule is consulted
RECURSIVE CheckValidLeafOnly(_, _)
CheckValidLeafOnly(tree, path) ==
    IF path = <<>> THEN FALSE
    ELSE LET k == Head(path) IN
         IF k \notin DOMAIN tree THEN FALSE
         ELSE IF tree[k].leaf THEN tree[k].guard
         ELSE CheckValidLeafOnly(tree[k].sub, Tail(path))

\* observation of a path in a tree
RECURSIVE Observe(_, _)
Observe(tree, path) ==
    IF path = <<>> THEN <<>>
    ELSE LET k == Head(path) IN
         IF k \notin DOMAIN tree THEN <<[present |-> FALSE, guard |-> FALSE]>>
         ELSE IF tree[k].leaf \/ ~tree[k].guard THEN <<[present |-> TRUE, guard |-> tree[k].guard]>>
         ELSE <<[present |-> TRUE, guard |-> TRUE]>> \o Observe(tree[k].sub, Tail(path))
=============================================================================
