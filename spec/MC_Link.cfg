SPECIFICATION Spec
CONSTANTS
  MaxBw = 5
  Sizes = {1,2,3}
  MaxNest = 3
  Variant = "design"
INVARIANT CarriedWithinBandwidth
INVARIANT LoadWithinBandwidth
INVARIANT LoadIsCommitted
CHECK_DEADLOCK FALSE
