SPECIFICATION Spec
CONSTANTS
  MaxStim = 2
  MaxPings = 2
  AsCoded = FALSE
  BadId = TRUE
  AnyPort = FALSE
  Layout = 1
  Pingers = {1, 3}
  Toggle = {2, 4, 5}
INVARIANT EchoReplySameIdentifier
VIEW View
CHECK_DEADLOCK FALSE
