--------------------------- MODULE EpisodeTrace ---------------------------
(* Trace validation of recorded environment runs against Episode.tla (C01) *)
(* event: [ev |-> "StepBegin"|"PreTick"|"Act"|"Tick"|"StepReturn"|         *)
(*                "ResetBegin"|"ResetReturn"|"Raised",                     *)
(*         agent, steps, h, obsOK, rFinite, respOK, term, trunc, nInfo,    *)
(*         totZero, n2, m2]                                                *)
EXTENDS Episode, TLC, TLCExt, Json, IOUtils

Traces == JsonDeserialize(IOEnv.TRACE_FILE)

VARIABLES tid, l
tvars == <<nAg, maxLen, ep, t, phase, pre, ticks, acted, hist, tid, l>>

T == Traces[tid].ev
Cfg == Traces[tid].cfg

Clauses(e) ==
    [ CompletesWithoutRaising |-> e.ev # "Raised",
      OneTickPerStep     |-> e.ev = "StepReturn" => (ticks = 1 /\ e.steps = t),
      OneRecordPerAgent  |-> e.ev = "StepReturn" =>
                                (Len(e.h) = nAg /\ \A a \in Agents : e.h[a] = hist[a] /\ hist[a] = t),
      ObservationReturned |-> e.ev \in {"StepReturn", "ResetReturn"} => e.obsOK,
      RewardFinite       |-> e.ev = "StepReturn" => e.rFinite,
      ResponseRecorded   |-> e.ev = "StepReturn" => e.respOK,
      NeverTerminated    |-> e.ev = "StepReturn" => ~e.term,
      TruncatedIffMaxReached |-> e.ev = "StepReturn" => (e.trunc <=> (t >= maxLen)),
      InfoHasEveryAgent  |-> e.ev = "StepReturn" => e.nInfo = nAg,
      ResetStartsAfresh  |-> e.ev = "ResetReturn" => ResetReturnOK(e.steps, e.h, e.totZero, e.obsOK),
      ActsInDeclarationOrder |-> e.ev = "Act" =>
                                (e.agent \in Agents /\ acted[e.agent] = 0 /\ \A b \in Agents : b < e.agent => acted[b] = 1),
      TickAfterAllActed  |-> e.ev = "Tick" => (phase = "step" => (ticks = 0 /\ \A a \in Agents : acted[a] = 1))
    ]
Failing(e) == LET cl == Clauses(e) IN {c \in DOMAIN cl : ~cl[c]}

Step(e) ==
    CASE e.ev = "StepBegin"   -> StepBegin
      [] e.ev = "PreTick"     -> PreTick
      [] e.ev = "Act"         -> Act(e.agent)
      [] e.ev = "Tick"        -> Tick
      [] e.ev = "StepReturn"  -> StepReturn(e.steps, e.h, e.obsOK, e.rFinite, e.respOK, e.term, e.trunc, e.nInfo)
      [] e.ev = "ResetBegin"  -> ResetBegin
      [] e.ev = "ResetReturn" -> ResetReturn(e.steps, e.h, e.totZero, e.obsOK, e.n2, e.m2)
      [] OTHER -> FALSE

TraceInit ==
    /\ tid \in 1..Len(Traces)
    /\ l = 1
    /\ EpisodeInit(Cfg.nAg, Cfg.maxLen)

TraceNext ==
    /\ l <= Len(T)
    /\ Failing(T[l]) = {}
    /\ Step(T[l])
    /\ l' = l + 1
    /\ UNCHANGED tid

TraceSpec == TraceInit /\ [][TraceNext]_tvars

Seen == TLCGet(tid)
Record ==
    IF l > Seen.pos
    THEN TLCSet(tid, [pos |-> l,
                      fail |-> IF l <= Len(T) THEN Failing(T[l]) ELSE {},
                      st |-> [ep |-> ep, t |-> t, phase |-> phase, pre |-> pre, ticks |-> ticks, acted |-> acted,
                              hist |-> hist, nAg |-> nAg, maxLen |-> maxLen]])
    ELSE TRUE
InitRegs == \A i \in 1..Len(Traces) : TLCSet(i, [pos |-> 0, fail |-> {}, st |-> <<>>])
ASSUME InitRegs

Report ==
    \A i \in 1..Len(Traces) :
        LET r == TLCGet(i) IN
        /\ PrintT(<<"TRACE", i, r.pos, Len(Traces[i].ev)>>)
        /\ (r.pos = Len(Traces[i].ev) + 1 \/ PrintT(<<"STUCK", i, r.pos, r.fail, r.st>>))
=============================================================================
