---------------------------- MODULE MC_Episode ----------------------------
(* All schedules of steps (of each action class) and resets, mid-episode   *)
(* and past truncation, over consecutive episodes.                         *)
EXTENDS Episode, TLC

CONSTANTS MaxAgents, MaxLen, MaxEpisodes, MaxSteps, Classes

VARIABLES cls, steps
mvars == <<evars, cls, steps>>

Init == cls = "none" /\ steps = 0 /\ \E n \in 1..MaxAgents, m \in 1..MaxLen : EpisodeInit(n, m)

MStep(c) == steps < MaxSteps /\ StepBegin /\ cls' = c /\ steps' = steps + 1
MPreTick == PreTick /\ UNCHANGED <<cls, steps>>
MAct(a) == Act(a) /\ UNCHANGED <<cls, steps>>
MTick == Tick /\ UNCHANGED <<cls, steps>>
MReturn == StepReturn(t, hist, TRUE, TRUE, TRUE, FALSE, t >= maxLen, nAg) /\ UNCHANGED <<cls, steps>>
MReset == ep < MaxEpisodes /\ ResetBegin /\ cls' = "reset" /\ UNCHANGED steps
MResetReturn == ResetReturn(0, [a \in Agents |-> 0], TRUE, TRUE, nAg, maxLen) /\ UNCHANGED <<cls, steps>>

Next ==
    \/ \E c \in Classes : MStep(c)
    \/ MPreTick
    \/ \E a \in 1..MaxAgents : MAct(a)
    \/ MTick
    \/ MReturn
    \/ MReset
    \/ MResetReturn

Spec == Init /\ [][Next]_mvars /\ WF_mvars(MPreTick \/ (\E a \in 1..MaxAgents : MAct(a)) \/ MTick \/ MReturn \/ MResetReturn)

\* every step that begins returns (the pipeline cannot get stuck)
StepsReturn == [](phase = "step" => <>(phase = "idle"))
TimeBounded == t <= MaxSteps
=============================================================================
