---------------------------- MODULE SwitchTrace ----------------------------
(* event: [ev |-> "Receive"|"SetPort", src, dst, inp, outs (sequence of ports), port, en,
           tbl |-> sequence of [mac, port] read back from the switch] *)
EXTENDS Switch, TLC, TLCExt, Json, IOUtils, Sequences
Traces == JsonDeserialize(IOEnv.TRACE_FILE)
VARIABLES tid, l
tvars == <<nPorts, enabled, table, tid, l>>
T == Traces[tid].ev
Cfg == Traces[tid].cfg
SetOf(s) == {s[i] : i \in 1..Len(s)}
TableOf(s) == [m \in {s[i].mac : i \in 1..Len(s)} |-> (CHOOSE i \in 1..Len(s) : s[i].mac = m) ]
PortOf(s, m) == s[CHOOSE i \in 1..Len(s) : s[i].mac = m].port
Clauses(e) ==
    [ ForwardsToLearntPortOrFloods |-> e.ev = "Receive" => SetOf(e.outs) = OutPorts(e.src, e.dst, e.inp),
      LearnsIngressPort |-> e.ev = "Receive" =>
            /\ {e.tbl[i].mac : i \in 1..Len(e.tbl)} = DOMAIN Learnt(e.src, e.inp)
            /\ \A m \in DOMAIN Learnt(e.src, e.inp) : PortOf(e.tbl, m) = Learnt(e.src, e.inp)[m],
      OnlyOnEnabledIngress |-> e.ev = "Receive" => enabled[e.inp]
    ]
Failing(e) == LET cl == Clauses(e) IN {c \in DOMAIN cl : ~cl[c]}
Step(e) ==
    CASE e.ev = "Receive" -> Receive(e.src, e.dst, e.inp, SetOf(e.outs))
      [] e.ev = "SetPort" -> SetPort(e.port, e.en)
      [] OTHER -> FALSE
InitTable == IF "tbl" \in DOMAIN Cfg
             THEN [m \in {Cfg.tbl[i].mac : i \in 1..Len(Cfg.tbl)} |-> PortOf(Cfg.tbl, m)]
             ELSE [m \in {} |-> 0]
TraceInit == tid \in 1..Len(Traces) /\ l = 1 /\ SwitchInitT(Cfg.nPorts, Cfg.enabled, InitTable)
TraceNext == l <= Len(T) /\ Failing(T[l]) = {} /\ Step(T[l]) /\ l' = l + 1 /\ UNCHANGED tid
TraceSpec == TraceInit /\ [][TraceNext]_tvars
Seen == TLCGet(tid)
Record ==
    IF l > Seen.pos
    THEN TLCSet(tid, [pos |-> l, fail |-> IF l <= Len(T) THEN Failing(T[l]) ELSE {}, st |-> [enabled |-> enabled, table |-> table]])
    ELSE TRUE
InitRegs == \A i \in 1..Len(Traces) : TLCSet(i, [pos |-> 0, fail |-> {}, st |-> <<>>])
ASSUME InitRegs
Report ==
    \A i \in 1..Len(Traces) :
        LET r == TLCGet(i) IN
        /\ PrintT(<<"TRACE", i, r.pos, Len(Traces[i].ev)>>)
        /\ (r.pos = Len(Traces[i].ev) + 1 \/ PrintT(<<"STUCK", i, r.pos, r.fail, r.st>>))
=============================================================================
