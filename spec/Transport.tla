------------------------------ MODULE Transport ------------------------------
(***************************************************************************)
(* Transport sessions and payload delivery inside ONE host node (extension *)
(* module, beyond the listed properties): SessionManager (session table),  *)
(* SoftwareManager (installed software, the (port, protocol) registry,     *)
(* dispatch of inbound payloads, open ports), IOSoftware (send / receive,  *)
(* listen_on_ports, connections bounded by max_sessions) and the first     *)
(* port check of HostNode.receive_frame.  One action per handler of the    *)
(* real code; the catalogue of software that can be installed (port,       *)
(* protocol, service / application, listen_on_ports, max_sessions) is the  *)
(* configuration variable `cat'.  Actions take the logged post-values as   *)
(* parameters; the contract lives in the predicates named ...Ok / Allowed, *)
(* which the exhaustive model uses as guards and the trace specification   *)
(* as named clauses.                                                       *)
(*                                                                         *)
(* A session key is <<protocol, peer address, peer's port, own port>>      *)
(* (Session.src_port is the source port of the INBOUND frame, i.e. the     *)
(* peer's; SessionManager._get_session_key(inbound_frame=False) swaps the  *)
(* header ports of an outbound frame to obtain the same key).              *)
(*                                                                         *)
(* Contract clauses (name : source)                                        *)
(*  OneSessionPerConversation : internal_frame_processing.rst:45-46 ("It   *)
(*     checks if an existing Session matches these details. If no match, a *)
(*     new Session is created"), :83 (outbound: "If no Session ID was      *)
(*     provided ... create a new Session"); session_manager.py:359-364,    *)
(*     380-385 (get, else create).  The table grows only by the key of the *)
(*     frame at hand and shrinks only by SessionManager.clear ("Clears the *)
(*     sessions", session_manager.py:101) - SessionsGrowByConversation.    *)
(*     No other event that ends a session is documented anywhere (node     *)
(*     shut-down, software stop: nothing), none is demanded here.          *)
(*  SessionKeyedByConversation : Session docstring (session_manager.py:    *)
(*     24-37: protocol, the addresses and ports of the two endpoints);     *)
(*     _get_session_key docstring (:109-120); the key of a created session *)
(*     is <<protocol, PEER address, peer's port, own port>> of the frame   *)
(*     at hand, whichever way the frame travels.                           *)
(*  NewConversationToRequestedPort : internal_frame_processing.rst:67      *)
(*     (a new payload goes to the destination IP and destination port the  *)
(*     software names).                                                    *)
(*  SessionMustExist / ReplyOnSameSession / NoGrowthOnReply :              *)
(*     resolve_outbound_transmission_details docstring                     *)
(*     (session_manager.py:191, 206: "the session details override other   *)
(*     parameters"), receive_payload_from_software_manager docstring       *)
(*     (:275 "an existing session is used otherwise"),                     *)
(*     internal_frame_processing.rst:67 ("session id for existing          *)
(*     sessions"); IOSoftware.receive hands the software the session id to *)
(*     answer on.  A payload sent on a session goes to the session's peer  *)
(*     with the session's protocol, from the own port to the peer's port   *)
(*     (the header ports of the answered frame swapped), and creates no    *)
(*     session.                                                            *)
(*  OwnerIsLastInstalled / OwnerIsInstalledClaimant / EveryClaimedPairOwned*)
(*     : session_and_software_manager.rst:62 ("Maintains a registry of     *)
(*     services and applications, keyed by protocol and port numbers");    *)
(*     software_manager.py:152 (install claims the pair), :177-185         *)
(*     (uninstall hands a shared pair back; commit ae79df5); the registry  *)
(*     never names software that is not installed ("Installation and       *)
(*     Uninstallation ... managing the availability of software").         *)
(*  AcceptedOnlyIfOpen / DroppedOnlyIfClosed :                             *)
(*     session_and_software_manager.rst:70-75 (Initial Port Check, Frame   *)
(*     Acceptance); host_node.py:406-437.  The documentation speaks of     *)
(*     port AND protocol, the code looks at the port only: a frame whose   *)
(*     port is open for another protocol may go either way here (it is     *)
(*     dropped at dispatch at the latest).                                 *)
(*  DeliveredOnlyToDue / AllDueDelivered / NotTwice :                      *)
(*     internal_frame_processing.rst:54-55; receive_payload_from_session_  *)
(*     manager docstring (software_manager.py:249-252: the owner of the    *)
(*     port and "software listening in on other ports"); only RUNNING      *)
(*     software on a node that is ON handles payloads (software.rst:15     *)
(*     "will not work unless the node has been turned on", commit 0cc39b6);*)
(*     a payload nobody is due for is dropped without exception.           *)
(*  ServedWhenOpen : session_and_software_manager.rst:70-84 (steps 1, 2, 4,*)
(*     5: the node accepts the frame because software is running on its    *)
(*     port and protocol; the dispatch "identifies the target based on the *)
(*     frame's destination port and protocol, aligning with the initial    *)
(*     port check"; "the relevant applications or services process the     *)
(*     received frames"): when RUNNING software claims the (port, protocol)*)
(*     of an accepted frame, software claiming that pair receives it.      *)
(*  OpenPortsExact : SoftwareManager.get_open_ports docstring ("all open   *)
(*     ports on the Node"), commit ae79df5: the ports (and listen ports)   *)
(*     of RUNNING software, nothing else.                                  *)
(*  RunsOnlyWhenOn / ServiceStartsOnInstall / NothingRunsWhenOff :         *)
(*     software.rst:15, :34 ("service is immediately ran after install"),  *)
(*     :38 ("service stops when node is powered off").                     *)
(*  ConnsWithinMax / AddConnOutcome / TerminateReportsRemoval / ConnCount :*)
(*     IOSoftware.max_sessions ("maximum number of sessions that the       *)
(*     software can handle simultaneously"), add_connection (software.py:  *)
(*     329-364: declined at capacity or when the id exists, True when      *)
(*     created), terminate_connection docstring (:366-371 "Returns true if *)
(*     connection successfully removed"), clear_connections.  Nothing      *)
(*     documents that a software stop or a node shut-down removes          *)
(*     connections (the code keeps them): not demanded.                    *)
(***************************************************************************)
EXTENDS Naturals, FiniteSets, Sequences

VARIABLES cat,      \* configuration: name -> [port, proto, svc, listen, max, track]
          power,    \* "ON" | "OFF" | "BOOTING" | "SHUTTING_DOWN"
          inst,     \* installed software, in order of installation
          op,       \* name -> operating state ("RUNNING", "STOPPED", "PAUSED", "CLOSED", "INSTALLING", ...)
          owner,    \* the registry: <<port, proto>> -> name
          sessions, \* set of session keys
          conns,    \* name -> set of connection ids
          stack,    \* inbound frames being processed (calls nest): [f, phase, pending, got]
          out,      \* the last payload sent on a session: [s, f, built]
          served,   \* verdict of ServedWhenOpen at the last completed dispatch
          act       \* the last action (for reading -simulate behaviours)
vars == <<cat, power, inst, op, owner, sessions, conns, stack, out, served, act>>

Names == DOMAIN cat
Installed == {inst[i] : i \in 1..Len(inst)}
KeyOf(n) == <<cat[n].port, cat[n].proto>>
Claimants(k) == {n \in Installed : KeyOf(n) = k}
Running(n) == n \in Installed /\ op[n] = "RUNNING"
RunningSet == {n \in Installed : op[n] = "RUNNING"}
RunningPorts == UNION {{cat[n].port} \cup cat[n].listen : n \in RunningSet}
Without(s, n) == SelectSeq(s, LAMBDA x : x # n)
NoOut == [s |-> <<>>, f |-> <<>>, built |-> FALSE]

\* an inbound frame: [proto, ip, sp, dp, kind ("data" | "scan"), tome]; an ICMP frame has ports 0
InKey(f) == <<f.proto, f.ip, f.sp, f.dp>>
\* an outbound frame with header ports fsp -> fdp
OutKey(proto, ip, fsp, fdp) == <<proto, ip, fdp, fsp>>
DKey(f) == <<f.dp, f.proto>>

TInit(c, pw, i, o, ow, ss, cn) ==
    /\ cat = c /\ power = pw /\ inst = i /\ op = o /\ owner = ow /\ sessions = ss /\ conns = cn
    /\ stack = <<>> /\ out = NoOut /\ served = TRUE /\ act = <<"Init">>

--------------------------------------------------------------------------
\* SoftwareManager.install / uninstall
OwnerAfterInstall(n) == [k \in DOMAIN owner \cup {KeyOf(n)} |-> IF k = KeyOf(n) THEN n ELSE owner[k]]
DesignInstallState(n) == IF cat[n].svc THEN (IF power = "ON" THEN "RUNNING" ELSE "STOPPED") ELSE "CLOSED"
Install(n, st, ow) ==
    /\ n \in Names
    /\ inst' = Append(Without(inst, n), n)      \* installing what is installed replaces the instance
    /\ op' = [op EXCEPT ![n] = st]
    /\ owner' = ow
    /\ conns' = [conns EXCEPT ![n] = {}]
    /\ act' = <<"Install", n>>
    /\ UNCHANGED <<cat, power, sessions, stack, out, served>>
OwnerIsLastInstalled(n, ow) == ow = OwnerAfterInstall(n)
ServiceStartsOnInstall(n, st) == (cat[n].svc /\ power = "ON") => st = "RUNNING"
RunsOnlyWhenOn(st) == st = "RUNNING" => power = "ON"

Uninstall(n, ow) ==
    /\ n \in Installed
    /\ inst' = Without(inst, n)
    /\ owner' = ow
    /\ conns' = [conns EXCEPT ![n] = {}]
    /\ act' = <<"Uninstall", n>>
    /\ UNCHANGED <<cat, power, op, sessions, stack, out, served>>
\* pairs of other software stay; a pair the uninstalled software owned goes to remaining software that claims it, or away
UninstallOwnerOk(n, ow) ==
    LET rest == Installed \ {n} IN
    /\ \A k \in DOMAIN owner : owner[k] # n => (k \in DOMAIN ow /\ ow[k] = owner[k])
    /\ \A k \in DOMAIN ow : k \in DOMAIN owner /\ ow[k] \in rest /\ KeyOf(ow[k]) = k
    /\ \A k \in DOMAIN owner : owner[k] = n => (k \in DOMAIN ow <=> {m \in rest : KeyOf(m) = k} # {})

\* a write to operating_state (start, stop, pause, resume, restart, run, close, install countdown ...)
SetOp(n, st) ==
    /\ n \in Names
    /\ op' = [op EXCEPT ![n] = st]
    /\ act' = <<"SetOp", n, st>>
    /\ UNCHANGED <<cat, power, inst, owner, sessions, conns, stack, out, served>>

\* a write to the node's operating state
Power(st) ==
    /\ power' = st
    /\ act' = <<"Power", st>>
    /\ UNCHANGED <<cat, inst, op, owner, sessions, conns, stack, out, served>>

--------------------------------------------------------------------------
\* SessionManager.receive_payload_from_software_manager without session id: a (possibly) new conversation.
\* built = a frame was made and handed to the interface; fsp / fdp = its header ports; new = a session was created
\* key = the key of the session that was created, as found in the table
SendNew(proto, ip, dp, built, fsp, fdp, new, key) ==
    /\ sessions' = IF new THEN sessions \cup {key} ELSE sessions
    /\ out' = NoOut
    /\ act' = <<"SendNew", proto, ip, dp>>
    /\ UNCHANGED <<cat, power, inst, op, owner, conns, stack, served>>
NewConversationToRequestedPort(dp, built, fdp) == built => fdp = dp
OneSessionOut(proto, ip, built, fsp, fdp, new) == new = (built /\ OutKey(proto, ip, fsp, fdp) \notin sessions)

\* ... with a session id: s = the session the id names, f = <<proto, ip, fsp, fdp>> of the frame that was built
SendSess(s, built, f, new, key) ==
    /\ sessions' = IF new THEN sessions \cup {key} ELSE sessions
    /\ out' = [s |-> s, f |-> f, built |-> built]
    /\ act' = <<"SendSess", s>>
    /\ UNCHANGED <<cat, power, inst, op, owner, conns, stack, served>>
SessionMustExist(s) == s \in sessions
OnSession(s, f) == f[1] = s[1] /\ f[2] = s[2] /\ f[4] = s[3] /\ f[3] = s[4]
ReplyOnSameSession == out.built => OnSession(out.s, out.f)

Clear ==
    /\ sessions' = {}
    /\ act' = <<"Clear">>
    /\ UNCHANGED <<cat, power, inst, op, owner, conns, stack, out, served>>

--------------------------------------------------------------------------
\* inbound: HostNode.receive_frame -> SessionManager.receive_frame -> SoftwareManager.receive_payload_from_session_manager
Servable(f) == f.kind = "data" /\ \E n \in Claimants(DKey(f)) : Running(n)
Heard(f) == f.kind = "data" /\ \E n \in RunningSet : f.dp \in cat[n].listen
NmapUp == "nmap" \in Installed /\ op["nmap"] = "RUNNING"
MayAccept(f) == power = "ON" /\ f.tome /\ (f.proto = "icmp" \/ f.dp \in RunningPorts \/ (f.kind = "scan" /\ NmapUp))
MustAccept(f) == power = "ON" /\ f.tome /\ (Servable(f) \/ Heard(f) \/ (f.kind = "scan" /\ NmapUp))

Main(f) == IF f.kind = "scan" THEN (IF NmapUp THEN {"nmap"} ELSE {})
           ELSE IF DKey(f) \in DOMAIN owner /\ Running(owner[DKey(f)]) THEN {owner[DKey(f)]} ELSE {}
Listeners(f) == IF f.kind = "scan" THEN {} ELSE {n \in RunningSet : f.dp \in cat[n].listen}
Due(f) == IF power = "ON" THEN Main(f) \cup Listeners(f) ELSE {}
\* the registered owner is not running but other software that claims the pair is: one of them stands in
Standby(f) == IF power = "ON" /\ f.kind = "data" /\ Main(f) = {}
              THEN {n \in Claimants(DKey(f)) : Running(n)} \ Listeners(f) ELSE {}

Top == stack[Len(stack)]
SetTop(r) == [stack EXCEPT ![Len(stack)] = r]

Accept(f) ==
    /\ stack' = Append(stack, [f |-> f, phase |-> "accepted", pending |-> {}, got |-> {}])
    /\ act' = <<"Accept", InKey(f)>>
    /\ UNCHANGED <<cat, power, inst, op, owner, sessions, conns, out, served>>
Drop(f) ==
    /\ act' = <<"Drop", InKey(f)>>
    /\ UNCHANGED <<cat, power, inst, op, owner, sessions, conns, stack, out, served>>
SessIn(new, key) ==
    /\ stack # <<>> /\ Top.phase = "accepted"
    /\ sessions' = IF new THEN sessions \cup {key} ELSE sessions
    /\ stack' = SetTop([Top EXCEPT !.phase = "dispatch", !.pending = Due(Top.f)])
    /\ act' = <<"SessIn", InKey(Top.f)>>
    /\ UNCHANGED <<cat, power, inst, op, owner, conns, out, served>>
OneSessionIn(new) == new = (InKey(Top.f) \notin sessions)
Deliver(n) ==
    /\ stack # <<>> /\ Top.phase = "dispatch"
    /\ stack' = SetTop([Top EXCEPT !.pending = @ \ {n}, !.got = @ \cup {n}])
    /\ act' = <<"Deliver", n>>
    /\ UNCHANGED <<cat, power, inst, op, owner, sessions, conns, out, served>>
DeliverAllowed(n) == n \in Top.pending \/ (n \in Standby(Top.f) /\ Top.got \cap Standby(Top.f) = {})
ServedOk(t) == (power = "ON" /\ Servable(t.f)) => t.got \cap Claimants(DKey(t.f)) # {}
DispatchEnd ==
    /\ stack # <<>> /\ Top.phase = "dispatch"
    /\ served' = ServedOk(Top)
    /\ stack' = SubSeq(stack, 1, Len(stack) - 1)
    /\ act' = <<"DispatchEnd">>
    /\ UNCHANGED <<cat, power, inst, op, owner, sessions, conns, out>>

--------------------------------------------------------------------------
\* IOSoftware connections
AddConnExpected(n, c) == Cardinality(conns[n]) < cat[n].max /\ c \notin conns[n]
AddConn(n, c, ok) ==
    /\ n \in Names
    /\ conns' = [conns EXCEPT ![n] = IF ok THEN @ \cup {c} ELSE @]
    /\ act' = <<"AddConn", n, c>>
    /\ UNCHANGED <<cat, power, inst, op, owner, sessions, stack, out, served>>
TermConn(n, c) ==
    /\ n \in Names
    /\ conns' = [conns EXCEPT ![n] = @ \ {c}]
    /\ act' = <<"TermConn", n, c>>
    /\ UNCHANGED <<cat, power, inst, op, owner, sessions, stack, out, served>>
ClearConns(n) ==
    /\ n \in Names
    /\ conns' = [conns EXCEPT ![n] = {}]
    /\ act' = <<"ClearConns", n>>
    /\ UNCHANGED <<cat, power, inst, op, owner, sessions, stack, out, served>>

\* queries and check points change nothing
OpenPorts == act' = <<"OpenPorts">> /\ UNCHANGED <<cat, power, inst, op, owner, sessions, conns, stack, out, served>>
Quiet == act' = <<"Quiet">> /\ UNCHANGED <<cat, power, inst, op, owner, sessions, conns, stack, out, served>>

--------------------------------------------------------------------------
\* clauses as state invariants
OwnerIsInstalledClaimant == \A k \in DOMAIN owner : owner[k] \in Installed /\ KeyOf(owner[k]) = k
EveryClaimedPairOwned == \A n \in Installed : KeyOf(n) \in DOMAIN owner
ConnsWithinMax == \A n \in Names : Cardinality(conns[n]) <= cat[n].max
DeliveredOnlyToRunning ==
    \A i \in 1..Len(stack) : \A n \in stack[i].got :
        /\ Running(n) /\ power = "ON"
        /\ (IF stack[i].f.kind = "scan" THEN n = "nmap"
            ELSE KeyOf(n) = DKey(stack[i].f) \/ stack[i].f.dp \in cat[n].listen)
ServedWhenOpen == served
SessionsStep == \/ sessions' = sessions
                \/ sessions' = {}
                \/ \E k \in sessions' : k \notin sessions /\ sessions' = sessions \cup {k}
=============================================================================
