SPECIFICATION Spec
CONSTANTS
  N = 3
  AllNord = TRUE
  OwnNeg = 1
  OwnPos = 1
  MaxSteps = 2
  AcyclicOnly = FALSE
  Variant = "design"
INVARIANT MC_LoadIffAcyclic
INVARIANT MC_OrderDepsFirst
INVARIANT SameStepShared
INVARIANT CurIsSolution
INVARIANT TotalIsSum
INVARIANT MC_OrderIsEvalOrder
INVARIANT MC_TCAgrees
PROPERTY ConfigFrozen
VIEW MCView
CHECK_DEADLOCK FALSE
