------------------------------- MODULE Health -------------------------------
(***************************************************************************)
(* True and visible health of one piece of software and of one folder with *)
(* two files on one node; fixes, scans and restores with their timing.     *)
(* Property C14.  (Structure of the file system: FileSystem.tla, C15.)     *)
(*                                                                         *)
(*  software  swA (true) / swV (visible)  in SwHealth                      *)
(*  files     fH[i] (true) / fV[i] (visible) in ItemHealth, i = 1, 2       *)
(*  folder    foV (visible); the statement does not constrain the folder's *)
(*            true health, so it is not modelled                           *)
(*                                                                         *)
(* Timed operations and their clocks (-1 = not in progress, otherwise the  *)
(* number of ticks that reached the node WHILE IT WAS ON since the         *)
(* request): fixAge (software is FIXING), scanAge (folder scan), restAge   *)
(* (folder restore), osAge (whole-node scan).  fixDur, scanDur, restDur,   *)
(* nodeDur are configuration variables (never change).                     *)
(*                                                                         *)
(* A tick is not atomic: TickBegin, then any of the completion phases      *)
(* OsScanDone / FixDone / InstallDone / FoScanDone / RestoreDone in ANY    *)
(* order (the statement does not order them; "true health at that moment"  *)
(* = at the moment of the phase), then TickEnd, which advances the clocks  *)
(* and is impossible while an operation is overdue.                        *)
(*                                                                         *)
(* Timing (DESIGN.md 5.2).  Folder scan, folder restore, node scan with    *)
(* duration d complete on tick d or d+1 (d >= 1), inside the request or on *)
(* tick 1 (d = 0).  Software fix is pinned by the statement ("exactly"):   *)
(* tick d, tick 1 for d = 0 (FixAt).                                       *)
(*                                                                         *)
(* Actions take the logged post-values as parameters wherever the          *)
(* statement leaves latitude; `act' names the last action.                 *)
(***************************************************************************)
EXTENDS Integers, Sequences, FiniteSets

VARIABLES
    fixDur, scanDur, restDur, nodeDur,   \* configuration
    on,                                  \* the node is ON
    swA, swV, fixAge, installing,        \* software
    fH, fV, foV, scanAge, restAge,       \* folder and its two files
    osAge,                               \* whole-node scan
    inTick,                              \* between TickBegin and TickEnd
    act                                  \* name of the last action

cfgv == <<fixDur, scanDur, restDur, nodeDur>>
swv  == <<swA, swV, fixAge, installing>>
fsv  == <<fH, fV, foV, scanAge, restAge>>
hvars == <<cfgv, on, swv, fsv, osAge, inTick, act>>

SwHealth   == {"UNUSED", "GOOD", "FIXING", "COMPROMISED", "OVERWHELMED"}
ItemHealth == {"NONE", "GOOD", "COMPROMISED", "CORRUPT", "RESTORING", "REPAIRING"}
Files == {1, 2}

\* --- timing ---------------------------------------------------------------
Window(d) == IF d = 0 THEN {0, 1} ELSE {d, d + 1}   \* ticks on which a d-tick operation may complete
WinMax(d) == d + 1
FixAt(d)  == IF d = 0 THEN 1 ELSE d                 \* the tick on which a fix completes: exactly
Pending(age) == age # -1
\* the tick now being executed is tick age+1 of the operation
MayCompleteNow(age, d) == Pending(age) /\ (age + 1) \in Window(d)
Overdue(age, d) == Pending(age) /\ age + 1 >= WinMax(d)      \* this tick is the last chance
Restart(age, rs) == IF age = -1 \/ rs THEN 0 ELSE age        \* a request while one is in progress: merged or restarted

\* --- what a scan / restore does -----------------------------------------------
\* cov = the files the scan covers (the live ones); a covered file shows its true health afterwards
Covers(cov, fv2) ==
    /\ \A i \in cov : fv2[i] = fH[i]
    /\ \A i \in Files \ cov : fv2[i] \in {fV[i], fH[i]}
Restored(cov, fh2) ==
    \A i \in Files : /\ fh2[i] \in {fH[i], "GOOD"}
                     /\ (i \in cov /\ fH[i] \in {"CORRUPT", "RESTORING"}) => fh2[i] = "GOOD"

\* --- explicit events: the true health they may leave -------------------------
SwAfter(kind) ==
    CASE kind = "SwCompromise" -> {swA, "COMPROMISED"}
      [] kind = "SwFix"        -> {swA, "FIXING"}
      [] kind \in {"SwStart", "PowerOn"} -> {swA} \cup (IF swA = "UNUSED" THEN {"GOOD"} ELSE {})
      [] kind = "SwConnect"    -> {swA, "OVERWHELMED"} \cup (IF swA = "OVERWHELMED" THEN {"GOOD"} ELSE {})
      [] kind \in {"FixDone", "InstallDone"} -> {"GOOD"}
      [] OTHER -> {swA}
ItemAfter(kind, h) ==
    CASE kind \in {"FileCorrupt", "FolderCorrupt", "SqlEncrypt"} -> {h, "CORRUPT"}
      [] kind = "SqlDelete" -> {h, "COMPROMISED"}
      [] kind \in {"FileRepair", "FileRestore", "FolderRepair", "RestoreDone", "FixDone"} -> {h, "GOOD"}
      [] kind = "FolderRestoreReq" -> {h, "RESTORING", "GOOD"}
      [] OTHER -> {h}

\* (inst: the item is followed from the middle of its installation - an application installed during the run)
HealthInitI(fd, sd, rd, nd, a0, v0, fh0, fv0, fov0, inst) ==
    /\ fixDur = fd /\ scanDur = sd /\ restDur = rd /\ nodeDur = nd
    /\ on = TRUE
    /\ swA = a0 /\ swV = v0 /\ fixAge = -1 /\ installing = inst
    /\ fH = fh0 /\ fV = fv0 /\ foV = fov0 /\ scanAge = -1 /\ restAge = -1
    /\ osAge = -1 /\ inTick = FALSE /\ act = "Init"
HealthInit(fd, sd, rd, nd, a0, v0, fh0, fv0, fov0) == HealthInitI(fd, sd, rd, nd, a0, v0, fh0, fv0, fov0, FALSE)

\* a change of the software's true health ends / starts the fix clock
FixClock(a2, isFix) == IF a2 # "FIXING" THEN -1 ELSE IF isFix THEN 0 ELSE fixAge

-----------------------------------------------------------------------------
(* requests on the software *)
SwEvent(kind, a2) ==                       \* compromise (attack), start / run, connection (overwhelm / recover)
    /\ ~inTick /\ a2 \in SwAfter(kind)
    /\ swA' = a2 /\ fixAge' = FixClock(a2, FALSE) /\ act' = kind
    /\ UNCHANGED <<cfgv, on, swV, installing, fsv, osAge, inTick>>
SwCompromise(a2) == SwEvent("SwCompromise", a2)
SwStart(a2)      == SwEvent("SwStart", a2)
SwConnect(a2)    == SwEvent("SwConnect", a2)
SwFix(ok) ==                               \* an accepted fix: FIXING, the clock starts
    /\ ~inTick
    /\ swA' = IF ok THEN "FIXING" ELSE swA
    /\ fixAge' = IF ok THEN 0 ELSE fixAge
    /\ act' = "SwFix"
    /\ UNCHANGED <<cfgv, on, swV, installing, fsv, osAge, inTick>>
SwScan(ok) ==                              \* completes at once: visible = true
    /\ ~inTick
    /\ swV' = IF ok THEN swA ELSE swV
    /\ act' = "SwScan"
    /\ UNCHANGED <<cfgv, on, swA, fixAge, installing, fsv, osAge, inTick>>
SwInstall ==
    /\ ~inTick /\ installing' = TRUE /\ act' = "SwInstall"
    /\ UNCHANGED <<cfgv, on, swA, swV, fixAge, fsv, osAge, inTick>>

(* requests on a file *)
FileScan(i, ok) ==
    /\ ~inTick
    /\ fV' = IF ok THEN [fV EXCEPT ![i] = fH[i]] ELSE fV
    /\ act' = "FileScan"
    /\ UNCHANGED <<cfgv, on, swv, fH, foV, scanAge, restAge, osAge, inTick>>
FileEvent(kind, i, h2) ==                  \* corrupt / repair / restore / SQL DELETE / SQL ENCRYPT
    /\ ~inTick /\ h2 \in ItemAfter(kind, fH[i])
    /\ fH' = [fH EXCEPT ![i] = h2] /\ act' = kind
    /\ UNCHANGED <<cfgv, on, swv, fV, foV, scanAge, restAge, osAge, inTick>>
FileDelete(i) ==                           \* deleting a file is not a health event
    /\ ~inTick /\ act' = "FileDelete"
    /\ UNCHANGED <<cfgv, on, swv, fsv, osAge, inTick>>

(* requests on the folder *)
FolderEvent(kind, fh2) ==                  \* corrupt / repair: reaches every file
    /\ ~inTick /\ \A i \in Files : fh2[i] \in ItemAfter(kind, fH[i])
    /\ fH' = fh2 /\ act' = kind
    /\ UNCHANGED <<cfgv, on, swv, fV, foV, scanAge, restAge, osAge, inTick>>
FolderScanReq(ok, dn, rs, cov, fv2, fov2) ==
    /\ ~inTick /\ act' = "FolderScanReq"
    /\ IF ~ok THEN UNCHANGED <<fV, foV, scanAge>> /\ fv2 = fV /\ fov2 = foV
       ELSE IF dn THEN /\ scanDur = 0 /\ Covers(cov, fv2)          \* "tick 0": only for duration 0
                       /\ fV' = fv2 /\ foV' = fov2 /\ scanAge' = -1
       ELSE /\ fv2 = fV /\ fov2 = foV /\ UNCHANGED <<fV, foV>> /\ scanAge' = Restart(scanAge, rs)
    /\ UNCHANGED <<cfgv, on, swv, fH, restAge, osAge, inTick>>
FolderRestoreReq(ok, dn, rs, cov, fh2) ==
    /\ ~inTick /\ act' = "FolderRestoreReq"
    /\ IF ~ok THEN UNCHANGED <<fH, restAge>> /\ fh2 = fH
       ELSE IF dn THEN restDur = 0 /\ Restored(cov, fh2) /\ fH' = fh2 /\ restAge' = -1
       ELSE /\ \A i \in Files : fh2[i] \in {fH[i], "RESTORING"}
            /\ fH' = fh2 /\ restAge' = Restart(restAge, rs)
    /\ UNCHANGED <<cfgv, on, swv, fV, foV, scanAge, osAge, inTick>>

(* whole-node scan request *)
OsScanReq(ok, dn, rs, cov, fv2, fov2) ==
    /\ ~inTick /\ act' = "OsScanReq"
    /\ IF ~ok THEN UNCHANGED <<swV, fV, foV, osAge>> /\ fv2 = fV /\ fov2 = foV
       ELSE IF dn THEN /\ nodeDur = 0 /\ Covers(cov, fv2)
                       /\ swV' = swA /\ fV' = fv2 /\ foV' = fov2 /\ osAge' = -1
       ELSE /\ fv2 = fV /\ fov2 = foV /\ UNCHANGED <<swV, fV, foV>> /\ osAge' = Restart(osAge, rs)
    /\ UNCHANGED <<cfgv, on, swA, fixAge, installing, fH, scanAge, restAge, inTick>>

(* node power: while the node is not ON ticks do not reach software and files; starting the node  *)
(* starts its software (UNUSED -> GOOD)                                                          *)
PowerOff ==
    /\ on' = FALSE /\ act' = "PowerOff"
    /\ UNCHANGED <<cfgv, swv, fsv, osAge, inTick>>
PowerOn(a2) ==
    /\ a2 \in SwAfter("PowerOn")
    /\ on' = TRUE /\ swA' = a2 /\ fixAge' = FixClock(a2, FALSE) /\ act' = "PowerOn"
    /\ UNCHANGED <<cfgv, swV, installing, fsv, osAge, inTick>>

(* anything else that happens on the node or on the network (other requests, benign traffic, pre-tick   *)
(* housekeeping): it changes no health                                                                *)
Other ==
    /\ act' = "Other"
    /\ UNCHANGED <<cfgv, on, swv, fsv, osAge, inTick>>

-----------------------------------------------------------------------------
(* one tick *)
TickBegin ==
    /\ ~inTick /\ inTick' = TRUE /\ act' = "TickBegin"
    /\ UNCHANGED <<cfgv, on, swv, fsv, osAge>>
OsScanDone(cov, fv2, fov2) ==              \* everything on the node is scanned
    /\ inTick /\ on /\ MayCompleteNow(osAge, nodeDur)
    /\ Covers(cov, fv2)
    /\ swV' = swA /\ fV' = fv2 /\ foV' = fov2 /\ osAge' = -1 /\ act' = "OsScanDone"
    /\ UNCHANGED <<cfgv, on, swA, fixAge, installing, fH, scanAge, restAge, inTick>>
FoScanDone(cov, fv2, fov2) ==              \* every file of the folder shows its true health; folder visible is set
    /\ inTick /\ on /\ MayCompleteNow(scanAge, scanDur)
    /\ Covers(cov, fv2)
    /\ fV' = fv2 /\ foV' = fov2 /\ scanAge' = -1 /\ act' = "FoScanDone"
    /\ UNCHANGED <<cfgv, on, swv, fH, restAge, osAge, inTick>>
FixDone(fh2) ==                            \* exactly on tick FixAt(fixDur); a fix may also repair the software's files
    /\ inTick /\ on /\ swA = "FIXING" /\ fixAge + 1 = FixAt(fixDur)
    /\ \A i \in Files : fh2[i] \in ItemAfter("FixDone", fH[i])
    /\ swA' = "GOOD" /\ fixAge' = -1 /\ fH' = fh2 /\ act' = "FixDone"
    /\ UNCHANGED <<cfgv, on, swV, installing, fV, foV, scanAge, restAge, osAge, inTick>>
InstallDone ==
    /\ inTick /\ on /\ installing
    /\ swA' = "GOOD" /\ fixAge' = -1 /\ installing' = FALSE /\ act' = "InstallDone"
    /\ UNCHANGED <<cfgv, on, swV, fsv, osAge, inTick>>
RestoreDone(cov, fh2) ==
    /\ inTick /\ on /\ MayCompleteNow(restAge, restDur)
    /\ Restored(cov, fh2)
    /\ fH' = fh2 /\ restAge' = -1 /\ act' = "RestoreDone"
    /\ UNCHANGED <<cfgv, on, swv, fV, foV, scanAge, osAge, inTick>>

\* nothing may be overdue when the tick ends (it must complete while the node is ON)
NothingOverdue ==
    on => /\ ~(swA = "FIXING" /\ fixAge + 1 >= FixAt(fixDur))
          /\ ~Overdue(scanAge, scanDur) /\ ~Overdue(restAge, restDur) /\ ~Overdue(osAge, nodeDur)
Aged(age) == IF on /\ Pending(age) THEN age + 1 ELSE age
TickEnd ==
    /\ inTick /\ NothingOverdue
    /\ inTick' = FALSE /\ act' = "TickEnd"
    /\ fixAge' = IF swA = "FIXING" THEN Aged(fixAge) ELSE -1
    /\ scanAge' = Aged(scanAge) /\ restAge' = Aged(restAge) /\ osAge' = Aged(osAge)
    /\ UNCHANGED <<cfgv, on, swA, swV, installing, fH, fV, foV>>

-----------------------------------------------------------------------------
(* The clauses of C14 *)
SwScanActs     == {"SwScan", "OsScanDone", "OsScanReq"}
FileScanActs   == {"FileScan", "FoScanDone", "FolderScanReq", "OsScanDone", "OsScanReq"}
FolderScanActs == {"FoScanDone", "FolderScanReq", "OsScanDone", "OsScanReq"}
SwExplicit     == {"SwCompromise", "SwFix", "SwStart", "PowerOn", "SwConnect", "FixDone", "InstallDone"}
FileExplicit   == {"FileCorrupt", "FileRepair", "FileRestore", "FolderCorrupt", "FolderRepair", "SqlDelete",
                   "SqlEncrypt", "FolderRestoreReq", "RestoreDone", "FixDone"}

\* visible health changes only at the completion of a scan covering the item, and then equals the true health
SwVisibleOnlyByScan   == [][swV' # swV => (act' \in SwScanActs /\ swV' = swA)]_hvars
FileVisibleOnlyByScan == [][\A i \in Files : fV'[i] # fV[i] => (act' \in FileScanActs /\ fV'[i] = fH[i])]_hvars
FolderVisibleOnlyByScan == [][foV' # foV => act' \in FolderScanActs]_hvars
\* true health changes only inside an explicit event (or its timed completion), to that event's value
SwActualOnlyByEvent   == [][swA' # swA => (act' \in SwExplicit /\ swA' \in SwAfter(act'))]_hvars
FileHealthOnlyByEvent == [][\A i \in Files : fH'[i] # fH[i] => (act' \in FileExplicit /\ fH'[i] \in ItemAfter(act', fH[i]))]_hvars
\* a scan does not alter the truth it reports
ScanLeavesTruth == [][act' \in (SwScanActs \cup FileScanActs) => (swA' = swA /\ fH' = fH)]_hvars
\* timing
FixExactly      == [][act' = "FixDone" => (swA = "FIXING" /\ fixAge + 1 = FixAt(fixDur) /\ swA' = "GOOD")]_hvars
ScanInWindow    == [][act' = "FoScanDone" => (scanAge + 1) \in Window(scanDur)]_hvars
RestoreInWindow == [][act' = "RestoreDone" => (restAge + 1) \in Window(restDur)]_hvars
OsScanInWindow  == [][act' = "OsScanDone" => (osAge + 1) \in Window(nodeDur)]_hvars
InstantOnlyAtZero ==
    [][ /\ (act' = "FolderScanReq" /\ (fV' # fV \/ foV' # foV)) => scanDur = 0
        /\ (act' = "OsScanReq" /\ (swV' # swV \/ fV' # fV \/ foV' # foV)) => nodeDur = 0 ]_hvars
\* ticks that do not reach the node (it is not ON) change nothing
OffTicksChangeNothing ==
    [][(act' \in {"TickEnd", "OsScanDone", "FoScanDone", "FixDone", "RestoreDone", "InstallDone"} /\ ~on)
            => UNCHANGED <<swv, fsv, osAge>>]_hvars
\* no operation is ever overdue between ticks (it had to complete on its last tick)
InvNeverOverdue ==
    ~inTick => /\ (swA = "FIXING" => fixAge < FixAt(fixDur))
               /\ scanAge < WinMax(scanDur) /\ restAge < WinMax(restDur) /\ osAge < WinMax(nodeDur)
InvFixClock == (swA = "FIXING") <=> (fixAge # -1)
InvTypes ==
    /\ swA \in SwHealth /\ swV \in SwHealth
    /\ \A i \in Files : fH[i] \in ItemHealth /\ fV[i] \in ItemHealth
    /\ foV \in ItemHealth
=============================================================================
