SPECIFICATION Spec
CONSTANTS
  MaxDur = 2
  Layouts = {1, 2, 3}
INVARIANT TypeOK
INVARIANT InvRegistriesAgree
INVARIANT InvPorts
INVARIANT InvNothingRunsWhenOff
INVARIANT InvTimers
PROPERTY OnlyDocumentedTransitions
PROPERTY TimedNotEarly
PROPERTY TimedNotLate
CHECK_DEADLOCK FALSE
