SPECIFICATION Spec
CONSTANTS
  MaxDur = 2
INVARIANT TypeOK
INVARIANT InvRegistriesAgree
INVARIANT InvPorts
INVARIANT InvNothingRunsWhenOff
INVARIANT InvTimers
PROPERTY OnlyDocumentedTransitions
PROPERTY TimedNotEarly
PROPERTY TimedNotLate
PROPERTY Completes
CHECK_DEADLOCK FALSE
