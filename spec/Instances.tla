----------------------------- MODULE Instances -----------------------------
(***************************************************************************)
(* Several environment instances living in one process.  Property C04.     *)
(*                                                                         *)
(* Every instance is constructed with its own scenario options `opt'.      *)
(* Options that the running simulation consults (NMNE capture settings,    *)
(* observation switches, channel capacities, ...) are kept in *cells*.     *)
(* In the intended design every instance has its own cells; in the variant *)
(* "class_level" a cell is shared by the whole process and is overwritten  *)
(* by whichever instance was constructed / reset last.                     *)
(* The view of an instance = what its next step will read.                 *)
(***************************************************************************)
EXTENDS Naturals, FiniteSets

CONSTANTS Inst, Opts, Variant

VARIABLES alive, opt, ep, cell, glob
ivars == <<alive, opt, ep, cell, glob>>

InstInit ==
    /\ alive = [i \in Inst |-> FALSE]
    /\ opt = [i \in Inst |-> CHOOSE o \in Opts : TRUE]
    /\ ep = [i \in Inst |-> 0]
    /\ cell = [i \in Inst |-> CHOOSE o \in Opts : TRUE]
    /\ glob = CHOOSE o \in Opts : TRUE

\* build the game of instance i from its options (construction and every reset do this)
Build(i, o) ==
    /\ cell' = [cell EXCEPT ![i] = o]
    /\ glob' = o

Construct(i, o) ==
    /\ ~alive[i]
    /\ alive' = [alive EXCEPT ![i] = TRUE]
    /\ opt' = [opt EXCEPT ![i] = o]
    /\ ep' = [ep EXCEPT ![i] = 0]
    /\ Build(i, o)

Reset(i) ==
    /\ alive[i]
    /\ ep' = [ep EXCEPT ![i] = @ + 1]
    /\ Build(i, opt[i])
    /\ UNCHANGED <<alive, opt>>

\* what a step of instance i reads
View(i) == IF Variant = "design" THEN cell[i] ELSE glob

Step(i) ==
    /\ alive[i]
    /\ UNCHANGED ivars

Close(i) ==
    /\ alive[i]
    /\ alive' = [alive EXCEPT ![i] = FALSE]
    /\ UNCHANGED <<opt, ep, cell, glob>>

\* an instance behaves according to its own options whatever the others do
NonInterference == \A i \in Inst : alive[i] => View(i) = opt[i]
=============================================================================
