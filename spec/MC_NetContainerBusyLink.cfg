SPECIFICATION Spec
CONSTANTS
  MaxLinks = 3
  Inits = {"built"}
  Detachable = {"a2"}
  PowerNodes = {"a", "s"}
  Variant = "busy_link"
INVARIANT TypeOK
INVARIANT InvNodeRegistered
INVARIANT InvNoDanglingLinkRef
INVARIANT InvLinkJoinsTwoNodes
INVARIANT InvLinkEndsInNetwork
INVARIANT InvGraphEdgesFollowLinks
INVARIANT InvEnabledOnlyIfOnAndLinked
INVARIANT InvLinkUpIffBothEnabled
INVARIANT InvDescribeListsExactly
INVARIANT InvTypedListsExact
INVARIANT InvNicTable
PROPERTY AddTwiceChangesNothing
PROPERTY RefusedConnectOnlyAutoAdds
PROPERTY RemovedIsGoneEverywhere
PROPERTY ObservationsChangeNothing
PROPERTY ConfigNeverChanges
VIEW View
CHECK_DEADLOCK FALSE
