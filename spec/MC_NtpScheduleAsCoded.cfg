SPECIFICATION Spec
CONSTANTS
  Comps = {"ntp"}
  MaxClock = 2
  MaxCalls = 4
  MaxK = 6
  AsCoded = TRUE
  Shallow = FALSE
PROPERTY PServerAnswersOnlyRequests
CHECK_DEADLOCK FALSE
