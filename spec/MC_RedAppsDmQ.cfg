SPECIFICATION Spec
CONSTANTS
  PScan = {0, 100}
  PAtk = {0, 50, 100}
  PDos = {100}
  DosMaxs = {2}
  DosInts = {100}
  Payloads = {"ENCRYPT"}
  Clients = {TRUE, FALSE}
  Tgts = {TRUE}
  Repeats = {TRUE, FALSE}
  Present = {"dm", "rw", "dbc"}
  MaxStim = 99
  AsCoded = "no"
INVARIANT TypeOK
INVARIANT NothingUnlessEnabled
INVARIANT NoTerminalAtRestWhenRepeating
INVARIANT DosWithinBound
INVARIANT NothingRunsWhenOff
PROPERTY StageOrder
PROPERTY Gates
PROPERTY OnlyLoopsChangeStages
PROPERTY DbOnlyBySuccess
PROPERTY DeliveryNeedsClient
PROPERTY RepeatFollowsSetting
VIEW View
CHECK_DEADLOCK FALSE
