SPECIFICATION Spec
CONSTANTS
  N = 3
  AllNord = FALSE
  OwnNeg = 0
  OwnPos = 1
  MaxSteps = 6
  AcyclicOnly = TRUE
  Variant = "design"
INVARIANT SameStepShared
INVARIANT TotalIsSum
CHECK_DEADLOCK FALSE
