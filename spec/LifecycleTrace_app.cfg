SPECIFICATION TraceSpec
CONSTANTS
  Facet = "app"
  PowDur = 2
  FixDur = 2
  RestDur = 2
  InstDur = 2
CONSTRAINT Record
POSTCONDITION Report
CHECK_DEADLOCK FALSE
