---------------------------- MODULE MC_SessionIO ----------------------------
(* Exhaustive model of SessionIO: two environments in one process, every option profile for each, every     *)
(* interleaving of construct / step / reset / close and of the three writers (a budget of MaxWrites writer   *)
(* calls, MaxEp resets and MaxLen steps per episode).  A step record is <<instance, episode, step>>: a file   *)
(* that held anything from another episode or another environment would differ from the episode.             *)
EXTENDS SessionIO
CONSTANTS MaxEp, MaxLen, MaxWrites, LevelsUsed, ShapesUsed, ProfilesUsed, First, Refill

VARIABLES budget, act
mvars == <<iovars, budget, act>>

P(acts, mt, pc, sy, ag, sl, al, st, at) ==
    [acts |-> acts, meta |-> mt, pcap |-> pc, sys |-> sy, agt |-> ag, sysLvl |-> sl, agtLvl |-> al, sysTerm |-> st, agtTerm |-> at]
Profile(p) ==
    CASE p = "on"    -> P(TRUE, TRUE, TRUE, TRUE, TRUE, 2, 1, FALSE, FALSE)
      [] p = "off"   -> P(FALSE, FALSE, FALSE, FALSE, FALSE, 3, 2, FALSE, FALSE)
      [] p = "files" -> P(TRUE, TRUE, FALSE, FALSE, FALSE, 3, 3, TRUE, FALSE)
      [] p = "logs"  -> P(FALSE, FALSE, TRUE, TRUE, TRUE, 3, 2, FALSE, TRUE)
      [] p = "warn"  -> P(TRUE, FALSE, FALSE, TRUE, TRUE, 4, 4, TRUE, TRUE)
      [] p = "debug" -> P(FALSE, TRUE, TRUE, TRUE, FALSE, 1, 1, FALSE, FALSE)
Profiles == {"on", "off", "files", "logs", "warn", "debug"}
ASSUME ProfilesUsed \subseteq Profiles

\* the profile names are kept in the state so that a behaviour says which configuration it ran
VARIABLE prof
allvars == <<mvars, prof>>

Init ==
    /\ prof \in [Inst -> ProfilesUsed]
    /\ IOInit([i \in Inst |-> Profile(prof[i])])
    /\ budget = MaxWrites
    /\ act = "Init"

\* (Refill: only in the configuration used for -simulate, so that writer calls are spread over a behaviour)
Keep == budget' = (IF Refill /\ budget < MaxWrites THEN budget + 1 ELSE budget) /\ UNCHANGED prof
Spend == budget > 0 /\ budget' = budget - 1 /\ UNCHANGED prof

\* (symmetry: the environment named First is constructed first)
MConstruct(i) == (i = First \/ alive[First] # "none") /\ Construct(i) /\ Keep /\ act' = "MConstruct"
MStep(i) == Len(hist[i]) < MaxLen /\ Step(i, <<i, ep[i], Len(hist[i])>>) /\ Keep /\ act' = "MStep"
MReset(i) == ep[i] < MaxEp /\ Reset(i) /\ Keep /\ act' = "MReset"
MClose(i) == Close(i) /\ Keep /\ act' = "MClose"
MSysWrite(i, lvl, shape) == alive[i] = "open" /\ SysWrite(i, lvl, 1, IF shape = "json" THEN 1 ELSE 0) /\ Spend /\ act' = "MSysWrite"
MPcapWrite(i, dir) == alive[i] = "open" /\ PcapWrite(i, dir, 1) /\ Spend /\ act' = "MPcapWrite"
MAgentWrite(i, lvl) == alive[i] = "open" /\ AgentWrite(i, lvl, 1) /\ Spend /\ act' = "MAgentWrite"

Next ==
    \/ \E i \in Inst : MConstruct(i) \/ MStep(i) \/ MReset(i) \/ MClose(i)
    \/ \E i \in Inst, l \in LevelsUsed, s \in ShapesUsed : MSysWrite(i, l, s)
    \/ \E i \in Inst, d \in Dirs : MPcapWrite(i, d)
    \/ \E i \in Inst, l \in LevelsUsed : MAgentWrite(i, l)

Spec == Init /\ [][Next]_allvars
View == <<iovars, budget, prof>>
=============================================================================
