SPECIFICATION Spec
CONSTANTS
  MaxStim = 14
  MaxSess = 4
  Asym = TRUE
  ShadowAsCoded = FALSE
  Peers = {1}
  Tomes = {TRUE}
  Full = TRUE
  ReplyAsCoded = FALSE
INVARIANT OwnerIsInstalledClaimant
INVARIANT EveryClaimedPairOwned
INVARIANT ConnsWithinMax
INVARIANT DeliveredOnlyToRunning
INVARIANT ServedWhenOpen
INVARIANT ReplyOnSameSession
INVARIANT NothingRunsWhenOff
PROPERTY SessionsGrowByConversation
VIEW View
CHECK_DEADLOCK FALSE
