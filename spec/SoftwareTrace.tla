--------------------------- MODULE SoftwareTrace ---------------------------
(* Trace validation of recorded software lifecycle histories of one real   *)
(* node against Software.tla (batch idiom, DESIGN.md 4.4).                 *)
(*                                                                         *)
(* trace: cfg = [svcs, apps (sequences of names), portsOf (record name ->  *)
(*               sequence of ports), rd, id, on, op (record name -> state)]*)
(* event: [ev |-> "Observe"|"Req"|"Install"|"Uninstall"|"Power"|"Tick"|    *)
(*                "Payload"|"Raised",                                      *)
(*         n, verb, ok, port, handled,                  (stimulus, result) *)
(*         on, op, installed, nodeList, routes, reported, ports]           *)
(* the last seven are read from the real objects after the call returned   *)
(* (all software of the node; sequences keep duplicates).                  *)
EXTENDS Software, TLC, TLCExt, Json, IOUtils

Traces == JsonDeserialize(IOEnv.TRACE_FILE)

VARIABLES tid, l
tvars == <<svcs, apps, portsOf, restartDur, installDur, nodeOn, op, age, tot,
           installed, nodeList, routes, reported, ports, tid, l>>

T == Traces[tid].ev
Cfg == Traces[tid].cfg
SetOf(s) == {s[i] : i \in 1..Len(s)}
NoDup(s) == Cardinality(SetOf(s)) = Len(s)

IsReq(e) == e.ev = "Req"
IsInst(e) == e.ev \in {"Install", "Uninstall"}
Addressed(e) == e.ev \in {"Req", "Install", "Uninstall"}

ExpOn(e) ==
    IF e.ev = "Power" /\ PowerAccepted(e.verb) THEN e.verb = "startup" ELSE nodeOn

\* is the request of event e one that the documentation accepts in the current state?
Acc(e) ==
    CASE e.ev = "Req"       -> Accepted(e.n, e.verb)
      [] e.ev = "Install"   -> nodeOn /\ op[e.n] = Absent
      [] e.ev = "Uninstall" -> nodeOn /\ op[e.n] # Absent
      [] e.ev = "Power"     -> PowerAccepted(e.verb)
      [] OTHER -> TRUE
\* ... and one whose refusal the documentation demands
MustRefuse(e) ==
    CASE e.ev = "Req"       -> ~Accepted(e.n, e.verb)
      [] e.ev \in {"Install", "Uninstall"} -> ~nodeOn
      [] e.ev = "Power"     -> ~PowerAccepted(e.verb)
      [] OTHER -> FALSE
MustSucceed(e) ==
    CASE e.ev = "Req" -> Accepted(e.n, e.verb) /\ e.verb \notin OutcomeFree
      [] e.ev \in {"Install", "Uninstall", "Power"} -> Acc(e)
      [] OTHER -> FALSE
\* requests that, in the current state, must leave every operating state as it is
NoEffect(e) == (Addressed(e) /\ ~Acc(e)) \/ (e.ev = "Power" /\ ~Acc(e)) \/ (e.ev \in {"Observe", "Payload"})

TargetSet(e) ==
    CASE e.ev = "Req"       -> Targets(e.n, e.verb)
      [] e.ev = "Install"   -> InstallTargets
      [] e.ev = "Uninstall" -> {Absent}

Clauses(e) ==
    [ NoException            |-> e.ev # "Raised",
      AcceptedWhereDocumented |-> MustSucceed(e) => e.ok,
      RefusedElsewhere       |-> MustRefuse(e) => ~e.ok,
      RefusalChangesNothing  |-> NoEffect(e) => e.op = op,
      TargetAsDocumented     |-> (Addressed(e) /\ Acc(e)) => e.op[e.n] \in TargetSet(e),
      OthersUntouched        |-> (Addressed(e) /\ Acc(e)) => OthersUntouched(e.n, e.op),
      NoSpontaneousChange    |-> e.ev = "Tick" => \A n \in Names : (~(nodeOn /\ InProg(n, op))) => e.op[n] = op[n],
      TimedNotEarly          |-> e.ev = "Tick" => \A n \in Names :
                                     (nodeOn /\ InProg(n, op) /\ e.op[n] # op[n]) => (e.op[n] = "RUNNING" /\ tot[n] + 1 >= Dur(n)),
      TimedNotLate           |-> e.ev = "Tick" => \A n \in Names :
                                     (nodeOn /\ InProg(n, op) /\ e.op[n] = op[n]) => age[n] < Dur(n),
      PowerAsSpecified       |-> (e.ev = "Power" /\ Acc(e)) => \A n \in Names :
                                     e.op[n] \in (IF e.verb = "startup" THEN OnTargets(n) ELSE OffTargets(n)),
      NodeStateAsSpecified   |-> e.on = ExpOn(e),
      NothingRunsWhenOff     |-> NothingRunsWhenOff(e.on, e.op),
      NotRunningNeverHandles |-> e.ev = "Payload" => NotRunningNeverHandles(SetOf(e.handled)),
      RunningHandles         |-> e.ev = "Payload" => RunningHandles(e.port, SetOf(e.handled)),
      RegistriesAgree        |-> RegistriesAgree(e.op, SetOf(e.installed), SetOf(e.nodeList), SetOf(e.routes), SetOf(e.reported)),
      NoDuplicateInstances   |-> NoDup(e.installed) /\ NoDup(e.nodeList) /\ NoDup(e.routes) /\ NoDup(e.reported),
      NoPortOpenUnlessRunning |-> NoPortOpenUnlessRunning(e.op, SetOf(e.ports)),
      RunningKeepsPortOpen   |-> RunningKeepsPortOpen(e.op, SetOf(e.ports))
    ]
Failing(e) == {c \in DOMAIN Clauses(e) : ~Clauses(e)[c]}

Step(e) ==
    CASE e.ev = "Observe"   -> UNCHANGED <<svcs, apps, portsOf, restartDur, installDur, nodeOn, op, age, tot,
                                           installed, nodeList, routes, reported, ports>>
      [] e.ev = "Req"       -> Req(e.n, e.verb, e.ok, e.op)
      [] e.ev = "Install"   -> Install(e.n, e.ok, e.op)
      [] e.ev = "Uninstall" -> Uninstall(e.n, e.ok, e.op)
      [] e.ev = "Power"     -> Power(e.verb, e.ok, e.op)
      [] e.ev = "Tick"      -> Tick(e.op)
      [] e.ev = "Payload"   -> Payload(e.port, SetOf(e.handled))
      [] OTHER -> FALSE

TraceInit ==
    /\ tid \in 1..Len(Traces)
    /\ l = 1
    /\ SoftwareInit(SetOf(Cfg.svcs), SetOf(Cfg.apps),
                    [n \in SetOf(Cfg.svcs) \cup SetOf(Cfg.apps) |-> SetOf(Cfg.portsOf[n])],
                    Cfg.rd, Cfg.id, Cfg.on,
                    [n \in SetOf(Cfg.svcs) \cup SetOf(Cfg.apps) |-> Cfg.op[n]])

TraceNext ==
    /\ l <= Len(T)
    /\ Failing(T[l]) = {}
    /\ Step(T[l])
    /\ l' = l + 1
    /\ UNCHANGED tid

TraceSpec == TraceInit /\ [][TraceNext]_tvars

Seen == TLCGet(tid)
Record ==
    IF l > Seen.pos
    THEN TLCSet(tid, [pos |-> l,
                      fail |-> IF l <= Len(T) THEN Failing(T[l]) ELSE {},
                      st |-> [on |-> nodeOn, op |-> [n \in DOMAIN op |-> op[n]], age |-> age, tot |-> tot,
                              rd |-> restartDur, id |-> installDur, ports |-> ports, installed |-> installed]])
    ELSE TRUE
InitRegs == \A i \in 1..Len(Traces) : TLCSet(i, [pos |-> 0, fail |-> {}, st |-> <<>>])
ASSUME InitRegs

Report ==
    \A i \in 1..Len(Traces) :
        LET r == TLCGet(i) IN
        /\ PrintT(<<"TRACE", i, r.pos, Len(Traces[i].ev)>>)
        /\ (r.pos = Len(Traces[i].ev) + 1 \/ PrintT(<<"STUCK", i, r.pos, r.fail, r.st>>))
=============================================================================
