----------------------------- MODULE MC_Routes -----------------------------
(* Bounded-exhaustive domain of Routes: every table of <= MaxRoutes routes *)
(* (as a SEQUENCE: order matters to an implementation that scans) over a   *)
(* covering set of prefixes x metrics x next hops, with and without a      *)
(* default route, against every destination of a covering set.  TLC checks *)
(* sanity lemmas of the declarative BestRoutes; the main purpose of the    *)
(* run is to ENUMERATE the domain: harness/c08.py mirrors the enumeration, *)
(* cross-checks its size against TLC's count of initial states and replays *)
(* every (table, default, dst) on the real RouteTable.                     *)
EXTENDS Routes, TLC

CONSTANTS MaxRoutes

\* a nested chain 0/0 > 128/2 > 160/4 > 164/6 > 165/8, a sibling 176/4, and
\* 167/4: the block 160/4 written with host bits set (non-canonical network address)
Prefixes == { <<0, 0>>, <<128, 2>>, <<160, 4>>, <<164, 6>>, <<165, 8>>, <<176, 4>>, <<167, 4>> }
Metrics  == {0, 1}
Hops     == {1, 2}
Defaults == {NoHop, 2}
\* 165: in every nested block; 164: all but the host route; 161: /4 and shorter; 177: sibling /4;
\* 130: only /2 and /0; 70: only /0
Dsts     == {165, 164, 161, 177, 130, 70}

RouteDom == {[net |-> p[1], plen |-> p[2], hop |-> h, metric |-> m] : p \in Prefixes, h \in Hops, m \in Metrics}

VARIABLES table, dflt, dst, choice
rvars == <<table, dflt, dst, choice>>

NoDst == 999
Unset == 99
None  == 98     \* the look-up answers "no route"

Init ==
    /\ table = <<>>
    /\ dflt \in Defaults
    /\ dst = NoDst
    /\ choice = Unset

\* build the table route by route (every sequence of <= MaxRoutes routes is reached exactly once)
AddRoute(r) ==
    /\ dst = NoDst
    /\ Len(table) < MaxRoutes
    /\ table' = Append(table, r)
    /\ UNCHANGED <<dflt, dst, choice>>

\* fix the destination that is looked up
Pick(d) ==
    /\ dst = NoDst
    /\ dst' = d
    /\ UNCHANGED <<table, dflt, choice>>

\* the look-up: any of the best choices, or None
Lookup ==
    /\ dst # NoDst
    /\ choice = Unset
    /\ choice' \in (IF BestRoutes(table, dflt, dst) = {} THEN {None} ELSE BestRoutes(table, dflt, dst))
    /\ UNCHANGED <<table, dflt, dst>>

Next == (\E r \in RouteDom : AddRoute(r)) \/ (\E d \in Dsts : Pick(d)) \/ Lookup
Spec == Init /\ [][Next]_rvars

-----------------------------------------------------------------------------
Picked == dst # NoDst
B == BestRoutes(table, dflt, dst)
M == MatchIdx(table, dst)

\* every chosen table route matches the destination
BestMatches == Picked => (\A c \in B : c # Default => Matches(table[c], dst))
\* no matching route has a longer prefix than a chosen one
NoLongerPrefix == Picked => (\A c \in B : c # Default => \A j \in M : table[j].plen <= table[c].plen)
\* no matching route of the same prefix length has a lower metric
NoLowerMetric == Picked => (\A c \in B : c # Default =>
                     \A j \in M : table[j].plen = table[c].plen => table[j].metric >= table[c].metric)
\* the default route is chosen exactly when there is one and no table route matches
DefaultLastResort == Picked => ((Default \in B) <=> (M = {} /\ dflt # NoHop))
DefaultAlone == Picked => (Default \in B => B = {Default})
\* nothing is chosen exactly when nothing matches and there is no default route
NoneIffNothing == Picked => ((B = {}) <=> (M = {} /\ dflt = NoHop))
\* all best routes are tied on (prefix length, metric)
BestAreTied == Picked => (\A c, d \in B : (c # Default /\ d # Default) =>
                   (table[c].plen = table[d].plen /\ table[c].metric = table[d].metric))
\* a scan in table order (first best wins) returns one of the declarative best routes
ScanAgrees == Picked => (IF M = {} THEN ScanBest(table, dst) = 0 ELSE ScanBest(table, dst) \in BestIdx(table, dst))
\* ChoiceOK accepts exactly the members of BestRoutes
ChoiceOKExact == Picked =>
    (/\ \A c \in 1..Len(table) : ChoiceOK(table, dflt, dst, c, FALSE) <=> c \in BestIdx(table, dst)
     /\ ChoiceOK(table, dflt, dst, 0, TRUE) <=> (Default \in B)
     /\ ChoiceOK(table, dflt, dst, 0, FALSE) <=> (B = {}))
\* prefix arithmetic: the blocks nest as intended
ASSUME /\ InNet(165, 164, 6) /\ InNet(167, 164, 6) /\ ~InNet(168, 164, 6)
       /\ InNet(175, 160, 4) /\ InNet(160, 167, 4) /\ ~InNet(176, 167, 4)
       /\ InNet(191, 128, 2) /\ ~InNet(192, 128, 2) /\ InNet(255, 0, 0)
       /\ InNet(165, 165, 8) /\ ~InNet(164, 165, 8)
=============================================================================
