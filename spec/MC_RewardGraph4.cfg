SPECIFICATION Spec
CONSTANTS
  N = 4
  AllNord = FALSE
  OwnNeg = 0
  OwnPos = 1
  MaxSteps = 2
  AcyclicOnly = FALSE
  Variant = "design"
INVARIANT MC_LoadIffAcyclic
INVARIANT MC_OrderDepsFirst
INVARIANT SameStepShared
INVARIANT CurIsSolution
INVARIANT TotalIsSum
INVARIANT MC_OrderIsEvalOrder
INVARIANT MC_TCAgrees
PROPERTY ConfigFrozen
VIEW MCView
CHECK_DEADLOCK FALSE
