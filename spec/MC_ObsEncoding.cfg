SPECIFICATION Spec
INVARIANT TypeOK
INVARIANT EncodeInSpace
INVARIANT EncodeAdmissible
CHECK_DEADLOCK FALSE
VIEW GenView
