---------------------------- MODULE MC_Blocking ----------------------------
(* Every configuration of a small family (3 topologies, zone placements,   *)
(* one fault at a time, 9 rule-list shapes on each ACL of the path, both   *)
(* implicit actions) x every packet of the domain, walked to the end.      *)
EXTENDS Blocking, TLC

R(act, src, dst, proto, dport) == [act |-> act, src |-> src, dst |-> dst, proto |-> proto, dport |-> dport]
L(rules, imp) == [rules |-> rules, implicit |-> imp]
Shapes == {
    L(<<>>, "PERMIT"),
    L(<<>>, "DENY"),
    L(<<R("DENY", Addrs, Addrs, "any", 0)>>, "PERMIT"),
    L(<<R("DENY", {"A"}, Addrs, "any", 0)>>, "PERMIT"),
    L(<<R("DENY", Addrs, {"B"}, "any", 0)>>, "PERMIT"),
    L(<<R("DENY", Addrs, Addrs, "tcp", 0)>>, "PERMIT"),
    L(<<R("PERMIT", Addrs, Addrs, "icmp", 0), R("DENY", Addrs, Addrs, "any", 0)>>, "PERMIT"),
    L(<<R("DENY", Addrs, Addrs, "any", 80)>>, "PERMIT"),
    L(<<R("PERMIT", Addrs, Addrs, "udp", 219)>>, "DENY"),
    L(<<R("DENY", {"A", "other"}, {"B", "M"}, "any", 0)>>, "PERMIT") }
ListNames == {"acl", "ext_in", "ext_out", "int_in", "int_out", "dmz_in", "dmz_out"}
AllUp == [nicA |-> TRUE, nicB |-> TRUE, portA |-> TRUE, portB |-> TRUE, linkA |-> TRUE, linkB |-> TRUE, onM |-> TRUE, onB |-> TRUE]
Faults == {AllUp} \cup {[AllUp EXCEPT ![f] = FALSE] : f \in DOMAIN AllUp}
Zones == {"ext", "int", "dmz"}
Pkts == {[dst |-> d, proto |-> pr, dport |-> dp] : d \in {"B", "M", "other"}, pr \in Protos, dp \in {80, 5432, 219, 0}}

Init ==
    \E t \in {"lan", "routed", "fw"}, za \in Zones, zb \in Zones, u \in Faults, s1 \in Shapes, s2 \in Shapes, p \in Pkts :
        /\ za # zb
        /\ (t # "fw" => (za = "ext" /\ zb = "int"))
        /\ (p.proto = "icmp" => p.dport = 0) /\ (p.proto = "arp" => p.dport = 219) /\ (p.proto \in {"tcp", "udp"} => p.dport \in {80, 5432})
        /\ LET base == [n \in ListNames |-> L(<<>>, "PERMIT")]
               ls == IF t = "routed" THEN [base EXCEPT !["acl"] = s1]
                     ELSE IF t = "fw" THEN [base EXCEPT ![SrcList(za)] = s1, ![DstList(zb)] = s2]
                     ELSE base
           IN  (t # "fw" => s2 = L(<<>>, "PERMIT")) /\ (t = "lan" => s1 = L(<<>>, "PERMIT"))
               /\ BlockInit(t, za, zb, u, ls, p)

Next ==
    \/ Emit
    \/ MRecv(up.portA /\ up.onM)
    \/ \E l \in ListNames : Check(l, Verdict(l, pkt) = "PERMIT")
    \/ Learn
    \/ Local
    \/ Forward
    \/ BRecv(up.nicB /\ up.onB)

Spec == Init /\ [][Next]_bvars /\ WF_bvars(Next)

\* sanity: an open path delivers (non-vacuity of the blocked => not delivered implication)
OpenPathDelivers ==
    (up = AllUp /\ pkt.dst = "B" /\ ~AclDenies(pkt) /\ ~NeverRouted(pkt)) => <>(loc = "B")
=============================================================================
