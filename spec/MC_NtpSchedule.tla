--------------------------- MODULE MC_NtpSchedule ---------------------------
(* Exhaustive model of both components (union of the two state spaces: the *)
(* initial state picks the component).                                     *)
(*  ntp  : nodes a, p (clients exercised), s (server); p optionally hosts a *)
(*         server too; targets a: none/nowhere/p/s, p: none/a/s; power of   *)
(*         a and s; client states running/stopped (a also paused), servers  *)
(*         running/stopped, ACL block; ticks (clients in node order a, p)   *)
(*         and direct request_time calls; server clock readings 1..MaxClock *)
(*         (a server whose clock is exhausted stops the behaviour).         *)
(*  sched: constant schedule and list schedules of 2 and 3 entries; direct   *)
(*         scheduler calls for episodes 0..MaxK, environment construction,   *)
(*         resets, steps, owners changing what they were handed; at most     *)
(*         MaxCalls configurations handed out.                               *)
(* AsCoded / Shallow switch on behaviour that is NOT the contract (negative  *)
(* configurations MC_NtpScheduleAsCoded.cfg / MC_NtpScheduleShallow.cfg that *)
(* TLC must refute).                                                         *)
EXTENDS NtpSchedule, TLC

CONSTANTS Comps, MaxClock, MaxCalls, MaxK, AsCoded, Shallow

VARIABLES todo,      \* ntp: clients that still have their tick phase ahead in this tick
          inReset,   \* sched: env.reset() has asked the scheduler and not built the game yet
          tog        \* flips on steps that leave the component's state alone, so that they are real steps
mvars == <<vars, todo, inReset, tog>>

AllN == {"a", "p", "s"}
CN == {"a", "p"}
Order == <<"a", "p">>
Targets == {"none", "nowhere", "a", "p", "s"}
TargetsOf(x) == IF x = "a" THEN {"none", "nowhere", "p", "s"} ELSE {"none", "a", "s"}
PowerN == {"a", "s"}                 \* p stays ON
CliStates == {"running", "stopped", "paused"}
CliStatesOf(x) == IF x = "a" THEN CliStates ELSE {"running", "stopped"}
SrvStates == {"running", "stopped"}
HS(pSrv) == [x \in AllN |-> x = "s" \/ (x = "p" /\ pSrv)]

Dig == <<"d1", "d2", "d3">>
Gs == <<"g1", "g2", "g3">>

InitNtp ==
    /\ comp = "ntp" /\ SchedOff /\ todo = <<>> /\ inReset = FALSE /\ tog = FALSE
    /\ \E pSrv \in BOOLEAN :
          NtpInit(HS(pSrv), [x \in AllN |-> IF x = "a" THEN "s" ELSE "none"], [x \in AllN |-> TRUE],
                  [x \in AllN |-> "running"], [x \in AllN |-> IF HS(pSrv)[x] THEN "running" ELSE "absent"], FALSE)
InitSched ==
    /\ comp = "sched" /\ NtpOff /\ todo = <<>> /\ inReset = FALSE /\ tog = FALSE
    /\ \E c \in {<<"const", 1>>, <<"list", 2>>, <<"list", 3>>} :
          SchedInit(c[1], c[2], [i \in 1..c[2] |-> Dig[i]], [i \in 1..c[2] |-> Gs[i]])
Init == ("ntp" \in Comps /\ InitNtp) \/ ("sched" \in Comps /\ InitSched)

\* ------------------------------- ntp ---------------------------------------
OtherS == <<comp, svars, inReset, tog>>
\* nothing more is going to happen to the message in flight
Quiet == LossJustified /\ ~(net.k = "req" /\ PeerDue(net.dst))
Idle == comp = "ntp" /\ phase = "idle" /\ Quiet

MConfigure(x, t) == Idle /\ t \in TargetsOf(x) /\ t # target[x] /\ Configure(x, t) /\ UNCHANGED <<OtherS, todo>>
MSetNode(x, b) == Idle /\ x \in PowerN /\ b # on[x] /\ SetNode(x, b) /\ UNCHANGED <<OtherS, todo>>
MSetSvc(role, x, s) ==
    /\ Idle
    /\ IF role = "cli" THEN x \in CN /\ s \in CliStatesOf(x) /\ s # cst[x] ELSE hasSrv[x] /\ s \in SrvStates /\ s # sst[x]
    /\ SetSvc(role, x, s) /\ UNCHANGED <<OtherS, todo>>
MSetBlock(b) == Idle /\ b # blocked /\ SetBlock(b) /\ UNCHANGED <<OtherS, todo>>
MRequestNow(x) == Idle /\ WillAsk(x) /\ Request(x, target[x]) /\ UNCHANGED <<OtherS, todo>>
MTick == Idle /\ Tick /\ todo' = Order /\ UNCHANGED OtherS
MClientPhase ==
    /\ comp = "ntp" /\ phase = "tick" /\ todo # <<>> /\ Quiet
    /\ IF WillAsk(Head(todo)) THEN Request(Head(todo), target[Head(todo)]) ELSE UNCHANGED nvars
    /\ todo' = Tail(todo) /\ UNCHANGED OtherS
MServerReceive ==
    /\ comp = "ntp" /\ net.k = "req" /\ Served(net.src, net.dst)
    /\ ServerReceive(net.dst, net.src, "req") /\ UNCHANGED <<OtherS, todo>>
MPeerReceive ==
    /\ comp = "ntp" /\ net.k = "req" /\ PeerDue(net.dst)
    /\ PeerReceive(net.dst, time[net.dst]) /\ UNCHANGED <<OtherS, todo>>
MReply ==
    /\ comp = "ntp" /\ net.k = "atsrv" /\ clock < MaxClock
    /\ Reply(net.dst, net.src, clock + 1) /\ UNCHANGED <<OtherS, todo>>
\* AsCoded: on a node that also hosts a running server the server owns UDP/123 and the client never sees the reply
MClientReceive ==
    /\ comp = "ntp" /\ net.k = "rep" /\ ~blocked /\ ClientUp(net.dst)
    /\ ~(AsCoded /\ ServerUp(net.dst))
    /\ ClientReceive(net.dst, net.tm, net.tm) /\ UNCHANGED <<OtherS, todo>>
\* AsCoded: ... and the server answers the reply as if it were a request
MServerTakesReply ==
    /\ comp = "ntp" /\ AsCoded /\ net.k = "rep" /\ ~blocked /\ ServerUp(net.dst)
    /\ net' = Msg("atsrv", net.src, net.dst, 0)
    /\ UNCHANGED <<hasSrv, target, on, cst, sst, blocked, time, clock, phase, asked, exp, got, OtherS, todo>>
MTickEnd ==
    /\ comp = "ntp" /\ phase = "tick" /\ todo = <<>> /\ Quiet
    /\ TickEnd(time) /\ UNCHANGED <<OtherS, todo>>

NtpNext ==
    \/ \E x \in CN, t \in Targets : MConfigure(x, t)
    \/ \E x \in AllN, b \in BOOLEAN : MSetNode(x, b)
    \/ \E x \in AllN, s \in CliStates : MSetSvc("cli", x, s)
    \/ \E x \in AllN, s \in SrvStates : MSetSvc("srv", x, s)
    \/ \E b \in BOOLEAN : MSetBlock(b)
    \/ \E x \in CN : MRequestNow(x)
    \/ MTick \/ MClientPhase \/ MServerReceive \/ MPeerReceive \/ MReply \/ MClientReceive \/ MServerTakesReply
    \/ MTickEnd

\* ------------------------------ sched --------------------------------------
OtherN == <<comp, nvars, todo, tog>>
Handed(k) == IF store[Idx(k)] = 0 THEN ref[Idx(k)] ELSE "dirty"
WarnDue(k) == IF Wraps(k) /\ ~warned THEN 1 ELSE 0
Room == Len(out) < MaxCalls

\* the four scheduler calls of PrimaiteGymEnv.__init__ (at least one), then the environment is up
MEnvCall == comp = "sched" /\ env = "none" /\ Room /\ Call(0, Handed(0), WarnDue(0)) /\ UNCHANGED <<OtherN, inReset>>
MEnvInit == comp = "sched" /\ EnvInit(gref[Idx(0)], "A", "O") /\ UNCHANGED <<OtherN, inReset>>
\* a direct call of the environment's scheduler
MCall(k) == comp = "sched" /\ env = "up" /\ ~inReset /\ Room /\ Call(k, Handed(k), WarnDue(k)) /\ UNCHANGED <<OtherN, inReset>>
MResetCall ==
    /\ comp = "sched" /\ env = "up" /\ ~inReset /\ Room
    /\ Call(ep + 1, Handed(ep + 1), WarnDue(ep + 1)) /\ inReset' = TRUE /\ UNCHANGED OtherN
MResetDone ==
    /\ comp = "sched" /\ inReset
    /\ Reset(ep + 1, gref[Idx(ep + 1)], "A", "O") /\ inReset' = FALSE /\ UNCHANGED OtherN
MStep == comp = "sched" /\ ~inReset /\ Step /\ tog' = ~tog /\ UNCHANGED <<comp, nvars, todo, inReset>>
MMutate(i) ==
    /\ comp = "sched" /\ ~inReset /\ i \in 1..Len(out) /\ out[i].ver = 0
    /\ IF Shallow THEN MutateShared(i) ELSE Mutate(i)
    /\ UNCHANGED <<OtherN, inReset>>

SchedNext ==
    \/ MEnvCall \/ MEnvInit \/ MResetCall \/ MResetDone \/ MStep
    \/ \E k \in 0..MaxK : MCall(k)
    \/ \E i \in 1..MaxCalls : MMutate(i)

Next == NtpNext \/ SchedNext
Spec == Init /\ [][Next]_mvars

\* action properties are stated over the module's variables
PTimeIsLatestReply == TimeIsLatestReply
PServerAnswersOnlyRequests == ServerAnswersOnlyRequests
PServerAnswersEachRequestOnce == ServerAnswersEachRequestOnce
PClockMonotone == ClockMonotone
\* S6 as an action property: the episode counter only moves by one, with a configuration requested for exactly it
PEnvUsesEpisodeCounter == [][ep' # ep => (ep' = ep + 1 /\ pend = <<ep'>>)]_svars
=============================================================================
