--------------------------- MODULE DatabaseTrace ---------------------------
(* Trace validation of recorded executions of primaite DatabaseService /    *)
(* DatabaseClient / FTP backup against Database.tla (batch idiom,           *)
(* DESIGN.md 4.4).                                                          *)
(*                                                                          *)
(* trace:  cfg = [pw, cap, clients, init]   (init has the post-state fields)*)
(* event:  [ev |-> "Connect"|"Query"|"Disconnect"|"ClientUninstall"|        *)
(*                 "SvcReq"|"Tick"|"FsOp"|"Backup"|"Restore"|"Power"|       *)
(*                 "Block"|"BlockBk"|"Raised",                              *)
(*          c, pwd, id, q, kind, on, ok, ran, status,      (arguments/result)*)
(*          op, health, conns, own, held, file, backup,    (post-state ...  *)
(*          srvOn, bkOn, reach, bkPath, inst]               ... from objects)*)
(* conns = sorted canonical ids, own = their origin clients (parallel),     *)
(* held = [client |-> ids]; unused fields carry 0 / FALSE / "".             *)
EXTENDS Database, TLC, TLCExt, Json, IOUtils

Traces == JsonDeserialize(IOEnv.TRACE_FILE)

VARIABLES tid, l
tvars == <<pw, Cap, svcOp, svcHealth, srvOn, bkOn, reach, bkPath, owner, conns, held, inst, file, backup, tid, l>>

T == Traces[tid].ev
Cfg == Traces[tid].cfg
SetOf(s) == {s[i] : i \in 1..Len(s)}

\* the logged post-state in the module's shape
Post(e) ==
    [op |-> e.op, health |-> e.health,
     conns |-> SetOf(e.conns),
     own |-> [i \in SetOf(e.conns) |-> e.own[CHOOSE k \in 1..Len(e.conns) : e.conns[k] = i]],
     held |-> [c \in DOMAIN e.held |-> SetOf(e.held[c])],
     file |-> e.file, backup |-> e.backup]

IsClientEv(e) == e.ev \in {"Connect", "Query", "Disconnect", "ClientUninstall"}

\* what the environment flags must be after the event
ExpSrvOn(e) == IF e.ev = "Power" /\ e.kind = "srv" /\ e.ok THEN e.on ELSE srvOn
ExpBkOn(e)  == IF e.ev = "Power" /\ e.kind = "bk" /\ e.ok THEN e.on ELSE bkOn
ExpReach(e) == IF e.ev = "Block" THEN [reach EXCEPT ![e.c] = ~e.on] ELSE reach
ExpBkPath(e) == IF e.ev = "BlockBk" THEN ~e.on ELSE bkPath
ExpInst(e)  == IF e.ev = "ClientUninstall" /\ e.ok THEN inst \ {e.c} ELSE inst

\* named clauses, all predicates of (current state, event): the guard of the step
Clauses(e) ==
    LET P == Post(e) IN
    [ \* --- C17 ---------------------------------------------------------------------------
      OpenOnlyIfAllowed     |-> e.ev = "Connect" => OpenOnlyIfAllowed(e.c, e.pwd, P),
      HandleOnlyIfOpened    |-> e.ev = "Connect" =>
                                    (HandleOnlyIfOpened(e.c, e.ok, P) /\ StatusOkOnlyIfOpened(e.status, P)),
      NewOwnedByCaller      |-> e.ev = "Connect" => NewOwnedByCaller(e.c, P),
      WithinCapacity        |-> WithinCapacity(P),
      QueryOnlyOnOpenConn   |-> e.ev = "Query" => QueryOnlyOnOpenConn(e.id, e.ran),
      NoQueryWhileDown      |-> e.ev = "Query" => (NoQueryWhileDown(e.c, e.ran) /\ SuccessOnlyIfRun(e.ran, e.ok)),
      NotRunNoEffect        |-> e.ev = "Query" => NotRunNoEffect(e.ran, P),
      DestructiveChangesHealth |-> e.ev = "Query" => DestructiveChangesHealth(e.q, e.ok, P),
      OnlyDestructiveChange |-> e.ev = "Query" => OnlyDestructiveChange(e.q, P),
      CompromisedReadFails  |-> e.ev = "Query" => CompromisedReadFails(e.q, e.ok),
      NoRestoreWhileDown    |-> e.ev = "Restore" => NoRestoreWhileDown(e.ok, P),
      GoodBackupRestoresGood |-> e.ev = "Restore" => GoodBackupRestoresGood(e.ok, P),
      BackupReflectsData    |-> e.ev = "Backup" => BackupReflectsData(P),
      RefusedBackupKeepsCopy |-> e.ev = "Backup" => RefusedBackupKeepsCopy(e.ok, P),
      \* --- frame ---------------------------------------------------------------------------
      IdsKnown              |-> IdsKnown(P),
      ConnsOnlyByConnect    |-> ConnsOnlyByConnect(e.ev, P),
      FileOnlyByDataEvents  |-> FileOnlyByDataEvents(e.ev, P),
      BackupOnlyByBackup    |-> BackupOnlyByBackup(e.ev, P),
      \* --- binding -------------------------------------------------------------------------
      ClientInstalled       |-> IsClientEv(e) => e.c \in inst,
      HandleDropped         |-> (e.ev = "Disconnect" => HandleDropped(e.c, e.id, e.ok, P))
                                /\ ((e.ev = "ClientUninstall" /\ e.ok) => P.held[e.c] = {}),
      EnvMatchesObjects     |-> /\ e.srvOn = ExpSrvOn(e) /\ e.bkOn = ExpBkOn(e)
                                /\ e.bkPath = ExpBkPath(e)
                                /\ \A c \in Clients : e.reach[c] = ExpReach(e)[c]
                                /\ SetOf(e.inst) = ExpInst(e),
      NothingRaised         |-> e.ev # "Raised"
    ]
Failing(e) == {c \in DOMAIN Clauses(e) : ~Clauses(e)[c]}

Step(e) ==
    LET P == Post(e) IN
    CASE e.ev = "Connect"         -> Connect(e.c, e.pwd, e.ok, e.status, P)
      [] e.ev = "Query"           -> Query(e.c, e.id, e.q, e.ran, e.ok, P)
      [] e.ev = "Disconnect"      -> Disconnect(e.c, e.id, e.ok, P)
      [] e.ev = "ClientUninstall" -> ClientUninstall(e.c, e.ok, P)
      [] e.ev = "SvcReq"          -> SvcReq(e.kind, e.ok, P)
      [] e.ev = "Tick"            -> Tick(P)
      [] e.ev = "FsOp"            -> FsOp(e.kind, e.ok, P)
      [] e.ev = "Backup"          -> Backup(e.ok, P)
      [] e.ev = "Restore"         -> Restore(e.ok, P)
      [] e.ev = "Power"           -> Power(e.kind, e.on, e.ok, P)
      [] e.ev = "Block"           -> Block(e.c, e.on, P)
      [] e.ev = "BlockBk"         -> BlockBk(e.on, P)
      [] OTHER -> FALSE

TraceInit ==
    /\ tid \in 1..Len(Traces)
    /\ l = 1
    /\ DbInit(Cfg.pw, Cfg.cap, SetOf(Cfg.clients), Post(Cfg.init),
              Cfg.init.srvOn, Cfg.init.bkOn, Cfg.init.reach, Cfg.init.bkPath)

TraceNext ==
    /\ l <= Len(T)
    /\ Failing(T[l]) = {}
    /\ Step(T[l])
    /\ l' = l + 1
    /\ UNCHANGED tid

TraceSpec == TraceInit /\ [][TraceNext]_tvars

\* progress bookkeeping in TLC registers (one per trace); -workers 1
Seen == TLCGet(tid)
Record ==
    IF l > Seen.pos
    THEN TLCSet(tid, [pos |-> l,
                      fail |-> IF l <= Len(T) THEN Failing(T[l]) ELSE {},
                      st |-> [pw |-> pw, cap |-> Cap, op |-> svcOp, health |-> svcHealth, srvOn |-> srvOn,
                              bkOn |-> bkOn, reach |-> reach, bkPath |-> bkPath, issued |-> Len(owner),
                              conns |-> conns, held |-> held, file |-> file, backup |-> backup]])
    ELSE TRUE
InitRegs == \A i \in 1..Len(Traces) : TLCSet(i, [pos |-> 0, fail |-> {}, st |-> <<>>])
ASSUME InitRegs

Report ==
    \A i \in 1..Len(Traces) :
        LET r == TLCGet(i) IN
        /\ PrintT(<<"TRACE", i, r.pos, Len(Traces[i].ev)>>)
        /\ (r.pos = Len(Traces[i].ev) + 1 \/ PrintT(<<"STUCK", i, r.pos, r.fail, r.st>>))
=============================================================================
