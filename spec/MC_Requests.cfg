SPECIFICATION Spec
CONSTANTS
  Variant = "design"
INVARIANT DispatchMatchesResolve
INVARIANT RaiseOnlyWhenTruncated
INVARIANT MaskExact
INVARIANT StatusDomain
CHECK_DEADLOCK FALSE
