SPECIFICATION Spec
CONSTANTS
  Comps = {"ntp", "sched"}
  MaxClock = 3
  MaxCalls = 5
  MaxK = 7
  AsCoded = FALSE
  Shallow = FALSE
INVARIANT NtpTypeOK
INVARIANT TimeNoneUntilFirstReply
INVARIANT AtMostOneAnswerPerRequest
INVARIANT NoServerNoUpdate
INVARIANT SchedTypeOK
INVARIANT StoreNeverAffected
INVARIANT HandOverFresh
INVARIANT ConstantIsConstant
INVARIANT WarnedOnlyAfterWrap
PROPERTY PTimeIsLatestReply
PROPERTY PServerAnswersOnlyRequests
PROPERTY PServerAnswersEachRequestOnce
PROPERTY PClockMonotone
PROPERTY PEnvUsesEpisodeCounter
CHECK_DEADLOCK FALSE
