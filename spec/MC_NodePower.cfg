SPECIFICATION Spec
CONSTANTS
  MaxDur = 3
  Software = {"svc", "app"}
INVARIANT InvNicsDownUnlessOn
INVARIANT InvNothingRunsWhenOff
PROPERTY OnlyLegalTransitions
PROPERTY StaysForDuration
PROPERTY Completes
CHECK_DEADLOCK FALSE
