SPECIFICATION Spec
CONSTANTS
  Comps = {"sched"}
  MaxClock = 2
  MaxCalls = 4
  MaxK = 6
  AsCoded = FALSE
  Shallow = TRUE
INVARIANT HandOverFresh
CHECK_DEADLOCK FALSE
