SPECIFICATION Spec
CONSTANTS
  Clients = {"c1", "c2"}
  Names = {"a", "b"}
  SvcStates = {"RUNNING", "STOPPED", "PAUSED", "DISABLED", "RESTARTING"}
  MaxHist = 8
  MaxCodes = 4
  MaxEnv = 9
  TickAlways = TRUE
INVARIANT TypeOK
CHECK_DEADLOCK FALSE
