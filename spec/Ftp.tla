-------------------------------- MODULE Ftp --------------------------------
(***************************************************************************)
(* FTP client and FTP server of PrimAITE (extension module, beyond the     *)
(* listed properties).  Code: simulator/system/services/ftp/ftp_client.py, *)
(* ftp_server.py, ftp_service.py, network/protocols/ftp.py.                *)
(*                                                                         *)
(* One server node "s" (FTPServer) and a set `clients' of nodes with an    *)
(* FTPClient.  An API call (FTPClient.send_file / request_file, or the     *)
(* `send' request of the client) is a bracket  Begin .. Return ; inside it *)
(* every FTP message that a service *handles* is one action:               *)
(*   SrvPort  server handles PORT  (FTPServer._process_ftp_command)        *)
(*   SrvStor  server handles STOR  (FTPServiceABC._store_data)             *)
(*   SrvQuit  server handles QUIT                                          *)
(*   CliData  client handles the STOR that carries a retrieved file        *)
(*            (FTPClient._process_ftp_command -> _store_data)              *)
(*   SrvRetr  server handles RETR  (FTPServiceABC._retrieve_data; the      *)
(*            client's CliData is nested in it and returns first)          *)
(*   SendFail the network interface of the sender refused a frame of the   *)
(*            call (WiredNetworkInterface.send_frame returned False: "Frame *)
(*            dropped as Link is at capacity" / interface disabled): an     *)
(*            environment fault inside the call; IOSoftware.send then       *)
(*            returns False to the FTP service                              *)
(* plus the tick phase Tick (FTPServiceABC.pre_timestep) and the           *)
(* environment actions SvcReq, Power, Block, CreateFile, DeleteFile, Env.  *)
(*                                                                         *)
(* CONTRACT CLAUSES (and where they come from)                             *)
(*  K1 HandshakeFirst       a STOR / RETR is only served for a client that a   *)
(*       PORT handshake has put into the server's connection table (and    *)
(*       that has not QUIT since), and only by a running server on a       *)
(*       powered node reached over an unblocked port (ftp_client.rst       *)
(*       "PORT: specifies the port ...", "Connects to the FTPServer via    *)
(*       the SoftwareManager"; send_file: "check if FTP is currently       *)
(*       connected to IP"; FTPServer._process_ftp_command "if server       *)
(*       service is down, return error"; Service._can_perform_action).     *)
(*  K2 OnlyRunningClient    a client service that is not RUNNING (or whose  *)
(*       node is off) takes part in no exchange (FTPClient.               *)
(*       _connect_to_server "make sure the service is running before       *)
(*       attempting"; _process_ftp_command "if client service is down,     *)
(*       return error"; IOSoftware.send returns False).                    *)
(*  K3 ExactlyOneCreated / SourceUntouched  STOR creates on the receiver   *)
(*       exactly one file dest_folder/dest_name with the size and health   *)
(*       of the source (and its type when the extension is kept); the      *)
(*       source file and every other file stay as they are (send_file /    *)
(*       _store_data / _send_data docstrings, ftp_server.rst "STOR: stores *)
(*       a file from client to server"; DatabaseService.backup_database    *)
(*       relies on it).  An existing file of that name is not replaced     *)
(*       (FileSystem.create_file: "Cannot create file ... already exists").*)
(*  K4 RetrOnlyIfOnServer   RETR creates the file on the client only if it *)
(*       exists on the server (ftp_client.rst "RETR: retrieves a file from *)
(*       the FTP server"; _retrieve_data "if file does not exist, return   *)
(*       an error"; DatabaseService.restore_backup relies on it).          *)
(*  K5 FailureChangesNothing / FailsWhenNotOperational  a call returns     *)
(*       True only if both services run on powered nodes, the port is open *)
(*       and the source file exists; a call that returns False has changed *)
(*       no file system (send_file "Unable to send file that does not      *)
(*       exist"; request handler "Unable to locate given file"; Service    *)
(*       lifecycle; ACL).                                                  *)
(*  K6 ConnTable            the server's connection table grows by exactly *)
(*       the connecting client on PORT (never by more than one, no         *)
(*       duplicates) and loses exactly the client on QUIT; nothing else    *)
(*       changes it (IOSoftware.add_connection / terminate_connection      *)
(*       docstrings, ftp_client.rst "QUIT: disconnect from server").       *)
(*  K7 OkOnlyOnSuccess      a reply carries FTPStatusCode.OK ("Command     *)
(*       successful") iff the command did what it stands for: PORT - the   *)
(*       connection is in the table; STOR - the file was created; QUIT -   *)
(*       the connection is gone; RETR - the file exists on the server and  *)
(*       was delivered to the client; the API call returns True iff its    *)
(*       transfer took place (protocols/ftp.py FTPStatusCode docstrings;   *)
(*       request_file "the payload should have ok status code").  In       *)
(*       particular a data frame that could not leave its sender (SendFail;*)
(*       IOSoftware.send: "True if the payload was successfully sent,      *)
(*       False otherwise", _send_data: "if response and status OK") is     *)
(*       nothing delivered: the RETR is not answered OK, the call returns  *)
(*       False.                                                            *)
(*  K8 MustSucceed          with everything operational, an existing       *)
(*       source and a free destination name the call returns True          *)
(*       (ftp_client.rst Usage) - unless a frame of the call was refused   *)
(*       by the sender's interface (SendFail).                             *)
(*  K9 ReportedActivity     FTPServiceABC._active: "True on timesteps      *)
(*       where service transmits data and False when idle"; describe_state *)
(*       shows a running service as RUNNING only then: both parties of a   *)
(*       successful transfer are active until the next pre_timestep, which *)
(*       clears the flag; nothing but FTP traffic sets it.                 *)
(* Configuration (clients, ext = extension of every path) and the          *)
(* environment (power, service states, port blocking) are variables.       *)
(***************************************************************************)
EXTENDS Naturals, FiniteSets

VARIABLES
    clients,    \* configuration: names of the client nodes
    ext,        \* configuration: path -> extension of its file name
    fs,         \* node -> (path -> [size, health, type])
    on,         \* node -> BOOLEAN  (node powered on)
    op,         \* node -> operating state of its FTP service
    net,        \* "open" | "blocked" | "unknown"   (FTP port between clients and server)
    sConn,      \* the server's connection table, as the set of connected clients
    active,     \* node -> BOOLEAN  (FTPServiceABC._active)
    call,       \* the API call in progress / just finished
    pre         \* fs when the call began
fvars == <<clients, ext, fs, on, op, net, sConn, active, call, pre>>

Server == "s"
Nodes == clients \cup {Server}
OpStates == {"RUNNING", "STOPPED", "PAUSED", "DISABLED", "RESTARTING", "INSTALLING"}
Idle == [stage |-> "idle", kind |-> "", c |-> "", src |-> "", dst |-> "", port |-> FALSE, stor |-> FALSE,
         quit |-> FALSE, found |-> FALSE, data |-> FALSE, fault |-> FALSE, last |-> "", ok |-> FALSE]

FtpInit(cl, ex, f, o, p, nt, cn, ac) ==
    /\ clients = cl /\ ext = ex /\ fs = f /\ on = o /\ op = p /\ net = nt
    /\ sConn = cn /\ active = ac /\ call = Idle /\ pre = f

Running(n) == on[n] /\ op[n] = "RUNNING"
Passable == net # "blocked"
Has(n, p) == p \in DOMAIN fs[n]
Put(f, p, v) == [q \in DOMAIN f \cup {p} |-> IF q = p THEN v ELSE f[q]]
Del(f, p) == [q \in DOMAIN f \ {p} |-> f[q]]
Open == call.stage = "open"
Quiet == call.stage # "open"

\* ---- guards, named after the clauses (used by the actions and, one by one, by the trace spec)
G_InCall(c) == Open /\ call.c = c
G_ServerServes == Running(Server) /\ Passable                                    \* K1
G_OnlyRunningClient(c) == c \in clients /\ Running(c)                             \* K2
G_HandshakeFirst(c) == c \in sConn      \* K1 (a connection left by an earlier call of the client counts)
\* the flag of a service only rises, and only for the parties of the exchange       K9
G_Active(na, parts) == /\ DOMAIN na = Nodes
                       /\ \A n \in Nodes : (active[n] => na[n]) /\ ((na[n] /\ ~active[n]) => n \in parts)

\* ---- what a handled STOR does to the receiver's file system                     K3
Copy(f, ty) == [size |-> f.size, health |-> f.health, type |-> ty]
StorFs(c, ty) == IF Has(Server, call.dst) THEN fs
                 ELSE [fs EXCEPT ![Server] = Put(@, call.dst, Copy(fs[c][call.src], ty))]
DataFs(c, ty) == IF Has(c, call.dst) THEN fs
                 ELSE [fs EXCEPT ![c] = Put(@, call.dst, Copy(fs[Server][call.src], ty))]
TypeKept(src, dst, f, ty) == ext[src] = ext[dst] => ty = f.type

Begin(c, kind, src, dst, na) ==
    /\ Quiet /\ c \in clients /\ kind \in {"send", "retr"}
    /\ G_Active(na, {c})
    /\ call' = [Idle EXCEPT !.stage = "open", !.kind = kind, !.c = c, !.src = src, !.dst = dst, !.last = "Begin"]
    /\ pre' = fs /\ active' = na
    /\ UNCHANGED <<clients, ext, fs, on, op, net, sConn>>

SrvPort(c, st, na) ==
    /\ G_InCall(c) /\ call.last \in {"Begin", "SrvPort"}
    /\ G_ServerServes /\ G_OnlyRunningClient(c)
    /\ st = "OK"                                                                   \* K7
    /\ sConn' = sConn \cup {c}                                                     \* K6
    /\ call' = [call EXCEPT !.port = TRUE, !.last = "SrvPort"]
    /\ G_Active(na, {c, Server}) /\ active' = na
    /\ UNCHANGED <<clients, ext, fs, on, op, net, pre>>

SrvStor(c, st, ty, na) ==
    /\ G_InCall(c) /\ call.kind = "send" /\ call.last \in {"Begin", "SrvPort"}
    /\ G_ServerServes /\ G_OnlyRunningClient(c) /\ G_HandshakeFirst(c)
    /\ Has(c, call.src)
    /\ LET created == ~Has(Server, call.dst) IN
         /\ (st = "OK") = created                                                  \* K7
         /\ created => TypeKept(call.src, call.dst, fs[c][call.src], ty)
         /\ fs' = StorFs(c, ty)                                                    \* K3
         /\ call' = [call EXCEPT !.stor = created, !.last = "SrvStor"]
    /\ G_Active(na, {c, Server}) /\ active' = na
    /\ UNCHANGED <<clients, ext, on, op, net, sConn, pre>>

SrvQuit(c, st, na) ==
    /\ G_InCall(c) /\ call.last \in {"SrvPort", "SrvStor", "SrvRetr"}
    /\ G_ServerServes /\ on[c]
    /\ st = "OK"                                                                   \* K7
    /\ sConn' = sConn \ {c}                                                        \* K6
    /\ call' = [call EXCEPT !.quit = TRUE, !.last = "SrvQuit"]
    /\ G_Active(na, {c, Server}) /\ active' = na
    /\ UNCHANGED <<clients, ext, fs, on, op, net, pre>>

CliData(c, ty, na) ==
    /\ G_InCall(c) /\ call.kind = "retr" /\ call.last \in {"Begin", "SrvPort"}
    /\ G_ServerServes /\ G_OnlyRunningClient(c) /\ G_HandshakeFirst(c)
    /\ Has(Server, call.src)                                                       \* K4
    /\ LET created == ~Has(c, call.dst) IN
         /\ created => TypeKept(call.src, call.dst, fs[Server][call.src], ty)
         /\ fs' = DataFs(c, ty)
         /\ call' = [call EXCEPT !.data = created, !.last = "CliData"]
    /\ G_Active(na, {c, Server}) /\ active' = na
    /\ UNCHANGED <<clients, ext, on, op, net, sConn, pre>>

SrvRetr(c, st, na) ==
    /\ G_InCall(c) /\ call.kind = "retr" /\ call.last \in {"Begin", "SrvPort", "CliData"}
    /\ G_ServerServes /\ G_OnlyRunningClient(c) /\ G_HandshakeFirst(c)
    /\ (call.last # "CliData" /\ ~call.fault) => ~Has(Server, call.src)   \* an existing file is sent before the reply
    /\ (st = "OK") = call.data                                                     \* K7
    /\ call' = [call EXCEPT !.found = Has(Server, call.src), !.last = "SrvRetr"]
    /\ G_Active(na, {c, Server}) /\ active' = na
    /\ UNCHANGED <<clients, ext, fs, on, op, net, sConn, pre>>

\* the sender's network interface refused a frame of the call (who = "client" | "server")
SendFail(c, who, na) ==
    /\ G_InCall(c) /\ who \in {"client", "server"}
    /\ call' = [call EXCEPT !.fault = TRUE]
    /\ G_Active(na, {c, Server}) /\ active' = na
    /\ UNCHANGED <<clients, ext, fs, on, op, net, sConn, pre>>

\* what K8 promises for the call in progress (pre = file systems at Begin; the environment cannot move inside a call)
Promised ==
    /\ net = "open" /\ Running(call.c) /\ Running(Server)
    /\ IF call.kind = "send"
       THEN call.src \in DOMAIN pre[call.c] /\ call.dst \notin DOMAIN pre[Server]
       ELSE call.src \in DOMAIN pre[Server] /\ call.dst \notin DOMAIN pre[call.c]
Delivered == IF call.kind = "send" THEN call.stor ELSE call.data

Return(c, kind, ok, na) ==
    /\ G_InCall(c) /\ call.kind = kind
    /\ ok = Delivered                                                              \* K5, K7
    /\ (ok /\ kind = "send") => call.quit
    /\ (Promised /\ ~call.fault) => ok                                              \* K8
    /\ G_Active(na, {c}) /\ active' = na      \* (Begin is the entry of the call: the caller's flag may rise until it returns)
    /\ ok => (na[c] /\ na[Server])                                                 \* K9
    /\ call' = [call EXCEPT !.stage = "closed", !.ok = ok, !.last = "Return"]
    /\ UNCHANGED <<clients, ext, fs, on, op, net, sConn, pre>>

\* ---- environment (only between calls: the simulator is sequential)
Settle == call' = Idle /\ pre' = fs'
Target(verb, s) ==
    CASE verb = "stop"    -> IF s \in {"RUNNING", "PAUSED"} THEN "STOPPED" ELSE s
      [] verb = "start"   -> IF s = "STOPPED" THEN "RUNNING" ELSE s
      [] verb = "pause"   -> IF s = "RUNNING" THEN "PAUSED" ELSE s
      [] verb = "resume"  -> IF s = "PAUSED" THEN "RUNNING" ELSE s
      [] verb = "disable" -> "DISABLED"
      [] verb = "enable"  -> IF s = "DISABLED" THEN "STOPPED" ELSE s
      [] OTHER -> s
\* the lifecycle itself is property C13's: a request is either applied as documented or refused
SvcReq(n, verb, new) ==
    /\ Quiet /\ n \in Nodes
    /\ new \in {op[n], Target(verb, op[n])}
    /\ op' = [op EXCEPT ![n] = new]
    /\ UNCHANGED <<clients, ext, fs, on, net, sConn, active>> /\ Settle

PowerOp(turnOn, s) == IF turnOn THEN (IF s = "STOPPED" THEN "RUNNING" ELSE s)
                      ELSE (IF s \in {"RUNNING", "PAUSED"} THEN "STOPPED" ELSE s)
Power(n, turnOn) ==
    /\ Quiet /\ n \in Nodes /\ on[n] # turnOn
    /\ on' = [on EXCEPT ![n] = turnOn]
    /\ op' = [op EXCEPT ![n] = PowerOp(turnOn, @)]
    /\ UNCHANGED <<clients, ext, fs, net, sConn, active>> /\ Settle

Block(b) ==
    /\ Quiet /\ net' = IF b THEN "blocked" ELSE "open"
    /\ UNCHANGED <<clients, ext, fs, on, op, sConn, active>> /\ Settle

CreateFile(n, p, f) ==
    /\ Quiet /\ n \in Nodes /\ ~Has(n, p)
    /\ fs' = [fs EXCEPT ![n] = Put(@, p, f)]
    /\ UNCHANGED <<clients, ext, on, op, net, sConn, active>> /\ Settle

DeleteFile(n, p) ==
    /\ Quiet /\ n \in Nodes /\ Has(n, p)
    /\ fs' = [fs EXCEPT ![n] = Del(@, p)]
    /\ UNCHANGED <<clients, ext, on, op, net, sConn, active>> /\ Settle

\* FTPServiceABC.pre_timestep: "When a new timestep begins, clear the _active attribute"
Tick ==
    /\ Quiet /\ active' = [n \in Nodes |-> FALSE]
    /\ UNCHANGED <<clients, ext, fs, on, op, net, sConn>> /\ Settle

\* anything the rest of the simulation did to what FTP does not own (scenario-scale runs)
Env(nfs, non, nop, nnet) ==
    /\ Quiet
    /\ DOMAIN nfs = Nodes /\ DOMAIN non = Nodes /\ DOMAIN nop = Nodes
    /\ fs' = nfs /\ on' = non /\ op' = nop /\ net' = nnet
    /\ UNCHANGED <<clients, ext, sConn, active>> /\ Settle

\* ---- the clauses as state invariants / action properties (checked on MC_Ftp)
Closed == call.stage = "closed"
InOrAfter == call.stage \in {"open", "closed"}
TypeOK ==
    /\ sConn \subseteq clients
    /\ \A n \in Nodes : on[n] \in BOOLEAN /\ op[n] \in OpStates /\ active[n] \in BOOLEAN
    /\ net \in {"open", "blocked", "unknown"}
    /\ call.stage \in {"idle", "open", "closed"}
HandshakeFirst == (Open /\ call.last \in {"SrvStor", "CliData", "SrvRetr"}) => call.c \in sConn     \* K1
SourceUntouched == InOrAfter =>                                                                    \* K3
    /\ (call.kind = "send" => fs[call.c] = pre[call.c])
    /\ (call.kind = "retr" => fs[Server] = pre[Server])
    /\ \A n \in Nodes \ {call.c, Server} : fs[n] = pre[n]
ExactlyOneCreated == (Closed /\ call.ok) =>                                                        \* K3
    LET rcv == IF call.kind = "send" THEN Server ELSE call.c
        snd == IF call.kind = "send" THEN call.c ELSE Server IN
    /\ call.dst \notin DOMAIN pre[rcv]
    /\ DOMAIN fs[rcv] = DOMAIN pre[rcv] \cup {call.dst}
    /\ \A p \in DOMAIN pre[rcv] : fs[rcv][p] = pre[rcv][p]
    /\ fs[rcv][call.dst].size = pre[snd][call.src].size
    /\ fs[rcv][call.dst].health = pre[snd][call.src].health
    /\ (ext[call.src] = ext[call.dst] => fs[rcv][call.dst].type = pre[snd][call.src].type)
RetrOnlyIfOnServer == (InOrAfter /\ call.kind = "retr" /\ fs[call.c] # pre[call.c])                \* K4
                         => call.src \in DOMAIN pre[Server]
FailureChangesNothing == (Closed /\ ~call.ok) => fs = pre                                          \* K5
FailsWhenNotOperational == (Closed /\ call.ok) =>                                                  \* K5
    /\ Running(call.c) /\ Running(Server) /\ Passable
    /\ call.src \in DOMAIN pre[IF call.kind = "send" THEN call.c ELSE Server]
OkOnlyOnSuccess == (Closed /\ call.ok) =>                                                          \* K7
    IF call.kind = "send" THEN call.stor /\ call.quit ELSE call.found /\ call.data
ReportedActivity == (Closed /\ call.ok) => (active[call.c] /\ active[Server])                      \* K9
\* K7/K8: a call can only fail with everything promised when a frame was refused; a refused data frame fails it
OnlyFaultExcuses == (Closed /\ ~call.ok /\ ~call.fault) => ~Promised
\* K6 as an action property
ConnTableStep ==
    [][sConn' # sConn =>
        \E c \in clients :
            \/ (sConn' = sConn \cup {c} /\ call'.last = "SrvPort" /\ call'.c = c)
            \/ (sConn' = sConn \ {c} /\ call'.last = "SrvQuit" /\ call'.c = c)]_fvars
=============================================================================
