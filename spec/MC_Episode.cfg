SPECIFICATION Spec
CONSTANTS
  MaxAgents = 3
  MaxLen = 3
  MaxEpisodes = 2
  MaxSteps = 6
  Classes = {"allowed", "masked", "power", "any"}
INVARIANT InvHistoryIsTime
INVARIANT TimeBounded
PROPERTY StepsReturn
CHECK_DEADLOCK FALSE
