SPECIFICATION Spec
INVARIANT BlockingIsEffective
PROPERTY DenyIsFinal
PROPERTY OpenPathDelivers
CHECK_DEADLOCK FALSE
