----------------------------- MODULE MC_AirNmne -----------------------------
(* Exhaustive model of AirNmne: three wireless interfaces (one per node), two frequencies, frames of     *)
(* size 1..2 that do / do not carry the keyword, broadcast or addressed to interface 2, replies sent     *)
(* while a frame is still on the air (nesting), a sweep over capacities / NMNE configurations / start    *)
(* frequencies (2 x 4 x 1 configurations exhaustively, 4 x 6 x 3 with Rich = TRUE for simulation).  The  *)
(* step counter `n' and the label `act' are outside the VIEW: state counts vary by about 1 % between     *)
(* runs with several workers.  `sentMal' / `accMal' are the model's own ledger of malicious frames transmitted /       *)
(* accepted per interface in the episode.  Variant "wap_no_inbound" = the access point as coded (no      *)
(* inbound capture): TLC must refute CountedOncePerFrame for it (MC_AirNmneAsCoded.cfg).                 *)
EXTENDS AirNmne, TLC
CONSTANTS MaxSteps, MaxNest, Variant, Rich
VARIABLES n, act, sentMal, accMal
mvars == <<nIf, wl, cap, capture, kws, by, on0, en0, nodeOn, enabled, freq, load, nmne, stack, n, act, sentMal, accMal>>

N == 3
IpOf(i) == CASE i = 1 -> "a" [] i = 2 -> "b" [] OTHER -> "c"
Tos == {0, 2}            \* 0 = broadcast
Fr(i, sz, mal, to) ==
    [sz |-> sz, src |-> IpOf(i), dst |-> "x", proto |-> "tcp", sport |-> 7, dport |-> 9,
     kw |-> IF mal THEN {"k"} ELSE {"s"}, to |-> to]
Dflt == [dir |-> TRUE, ip |-> FALSE, proto |-> FALSE, port |-> FALSE, kw |-> FALSE]
Full == [dir |-> TRUE, ip |-> TRUE, proto |-> TRUE, port |-> TRUE, kw |-> TRUE]
Flat == [dir |-> FALSE, ip |-> TRUE, proto |-> FALSE, port |-> FALSE, kw |-> FALSE]
\* Rich = the wider configuration sweep used for simulation (behaviours replayed into the code); the exhaustive
\* run uses the smaller one
NmneCfgs == {<<FALSE, {"k"}, Dflt>>, <<TRUE, {}, Dflt>>, <<TRUE, {"k"}, Dflt>>, <<TRUE, {"k"}, Full>>}
                \cup (IF Rich THEN {<<TRUE, {"k"}, Flat>>, <<TRUE, {"k", "s"}, Full>>} ELSE {})
Caps == {<<2, 3>>, <<3, 0>>} \cup (IF Rich THEN {<<4, 2>>, <<1, 5>>} ELSE {})
Fq0s == {<<1, 1, 2>>} \cup (IF Rich THEN {<<1, 1, 1>>, <<2, 1, 2>>} ELSE {})
AllTrue == [i \in 1..N |-> TRUE]
ZeroN == [i \in 1..N |-> 0]

Init ==
    /\ n = 0 /\ act = [a |-> "Init"]
    /\ sentMal = ZeroN /\ accMal = ZeroN
    /\ \E c \in Caps, nc \in NmneCfgs, fq \in Fq0s :
          AirNmneInit(N, AllTrue, c, nc[1], nc[2], nc[3], AllTrue, AllTrue, fq)

Stim == n < MaxSteps /\ n' = n + 1
Quiet == UNCHANGED n
\* a frame can be sent when the air is idle, or as a reply by an interface that has just received the frame on the air
MaySend(i) == Len(stack) < MaxNest /\ (IF stack = <<>> THEN TRUE ELSE i \in Top.got)

MTick == Stim /\ Tick /\ act' = [a |-> "Tick"] /\ UNCHANGED <<sentMal, accMal>>
MBegin(i, sz, mal, to) ==
    /\ Stim /\ MaySend(i)
    /\ Begin(i, Fr(i, sz, mal, to))
    /\ act' = [a |-> "Send", i |-> i, sz |-> sz, mal |-> mal, to |-> to, nest |-> Len(stack)]
    /\ sentMal' = IF Malicious(Fr(i, sz, mal, to)) THEN [sentMal EXCEPT ![i] = @ + 1] ELSE sentMal
    /\ UNCHANGED accMal
MDrop(i, sz, mal, to) ==
    /\ Stim /\ MaySend(i)
    /\ Drop(i, Fr(i, sz, mal, to))
    /\ act' = [a |-> "Send", i |-> i, sz |-> sz, mal |-> mal, to |-> to, nest |-> Len(stack)]
    /\ UNCHANGED <<sentMal, accMal>>
MDeliver(j) ==
    /\ Quiet /\ stack # <<>>
    /\ LET fr == Top.fr
           acc == fr.to = 0 \/ fr.to = j
       IN /\ IF Variant = "wap_no_inbound"
             THEN DeliverCore(j, nmne[j])
             ELSE Deliver(j, acc, IF acc THEN Captured(j, fr, "inbound") ELSE nmne[j])
          /\ accMal' = IF acc /\ Malicious(fr) THEN [accMal EXCEPT ![j] = @ + 1] ELSE accMal
    /\ act' = [a |-> "Deliver", i |-> j]
    /\ UNCHANGED sentMal
MEnd == Quiet /\ End /\ act' = [a |-> "End"] /\ UNCHANGED <<sentMal, accMal>>
MSetEnabled(i, want) ==
    /\ Stim /\ stack = <<>>
    /\ SetEnabled(i, want, want # enabled[i] /\ (want => nodeOn[i]))
    /\ act' = [a |-> "SetEnabled", i |-> i, want |-> want]
    /\ UNCHANGED <<sentMal, accMal>>
MPower(i, want) ==
    /\ Stim /\ stack = <<>>
    /\ Power(i, want, want # nodeOn[i])
    /\ act' = [a |-> "Power", i |-> i, want |-> want]
    /\ UNCHANGED <<sentMal, accMal>>
MRetune(i, f) ==
    /\ Stim /\ stack = <<>> /\ f # freq[i]
    /\ Retune(i, f)
    /\ act' = [a |-> "Retune", i |-> i, f |-> f]
    /\ UNCHANGED <<sentMal, accMal>>
MDescribe(i) ==
    /\ Stim /\ stack = <<>>
    /\ Describe(i, capture, nmne[i])
    /\ act' = [a |-> "Describe", i |-> i]
    /\ UNCHANGED <<sentMal, accMal>>
MNewEpisode ==
    /\ Stim /\ stack = <<>>
    /\ NewEpisode(load)
    /\ act' = [a |-> "NewEpisode"]
    /\ sentMal' = ZeroN /\ accMal' = ZeroN

\* Rep: in the simulation sweep the rarer stimuli are offered several times so that random behaviours are not all sends
Rep(k) == IF Rich THEN 1..k ELSE {1}
Next ==
    \/ \E w \in Rep(8) : MTick
    \/ \E i \in 1..N, sz \in 1..2, mal \in BOOLEAN, to \in Tos : MBegin(i, sz, mal, to) \/ MDrop(i, sz, mal, to)
    \/ \E j \in 1..N : MDeliver(j)
    \/ MEnd
    \/ \E i \in 1..N, w \in BOOLEAN : MSetEnabled(i, w) \/ MPower(i, w)
    \/ \E i \in 1..N, f \in 1..2, w \in Rep(2) : MRetune(i, f)
    \/ \E i \in 1..N, w \in Rep(2) : MDescribe(i)
    \/ \E w \in Rep(3) : MNewEpisode
Spec == Init /\ [][Next]_mvars
View == <<nIf, wl, cap, capture, kws, by, on0, en0, nodeOn, enabled, freq, load, nmne, stack, sentMal, accMal>>

-----------------------------------------------------------------------------
RECURSIVE SumOver(_, _)
SumOver(t, S) == IF S = {} THEN 0 ELSE LET k == CHOOSE x \in S : TRUE IN t[k] + SumOver(t, S \ {k})
Total(t, d) == SumOver(t, {k \in DOMAIN t : k.dir = d})

\* A1/A3: whoever is to receive a frame on the air is an enabled interface on the frequency it was sent on
ReceiversEnabledOnFrequency ==
    \A k \in 1..Len(stack) : \A j \in stack[k].exp : enabled[j] /\ freq[j] = stack[k].f
\* N1/N2: every malicious frame is counted exactly once at its sender (outbound) and at each interface that took it (inbound)
CountedOncePerFrame ==
    \A i \in 1..N :
        IF by.dir
        THEN Total(nmne[i], "outbound") = sentMal[i] /\ Total(nmne[i], "inbound") = accMal[i]
        ELSE Total(nmne[i], "") = sentMal[i] + accMal[i]
\* N2: the key carries exactly the configured dimensions
KeysWellFormed ==
    \A i \in 1..N : \A k \in DOMAIN nmne[i] :
        /\ (by.dir /\ k.dir \in {"inbound", "outbound"}) \/ (~by.dir /\ k.dir = "")
        /\ (by.ip /\ k.ip # "") \/ (~by.ip /\ k.ip = "")
        /\ (by.kw /\ k.kw \in kws) \/ (~by.kw /\ k.kw = "*")
        /\ nmne[i][k] > 0
\* N3, A5, A6 as step properties
CountsNeverDecrease == [][act'.a # "NewEpisode" => NoCountDecreases(nmne, nmne')]_mvars
LoadResetsEachTimestep == [][act'.a = "Tick" => load' = Zero]_mvars
LoadOnlyGrowsWithinTimestep == [][act'.a \notin {"Tick", "NewEpisode"} => \A f \in Freqs : load'[f] >= load[f]]_mvars
\* a refused frame (same state after a Send) reaches nobody and counts nowhere
DroppedReachesNobody == [][(act'.a = "Send" /\ stack' = stack) => (load' = load /\ nmne' = nmne)]_mvars
=============================================================================
