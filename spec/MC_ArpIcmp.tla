---------------------------- MODULE MC_ArpIcmp ----------------------------
(* Exhaustive model of ArpIcmp: two hosts a, c and a router r on segment 1 *)
(* (network 1), host b behind r on segment 2 (network 2); address 4 is a   *)
(* dead address of network 1, address 7 lies on no modelled network; c has *)
(* no default gateway.  Stimuli (only when the previous call has           *)
(* returned): ping, send_arp_request, interface enable / disable, power    *)
(* off / on, ARP.clear.  Between stimuli the model takes every order of    *)
(* deliveries, replies, forwarding and counting (the code takes one of     *)
(* them: depth first).                                                     *)
(* An echo reply carries the request's sequence number + 1, as coded (no   *)
(* clause speaks about it).  Negative configurations TLC must refute:      *)
(* AsCoded = TRUE (MC_ArpIcmpAsCodedGw.cfg) - a host that cannot resolve   *)
(* an address of its own subnet sends the frame to its default gateway     *)
(* (known finding); BadId = TRUE (MC_ArpIcmpBadId.cfg) - a mutant whose    *)
(* echo replies carry another identifier than the request; AnyPort = TRUE  *)
(* (MC_ArpIcmpAnyPort.cfg) - a mutant router that answers an ARP request   *)
(* for the address of ANY of its enabled interfaces with the MAC of the    *)
(* interface that heard it.                                                *)
(* Layout 1: the network above.  Layout 2 (mixed masks on one segment):    *)
(* host p with a wide mask (its subnet also holds the far router port and  *)
(* host q) -- r -- q.  Layout 3: host p and TWO ports of router r in one    *)
(* broadcast domain, one subnet.                                           *)
EXTENDS ArpIcmp, TLC

CONSTANTS MaxStim, MaxPings, AsCoded, BadId, AnyPort, Layout, Pingers, Toggle

VARIABLES nstim,     \* stimuli so far
          tried,     \* <<n, ip>> send_arp_request calls of the current top-level call
          pend       \* interfaces that are coming up after a power-on, hosts that owe a gateway hello
mvars == <<avars, nstim, tried, pend>>
View == <<dvars, nstim, tried, pend>>

I(n, ip, mac, seg) == [node |-> n, ip |-> ip, mac |-> mac, seg |-> seg]
IFS == CASE Layout = 1 -> << I(1, 1, 1, 1), I(2, 2, 2, 1), I(3, 3, 3, 1), I(3, 6, 4, 2), I(4, 5, 5, 2) >>
         [] Layout = 2 -> << I(1, 1, 1, 1), I(2, 2, 2, 1), I(2, 3, 3, 2), I(3, 4, 4, 2) >>
         [] Layout = 3 -> << I(1, 1, 1, 1), I(2, 2, 2, 1), I(2, 3, 3, 1) >>
KIND == CASE Layout = 1 -> <<"host", "host", "router", "host">>
          [] Layout = 2 -> <<"host", "router", "host">>
          [] Layout = 3 -> <<"host", "router">>
GW == CASE Layout = 1 -> <<3, 0, 0, 6>> [] Layout = 2 -> <<2, 0, 3>> [] Layout = 3 -> <<0, 0>>
\* addresses: layout 1: 4 = dead address of network 1, 7 = on no network; layout 2: 5 = dead address that only p's wide
\* mask holds; layout 3: 4 = dead address
SUB == CASE Layout = 1 -> << {1, 2, 3, 4}, {1, 2, 3, 4}, {1, 2, 3, 4}, {5, 6}, {5, 6} >>
         [] Layout = 2 -> << {1, 2, 3, 4, 5}, {1, 2}, {3, 4}, {3, 4} >>
         [] Layout = 3 -> << {1, 2, 3, 4}, {1, 2, 3, 4}, {1, 2, 3, 4} >>
AllIps == CASE Layout = 1 -> 1..7 [] Layout = 2 -> 1..5 [] Layout = 3 -> 1..4
NN == 1..Len(KIND)
NI == 1..Len(IFS)

Init ==
    /\ ArpInit(IFS, KIND, GW, SUB, [n \in NN |-> TRUE], [i \in NI |-> TRUE], [n \in NN |-> Empty])
    /\ nstim = 0 /\ tried = {} /\ pend = [ifup |-> {}, hello |-> {}]

Idle == ping.n = 0 /\ wire = {} /\ owed = {} /\ fwd = {} /\ tok = {} /\ tried = {}
        /\ pend.ifup = {} /\ pend.hello = {} /\ \A n \in Nodes : ask[n].left = 0
Stim == Idle /\ nstim < MaxStim /\ nstim' = nstim + 1

\* where node n sends a frame for address ip: the next hop and the interface
Hop(n, ip) == IF LocalUpIf(n, ip) # {} THEN ip ELSE IF kind[n] = "host" THEN gw[n] ELSE 0
CodedHop(n, ip) ==      \* as coded: the gateway also stands in for an unresolved address of the own subnet
    IF AsCoded /\ kind[n] = "host" /\ gw[n] # 0 /\ Hop(n, ip) = ip /\ ip \notin DOMAIN cache[n] /\ <<n, ip>> \in tried
    THEN gw[n] ELSE Hop(n, ip)
Ready(n, hop) == hop # 0 /\ hop \in DOMAIN cache[n] /\ up[cache[n][hop].ifc] /\ power[n]
Frame(k, out, edst, isrc, idst, id, seq, sip, smac, tip, tmac) ==
    [fid |-> nfid, k |-> k, out |-> out, edst |-> edst, isrc |-> isrc, idst |-> idst, id |-> id, seq |-> seq,
     sip |-> sip, smac |-> smac, tip |-> tip, tmac |-> tmac]
Deliveries == \E i \in Ifs, f \in wire : Deliverable(i, f)
\* nothing is in flight any more
Settled == ~Deliveries /\ owed = {} /\ fwd = {} /\ tok = {} /\ \A n \in Nodes : ask[n].left = 0

--------------------------------------------------------------------------
\* stimuli
MPing(n, tgt, c) == Stim /\ PingStart(n, tgt, c) /\ UNCHANGED <<tried, pend>>
MLookup(n, ip) == Stim /\ ArpAsk(n, ip) /\ tried' = {<<n, ip>>} /\ UNCHANGED pend
MIfDown(i) == Stim /\ up[i] /\ SetIf(i, FALSE) /\ UNCHANGED <<tried, pend>>
MIfUp(i) == Stim /\ ~up[i] /\ power[ifs[i].node] /\ SetIf(i, TRUE)
            /\ pend' = [pend EXCEPT !.hello = IF kind[ifs[i].node] = "host" /\ gw[ifs[i].node] # 0
                                              THEN {ifs[i].node} ELSE {}]
            /\ UNCHANGED tried
MPowerOff(n) == Stim /\ power[n] /\ SetPower(n, FALSE) /\ UNCHANGED <<tried, pend>>
MPowerOn(n) == Stim /\ ~power[n] /\ SetPower(n, TRUE) /\ pend' = [pend EXCEPT !.ifup = IfsOf(n)] /\ UNCHANGED tried
MClear(n) == Stim /\ cache[n] # Empty /\ ClearCache(n) /\ UNCHANGED <<tried, pend>>

\* the rest of a power-on: every interface comes up, a host then greets its gateway
MComesUp(i) ==
    /\ i \in pend.ifup /\ SetIf(i, TRUE)
    /\ pend' = [ifup |-> pend.ifup \ {i},
                hello |-> IF kind[ifs[i].node] = "host" /\ gw[ifs[i].node] # 0
                          THEN pend.hello \cup {ifs[i].node} ELSE pend.hello]
    /\ UNCHANGED <<nstim, tried>>
MHello(n) ==
    /\ n \in pend.hello /\ pend.ifup = {} /\ ask[n].left = 0
    /\ ArpAsk(n, gw[n])
    /\ pend' = [pend EXCEPT !.hello = @ \ {n}] /\ tried' = tried \cup {<<n, gw[n]>>}
    /\ UNCHANGED nstim

--------------------------------------------------------------------------
\* the protocol's own steps
MDeliver(i, fid) == Rx(i, fid) /\ UNCHANGED <<nstim, tried, pend>>

\* send_arp_request transmits (or finds the interface down)
MAskTx(n) ==
    /\ ask[n].left = 1
    /\ LET outs == {i \in LocalIf(n, ask[n].tip) : up[i] /\ power[n]} IN
       IF outs = {}
       THEN /\ ask' = [ask EXCEPT ![n] = NoAsk] /\ act' = <<"AskDrop", n>>
            /\ UNCHANGED <<cvars, power, up, cache, tally, ping, owed, fwd, tok, wire, got, nfid, last>>
       ELSE LET i == CHOOSE i \in outs : TRUE IN
            Tx(Frame("areq", i, Bcast, ifs[i].ip, ask[n].tip, 0, 0, ifs[i].ip, ifs[i].mac, ask[n].tip, 0), TRUE)
    /\ UNCHANGED <<nstim, tried, pend>>

\* somebody needs `hop' resolved: one send_arp_request per address and call
Needs(n, hop) ==
    \/ ping.n = n /\ ping.sent < ping.cnt /\ Settled /\ Hop(n, ping.tgt) = hop
    \/ \E o \in owed : o.n = n /\ o.k = "erep" /\ Hop(n, o.to) = hop
    \/ \E t \in fwd : t.n = n /\ Hop(n, t.idst) = hop
MResolve(n, hop) ==
    /\ hop # 0 /\ Needs(n, hop) /\ power[n]
    /\ hop \notin DOMAIN cache[n] /\ <<n, hop>> \notin tried /\ ask[n].left = 0
    /\ ArpAsk(n, hop) /\ tried' = tried \cup {<<n, hop>>}
    /\ UNCHANGED <<nstim, pend>>

MArpReply(o) ==
    /\ o \in owed /\ o.k = "arep" /\ up[o.via] /\ power[o.n]
    /\ \E out \in LocalUpIf(o.n, o.to) :       \* the reply names the owner, it leaves through any interface towards the asker
          Tx(Frame("arep", out, o.mac, ifs[out].ip, o.to, 0, 0, ifs[o.via].ip, ifs[o.via].mac, o.to, o.mac), TRUE)
    /\ UNCHANGED <<nstim, tried, pend>>
MEchoReply(o) ==
    /\ o \in owed /\ o.k = "erep"
    /\ LET hop == CodedHop(o.n, o.to) IN
       /\ Ready(o.n, hop)
       /\ LET out == cache[o.n][hop].ifc IN
          Tx(Frame("erep", out, cache[o.n][hop].mac, ifs[out].ip, o.to, IF BadId THEN o.id + 1 ELSE o.id,
                   o.seq + 1, 0, 0, 0, 0), TRUE)
    /\ UNCHANGED <<nstim, tried, pend>>
\* (mutant AnyPort) a router interface that heard a request for the address of ANOTHER enabled interface of its router
\* answers it with its own MAC
MRogueReply(i, g) ==
    /\ AnyPort /\ g \in wire /\ g.k = "areq" /\ <<g.fid, i>> \in got /\ kind[ifs[i].node] = "router" /\ up[i]
    /\ g.tip # ifs[i].ip /\ OwnUp(ifs[i].node, g.tip)
    /\ ~\E h \in wire : h.k = "arep" /\ h.out = i /\ h.sip = g.tip /\ h.tip = g.sip
    /\ Tx(Frame("arep", i, g.smac, ifs[i].ip, g.sip, 0, 0, g.tip, ifs[i].mac, g.sip, g.smac), TRUE)
    /\ UNCHANGED <<nstim, tried, pend>>
MForward(t) ==
    /\ t \in fwd
    /\ LET hop == Hop(t.n, t.idst) IN
       /\ Ready(t.n, hop)
       /\ LET out == cache[t.n][hop].ifc IN
          Tx(Frame(t.k, out, cache[t.n][hop].mac, t.isrc, t.idst, t.id, t.seq, 0, 0, 0, 0), TRUE)
    /\ UNCHANGED <<nstim, tried, pend>>
\* what cannot be sent after its address was asked for is given up
Stuck(n, ip) == LET hop == CodedHop(n, ip) IN
    hop = 0 \/ ~power[n] \/ (hop \in DOMAIN cache[n] /\ ~up[cache[n][hop].ifc])
    \/ (hop \notin DOMAIN cache[n] /\ (<<n, hop>> \in tried \/ LocalIf(n, hop) = {}) /\ ask[n].left = 0 /\ ~Deliveries
        /\ ~\E o \in owed : o.k = "arep")
MGiveUp ==
    /\ \/ \E o \in owed : /\ (IF o.k = "arep" THEN ~up[o.via] \/ ~power[o.n] \/ LocalUpIf(o.n, o.to) = {} ELSE Stuck(o.n, o.to))
                          /\ owed' = owed \ {o} /\ UNCHANGED fwd
       \/ \E t \in fwd : Stuck(t.n, t.idst) /\ fwd' = fwd \ {t} /\ UNCHANGED owed
    /\ act' = <<"GiveUp">>
    /\ UNCHANGED <<cvars, power, up, cache, tally, ping, ask, tok, wire, got, nfid, last, nstim, tried, pend>>

\* one round of ICMP._send_icmp_echo_request: send, or skip the attempt
MEchoRequest ==
    /\ ping.n # 0 /\ ping.sent < ping.cnt /\ Settled
    /\ LET n == ping.n  hop == CodedHop(n, ping.tgt) IN
       /\ Ready(n, hop)
       /\ LET out == cache[n][hop].ifc IN
          Tx(Frame("ereq", out, cache[n][hop].mac, ifs[out].ip, ping.tgt, nstim, ping.sent + 1, 0, 0, 0, 0), TRUE)
    /\ UNCHANGED <<nstim, tried, pend>>
MEchoSkip ==
    /\ ping.n # 0 /\ ping.sent < ping.cnt /\ Settled
    /\ Stuck(ping.n, ping.tgt)
    /\ ping' = [ping EXCEPT !.sent = @ + 1]
    /\ act' = <<"EchoSkip">>
    /\ UNCHANGED <<cvars, power, up, cache, tally, ask, owed, fwd, tok, wire, got, nfid, last, nstim, tried, pend>>
MCount(t) == t \in tok /\ power[t.n] /\ CountReply(t.n, t.id) /\ UNCHANGED <<nstim, tried, pend>>
MPingEnd == /\ ping.n # 0 /\ ping.sent = ping.cnt /\ Settled
            /\ PingEnd(ping.n, PingResult) /\ UNCHANGED <<nstim, tried, pend>>
MQuiet == /\ ping.n = 0 /\ Settled /\ pend.ifup = {} /\ pend.hello = {} /\ (wire # {} \/ tried # {})
          /\ Quiet /\ tried' = {} /\ UNCHANGED <<nstim, pend>>

\* (named wrappers: TLC reports coverage per named action)
APing == \E n \in Pingers, tgt \in AllIps, c \in 1..MaxPings : tgt \notin IpsOf(n) /\ MPing(n, tgt, c)
ALookup == \E n \in Pingers, ip \in AllIps : ip \notin IpsOf(n) /\ MLookup(n, ip)
AIfDown == \E i \in Toggle : MIfDown(i)
AIfUp == \E i \in Toggle : MIfUp(i)
APowerOff == \E i \in Toggle : MPowerOff(IFS[i].node)
APowerOn == \E i \in Toggle : MPowerOn(IFS[i].node)
AClear == \E n \in NN : MClear(n)
AComesUp == \E i \in NI : MComesUp(i)
AHello == \E n \in NN : MHello(n)
AAskTx == \E n \in NN : MAskTx(n)
AResolve == \E n \in NN, hop \in AllIps : MResolve(n, hop)
ADeliver == \E i \in NI, fid \in {f.fid : f \in wire} : MDeliver(i, fid)
ARogue == \E i \in NI, g \in wire : MRogueReply(i, g)
AArpReply == \E o \in owed : MArpReply(o)
AEchoReply == \E o \in owed : MEchoReply(o)
AForward == \E t \in fwd : MForward(t)
ACount == \E t \in tok : MCount(t)
Next ==
    \/ APing \/ ALookup \/ AIfDown \/ AIfUp \/ APowerOff \/ APowerOn \/ AClear
    \/ AComesUp \/ AHello \/ AAskTx \/ AResolve \/ ADeliver \/ AArpReply \/ AEchoReply \/ AForward \/ ACount \/ ARogue
    \/ MGiveUp \/ MEchoRequest \/ MEchoSkip \/ MPingEnd \/ MQuiet
Spec == Init /\ [][Next]_mvars

\* clauses as invariants / action properties of the model
CacheOnlyByRx == [][CacheStep]_mvars
\* an ARP reply names the (address, MAC) pair of one interface of the replying node that owns the address, and there
\* are never more replies than requests for it
ArpReplyOnlyByOwner ==
    \A f \in wire : f.k = "arep" =>
        /\ \E j \in IfsOf(ifs[f.out].node) : ifs[j].ip = f.sip /\ ifs[j].mac = f.smac
        /\ Cardinality({h \in wire : h.k = "arep" /\ h.sip = f.sip /\ h.tip = f.tip})
              <= Cardinality({g \in wire : g.k = "areq" /\ g.tip = f.sip /\ g.sip = f.tip})
\* a reply on the wire answers a request on the wire with the same identifier, and there are never more replies
\* than requests under one identifier
EchoReplySameIdentifier ==
    \A f \in wire : f.k = "erep" =>
        /\ \E g \in wire : g.k = "ereq" /\ g.id = f.id
        /\ Cardinality({h \in wire : h.k = "erep" /\ h.id = f.id /\ h.out = f.out})
              <= Cardinality({g \in wire : g.k = "ereq" /\ g.id = f.id})
\* an echo frame of a host for an address of one of its subnets goes to the MAC its cache holds for that address
\* (entries never change while frames are on the wire)
UnicastToResolvedMac ==
    \A f \in wire : LET n == ifs[f.out].node IN
        (f.k \in {"ereq", "erep"} /\ kind[n] = "host" /\ LocalIf(n, f.idst) # {})
            => (f.idst \in DOMAIN cache[n] /\ cache[n][f.idst].mac = f.edst)
=============================================================================
