SPECIFICATION TraceSpec
CONSTRAINT Record
POSTCONDITION Report
CHECK_DEADLOCK FALSE
