----------------------------- MODULE NmapTrace -----------------------------
(* Trace validation of recorded NMAP scans against Nmap.tla (batch idiom).  *)
(* A trace is [cfg, ev]:                                                    *)
(*  cfg = [nodes |-> <<[n, kind, gw, inst]>>, own |-> <<[a, n]>>, nets |-> <<[k, lo, hi]>>, ifnet |-> <<[a, lo, hi]>>, swpp |-> <<[name, p, q]>>, lis |-> <<[n, name, q]>>, *)
(*         deny |-> <<[p, q]>>, routed, st |-> the world at the start, skip |-> <<clause names not judged>>]        *)
(*  event = [ev, node, kind, via, tg, pr, po, addr, proto, port, flag, n, m, res, name, js, same, hasst, st]        *)
(*    ScanStart  node = scanner, kind, via, tg / pr / po = the request (defaults resolved)                           *)
(*    Ping       addr, flag = verdict of ICMP.ping, n = echo requests / m = other frames the scanner sent meanwhile   *)
(*    PortPhase  tg = the addresses network_service_recon hands to port_scan                                         *)
(*    Probe      addr, proto, port                                                                                   *)
(*    Answer     node = the node whose NMAP handled the probe, addr / proto / port of the payload, flag = answered    *)
(*    Response   node = the node whose NMAP took the response                                                        *)
(*    ProbeEnd   addr, proto, port, flag = reported open, n = probe frames / m = other frames the scanner sent       *)
(*    ScanEnd    flag = success, res = <<[a, p, q]>> as reported, js = json round trip ok, same = the other nodes'   *)
(*               describe_state (ARP / MAC tables, sessions, traffic and ACL hit counters aside) is as before,        *)
(*               n / m = frames the scanner sent outside any ping / probe, st (hasst) = the world after the scan     *)
(*    Power / Nic / Sw   node / addr / name, flag = up, st = the world after the change                              *)
(*    EnvSet     st = the world as found (scenario-scale runs)                                                       *)
(*  st = [on |-> <<node>>, nic |-> <<address>>, run |-> <<[n, sw |-> <<name>>]>>]; unused fields carry 0 / FALSE / "" / <<>>. *)
EXTENDS Nmap, TLC, TLCExt, Json, IOUtils

Traces == JsonDeserialize(IOEnv.TRACE_FILE)

VARIABLES tid, l
tvars == <<nvars, tid, l>>

T == Traces[tid].ev
Cfg == Traces[tid].cfg

Pick(s, k, x) == s[CHOOSE i \in 1..Len(s) : s[i][k] = x]
Keys(s, k) == {s[i][k] : i \in 1..Len(s)}
StOf(st) == [on |-> SetOf(st.on), nic |-> SetOf(st.nic), run |-> [x \in Keys(st.run, "n") |-> SetOf(Pick(st.run, "n", x).sw)]]
EnvNow == [on |-> on, nic |-> nicUp, run |-> run]
Tri(r) == <<r.a, r.p, r.q>>
ResOf(res) == [i \in 1..Len(res) |-> Tri(res[i])]
ScanEvents == {"ScanStart", "Ping", "PortPhase", "Probe", "Answer", "Response", "ProbeEnd", "ScanEnd"}
EnvEvents == {"Power", "Nic", "Sw", "EnvSet"}

Clauses(e) ==
    LET cur == scan.cur
        sn == scan.n
        res == ResOf(e.res)
        ord == IF scan.kind = "ping" THEN scan.tg ELSE scan.pt
        end == e.ev = "ScanEnd" IN
    [ OneScanAtATime |-> (e.ev = "ScanStart" => scan.phase = "idle") /\ (e.ev \in EnvEvents => scan.phase = "idle")
                         /\ (e.ev \in ScanEvents \ {"ScanStart"} => scan.phase # "idle"),
      PingsInRequestOrder |-> e.ev = "Ping" => (scan.phase = "ping" /\ PingSlot(e.addr) # {}),
      PingScanExact |-> (e.ev = "Ping" /\ scan.ready) => (Owner(e.addr) = sn \/ e.flag = PingExp(sn, e.addr, e.flag)),
      NeverDeadAddress |-> /\ (e.ev = "Ping" /\ e.flag) => (~IsNetOrBcast(e.addr, scan.ts) /\ Live(e.addr) /\ CanSend(sn))
                           /\ end => \A i \in 1..Len(res) : ~IsNetOrBcast(res[i][1], scan.ts) /\ Alive(res[i][1], ClsOf(res[i])),
      ProbesBounded |-> /\ e.ev = "Ping" => e.n <= MaxEcho
                        /\ e.ev = "ProbeEnd" => e.n <= 1
                        /\ end => (e.n = 0 /\ e.m = 0),
      NoTrafficUnlessRunning |-> (e.ev \in {"Ping", "ProbeEnd", "ScanEnd"} /\ ~scan.ready) => (e.n = 0 /\ e.m = 0),
      ReconScansOnlyLiveHosts |-> e.ev = "PortPhase" => (scan.kind = "recon" /\ scan.phase = "ping" /\ e.tg = scan.live),
      OneProbePerTriple |-> e.ev = "Probe" => (scan.phase = "port" /\ cur = NoCur /\ <<e.addr, e.proto, e.port>> \in scan.todo),
      AnswerByAddressee |-> e.ev = "Answer" =>
            (cur # NoCur /\ ~cur.seen /\ e.addr = cur.a /\ e.proto = cur.p /\ e.port = cur.q
             /\ e.node \in Nodes /\ Owner(cur.a) = e.node /\ e.node \in on /\ "nmap" \in run[e.node]),
      AnswerIffOpen |-> (e.ev = "Answer" /\ e.node \in Nodes) => (e.flag = (<<e.proto, e.port>> \in Open(e.node))),
      ResponseOnlyAfterAnswer |-> e.ev = "Response" => (cur # NoCur /\ cur.ans /\ ~cur.resp /\ e.node = sn),
      OpenIffResponse |-> e.ev = "ProbeEnd" => (cur # NoCur /\ e.flag = cur.resp),
      PortOpenIffListening |-> e.ev = "ProbeEnd" => (e.flag = (scan.ready /\ OpenExp(sn, e.addr, e.proto, e.port, e.flag))),
      ScanRunsToEnd |-> ((e.ev = "PortPhase" /\ scan.ready) => PingPhaseDone) /\ ((end /\ scan.ready) => ScanFinished),
      FoundIsReported |-> (end /\ scan.ready) =>
            IF scan.kind = "ping" THEN (AddrsSeq(res) = scan.live /\ \A i \in 1..Len(res) : res[i][2] = "" /\ res[i][3] = 0)
            ELSE (SetOf(res) = SetOf(scan.found) /\ Len(res) = Len(scan.found)),
      PortScanExact |-> (end /\ scan.kind \in {"port", "recon"} /\ scan.ready) =>
            SetOf(res) = {t \in Triples(sn, scan.pt, scan.pr, scan.po) : OpenExp(sn, t[1], t[2], t[3], t \in SetOf(res))},
      NothingForDeadTargets |-> (end /\ scan.kind \in {"port", "recon"}) =>
            \A i \in 1..Len(res) : /\ Alive(res[i][1], ClsOf(res[i])) /\ CanSend(sn)
                                   /\ Determined(sn, res[i][1], ClsOf(res[i])) => PathModel(sn, res[i][1], ClsOf(res[i])),
      ResultInRequestOrder |-> end => (NoDup(res) /\ AddrProtoOrdered(res, ord, scan.pr, scan.po)),
      PortsInRequestOrder |-> end => PortsOrdered(res, ord, scan.pr, scan.po),
      NotRunningReturnsNothing |-> (end /\ ~scan.ready) => (res = <<>> /\ (scan.via = "request" => ~e.flag)),
      RunningSucceeds |-> (end /\ scan.ready) => e.flag,
      ResultJsonSerialisable |-> end => e.js,
      TargetsUntouched |-> (end => e.same) /\ ((e.ev \in ScanEvents /\ e.hasst) => StOf(e.st) = EnvNow),
      EnvAsModelled |-> /\ e.ev \in EnvEvents => e.hasst
                        /\ e.ev = "Power" => (e.node \in Nodes /\ StOf(e.st) = PowerSt(e.node, e.flag))
                        /\ e.ev = "Nic" => (e.addr \in DOMAIN own /\ StOf(e.st) = NicSt(e.addr, e.flag))
                        /\ e.ev = "Sw" => (e.node \in Nodes /\ StOf(e.st) = SwSt(e.node, e.name, e.flag))
                        /\ e.ev = "EnvSet" => DOMAIN StOf(e.st).run = Nodes,
      FieldsAsDeclared |->
            /\ e.ev \notin {"ScanStart", "PortPhase"} => (e.tg = <<>> /\ e.pr = <<>> /\ e.po = <<>> /\ e.kind = "" /\ e.via = "")
            /\ e.ev \notin {"Ping", "Probe", "Answer", "ProbeEnd", "Nic"} => e.addr = 0
            /\ e.ev \notin {"Probe", "Answer", "ProbeEnd"} => (e.proto = "" /\ e.port = 0)
            /\ e.ev \notin {"Ping", "ProbeEnd", "ScanEnd"} => (e.n = 0 /\ e.m = 0)
            /\ e.ev # "ScanEnd" => (e.res = <<>> /\ e.js /\ e.same)
            /\ e.ev # "Sw" => e.name = ""
            /\ e.ev \in {"ScanStart", "Response", "PortPhase", "EnvSet"} => ~e.flag
            /\ e.ev \notin {"ScanStart", "Answer", "Response", "Power", "Sw"} => e.node = ""
            /\ ~e.hasst => (e.st.on = <<>> /\ e.st.nic = <<>> /\ e.st.run = <<>>)
    ]
Skip == {Cfg.skip[j] : j \in 1..Len(Cfg.skip)}
Failing(e) == LET cl == Clauses(e) IN {c \in DOMAIN cl : ~cl[c]} \ Skip

Step(e) ==
    CASE e.ev = "ScanStart" -> ScanStart(e.node, e.kind, e.via, e.tg, e.pr, e.po)
      [] e.ev = "Ping"      -> Ping(e.addr, e.flag, e.n, e.m)
      [] e.ev = "PortPhase" -> PortPhase(e.tg)
      [] e.ev = "Probe"     -> Probe(e.addr, e.proto, e.port)
      [] e.ev = "Answer"    -> Answer(e.node, e.flag)
      [] e.ev = "Response"  -> Response(e.node)
      [] e.ev = "ProbeEnd"  -> ProbeEnd(e.addr, e.proto, e.port, e.flag, e.n, e.m)
      [] e.ev = "ScanEnd"   -> ScanEnd(e.flag, ResOf(e.res))
      [] e.ev = "Power"     -> Power(e.node, e.flag, StOf(e.st))
      [] e.ev = "Nic"       -> Nic(e.addr, e.flag, StOf(e.st))
      [] e.ev = "Sw"        -> Sw(e.node, e.name, e.flag, StOf(e.st))
      [] e.ev = "EnvSet"    -> EnvSet(StOf(e.st))
      [] OTHER -> FALSE

NodeNames == Keys(Cfg.nodes, "n")
St0 == StOf(Cfg.st)
TraceInit ==
    /\ tid \in 1..Len(Traces)
    /\ l = 1
    /\ NmapInit([x \in NodeNames |-> Pick(Cfg.nodes, "n", x).kind],
                [x \in NodeNames |-> Pick(Cfg.nodes, "n", x).gw],
                [x \in NodeNames |-> SetOf(Pick(Cfg.nodes, "n", x).inst)],
                [x \in Keys(Cfg.own, "a") |-> Pick(Cfg.own, "a", x).n],
                [x \in Keys(Cfg.nets, "k") |-> [lo |-> Pick(Cfg.nets, "k", x).lo, hi |-> Pick(Cfg.nets, "k", x).hi]],
                [x \in Keys(Cfg.ifnet, "a") |-> [lo |-> Pick(Cfg.ifnet, "a", x).lo, hi |-> Pick(Cfg.ifnet, "a", x).hi]],
                [x \in Keys(Cfg.swpp, "name") |-> <<Pick(Cfg.swpp, "name", x).p, Pick(Cfg.swpp, "name", x).q>>],
                {<<Cfg.lis[i].n, Cfg.lis[i].name, Cfg.lis[i].q>> : i \in 1..Len(Cfg.lis)},
                {<<Cfg.deny[i].p, Cfg.deny[i].q>> : i \in 1..Len(Cfg.deny)},
                Cfg.routed, St0.on, St0.nic, St0.run)

TraceNext ==
    /\ l <= Len(T)
    /\ Failing(T[l]) = {}
    /\ Step(T[l])
    /\ l' = l + 1
    /\ UNCHANGED tid

TraceSpec == TraceInit /\ [][TraceNext]_tvars

Seen == TLCGet(tid)
Brief == [kind |-> scan.kind, scanner |-> scan.n, ready |-> scan.ready, phase |-> scan.phase, pi |-> scan.pi,
          live |-> scan.live, pt |-> scan.pt, cur |-> scan.cur, found |-> scan.found, left |-> Cardinality(scan.todo),
          nodeson |-> on, nicup |-> nicUp, deny |-> deny]
Record ==
    IF l > Seen.pos
    THEN TLCSet(tid, [pos |-> l, fail |-> IF l <= Len(T) THEN Failing(T[l]) ELSE {}, st |-> Brief])
    ELSE TRUE
InitRegs == \A i \in 1..Len(Traces) : TLCSet(i, [pos |-> 0, fail |-> {}, st |-> <<>>])
ASSUME InitRegs

Report ==
    \A i \in 1..Len(Traces) :
        LET r == TLCGet(i) IN
        /\ PrintT(<<"TRACE", i, r.pos, Len(Traces[i].ev)>>)
        /\ (r.pos = Len(Traces[i].ev) + 1 \/ PrintT(<<"STUCK", i, r.pos, r.fail, r.st>>))
=============================================================================
