------------------------------- MODULE AirNmne -------------------------------
(***************************************************************************)
(* Extension module (beyond the listed properties): the wireless AIR SPACE *)
(* (which interfaces a transmitted frame reaches, per-frequency capacity   *)
(* per timestep) and the NMNE capture (number of malicious network events) *)
(* of network interfaces.                                                  *)
(*                                                                         *)
(* Code: simulator/network/airspace.py (AirSpace.can_transmit_frame /      *)
(* transmit / reset_bandwidth_load, WirelessNetworkInterface.enable /      *)
(* disable / send_frame), hardware/nodes/network/wireless_router.py        *)
(* (WirelessAccessPoint.receive_frame, configure_wireless_access_point),   *)
(* simulator/network/nmne.py (NMNEConfig) and hardware/base.py             *)
(* (NetworkInterface._capture_nmne / send_frame / receive_frame /          *)
(* describe_state / setup_for_episode, Node.power_on / power_off).         *)
(*                                                                         *)
(* CLAUSES (the documented / evident contract) and where they come from    *)
(*  A1 ReceivedByExactlyTheOthersOnFrequency  - AirSpace.transmit docstring*)
(*     "Transmits a frame to all enabled wireless network interfaces on a  *)
(*     specific frequency within the airspace"; docs airspace.rst s.3 "data*)
(*     sent by an interface is received by all other interfaces on the same*)
(*     frequency"; wireless_router.rst "interactions with other wireless   *)
(*     devices within the same frequency band".                            *)
(*  A2 SenderNeverReceivesOwnFrame - transmit docstring "This ensures that *)
(*     a wireless interface does not receive its own transmission".        *)
(*  A3 DisabledNeitherSendsNorReceives / EnabledOnlyIfNodeOn -             *)
(*     WirelessNetworkInterface.send_frame docstring "sends a frame if the *)
(*     network interface is enabled ... False ... if the network interface *)
(*     is disabled"; enable(): "cannot be enabled as the connected Node is *)
(*     not powered on"; Node.power_off "disabling its NICs".               *)
(*  A4 LoadWithinCapacity - can_transmit_frame docstring "checks if adding  *)
(*     the size of the frame to the current bandwidth load of the frequency*)
(*     ... would exceed the maximum allowed bandwidth for that frequency"; *)
(*     airspace.rst "Bandwidth Management: Tracks data transmission over   *)
(*     frequencies to prevent overloading"; the capacity is the one of the *)
(*     scenario file (airspace: frequency_max_capacity_mbps override,      *)
(*     set_frequency_max_capacity_mbps docstring).                         *)
(*  A5 LoadResetsEachTimestep - reset_bandwidth_load docstring "effectively*)
(*     setting the load to zero"; called from Network.pre_timestep.        *)
(*  A6 OverCapacityDroppedForEveryone / NoDropWithoutReason - send_frame   *)
(*     comment "Drop frame ... Frame dropped as Link is at capacity": a    *)
(*     frame that does not fit reaches nobody; a frame that fits, sent by  *)
(*     an enabled interface, is transmitted (A1).                          *)
(*  N1 OnlyKeywordFramesCount - _capture_nmne "Proceed only if any NMNE    *)
(*     keyword is present in the frame payload"; NMNEConfig                *)
(*     nmne_capture_keywords "List of keywords to identify malicious       *)
(*     network events".                                                    *)
(*  N2 CountedOnceInItsDirectionUnderItsKey - NetworkInterface.send_frame  *)
(*     / receive_frame (base class bodies capture outbound / inbound);     *)
(*     docs network_interfaces.rst "NetworkInterface (Base Layer) ...      *)
(*     Malicious Network Events Monitoring: Enhances network interfaces    *)
(*     with the capability to monitor and capture Malicious Network Events";*)
(*     NMNEConfig capture_by_direction / _ip_address "organized by source  *)
(*     or destination IP address" / _protocol / _port / _keyword;          *)
(*     tests/integration_tests/network/test_capture_nmne.py (sender's      *)
(*     interface counts outbound, receiver's inbound, one per query).      *)
(*     [finding on the unchanged tree: WirelessAccessPoint, RouterInterface*)
(*     and SwitchPort override receive_frame (SwitchPort also send_frame)  *)
(*     without calling the NetworkInterface body: they never count inbound *)
(*     (SwitchPort: nor outbound); MC_AirNmneAsCoded.cfg is that variant.] *)
(*  N3 CountsNeverDecreaseWithinEpisode - NICObservation computes per-step *)
(*     differences of the running totals; only setup_for_episode clears.   *)
(*  N4 NothingCapturedWhenOffOrNoKeywords - _capture_nmne "Exit function if*)
(*     NMNE capturing is disabled"; NMNEConfig.capture_nmne.               *)
(*  N5 DescribeStateReportsTheCounts - NetworkInterface.describe_state     *)
(*     ("nmne" entry whenever capture is on).                              *)
(*                                                                         *)
(* Units are abstract (the harness uses bytes).  Everything that is        *)
(* configuration is a variable that never changes, so that one TLC run     *)
(* sweeps configurations and one trace batch mixes them.  Every interface  *)
(* sits on its own node (a wireless router has one access point).  `wl[i]' *)
(* FALSE = a wired interface: only the NMNE actions apply to it.           *)
(***************************************************************************)
EXTENDS Naturals, Sequences, FiniteSets

VARIABLES
    nIf,      \* interfaces are 1..nIf
    wl,       \* [Ifs -> BOOLEAN]   wireless?
    cap,      \* [Freqs -> Nat]     capacity of a frequency per timestep
    capture,  \* nmne_config.capture_nmne
    kws,      \* nmne_config.nmne_capture_keywords (a set)
    by,       \* [dir, ip, proto, port, kw |-> BOOLEAN]  capture_by_<dimension>
    on0, en0, \* [Ifs -> BOOLEAN]   power of the nodes / state of the interfaces when the episode starts
    nodeOn,   \* [Ifs -> BOOLEAN]   the node of the interface is powered on
    enabled,  \* [Ifs -> BOOLEAN]
    freq,     \* [Ifs -> Freqs \cup {0}]  operating frequency (0 = wired)
    load,     \* [Freqs -> Nat]     data put on the frequency since the last timestep began
    nmne,     \* [Ifs -> [Key -> Nat]]  counts (partial function: only keys that have a count)
    stack     \* frames on the air, innermost last: [snd, f, fr, exp, got]

cfgvars == <<nIf, wl, cap, capture, kws, by, on0, en0>>
avars == <<nIf, wl, cap, capture, kws, by, on0, en0, nodeOn, enabled, freq, load, nmne, stack>>

Ifs == 1..nIf
Freqs == DOMAIN cap
Zero == [f \in Freqs |-> 0]
Empty == [k \in {} |-> 0]
Top == stack[Len(stack)]

(* a frame is [sz, src, dst, proto, sport, dport, kw]: size, addresses, protocol, ports and the set of   *)
(* strings (candidate keywords) that its payload contains                                                 *)
Malicious(fr) == capture /\ (fr.kw \cap kws) # {}
Hits(fr) == IF by.kw THEN fr.kw \cap kws ELSE {"*"}
KeyOf(fr, d, k) ==
    [dir   |-> IF by.dir THEN d ELSE "",
     ip    |-> IF by.ip THEN (IF d = "inbound" THEN fr.src ELSE fr.dst) ELSE "",
     proto |-> IF by.proto THEN fr.proto ELSE "",
     port  |-> IF by.port THEN (IF d = "inbound" THEN fr.sport ELSE fr.dport) ELSE 0,
     kw    |-> k]
Keys(fr, d) == IF Malicious(fr) THEN {KeyOf(fr, d, k) : k \in Hits(fr)} ELSE {}
Bump(t, K) == [k \in DOMAIN t \cup K |-> (IF k \in DOMAIN t THEN t[k] ELSE 0) + (IF k \in K THEN 1 ELSE 0)]
\* the table of interface i after it captured frame fr in direction d
Captured(i, fr, d) == Bump(nmne[i], Keys(fr, d))

\* who must receive a frame transmitted by i now
Receivers(i) == {j \in Ifs \ {i} : wl[j] /\ enabled[j] /\ freq[j] = freq[i]}
Fits(i, fr) == load[freq[i]] + fr.sz <= cap[freq[i]]

AirNmneInit(n, w, c, cp, kw, b, o0, e0, fq0) ==
    /\ nIf = n /\ wl = w /\ cap = c /\ capture = cp /\ kws = kw /\ by = b
    /\ on0 = o0 /\ en0 = e0
    /\ nodeOn = o0 /\ enabled = e0 /\ freq = fq0
    /\ load = [f \in DOMAIN c |-> 0]
    /\ nmne = [i \in 1..n |-> Empty]
    /\ stack = <<>>

-----------------------------------------------------------------------------
(* Network.pre_timestep -> AirSpace.reset_bandwidth_load *)
Tick ==
    /\ stack = <<>>
    /\ load' = Zero
    /\ UNCHANGED <<cfgvars, nodeOn, enabled, freq, nmne, stack>>

(* WirelessNetworkInterface.send_frame returns False: the interface is disabled or the frame would take  *)
(* the frequency over its capacity.  Nobody receives it, nothing is counted.                              *)
Drop(i, fr) ==
    /\ i \in Ifs /\ wl[i]
    /\ ~enabled[i] \/ ~Fits(i, fr)
    /\ UNCHANGED avars

(* send_frame admits the frame: outbound capture at the sender (NetworkInterface.send_frame), the size   *)
(* goes on the frequency (AirSpace.transmit), the frame is on the air.                                    *)
Begin(i, fr) ==
    /\ i \in Ifs /\ wl[i]
    /\ enabled[i]
    /\ Fits(i, fr)
    /\ load' = [load EXCEPT ![freq[i]] = @ + fr.sz]
    /\ nmne' = [nmne EXCEPT ![i] = Captured(i, fr, "outbound")]
    /\ stack' = Append(stack, [snd |-> i, f |-> freq[i], fr |-> fr, exp |-> Receivers(i), got |-> {}])
    /\ UNCHANGED <<cfgvars, nodeOn, enabled, freq>>

(* AirSpace.transmit hands the innermost frame on the air to interface j (its receive_frame).  `acc':    *)
(* the interface took the frame (addressed to it or broadcast) and passed it to its node - then it is an *)
(* inbound network event of j; a frame the interface ignores may or may not be counted (`tbl' = table of *)
(* j afterwards).  The NMNE part is separate so that a design variant can replace it.                     *)
DeliverCore(j, tbl) ==
    /\ stack # <<>>
    /\ j \in Top.exp \ Top.got
    /\ enabled[j]
    /\ nmne' = [nmne EXCEPT ![j] = tbl]
    /\ stack' = [stack EXCEPT ![Len(stack)].got = @ \cup {j}]
    /\ UNCHANGED <<cfgvars, nodeOn, enabled, freq, load>>
InboundAllowed(j, fr, acc) ==
    IF acc THEN {Captured(j, fr, "inbound")} ELSE {nmne[j], Captured(j, fr, "inbound")}
Deliver(j, acc, tbl) ==
    /\ stack # <<>>
    /\ tbl \in InboundAllowed(j, Top.fr, acc)
    /\ DeliverCore(j, tbl)

(* AirSpace.transmit / send_frame return: everybody who had to receive the frame has received it *)
End ==
    /\ stack # <<>>
    /\ Top.got = Top.exp
    /\ stack' = SubSeq(stack, 1, Len(stack) - 1)
    /\ UNCHANGED <<cfgvars, nodeOn, enabled, freq, load, nmne>>

(* request network_interface enable / disable (NetworkInterface._init_request_manager) *)
SetEnabled(i, want, ok) ==
    /\ i \in Ifs
    /\ (want /\ ~nodeOn[i]) => ~ok                  \* cannot be enabled while the node is off
    /\ (want # enabled[i] /\ (want => nodeOn[i])) => ok
    /\ enabled' = IF ok THEN [enabled EXCEPT ![i] = want] ELSE enabled
    /\ UNCHANGED <<cfgvars, nodeOn, freq, load, nmne, stack>>

(* request node startup / shutdown with instantaneous durations (Node.power_on / power_off): the        *)
(* interfaces of the node follow its power                                                                *)
Power(i, want, ok) ==
    /\ i \in Ifs
    /\ (want # nodeOn[i]) => ok
    /\ nodeOn' = IF ok THEN [nodeOn EXCEPT ![i] = want] ELSE nodeOn
    /\ enabled' = IF ok THEN [enabled EXCEPT ![i] = want] ELSE enabled
    /\ UNCHANGED <<cfgvars, freq, load, nmne, stack>>

(* WirelessRouter.configure_wireless_access_point: "disables the WAP ... sets the WAP to operate on the  *)
(* specified frequency band and then re-enables the WAP"                                                  *)
Retune(i, f) ==
    /\ i \in Ifs /\ wl[i] /\ f \in Freqs
    /\ freq' = [freq EXCEPT ![i] = f]
    /\ enabled' = [enabled EXCEPT ![i] = nodeOn[i]]
    /\ UNCHANGED <<cfgvars, nodeOn, load, nmne, stack>>

(* NetworkInterface.describe_state: `has' = the state has an "nmne" entry, `rep' = that entry *)
Describe(i, has, rep) ==
    /\ i \in Ifs
    /\ capture => has
    /\ has => rep = nmne[i]
    /\ UNCHANGED avars

(* setup_for_episode (environment reset; Network.setup_for_episode "Reset the original state", Router:   *)
(* "re-enables all network interfaces"): counts are cleared, nodes and interfaces return to the state    *)
(* they started with.  The load of the current timestep is left alone or cleared.                        *)
NewEpisode(newLoad) ==
    /\ stack = <<>>
    /\ nmne' = [i \in Ifs |-> Empty]
    /\ nodeOn' = on0
    /\ enabled' = en0
    /\ newLoad \in {load, Zero}
    /\ load' = newLoad
    /\ UNCHANGED <<cfgvars, freq, stack>>

(* a WIRED interface puts a frame on its link / takes a frame from its link: the NMNE part only *)
WiredOut(i, fr) ==
    /\ i \in Ifs /\ ~wl[i]
    /\ nmne' = [nmne EXCEPT ![i] = Captured(i, fr, "outbound")]
    /\ UNCHANGED <<cfgvars, nodeOn, enabled, freq, load, stack>>
WiredIn(i, fr, acc, tbl) ==
    /\ i \in Ifs /\ ~wl[i]
    /\ tbl \in InboundAllowed(i, fr, acc)
    /\ nmne' = [nmne EXCEPT ![i] = tbl]
    /\ UNCHANGED <<cfgvars, nodeOn, enabled, freq, load, stack>>

-----------------------------------------------------------------------------
(* state clauses *)
LoadWithinCapacity == \A f \in Freqs : load[f] <= cap[f]
EnabledOnlyIfNodeOn == \A i \in Ifs : enabled[i] => nodeOn[i]
NothingCapturedWhenOffOrNoKeywords == (~capture \/ kws = {}) => \A i \in Ifs : nmne[i] = Empty
\* every frame on the air: never back to its sender, only to wireless interfaces, each at most once
SenderNeverReceivesOwnFrame == \A k \in 1..Len(stack) : stack[k].snd \notin stack[k].exp
OnAirWellFormed ==
    \A k \in 1..Len(stack) :
        /\ stack[k].got \subseteq stack[k].exp
        /\ \A j \in stack[k].exp : wl[j] /\ j # stack[k].snd
\* step clause: counts never go down except at an episode boundary
NoCountDecreases(old, new) ==
    \A i \in DOMAIN old : \A k \in DOMAIN old[i] : k \in DOMAIN new[i] /\ new[i][k] >= old[i][k]
=============================================================================
