SPECIFICATION TraceSpec
CONSTANTS
  Inst = {"A", "B"}
  Variant = "design"
CONSTRAINT Record
POSTCONDITION Report
CHECK_DEADLOCK FALSE
