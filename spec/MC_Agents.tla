----------------------------- MODULE MC_Agents -----------------------------
(* Exhaustive model of Agents: the *design* of the three kinds of scripted  *)
(* agents, composed from the module's actions (which carry the clauses of  *)
(* the statement as guards), swept over all small settings.                *)
(*                                                                         *)
(* The design draws a planned step `plan' like the code does and acts when *)
(* the step counter reaches it - mode "eq" (t = plan, periodic-agent) and  *)
(* mode "ge" (t >= plan, red-database-corrupting-agent) - up to maxExec    *)
(* times; the planned first step is never negative.  TLC checks            *)
(*   - deadlock freedom: every step the design wants to take is a step the *)
(*     module allows (a guard of the statement that the design violated    *)
(*     would leave the state without successor), and                       *)
(*   - the clauses as invariants over the history variables.               *)
(* Variants "coded_start" (the first plan is start +- startVar without a   *)
(* floor at 0, as PeriodicAgent draws it) and "coded_max" (mode "ge"       *)
(* ignores maxExec, as DataManipulationAgent does) reproduce the pinned     *)
(* code: TLC refutes both (a step the module does not allow = deadlock) -  *)
(* kept as documented counterexamples (MC_AgentsAsCodedStart.cfg,          *)
(* MC_AgentsAsCodedMax.cfg), not used by a check.                          *)
EXTENDS Agents, TLC

CONSTANTS MaxStart, MaxStartVar, MaxFreq, MaxExecs, Ticks, PerMille, TapMaxStart, TapMaxFreq, Variant

VARIABLES plan, mode, concluded
mvars == <<avars, plan, mode, concluded>>

Max(a, b) == IF a >= b THEN a ELSE b
FirstPlan(s, sv) == IF Variant = "coded_start" THEN (s - sv)..(s + sv) ELSE Max(0, s - sv)..(s + sv)
NextPlan == (t + freq - var)..(t + freq + var)

InitPeriodic ==
    \E s \in 0..MaxStart, sv \in 0..MaxStartVar, f \in 1..MaxFreq, mx \in 0..MaxExecs, m \in {"eq", "ge"} :
      \E v \in 0..(f - 1) :
        /\ AgentInit("periodic", s, sv, f, v, mx, {"n1", "n2"}, "node-application-execute", "app", <<>>, 0, FALSE, FALSE)
        /\ mode = m /\ concluded = FALSE
        /\ plan \in FirstPlan(s, sv)

InitProb ==
    \E pr \in [1..3 -> PerMille] :
        /\ \E i \in 1..3 : pr[i] > 0
        /\ AgentInit("prob", 0, 0, 1, 0, 0, {}, "", "", pr, 0, FALSE, FALSE)
        /\ mode = "" /\ concluded = FALSE /\ plan = 0

InitTap ==
    \E s \in 0..TapMaxStart, f \in 1..TapMaxFreq, n \in {5, 6}, rc \in BOOLEAN, rs \in BOOLEAN :
      \E v \in 0..(f - 1) :
        /\ AgentInit("tap", s, v, f, v, 0, {"n1", "c2"}, "", "", <<>>, n, rc, rs)
        /\ mode = "" /\ concluded = FALSE
        /\ plan \in FirstPlan(s, v)

Init == InitPeriodic \/ InitProb \/ InitTap

-----------------------------------------------------------------------------
Due == IF mode = "eq" THEN t = plan ELSE t >= plan
Left == IF Variant = "coded_max" /\ mode = "ge" THEN TRUE ELSE execs < maxExec

PeriodicAct ==
    /\ kind = "periodic" /\ t < Ticks
    /\ Due /\ Left
    /\ \E n \in nodes : (node = "" \/ n = node) /\ Act(t, n, action, app)
    /\ plan' \in NextPlan
    /\ UNCHANGED <<mode, concluded>>

PeriodicIdle ==
    /\ kind = "periodic" /\ t < Ticks
    /\ ~(Due /\ Left)
    /\ Idle(t)
    /\ UNCHANGED <<plan, mode, concluded>>

ProbStep ==
    /\ kind = "prob" /\ t < Ticks
    /\ \E i \in 0..(Len(p) - 1) : p[i + 1] > 0 /\ Choose(i)
    /\ UNCHANGED <<plan, mode, concluded>>

\* threat-actor agent: not its turn yet, or nothing left to do
TapWait ==
    /\ kind = "tap" /\ t < Ticks
    /\ (t < plan \/ concluded)
    /\ TapIdle(t, stage)
    /\ UNCHANGED <<plan, mode, concluded>>

Turn == kind = "tap" /\ t < Ticks /\ t >= plan /\ ~concluded /\ plan' \in NextPlan /\ mode' = mode

TapBegin == Turn /\ stage = NotStarted /\ TapIdle(t, 1) /\ concluded' = concluded

\* a turn inside a stage: the stage's action or nothing (do-nothing stages, failed trial, retry);
\* the stage is finished or not
TapWork ==
    /\ Turn /\ stage \in 1..nStages
    /\ \E s1 \in {stage, IF stage = nStages THEN Succeeded ELSE stage + 1}, acted \in BOOLEAN :
          IF acted THEN \E n \in nodes : TapAct(t, n, s1) ELSE TapIdle(t, s1)
    /\ concluded' = concluded

\* a failed trial / failed response when stages are not repeated
TapGiveUp ==
    /\ Turn /\ stage \in 1..nStages /\ ~repeatStages
    /\ TapIdle(t, Failed)
    /\ concluded' = concluded

\* ... and, when the chain is repeated, starts again within the same turn
TapGiveUpRestart ==
    /\ Turn /\ stage \in 1..nStages /\ ~repeatStages /\ repeatChain
    /\ TapIdle(t, NotStarted)
    /\ concluded' = concluded

TapRestart ==
    /\ Turn /\ stage \in Terminal /\ repeatChain
    /\ \E s1 \in {NotStarted, 1} : TapIdle(t, s1)
    /\ concluded' = concluded

\* (the response to the last action may still turn a provisional success into a failure)
TapConclude ==
    /\ Turn /\ stage \in Terminal /\ ~repeatChain
    /\ \E s1 \in (IF repeatStages THEN {stage} ELSE {stage, Failed}) : TapIdle(t, s1)
    /\ concluded' = TRUE

Done == t = Ticks /\ UNCHANGED mvars

Next ==
    \/ PeriodicAct \/ PeriodicIdle
    \/ ProbStep
    \/ TapWait \/ TapBegin \/ TapWork \/ TapGiveUp \/ TapGiveUpRestart \/ TapRestart \/ TapConclude
    \/ Done

Spec == Init /\ [][Next]_mvars

\* design-level: a concluded agent is in a terminal stage; settings never change
ConcludedIsTerminal == concluded => (stage \in Terminal /\ ~repeatChain)
=============================================================================
