SPECIFICATION Spec
CONSTANTS
  MaxDur = 2
  Layouts = {1}
INVARIANT TypeOK
PROPERTY Completes
CHECK_DEADLOCK FALSE
