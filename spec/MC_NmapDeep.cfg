SPECIFICATION Spec
CONSTANTS
  MaxEnv = 3
  MaxScans = 1
  CheckFirst = TRUE
  Scanners = {"a", "b"}
  EnvPerScan = 0
  Vias = {"request"}
INVARIANT TypeOK
INVARIANT EnvSane
INVARIANT InvPingScanExact
INVARIANT InvNeverDeadAddress
INVARIANT InvPortScanExact
INVARIANT InvNothingForDeadTargets
INVARIANT InvReconScansOnlyLiveHosts
INVARIANT InvResultInRequestOrder
INVARIANT InvPortsInRequestOrder
INVARIANT InvNotRunningReturnsNothing
INVARIANT InvRunningSucceeds
INVARIANT InvNoTrafficUnlessRunning
INVARIANT InvProbesBounded
INVARIANT InvFoundIsReported
PROPERTY MTargetsUntouched
PROPERTY MConfigNeverChanges
CHECK_DEADLOCK FALSE
