SPECIFICATION Spec
CONSTANTS
  Cl = {"c1", "c2"}
  Pws = {"none", "A"}
  Caps = {1, 2}
  Pwds = {"none", "A", "B"}
  MQ = {"SELECT", "INSERT", "DELETE", "ENCRYPT", "OTHER"}
  MaxIds = 5
  WTick = 6
  WData = 3
  WConn = 4
  DisruptEvery = 3
  MaxDepth = 1000
INVARIANT InvWithinCapacity
INVARIANT InvConnsIssued
CHECK_DEADLOCK FALSE
