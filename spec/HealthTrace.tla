---------------------------- MODULE HealthTrace ----------------------------
(* Trace validation of recorded health histories against Health.tla (C14).  *)
(* trace:  cfg = [fix, scan, rest, node, a, v, fh, fv, fov]                 *)
(* event:  [ev, i, ok, a, v, fh, fv, fov, lv, on, wr, stray]                *)
(*   ev    the request / tick phase that was executing when the watched     *)
(*         fields were written (every write to health_state_actual/visible, *)
(*         health_status, visible_health_status is attributed to one):      *)
(*         SwCompromise SwFix SwScan SwStart SwConnect SwInstall            *)
(*         FileScan FileCorrupt FileRepair FileRestore FileDelete           *)
(*         FolderScanReq FolderRestoreReq FolderCorrupt FolderRepair        *)
(*         OsScanReq SqlDelete SqlEncrypt PowerOff PowerOn                  *)
(*         TickBegin OsScanDone FixDone InstallDone FoScanDone RestoreDone  *)
(*         TickEnd | Other (anything else: another request, benign traffic, *)
(*         a write in no known context) | Raised                           *)
(*   i     file index (0 when not a file event), ok = request accepted      *)
(*   a, v  software true / visible health; fh, fv files' true / visible;    *)
(*         fov folder visible; on = node ON  (all read from the objects     *)
(*         after the event)                                                 *)
(*   lv    which of the two files were live (not deleted) before the event  *)
(*   wr    the fields whose value changed at some write inside the event    *)
(*         (also transiently), stray = writes outside any stimulus          *)
EXTENDS Health, TLC, TLCExt, Json, IOUtils

Traces == JsonDeserialize(IOEnv.TRACE_FILE)

VARIABLES tid, l
tvars == <<hvars, tid, l>>

T == Traces[tid].ev
Cfg == Traces[tid].cfg
SetOf(s) == {s[i] : i \in 1..Len(s)}
Live(e) == {i \in Files : e.lv[i]}

OneFileEvents == {"FileScan", "FileCorrupt", "FileRepair", "FileRestore", "SqlDelete", "SqlEncrypt", "FileDelete"}
Known == SwExplicit \cup FileExplicit \cup SwScanActs \cup FileScanActs \cup
         {"SwInstall", "FileDelete", "PowerOff", "TickBegin", "TickEnd"}

AllFV == {"fV1", "fV2"}
AllFH == {"fH1", "fH2"}
FileSlot(p, i) == IF i = 1 THEN {p \o "1"} ELSE IF i = 2 THEN {p \o "2"} ELSE {}
\* the fields an event may write with a new value
MayWrite(e) ==
    CASE e.ev \in {"SwCompromise", "SwFix", "SwStart", "SwConnect", "PowerOn", "InstallDone"} -> {"swA"}
      [] e.ev = "SwScan" -> {"swV"}
      [] e.ev = "FileScan" -> FileSlot("fV", e.i)
      [] e.ev \in {"FileCorrupt", "FileRepair", "FileRestore", "SqlDelete", "SqlEncrypt"} -> FileSlot("fH", e.i)
      [] e.ev \in {"FolderCorrupt", "FolderRepair", "RestoreDone"} -> AllFH
      [] e.ev = "FolderRestoreReq" -> AllFH
      [] e.ev = "FolderScanReq" -> IF scanDur = 0 THEN AllFV \cup {"foV"} ELSE {}
      [] e.ev = "OsScanReq" -> IF nodeDur = 0 THEN AllFV \cup {"foV", "swV"} ELSE {}
      [] e.ev = "OsScanDone" -> AllFV \cup {"foV", "swV"}
      [] e.ev = "FoScanDone" -> AllFV \cup {"foV"}
      [] e.ev = "FixDone" -> AllFH \cup {"swA"}
      [] OTHER -> {}

Clauses(e) ==
    [ NoError        |-> e.ev # "Raised",
      NoStrayWrites  |-> e.stray = 0,
      KnownEvent     |-> e.ev \in Known \cup {"Raised", "Other"},
      \* visible health changes only at the completion of a scan covering the item ...
      SwVisibleOnlyByScan   |-> e.v # swV => e.ev \in SwScanActs,
      FileVisibleOnlyByScan |-> \A i \in Files : e.fv[i] # fV[i] =>
                                    (e.ev \in FileScanActs /\ (e.ev = "FileScan" => i = e.i)),
      FolderVisibleOnlyByScan |-> e.fov # foV => e.ev \in FolderScanActs,
      \* ... and then equals the true health at that moment
      SwVisibleEqualsTrue   |-> e.v # swV => e.v = swA,
      FileVisibleEqualsTrue |-> \A i \in Files : e.fv[i] # fV[i] => e.fv[i] = fH[i],
      ScanShowsTruth |-> /\ (e.ev = "SwScan" /\ e.ok) => e.v = swA
                         /\ (e.ev = "FileScan" /\ e.ok /\ e.i \in Files) => e.fv[e.i] = fH[e.i]
                         /\ e.ev \in {"FoScanDone", "OsScanDone"} => \A i \in Live(e) : e.fv[i] = fH[i]
                         /\ e.ev = "OsScanDone" => e.v = swA,
      \* true health changes only inside an explicit event, to that event's value
      SwActualOnlyByEvent   |-> e.a # swA => (e.ev \in SwExplicit /\ e.a \in SwAfter(e.ev)),
      FileHealthOnlyByEvent |-> \A i \in Files : e.fh[i] # fH[i] =>
                                    /\ e.ev \in FileExplicit /\ e.fh[i] \in ItemAfter(e.ev, fH[i])
                                    /\ e.ev \in OneFileEvents => i = e.i,
      WritesAccounted |-> SetOf(e.wr) \subseteq MayWrite(e),
      \* timing
      FixExactly     |-> e.ev = "FixDone" => (swA = "FIXING" /\ fixAge + 1 = FixAt(fixDur) /\ e.a = "GOOD"),
      FixNotOverdue  |-> (e.ev = "TickEnd" /\ on /\ swA = "FIXING") => fixAge + 1 < FixAt(fixDur),
      FolderScanInWindow   |-> e.ev = "FoScanDone" => (on /\ MayCompleteNow(scanAge, scanDur)),
      FolderScanNotOverdue |-> (e.ev = "TickEnd" /\ on) => ~Overdue(scanAge, scanDur),
      RestoreInWindow      |-> e.ev = "RestoreDone" => (on /\ MayCompleteNow(restAge, restDur)),
      RestoreNotOverdue    |-> (e.ev = "TickEnd" /\ on) => ~Overdue(restAge, restDur),
      RestoreRestores      |-> e.ev = "RestoreDone" => Restored(Live(e), e.fh),
      OsScanInWindow       |-> e.ev = "OsScanDone" => (on /\ MayCompleteNow(osAge, nodeDur)),
      OsScanNotOverdue     |-> (e.ev = "TickEnd" /\ on) => ~Overdue(osAge, nodeDur),
      InstantOnlyAtZero    |-> /\ (e.ev = "FolderScanReq" /\ (e.fv # fV \/ e.fov # foV)) => scanDur = 0
                               /\ (e.ev = "OsScanReq" /\ (e.v # swV \/ e.fv # fV \/ e.fov # foV)) => nodeDur = 0
                               /\ (e.ev = "FolderRestoreReq" /\ \E i \in Files : e.fh[i] # fH[i] /\ e.fh[i] = "GOOD")
                                      => restDur = 0,
      RefusedChangesNothing |-> (e.ev \in {"SwScan", "SwFix", "FileScan", "FolderScanReq", "FolderRestoreReq", "OsScanReq"} /\ ~e.ok)
                                  => (e.a = swA /\ e.v = swV /\ e.fh = fH /\ e.fv = fV /\ e.fov = foV)
    ]
Failing(e) == {c \in DOMAIN Clauses(e) : ~Clauses(e)[c]}

Step(e) ==
    CASE e.ev = "SwCompromise" -> SwCompromise(e.a)
      [] e.ev = "SwStart"      -> SwStart(e.a)
      [] e.ev = "SwConnect"    -> SwConnect(e.a)
      [] e.ev = "SwFix"        -> SwFix(e.ok)
      [] e.ev = "SwScan"       -> SwScan(e.ok)
      [] e.ev = "SwInstall"    -> SwInstall
      [] e.ev = "FileScan"     -> e.i \in Files /\ FileScan(e.i, e.ok)
      [] e.ev \in {"FileCorrupt", "FileRepair", "FileRestore", "SqlDelete", "SqlEncrypt"}
                               -> e.i \in Files /\ FileEvent(e.ev, e.i, e.fh[e.i])
      [] e.ev = "FileDelete"   -> FileDelete(e.i)
      [] e.ev \in {"FolderCorrupt", "FolderRepair"} -> FolderEvent(e.ev, e.fh)
      [] e.ev = "FolderScanReq"    -> \E dn, rs \in BOOLEAN : FolderScanReq(e.ok, dn, rs, Live(e), e.fv, e.fov)
      [] e.ev = "FolderRestoreReq" -> \E dn, rs \in BOOLEAN : FolderRestoreReq(e.ok, dn, rs, Live(e), e.fh)
      [] e.ev = "OsScanReq"        -> \E dn, rs \in BOOLEAN : OsScanReq(e.ok, dn, rs, Live(e), e.fv, e.fov)
      [] e.ev = "PowerOff"     -> PowerOff
      [] e.ev = "PowerOn"      -> PowerOn(e.a)
      [] e.ev = "TickBegin"    -> TickBegin
      [] e.ev = "OsScanDone"   -> OsScanDone(Live(e), e.fv, e.fov)
      [] e.ev = "FoScanDone"   -> FoScanDone(Live(e), e.fv, e.fov)
      [] e.ev = "FixDone"      -> FixDone(e.fh)
      [] e.ev = "InstallDone"  -> InstallDone
      [] e.ev = "RestoreDone"  -> RestoreDone(Live(e), e.fh)
      [] e.ev = "TickEnd"      -> TickEnd
      [] e.ev = "Other"        -> Other
      [] OTHER -> FALSE

\* the projected state read from the objects after the event
Post(e) ==
    /\ swA' = e.a /\ swV' = e.v /\ fH' = e.fh /\ fV' = e.fv /\ foV' = e.fov /\ on' = e.on

TraceInit ==
    /\ tid \in 1..Len(Traces)
    /\ l = 1
    /\ HealthInitI(Cfg.fix, Cfg.scan, Cfg.rest, Cfg.node, Cfg.a, Cfg.v, Cfg.fh, Cfg.fv, Cfg.fov,
                   IF "inst" \in DOMAIN Cfg THEN Cfg.inst ELSE FALSE)

TraceNext ==
    /\ l <= Len(T)
    /\ Failing(T[l]) = {}
    /\ Step(T[l])
    /\ Post(T[l])
    /\ l' = l + 1
    /\ UNCHANGED tid

TraceSpec == TraceInit /\ [][TraceNext]_tvars

Seen == TLCGet(tid)
Record ==
    IF l > Seen.pos
    THEN TLCSet(tid, [pos |-> l,
                      fail |-> IF l <= Len(T) THEN Failing(T[l]) ELSE {},
                      st |-> [on |-> on, swA |-> swA, swV |-> swV, fixAge |-> fixAge, fH |-> fH, fV |-> fV,
                              foV |-> foV, scanAge |-> scanAge, restAge |-> restAge, osAge |-> osAge,
                              inTick |-> inTick, fixDur |-> fixDur, scanDur |-> scanDur, restDur |-> restDur,
                              nodeDur |-> nodeDur]])
    ELSE TRUE
InitRegs == \A i \in 1..Len(Traces) : TLCSet(i, [pos |-> 0, fail |-> {}, st |-> <<>>])
ASSUME InitRegs

Report ==
    \A i \in 1..Len(Traces) :
        LET r == TLCGet(i) IN
        /\ PrintT(<<"TRACE", i, r.pos, Len(Traces[i].ev)>>)
        /\ (r.pos = Len(Traces[i].ev) + 1 \/ PrintT(<<"STUCK", i, r.pos, r.fail, r.st>>))
=============================================================================
