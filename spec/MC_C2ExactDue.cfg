SPECIFICATION Spec
CONSTANTS
  Freqs = {1, 2, 3}
  NMasq = 1
  Variant = "exactdue"
  MaxInact = 3
  EstWeight = 1
  TickWeight = 1
  MCmds = {"terminal_command", "exfiltrate"}
INVARIANT InvBounded
CONSTRAINT Bound
VIEW View
CHECK_DEADLOCK FALSE
