---------------------------- MODULE MC_Database ----------------------------
(* Exhaustive model of Database: two clients, one service, one backup      *)
(* host.  Every action instantiates the module's action with the DESIGN's  *)
(* outcome (D...): the service opens a connection exactly when the guard   *)
(* of C17 holds, runs a query exactly when the quoted id is open and the   *)
(* service can be reached, and so on.  The id domain of queries is         *)
(* 0..number issued: 0 is a forged id, ids no longer in `conns' are closed *)
(* ones, ids owned by the other client are foreign ones.                   *)
(*                                                                         *)
(* `act' (last action and its arguments) and `n' (step counter) carry no   *)
(* behaviour: they are hidden by VIEW in the exhaustive configuration and  *)
(* are what the harness reads from the simulated behaviours.  The PROPERTY *)
(* lines state the clauses of C17 directly on the transitions (pre-state,  *)
(* act', post-state), independently of the guards inside the module; the   *)
(* Inv_* lines state that the design's outcome satisfies every named       *)
(* clause for every action instance in every reachable state (so no action *)
(* of the model is silently disabled by a clause).                         *)
EXTENDS Database, TLC

CONSTANTS Cl, Pws, Caps, Pwds, MQ, MaxIds, MaxDepth,
          \* shaping of the simulated behaviours only (all 1 in the exhaustive configurations):
          WTick, WData, WConn, \* number of copies of the tick, backup/restore and right-password connect steps
          DisruptEvery         \* disruptive steps (power off, stop, block, uninstall, delete, forged id) only every k-th step

VARIABLES act, n
mvars == <<dvars, act, n>>
View == dvars

NoArgs == [c |-> "", pwd |-> "", id |-> 0, q |-> "", kind |-> "", on |-> FALSE]
Act(name, args) == [name |-> name] @@ args @@ NoArgs

P0 == [op |-> "RUNNING", health |-> "GOOD", conns |-> {}, own |-> <<>>, held |-> [c \in Cl |-> {}],
       file |-> "GOOD", backup |-> "none"]

Init ==
    /\ n = 0 /\ act = Act("Init", NoArgs)
    /\ \E p \in Pws, cap \in Caps : DbInit(p, cap, Cl, P0, TRUE, TRUE, [c \in Cl |-> TRUE], TRUE)

Step(a) == n < MaxDepth /\ n' = n + 1 /\ act' = a
Disrupt == n % DisruptEvery = 0

-----------------------------------------------------------------------------
(* the design *)

DConnectP(c, pwd) ==
    IF ConnectAllowed(c, pwd)
    THEN [Cur EXCEPT !.conns = conns \cup {Fresh},
                     !.own = [i \in conns \cup {Fresh} |-> IF i = Fresh THEN c ELSE owner[i]],
                     !.held = [held EXCEPT ![c] = held[c] \cup {Fresh}]]
    ELSE Cur
DConnectSt(c, pwd) ==
    IF ConnectAllowed(c, pwd) THEN 200
    ELSE IF ~Up(c) THEN 0 ELSE IF pwd # pw THEN 401 ELSE 500

DRan(c, id) == id \in conns /\ Up(c)
DQOk(c, id, q) ==
    /\ DRan(c, id) /\ svcHealth = "GOOD" /\ file # "absent" /\ q # "OTHER"
    /\ q = "SELECT" => file = "GOOD"
DQueryP(c, id, q) ==
    IF DQOk(c, id, q) /\ q \in {"DELETE", "ENCRYPT"} THEN [Cur EXCEPT !.file = Effect(q)] ELSE Cur

DDisconnectP(c, id) ==
    [Cur EXCEPT !.held = [held EXCEPT ![c] = held[c] \ {id}],
                !.conns = IF Up(c) THEN conns \ {id} ELSE conns,
                !.own = [i \in (IF Up(c) THEN conns \ {id} ELSE conns) |-> owner[i]]]

DUninstallP(c) ==
    [Cur EXCEPT !.held = [held EXCEPT ![c] = {}],
                !.conns = IF Up(c) THEN conns \ held[c] ELSE conns,
                !.own = [i \in (IF Up(c) THEN conns \ held[c] ELSE conns) |-> owner[i]]]

SvcKinds == {"stop", "start", "pause", "resume", "restart", "fix"}
DSvcOk(kind) ==
    srvOn /\ CASE kind = "start"  -> svcOp = "STOPPED"
               [] kind = "resume" -> svcOp = "PAUSED"
               [] OTHER           -> svcOp = "RUNNING"
DSvcP(kind) ==
    IF ~DSvcOk(kind) THEN Cur
    ELSE CASE kind = "stop"    -> [Cur EXCEPT !.op = "STOPPED"]
           [] kind = "start"   -> [Cur EXCEPT !.op = "RUNNING"]
           [] kind = "pause"   -> [Cur EXCEPT !.op = "PAUSED"]
           [] kind = "resume"  -> [Cur EXCEPT !.op = "RUNNING"]
           [] kind = "restart" -> [Cur EXCEPT !.op = "RESTARTING"]
           [] kind = "fix"     -> [Cur EXCEPT !.health = "FIXING"]

DBackupOk == svcOp = "RUNNING" /\ srvOn /\ bkOn /\ bkPath /\ file # "absent"
DBackupP == IF DBackupOk THEN [Cur EXCEPT !.backup = file] ELSE Cur

DRestoreOk == CanRestore
DRestoreP == IF DRestoreOk THEN [Cur EXCEPT !.file = backup, !.health = "GOOD"] ELSE Cur

DPowerOk(node, on) == IF node = "srv" THEN srvOn # on ELSE bkOn # on
DPowerP(node, on) ==
    IF node = "srv" /\ DPowerOk(node, on)
    THEN [Cur EXCEPT !.op = IF on THEN "RUNNING" ELSE "STOPPED"]
    ELSE Cur

DTickP ==
    [Cur EXCEPT !.op = IF svcOp = "RESTARTING" /\ srvOn THEN "RUNNING" ELSE svcOp,
                !.health = IF svcHealth = "FIXING" /\ srvOn THEN "GOOD" ELSE svcHealth]

FsKinds == {"delete", "repair"}
DFsOk(kind) == srvOn /\ file # "absent"
DFsP(kind) ==
    IF ~DFsOk(kind) THEN Cur
    ELSE IF kind = "delete" THEN [Cur EXCEPT !.file = "absent"] ELSE [Cur EXCEPT !.file = "GOOD"]

-----------------------------------------------------------------------------
(* the actions *)

MConnect(c, pwd) ==
    \* (a refused request consumes no id: refusals at capacity stay in the model beyond MaxIds)
    /\ c \in inst /\ (Len(owner) < MaxIds \/ ~ConnectAllowed(c, pwd))
    /\ Step(Act("Connect", [c |-> c, pwd |-> pwd]))
    /\ Connect(c, pwd, ConnectAllowed(c, pwd), DConnectSt(c, pwd), DConnectP(c, pwd))

MQuery(c, id, q) ==
    /\ c \in inst /\ id <= Len(owner) /\ (id = 0 => Disrupt)
    /\ Step(Act("Query", [c |-> c, id |-> id, q |-> q]))
    /\ Query(c, id, q, DRan(c, id), DQOk(c, id, q), DQueryP(c, id, q))

MDisconnect(c, id) ==
    /\ c \in inst /\ id \in held[c]
    /\ Step(Act("Disconnect", [c |-> c, id |-> id]))
    /\ Disconnect(c, id, TRUE, DDisconnectP(c, id))

MUninstall(c) ==
    /\ c \in inst /\ Disrupt
    /\ Step(Act("ClientUninstall", [c |-> c]))
    /\ ClientUninstall(c, TRUE, DUninstallP(c))

MSvc(kind) ==
    /\ kind \in {"stop", "pause", "restart", "fix"} => Disrupt
    /\ Step(Act("SvcReq", [kind |-> kind]))
    /\ SvcReq(kind, DSvcOk(kind), DSvcP(kind))

MBackup  == Step(Act("Backup", NoArgs))  /\ Backup(DBackupOk, DBackupP)
MRestore == Step(Act("Restore", NoArgs)) /\ Restore(DRestoreOk, DRestoreP)

MPower(node, on) ==
    /\ ~on => Disrupt
    /\ Step(Act("Power", [kind |-> node, on |-> on]))
    /\ Power(node, on, DPowerOk(node, on), DPowerP(node, on))

MBlock(c) ==
    /\ reach[c] => Disrupt
    /\ Step(Act("Block", [c |-> c, on |-> reach[c]]))
    /\ Block(c, reach[c], Cur)

MBlockBk ==
    /\ bkPath => Disrupt
    /\ Step(Act("BlockBk", [on |-> bkPath]))
    /\ BlockBk(bkPath, Cur)

MTick == Step(Act("Tick", NoArgs)) /\ Tick(DTickP)

MFs(kind) ==
    /\ kind = "delete" => Disrupt
    /\ Step(Act("FsOp", [kind |-> kind]))
    /\ FsOp(kind, DFsOk(kind), DFsP(kind))

Next ==
    \/ \E c \in Cl, pwd \in Pwds : MConnect(c, pwd)
    \/ \E c \in Cl, w \in 2..WConn : MConnect(c, pw)
    \/ \E c \in Cl, id \in 0..MaxIds, q \in MQ : MQuery(c, id, q)
    \/ \E c \in Cl, id \in 1..MaxIds : MDisconnect(c, id)
    \/ \E c \in Cl : MUninstall(c)
    \/ \E k \in SvcKinds : MSvc(k)
    \/ \E w \in 1..WData : MBackup
    \/ \E w \in 1..WData : MRestore
    \/ \E nd \in {"srv", "bk"}, on \in BOOLEAN : MPower(nd, on)
    \/ \E c \in Cl : MBlock(c)
    \/ MBlockBk
    \/ \E w \in 1..WTick : MTick
    \/ \E k \in FsKinds : MFs(k)

Spec == Init /\ [][Next]_mvars

-----------------------------------------------------------------------------
(* the design's outcome satisfies every named clause, for every instance   *)

Inv_OpenOnlyIfAllowed ==
    \A c \in inst, pwd \in Pwds : OpenOnlyIfAllowed(c, pwd, DConnectP(c, pwd))
Inv_HandleOnlyIfOpened ==
    \A c \in inst, pwd \in Pwds :
        /\ HandleOnlyIfOpened(c, ConnectAllowed(c, pwd), DConnectP(c, pwd))
        /\ NewOwnedByCaller(c, DConnectP(c, pwd))
        /\ StatusOkOnlyIfOpened(DConnectSt(c, pwd), DConnectP(c, pwd))
Inv_ConnectFrame ==
    \A c \in inst, pwd \in Pwds : Frame("Connect", DConnectP(c, pwd))
Inv_QueryOnlyOnOpenConn ==
    \A c \in inst, id \in 0..Len(owner) : QueryOnlyOnOpenConn(id, DRan(c, id)) /\ NoQueryWhileDown(c, DRan(c, id))
Inv_QueryEffects ==
    \A c \in inst, id \in 0..Len(owner), q \in Queries :
        /\ SuccessOnlyIfRun(DRan(c, id), DQOk(c, id, q))
        /\ NotRunNoEffect(DRan(c, id), DQueryP(c, id, q))
        /\ DestructiveChangesHealth(q, DQOk(c, id, q), DQueryP(c, id, q))
        /\ OnlyDestructiveChange(q, DQueryP(c, id, q))
        /\ Frame("Query", DQueryP(c, id, q))
Inv_CompromisedReadFails ==
    \A c \in inst, id \in 0..Len(owner) : CompromisedReadFails("SELECT", DQOk(c, id, "SELECT"))
Inv_Restore == RestoreOK(DRestoreOk, DRestoreP)
Inv_Backup  == BackupOK(DBackupOk, DBackupP)
Inv_Others ==
    /\ \A c \in inst : \A id \in held[c] : DisconnectOK(c, id, TRUE, DDisconnectP(c, id))
    /\ \A c \in inst : UninstallOK(c, TRUE, DUninstallP(c))
    /\ \A k \in SvcKinds : Frame("SvcReq", DSvcP(k))
    /\ \A k \in FsKinds : Frame("FsOp", DFsP(k))
    /\ Frame("Tick", DTickP)
    /\ \A nd \in {"srv", "bk"}, on \in BOOLEAN : Frame("Power", DPowerP(nd, on))

-----------------------------------------------------------------------------
(* the clauses of C17 on the transitions of the model *)

\* a connection is opened only for the correct password, while running on a powered-on node,
\* reachable, and not at capacity
P_OpenOnlyIfAllowed ==
    [][ ~(conns' \subseteq conns) =>
            /\ act'.name = "Connect"
            /\ act'.pwd = pw /\ svcOp = "RUNNING" /\ srvOn /\ reach[act'.c]
            /\ Cardinality(conns) < Cap ]_mvars
\* a query has an effect only on a connection issued and not closed, while the service can be reached
P_QueryOnlyOnOpenConn ==
    [][ (act'.name = "Query" /\ file' # file) =>
            /\ act'.id \in conns /\ svcOp = "RUNNING" /\ srvOn /\ reach[act'.c]
            /\ act'.q \in {"DELETE", "ENCRYPT"} /\ file' = Effect(act'.q) ]_mvars
\* while the service is stopped, its node is off or the path is blocked nobody connects, queries or restores
P_NothingWhileDown ==
    [][ /\ act'.name \in {"Connect", "Query"} /\ ~Up(act'.c) => (conns' = conns /\ file' = file /\ held' = held)
        /\ act'.name = "Restore" /\ ~(svcOp = "RUNNING" /\ srvOn /\ bkPath) => file' = file ]_mvars
\* restoring a backup taken while the data was healthy gives healthy data
P_RestoreGood ==
    [][ (act'.name = "Restore" /\ CanRestore /\ backup = "GOOD") => file' = "GOOD" ]_mvars
\* the copy on the backup host is what the data was when the backup was taken
P_BackupIsSnapshot == [][ backup' # backup => (act'.name = "Backup" /\ backup' = file) ]_mvars
=============================================================================
