------------------------------ MODULE MC_Acl ------------------------------
(* Exhaustive model of Acl (C07).  Every rule list over NPos positions and *)
(* a covering rule domain is reached by Add/Remove from the empty list,    *)
(* for both implicit actions; from every list every packet of the domain   *)
(* is checked.  The *design* computes a verdict by scanning the positions  *)
(* in order and stopping at the first match (ScanDecider); TLC checks that *)
(* this agrees with the declarative Verdict of Acl.tla and that the three  *)
(* actions satisfy the C07 clauses (action properties over `last', the     *)
(* record of the step just taken; `last' carries no behaviour and is       *)
(* hidden by VIEW in the exhaustive cfg, as are the counters).             *)
(*                                                                         *)
(* Domain = "cover": the exhaustive rule domain (about 40 rules: each      *)
(*   field alone, the wildcard shapes, and mixed rules; both actions).     *)
(* Domain = "full" : the full product over 2-bit addresses with masks,     *)
(*   4 protocols, ports {any,0,53,80} - used with -simulate (stimulus) and *)
(*   with small NPos in the thorough tier.                                 *)
EXTENDS Acl, TLC

CONSTANTS NPos, MaxRules, Domain

VARIABLE last
mcvars == <<npos, implicit, acl, hits, ihits, last>>

Acts == {"permit", "deny"}

R(a, q, s, sm, d, dm, sp, dp) ==
    [action |-> a, proto |-> q, src |-> s, smask |-> sm, dst |-> d, dmask |-> dm, sport |-> sp, dport |-> dp]

AddrSpecsFull == {<<AnyN, AnyN>>} \cup ((0 .. 3) \X {AnyN, 0, 1, 2, 3})
PortsFull == {AnyN, 0, 53, 80}

\* match parts <<proto, src, smask, dst, dmask, sport, dport>> of the covering domain
CoverParts ==
    {   <<AnyP, AnyN, AnyN, AnyN, AnyN, AnyN, AnyN>>,        \* nothing specified
        \* protocol alone
        <<"tcp", AnyN, AnyN, AnyN, AnyN, AnyN, AnyN>>,
        <<"udp", AnyN, AnyN, AnyN, AnyN, AnyN, AnyN>>,
        <<"icmp", AnyN, AnyN, AnyN, AnyN, AnyN, AnyN>>,
        \* source alone: exact, exact with zero mask, low-bit range, high-bit (non-contiguous) range, everything
        <<AnyP, 1, AnyN, AnyN, AnyN, AnyN, AnyN>>,
        <<AnyP, 1, 0, AnyN, AnyN, AnyN, AnyN>>,
        <<AnyP, 2, 1, AnyN, AnyN, AnyN, AnyN>>,
        <<AnyP, 1, 2, AnyN, AnyN, AnyN, AnyN>>,
        <<AnyP, 0, 3, AnyN, AnyN, AnyN, AnyN>>,
        \* destination alone
        <<AnyP, AnyN, AnyN, 3, AnyN, AnyN, AnyN>>,
        <<AnyP, AnyN, AnyN, 3, 1, AnyN, AnyN>>,
        <<AnyP, AnyN, AnyN, 0, 2, AnyN, AnyN>>,
        \* ports alone
        <<AnyP, AnyN, AnyN, AnyN, AnyN, 53, AnyN>>,
        <<AnyP, AnyN, AnyN, AnyN, AnyN, AnyN, 53>>,
        <<AnyP, AnyN, AnyN, AnyN, AnyN, AnyN, 80>>,
        \* mixed
        <<"tcp", AnyN, AnyN, AnyN, AnyN, AnyN, 80>>,
        <<"udp", AnyN, AnyN, AnyN, AnyN, 53, 53>>,
        <<"icmp", 2, 1, AnyN, AnyN, AnyN, AnyN>>,
        <<"tcp", 1, AnyN, 3, AnyN, AnyN, 80>>,
        <<AnyP, 2, 1, 0, 2, AnyN, 53>>
    }

Rules ==
    IF Domain = "cover"
    THEN {R(a, t[1], t[2], t[3], t[4], t[5], t[6], t[7]) : a \in Acts, t \in CoverParts}
    ELSE {R(a, q, s[1], s[2], d[1], d[2], sp, dp) :
             a \in Acts, q \in {AnyP, "tcp", "udp", "icmp"}, s \in AddrSpecsFull, d \in AddrSpecsFull,
             sp \in PortsFull, dp \in PortsFull}

PktPorts == IF Domain = "cover" THEN {53, 80} ELSE {0, 53, 80}
Packets ==
    {[proto |-> q, src |-> s, dst |-> d, sport |-> sp, dport |-> dp] :
        q \in {"tcp", "udp"}, s \in 0 .. 3, d \in 0 .. 3, sp \in PktPorts, dp \in PktPorts}
    \cup {[proto |-> "icmp", src |-> s, dst |-> d, sport |-> NoPort, dport |-> NoPort] : s \in 0 .. 3, d \in 0 .. 3}

\* the two formulations of the wildcard comparison agree on the whole 4-bit space
ASSUME \A a \in 0 .. 15, b \in 0 .. 15, wc \in 0 .. 15 : MaskedEq(a, b, wc) = MaskedEqBits(a, b, wc, 4)

NoEvent == [ev |-> "Init", pos |-> 0, rule |-> NoRule, pkt |-> <<>>, permit |-> FALSE, decider |-> Implicit]

Init ==
    /\ \E imp \in Acts : AclInit(NPos, imp, Empty(NPos), Zero(NPos), 0)
    /\ last = NoEvent

NumRules == Cardinality({i \in Pos : acl[i] # NoRule})

MCAdd(i, r) ==
    /\ acl[i] # NoRule \/ NumRules < MaxRules
    /\ Add(i, r, 0)
    /\ last' = [NoEvent EXCEPT !.ev = "Add", !.pos = i, !.rule = r]

MCRemove(i) ==
    /\ Remove(i)
    /\ last' = [NoEvent EXCEPT !.ev = "Remove", !.pos = i]

(* the design's algorithm: scan the positions in order, stop at the first match *)
RECURSIVE ScanFrom(_, _)
ScanFrom(i, p) ==
    IF i >= npos THEN Implicit
    ELSE IF acl[i] # NoRule /\ Matches(acl[i], p) THEN i
    ELSE ScanFrom(i + 1, p)
ScanDecider(p) == ScanFrom(0, p)

MCCheck(p) ==
    LET d == ScanDecider(p) IN
    /\ hits'  = IF d = Implicit THEN hits ELSE [hits EXCEPT ![d] = @ + 1]
    /\ ihits' = IF d = Implicit THEN ihits + 1 ELSE ihits
    /\ UNCHANGED <<npos, implicit, acl>>
    /\ last' = [NoEvent EXCEPT !.ev = "Check", !.pkt = p, !.decider = d,
                               !.permit = ((IF d = Implicit THEN implicit ELSE acl[d].action) = "permit")]

Next ==
    \/ \E i \in Pos, r \in Rules : MCAdd(i, r)
    \/ \E i \in Pos : MCRemove(i)
    \/ \E p \in Packets : MCCheck(p)

Spec == Init /\ [][Next]_mcvars

View == <<npos, implicit, acl>>

-----------------------------------------------------------------------------
(* C07 clauses on the design, one action property each *)

VerdictClause ==
    last'.ev = "Check" => /\ VerdictIsLowestMatch(last'.pkt, last'.permit)
                          /\ last'.decider = Decider(acl, last'.pkt)
                          /\ acl' = acl
AddClause ==
    last'.ev = "Add" => /\ acl'[last'.pos] = last'.rule
                        /\ OnlyPositions({last'.pos}, acl', hits', ihits')
RemoveClause ==
    last'.ev = "Remove" => /\ acl'[last'.pos] = NoRule
                           /\ OnlyPositions({last'.pos}, acl', hits', ihits')
CounterClause ==
    last'.ev = "Check" => CountsExactlyDecider(last'.pkt, hits', ihits')

VerdictProp == [][VerdictClause]_mcvars
AddProp     == [][AddClause]_mcvars
RemoveProp  == [][RemoveClause]_mcvars
CounterProp == [][CounterClause]_mcvars
=============================================================================
