------------------------------ MODULE MC_Acl ------------------------------
(* Exhaustive model of Acl (C07), both implicit actions, NPos positions.   *)
(*                                                                         *)
(* The *design* computes a verdict by scanning the positions in order and  *)
(* stopping at the first match (ScanDecider).  TLC checks that this agrees *)
(* with the declarative Decider/Verdict of Acl.tla for every packet of the *)
(* domain in every reachable list (invariant ScanIsLowestMatch), and that  *)
(* the actions satisfy the C07 clauses (action properties over `last', the *)
(* record of the step just taken; `last' carries no behaviour and is       *)
(* hidden by VIEW in the exhaustive cfg, as are the counters).             *)
(*                                                                         *)
(* `mode' is a configuration variable (one run sweeps both):               *)
(*  "fill": every list over the *covering* rule domain (each field alone,  *)
(*          every wildcard shape, mixed rules up to all five fields; 34    *)
(*          rules) is built once, positions filled in ascending order; all *)
(*          packets are judged in every such list by the invariants.       *)
(*  "free": every interleaving of Add (incl. overwrite) / Remove / Check   *)
(*          over the *core* rule domain (10 rules).                        *)
(* Domain = "product" (a 1440-rule product domain, 304 packets) is used    *)
(* with -simulate (MC_AclSim.cfg: stimulus for the implementation);        *)
(* Domain = "wide" (a 360-shape product domain) in the thorough tier for   *)
(* "fill" over 2 positions (MC_AclWide.cfg).                               *)
EXTENDS Acl, TLC

CONSTANTS NPos, MaxRules, Modes, Domain

VARIABLES mode, last
mcvars == <<npos, implicit, acl, hits, ihits, mode, last>>

Acts == {"permit", "deny"}

R(a, q, s, sm, d, dm, sp, dp) ==
    [action |-> a, proto |-> q, src |-> s, smask |-> sm, dst |-> d, dmask |-> dm, sport |-> sp, dport |-> dp]

\* match parts <<proto, src, smask, dst, dmask, sport, dport>>
CoreParts ==
    {   <<AnyP, AnyN, AnyN, AnyN, AnyN, AnyN, AnyN>>,
        <<"tcp", AnyN, AnyN, AnyN, AnyN, AnyN, 80>>,
        <<AnyP, 2, 1, AnyN, AnyN, AnyN, AnyN>>,
        <<"icmp", AnyN, AnyN, 3, AnyN, AnyN, AnyN>>,
        <<"udp", 1, AnyN, 0, 2, 0, AnyN>>
    }
\* the further match shapes of the covering domain
ExtraParts ==
    {   \* protocol alone
        <<"tcp", AnyN, AnyN, AnyN, AnyN, AnyN, AnyN>>,
        <<"udp", AnyN, AnyN, AnyN, AnyN, AnyN, AnyN>>,
        <<"icmp", AnyN, AnyN, AnyN, AnyN, AnyN, AnyN>>,
        \* source alone: exact, exact with zero mask, low-bit ranges, high-bit (non-contiguous) range, everything
        <<AnyP, 1, AnyN, AnyN, AnyN, AnyN, AnyN>>,
        <<AnyP, 3, AnyN, AnyN, AnyN, AnyN, AnyN>>,
        <<AnyP, 1, 0, AnyN, AnyN, AnyN, AnyN>>,
        <<AnyP, 0, 1, AnyN, AnyN, AnyN, AnyN>>,
        <<AnyP, 1, 2, AnyN, AnyN, AnyN, AnyN>>,
        <<AnyP, 0, 3, AnyN, AnyN, AnyN, AnyN>>,
        \* destination alone
        <<AnyP, AnyN, AnyN, 3, AnyN, AnyN, AnyN>>,
        <<AnyP, AnyN, AnyN, 1, 0, AnyN, AnyN>>,
        <<AnyP, AnyN, AnyN, 3, 1, AnyN, AnyN>>,
        <<AnyP, AnyN, AnyN, 0, 2, AnyN, AnyN>>,
        <<AnyP, AnyN, AnyN, 2, 3, AnyN, AnyN>>,
        \* ports alone and together
        <<AnyP, AnyN, AnyN, AnyN, AnyN, 0, AnyN>>,
        <<AnyP, AnyN, AnyN, AnyN, AnyN, 80, AnyN>>,
        <<AnyP, AnyN, AnyN, AnyN, AnyN, AnyN, 0>>,
        <<AnyP, AnyN, AnyN, AnyN, AnyN, AnyN, 80>>,
        <<AnyP, AnyN, AnyN, AnyN, AnyN, 0, 80>>,
        \* mixed, up to all five fields
        <<"udp", AnyN, AnyN, AnyN, AnyN, 80, 80>>,
        <<"icmp", AnyN, AnyN, AnyN, AnyN, AnyN, 80>>,
        <<"tcp", 1, AnyN, 3, AnyN, AnyN, 80>>,
        <<"tcp", 1, 0, 3, 1, 80, 0>>,
        <<"udp", 2, 1, 0, 2, AnyN, AnyN>>
    }
CoverParts == CoreParts \cup ExtraParts

ProductParts ==
    {AnyP, "tcp", "udp", "icmp"}
    \X {<<AnyN, AnyN>>, <<1, AnyN>>, <<1, 0>>, <<2, 1>>, <<1, 2>>}
    \X {<<AnyN, AnyN>>, <<3, AnyN>>, <<0, 2>>}
    \X {AnyN, 0, 80} \X {AnyN, 0, 53, 80}

WideParts ==
    {AnyP, "tcp", "udp", "icmp"}
    \X {<<AnyN, AnyN>>, <<1, AnyN>>, <<1, 0>>, <<2, 1>>, <<1, 2>>}
    \X {<<AnyN, AnyN>>, <<3, AnyN>>, <<0, 2>>}
    \X {AnyN, 80} \X {AnyN, 0, 80}

RulesOf(parts) == {R(a, t[1], t[2], t[3], t[4], t[5], t[6], t[7]) : a \in Acts, t \in parts}
CoreRules  == RulesOf(CoreParts)
\* Which position decides does not depend on the rules' actions, so the covering domain carries
\* both actions only for the core shapes and one (deny) for the further shapes.
CoverRules == CoreRules \cup {R("deny", t[1], t[2], t[3], t[4], t[5], t[6], t[7]) : t \in ExtraParts}
ProductOf(parts) == {R(a, t[1], t[2][1], t[2][2], t[3][1], t[3][2], t[4], t[5]) : a \in Acts, t \in parts}
ProductRules == ProductOf(ProductParts)
WideRules == {r \in ProductOf(WideParts) : r.action = "deny"}   \* (actions do not matter to "fill", see CoverRules)

FreeRules == IF Domain = "product" THEN ProductRules ELSE CoreRules
FillRules == IF Domain = "wide" THEN WideRules ELSE CoverRules

PktPorts == IF Domain = "product" THEN {0, 53, 80} ELSE {0, 80}
Packets ==
    {[proto |-> q, src |-> s, dst |-> d, sport |-> sp, dport |-> dp] :
        q \in {"tcp", "udp"}, s \in 0 .. 3, d \in 0 .. 3, sp \in PktPorts, dp \in PktPorts}
    \cup {[proto |-> "icmp", src |-> s, dst |-> d, sport |-> NoPort, dport |-> NoPort] : s \in 0 .. 3, d \in 0 .. 3}

\* the three formulations of the wildcard comparison agree on the whole 4-bit space
ASSUME \A a \in 0 .. 15, b \in 0 .. 15, wc \in 0 .. 15 :
          /\ MaskedEq(a, b, wc) = MaskedEqBits(a, b, wc, 4)
          /\ MaskedEq(a, b, wc) = MaskedEqAnd(a, b, wc)

NoEvent == [ev |-> "Init", pos |-> 0, rule |-> NoRule, pkt |-> <<>>, permit |-> FALSE, decider |-> Implicit]

Init ==
    /\ \E imp \in Acts : AclInit(NPos, imp, Empty(NPos), Zero(NPos), 0)
    /\ mode \in Modes
    /\ last = NoEvent

NumRules == Cardinality({i \in Pos : acl[i] # NoRule})

MCAdd(i, r) ==
    /\ mode = "free"
    /\ acl[i] # NoRule \/ NumRules < MaxRules
    /\ Add(i, r, 0)
    /\ last' = [NoEvent EXCEPT !.ev = "Add", !.pos = i, !.rule = r]
    /\ UNCHANGED mode

\* "fill": position i is filled (or skipped) only when everything from i upward is still empty
MCFill(i, r) ==
    /\ mode = "fill"
    /\ \A j \in Pos : j >= i => acl[j] = NoRule
    /\ Add(i, r, 0)
    /\ last' = [NoEvent EXCEPT !.ev = "Add", !.pos = i, !.rule = r]
    /\ UNCHANGED mode

MCRemove(i) ==
    /\ mode = "free"
    /\ Remove(i)
    /\ last' = [NoEvent EXCEPT !.ev = "Remove", !.pos = i]
    /\ UNCHANGED mode

(* the design's algorithm: scan the positions in order, stop at the first match *)
RECURSIVE ScanFrom(_, _)
ScanFrom(i, p) ==
    IF i >= npos THEN Implicit
    ELSE IF acl[i] # NoRule /\ Matches(acl[i], p) THEN i
    ELSE ScanFrom(i + 1, p)
ScanDecider(p) == ScanFrom(0, p)

MCCheck(p) ==
    LET d == ScanDecider(p) IN
    /\ mode = "free"
    /\ hits'  = IF d = Implicit THEN hits ELSE [hits EXCEPT ![d] = @ + 1]
    /\ ihits' = IF d = Implicit THEN ihits + 1 ELSE ihits
    /\ UNCHANGED <<npos, implicit, acl, mode>>
    /\ last' = [NoEvent EXCEPT !.ev = "Check", !.pkt = p, !.decider = d,
                               !.permit = ((IF d = Implicit THEN implicit ELSE acl[d].action) = "permit")]

(* TLC splits a bounded quantifier over a *constant* set at the head of a Next disjunct into   *)
(* one action per element, and -simulate picks actions uniformly.  The quantifiers below are   *)
(* therefore split on purpose only by rule action (2), protocol (3) - giving behaviours with   *)
(* about 1/3 Add, 1/2 Check, 1/6 Remove - and otherwise range over state-level sets.           *)
AddStep    == \E a \in Acts : \E i \in Pos, r \in {x \in FreeRules : x.action = a} : MCAdd(i, r)
FillStep   == \E i \in Pos, r \in FillRules : MCFill(i, r)
RemoveStep == \E i \in Pos : MCRemove(i)
CheckStep  == \E q \in {"tcp", "udp", "icmp"} : \E i \in Pos, p \in {x \in Packets : x.proto = q} : i = 0 /\ MCCheck(p)

Next == AddStep \/ FillStep \/ RemoveStep \/ CheckStep

Spec == Init /\ [][Next]_mcvars

View == <<npos, implicit, acl, mode>>

-----------------------------------------------------------------------------
(* C07 clauses on the design *)

\* in every reachable list, for every packet, the scan finds the deciding rule of the statement
ScanIsLowestMatch == \A p \in Packets : ScanDecider(p) = Decider(acl, p)

\* (the verdict is a function of the deciding position - Verdict in Acl.tla - so agreement on the
\* position is agreement on the verdict; VerdictClause checks the verdict itself on every Check step)

\* the declarative Decider read back against the statement's words: it matches, nothing below it
\* does; none matches when the implicit rule decides ("free" lists only - a cross-check of Acl.tla)
DeciderIsLowestMatch ==
    mode = "free" =>
    \A p \in Packets :
        LET d == Decider(acl, p) IN
        /\ d # Implicit => /\ acl[d] # NoRule /\ Matches(acl[d], p)
                           /\ \A j \in Pos : j < d => (acl[j] = NoRule \/ ~Matches(acl[j], p))
        /\ d = Implicit => \A j \in Pos : acl[j] = NoRule \/ ~Matches(acl[j], p)

VerdictClause ==
    last'.ev = "Check" => /\ VerdictIsLowestMatch(last'.pkt, last'.permit)
                          /\ last'.decider = Decider(acl, last'.pkt)
                          /\ acl' = acl
AddClause ==
    last'.ev = "Add" => /\ acl'[last'.pos] = last'.rule
                        /\ OnlyPositions({last'.pos}, acl', hits', ihits')
RemoveClause ==
    last'.ev = "Remove" => /\ acl'[last'.pos] = NoRule
                           /\ OnlyPositions({last'.pos}, acl', hits', ihits')
CounterClause ==
    last'.ev = "Check" => CountsExactlyDecider(last'.pkt, hits', ihits')

VerdictProp == [][VerdictClause]_mcvars
AddProp     == [][AddClause]_mcvars
RemoveProp  == [][RemoveClause]_mcvars
CounterProp == [][CounterClause]_mcvars
=============================================================================
