----------------------------- MODULE Apa_Switch -----------------------------
(***************************************************************************)
(* Unbounded argument for the DESIGN of Switch.tla (EXT-switch), checked   *)
(* with Apalache: an inductive invariant for EVERY number of ports and     *)
(* every set of addresses (MC_Switch sweeps up to 4 ports, 3 addresses).   *)
(* Addresses are integers, 0 is the broadcast address.  `lastIn',          *)
(* `lastOuts', `lastDst', `lastFlood' remember the latest frame so that    *)
(* the forwarding clauses are state predicates.                            *)
(*   apalache-mc check --init=Init --inv=IndInv --length=0 Apa_Switch.tla      *)
(*   apalache-mc check --init=IndInit --inv=IndInv --length=1 Apa_Switch.tla   *)
(***************************************************************************)
EXTENDS Integers, Apalache

Bcast == 0

VARIABLES
    \* @type: Int;
    nPorts,
    \* @type: Set(Int);
    enabled,
    \* @type: Set(<<Int, Int>>);
    table,
    \* @type: Int;
    lastIn,
    \* @type: Set(Int);
    lastOuts,
    \* @type: Bool;
    lastFlood


Init ==
    /\ nPorts \in Nat /\ nPorts >= 1
    /\ enabled = Gen(4) /\ \A p \in enabled : 1 <= p /\ p <= nPorts
    /\ table = {}
    /\ lastIn = 1 /\ lastOuts = {} /\ lastFlood = FALSE

\* learn: the source address maps to the ingress port, whatever it mapped to before
Learnt(src, inp) == {e \in table : e[1] # src} \cup {<<src, inp>>}

Receive ==
    \E src \in Int, dst \in Int, inp \in 1..nPorts :
        /\ src # Bcast /\ inp \in enabled
        /\ LET t == Learnt(src, inp)
               hit == {e \in t : e[1] = dst}
           IN  /\ table' = t
               /\ IF dst # Bcast /\ hit # {}
                  THEN /\ lastOuts' = {e[2] : e \in hit} \cap enabled
                       /\ lastFlood' = FALSE
                  ELSE /\ lastOuts' = enabled \ {inp}
                       /\ lastFlood' = TRUE
               /\ lastIn' = inp
        /\ UNCHANGED <<nPorts, enabled>>

SetPort ==
    \E p \in 1..nPorts, en \in BOOLEAN :
        /\ enabled' = IF en THEN enabled \cup {p} ELSE enabled \ {p}
        /\ UNCHANGED <<nPorts, table, lastIn, lastOuts, lastFlood>>

Next == Receive \/ SetPort

IndInv ==
    /\ nPorts >= 1
    /\ enabled \subseteq 1..nPorts
    /\ lastIn \in 1..nPorts
    /\ \A e \in table : e[2] \in 1..nPorts /\ e[1] # Bcast   \* TableWellFormed: only ports of this switch, never broadcast
    /\ \A e1 \in table : \A e2 \in table : e1[1] = e2[1] => e1[2] = e2[2]   \* one port per address
    /\ lastOuts \subseteq 1..nPorts
    /\ lastFlood => lastIn \notin lastOuts                     \* a flood never goes back out of its ingress port
    /\ ~lastFlood => \A p1 \in lastOuts : \A p2 \in lastOuts : p1 = p2   \* a learnt unicast leaves through at most one port

IndInit ==
    /\ nPorts = Gen(1) /\ enabled = Gen(4) /\ table = Gen(4) /\ lastIn = Gen(1) /\ lastOuts = Gen(4) /\ lastFlood = Gen(1)
    /\ IndInv
=============================================================================
