----------------------------- MODULE FileSystem -----------------------------
(***************************************************************************)
(* Structure of one node's file system under any sequence of operations.   *)
(* Property C15.  (Health, scanning and timing of the same items: see      *)
(* FileHealth.tla, property C14.)                                          *)
(*                                                                         *)
(* Items have identity: folder ids and file ids are assigned in creation   *)
(* order.  folders[i] = [name, del], files[j] = [folder, name, del]; `del' *)
(* says the item is in the deleted set of its parent, otherwise it is in   *)
(* the live set - never both, never neither.                               *)
(* `pend' = folders whose (timed) restore is in progress: when it          *)
(* completes the folder's deleted files come back (by name).               *)
(* `on' = the node that owns the file system is ON (an environment         *)
(* variable here - its timing is NodePower.tla's, property C12): while it  *)
(* is not, every operation is refused and nothing moves; the per-tick      *)
(* counters start at zero in every tick whatever the power state.          *)
(***************************************************************************)
EXTENDS Naturals, Sequences, FiniteSets

VARIABLES folders, files, pend, ncreate, ndelete, on
fvars == <<folders, files, pend, ncreate, ndelete, on>>

\* (nc0, nd0: what the counters say before the first tick - files declared in the scenario are counted as creations)
FsInitP(fo0, fi0, on0, nc0, nd0) ==
    /\ folders = fo0 /\ files = fi0 /\ pend = {} /\ ncreate = nc0 /\ ndelete = nd0 /\ on = on0
FsInit(fo0, fi0) == FsInitP(fo0, fi0, TRUE, 0, 0)

FolderIds == 1..Len(folders)
FileIds == 1..Len(files)

LiveFolders(n) == {i \in FolderIds : folders[i].name = n /\ ~folders[i].del}
DeadFolders(n) == {i \in FolderIds : folders[i].name = n /\ folders[i].del}
LiveFiles(F, n) == {j \in FileIds : files[j].folder = F /\ files[j].name = n /\ ~files[j].del}
DeadFiles(F, n) == {j \in FileIds : files[j].folder = F /\ files[j].name = n /\ files[j].del}

\* --- structural clauses --------------------------------------------------
UniqueLiveNames(fo, fi) ==
    /\ \A a, b \in 1..Len(fo) : (~fo[a].del /\ ~fo[b].del /\ fo[a].name = fo[b].name) => a = b
    /\ \A a, b \in 1..Len(fi) :
         (~fi[a].del /\ ~fi[b].del /\ fi[a].folder = fi[b].folder /\ fi[a].name = fi[b].name) => a = b
\* nothing that was created disappears or changes identity
AppendOnly(fo, fi) ==
    /\ Len(fo) >= Len(folders) /\ Len(fi) >= Len(files)
    /\ \A i \in FolderIds : fo[i].name = folders[i].name
    /\ \A j \in FileIds : fi[j].name = files[j].name /\ fi[j].folder = files[j].folder

InvUniqueLiveNames == UniqueLiveNames(folders, files)

\* --- operations ------------------------------------------------------------
\* For each operation: the set of allowed outcomes [ok, fo, fi] = (accepted?, next folders, next files).

Out(okS, fo2, fi2) == {[ok |-> o, fo |-> fo2, fi |-> fi2] : o \in okS}
Refused == Out({FALSE}, folders, files)

FileAvailable(fo, fi) == \E F \in LiveFolders(fo) : LiveFiles(F, fi) # {}
FolderAvailable(fo) == LiveFolders(fo) # {}
TheFolder(fo) == CHOOSE i \in LiveFolders(fo) : TRUE

\* create a file `fi' in folder `fo' (the folder is created when there is no live folder of that name);
\* creating a file that already exists is a no-op (or refused) - never a duplicate
CreateFileNextOn(fo, fi) ==
    IF FolderAvailable(fo)
    THEN IF LiveFiles(TheFolder(fo), fi) # {}
         THEN Out(BOOLEAN, folders, files)
         ELSE Out({TRUE}, folders, Append(files, [folder |-> TheFolder(fo), name |-> fi, del |-> FALSE]))
    ELSE Out({TRUE}, Append(folders, [name |-> fo, del |-> FALSE]),
                     Append(files, [folder |-> Len(folders) + 1, name |-> fi, del |-> FALSE]))

CreateFolderNextOn(fo) ==
    IF FolderAvailable(fo) THEN Out(BOOLEAN, folders, files)
    ELSE Out({TRUE}, Append(folders, [name |-> fo, del |-> FALSE]), files)

\* delete a file: refused unless it is available; moves it to the deleted set
DeleteFileNextOn(fo, fi) ==
    IF FileAvailable(fo, fi)
    THEN LET j == CHOOSE k \in LiveFiles(TheFolder(fo), fi) : TRUE
         IN  Out({TRUE}, folders, [files EXCEPT ![j].del = TRUE])
    ELSE Refused

\* delete a folder: refused unless available (and never the root); its files go with it
DeleteFolderNextOn(fo) ==
    IF FolderAvailable(fo) /\ fo # "root"
    THEN LET F == TheFolder(fo) IN
         Out({TRUE}, [folders EXCEPT ![F].del = TRUE],
             [j \in FileIds |-> IF files[j].folder = F THEN [files[j] EXCEPT !.del = TRUE] ELSE files[j]])
    ELSE Refused

\* restore a file: a live file of that name stays; otherwise exactly one deleted file of that name
\* in that (live) folder moves back to the live set; otherwise refused
RestoreFileNextOn(fo, fi) ==
    IF ~FolderAvailable(fo) THEN Refused
    ELSE LET F == TheFolder(fo) IN
         IF LiveFiles(F, fi) # {} THEN Out(BOOLEAN, folders, files)
         ELSE IF DeadFiles(F, fi) # {}
              THEN UNION {Out({TRUE}, folders, [files EXCEPT ![j].del = FALSE]) : j \in DeadFiles(F, fi)}
                   \cup Refused    \* (some doors - the agent action - only reach live items and refuse)
              ELSE Refused

\* restore a folder: a live folder of that name starts restoring its content; otherwise one deleted folder
\* of that name moves back to the live set and starts restoring; otherwise refused.
\* (files come back when the timed restore completes - see TickNext)
RestoreFolderNextOn(fo) ==
    IF FolderAvailable(fo) THEN Out(BOOLEAN, folders, files)
    ELSE IF DeadFolders(fo) # {}
         THEN UNION {Out({TRUE}, [folders EXCEPT ![D].del = FALSE], files) : D \in DeadFolders(fo)}
              \cup Refused       \* (idem)
         ELSE Refused
RestoreFolderPend(fo, fo2) ==
    IF FolderAvailable(fo) THEN pend \cup LiveFolders(fo)
    ELSE pend \cup {D \in DeadFolders(fo) : ~fo2[D].del}

\* any other operation on a file / folder (scan, repair, corrupt, checkhash, access ...):
\* only available on live items; never changes the structure
FileOpNextOn(fo, fi) == IF FileAvailable(fo, fi) THEN Out(BOOLEAN, folders, files) ELSE Refused
FolderOpNextOn(fo) == IF FolderAvailable(fo) THEN Out(BOOLEAN, folders, files) ELSE Refused

\* the node is not ON: every operation is refused, nothing moves
CreateFileNext(fo, fi) == IF on THEN CreateFileNextOn(fo, fi) ELSE Refused
CreateFolderNext(fo) == IF on THEN CreateFolderNextOn(fo) ELSE Refused
DeleteFileNext(fo, fi) == IF on THEN DeleteFileNextOn(fo, fi) ELSE Refused
DeleteFolderNext(fo) == IF on THEN DeleteFolderNextOn(fo) ELSE Refused
RestoreFileNext(fo, fi) == IF on THEN RestoreFileNextOn(fo, fi) ELSE Refused
RestoreFolderNext(fo) == IF on THEN RestoreFolderNextOn(fo) ELSE Refused
FileOpNext(fo, fi) == IF on THEN FileOpNextOn(fo, fi) ELSE Refused
FolderOpNext(fo) == IF on THEN FolderOpNextOn(fo) ELSE Refused

\* a tick: restores in progress may complete; then deleted files of that folder come back, one per name
\* and never next to a live file of the same name.  Nothing else moves.
Eligible == {j \in FileIds : files[j].del /\ files[j].folder \in pend /\ ~folders[files[j].folder].del}
Undelete(S) == [j \in FileIds |-> IF j \in S THEN [files[j] EXCEPT !.del = FALSE] ELSE files[j]]
TickNext == {[ok |-> TRUE, fo |-> folders, fi |-> Undelete(S)] : S \in {X \in SUBSET Eligible : UniqueLiveNames(folders, Undelete(X))}}
\* (a tick during which the node is not ON at either end moves nothing: Node.apply_timestep works on the file system only while ON -
\*  not demanded here, C12's NoWorkUnlessOn does)

\* --- actions -----------------------------------------------------------------
Apply(outs, ok, fo2, fi2) ==
    /\ [ok |-> ok, fo |-> fo2, fi |-> fi2] \in outs
    /\ folders' = fo2 /\ files' = fi2

CreateFile(fo, fi, ok, fo2, fi2, nc2) ==
    /\ Apply(CreateFileNext(fo, fi), ok, fo2, fi2)
    /\ nc2 \in {ncreate, ncreate + 1}
    /\ ncreate' = nc2 /\ UNCHANGED <<pend, ndelete, on>>
CreateFolder(fo, ok, fo2, fi2) ==
    Apply(CreateFolderNext(fo), ok, fo2, fi2) /\ UNCHANGED <<pend, ncreate, ndelete, on>>
DeleteFile(fo, fi, ok, fo2, fi2, nd2) ==
    /\ Apply(DeleteFileNext(fo, fi), ok, fo2, fi2)
    /\ nd2 \in {ndelete, ndelete + 1}   \* (counting accuracy is not part of the property)
    /\ ndelete' = nd2 /\ UNCHANGED <<pend, ncreate, on>>
DeleteFolder(fo, ok, fo2, fi2) ==
    Apply(DeleteFolderNext(fo), ok, fo2, fi2) /\ UNCHANGED <<pend, ncreate, ndelete, on>>
RestoreFile(fo, fi, ok, fo2, fi2) ==
    Apply(RestoreFileNext(fo, fi), ok, fo2, fi2) /\ UNCHANGED <<pend, ncreate, ndelete, on>>
RestoreFolder(fo, ok, fo2, fi2) ==
    /\ Apply(RestoreFolderNext(fo), ok, fo2, fi2)
    /\ pend' = RestoreFolderPend(fo, fo2)
    /\ UNCHANGED <<ncreate, ndelete, on>>
FileOp(fo, fi, ok, fo2, fi2) ==
    Apply(FileOpNext(fo, fi), ok, fo2, fi2) /\ UNCHANGED <<pend, ncreate, ndelete, on>>
FolderOp(fo, ok, fo2, fi2) ==
    Apply(FolderOpNext(fo), ok, fo2, fi2) /\ UNCHANGED <<pend, ncreate, ndelete, on>>
PreTick(fo2, fi2, nc2, nd2) ==
    /\ fo2 = folders /\ fi2 = files
    /\ nc2 = 0 /\ nd2 = 0          \* the per-tick counters start every tick at zero
    /\ ncreate' = 0 /\ ndelete' = 0
    /\ UNCHANGED <<folders, files, pend, on>>
\* a tick may complete a start-up or a shut-down (on2 = the node is ON afterwards)
Tick(fo2, fi2, on2) ==
    /\ Apply(TickNext, TRUE, fo2, fi2)
    /\ pend' \in SUBSET pend
    /\ on' = on2
    /\ UNCHANGED <<ncreate, ndelete>>
\* a power request (start-up, shut-down, reset) to the node: the structure and the counters stay
Power(fo2, fi2, on2) ==
    /\ fo2 = folders /\ fi2 = files
    /\ on' = on2
    /\ UNCHANGED <<folders, files, pend, ncreate, ndelete>>
=============================================================================
