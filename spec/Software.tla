------------------------------ MODULE Software ------------------------------
(***************************************************************************)
(* Lifecycle of the services and applications of ONE node.  Property C13.  *)
(*                                                                         *)
(*   service      RUNNING STOPPED PAUSED DISABLED INSTALLING RESTARTING    *)
(*   application  RUNNING CLOSED INSTALLING          (ABSENT = not there)  *)
(*                                                                         *)
(* The acceptance table is transcribed from the DOCUMENTATION              *)
(* (docs/source/action_masking.rst "Masking Logic"; software.rst):         *)
(*   service   start@STOPPED  stop/pause/restart/scan/fix@RUNNING          *)
(*             resume@PAUSED  enable@DISABLED  disable@any                 *)
(*   app       close/scan/fix@RUNNING  execute@any                         *)
(*   node      application install / uninstall ("Node is on." only)        *)
(* and every row needs "Node is on.".                                      *)
(*                                                                         *)
(* What is pinned and what is left open (DESIGN.md 5.1 / 5.2):             *)
(*  * A request outside its documented source state is refused and changes *)
(*    nothing.  Inside it, it succeeds and the software moves to the       *)
(*    documented target; `fix' and `execute' are accepted but their        *)
(*    outcome depends on health / network conditions (C14 / the            *)
(*    application), so their status is free.  `execute' may open a CLOSED  *)
(*    application (the documented `run' edge) and nothing else.            *)
(*  * enable: the documentation names no target; STOPPED (what the code    *)
(*    does) and RUNNING are both allowed.                                  *)
(*  * install of software that is present / uninstall of software that is  *)
(*    absent: the documentation only requires the node to be on; the       *)
(*    status is free, the state must not change.                           *)
(*  * Timed transitions (restart -> RUNNING after restartDur, install ->   *)
(*    RUNNING after installDur): no document pins the tick, so the 5.2     *)
(*    window applies: the k-th tick after the request may complete the     *)
(*    operation iff k >= d, and must complete it when k = d+1 (d = 0:      *)
(*    inside the request or on tick 1).  `tot' counts all ticks since the  *)
(*    request (lower bound), `age' only those during which the node was ON *)
(*    (upper bound: the operation MUST complete while the node stays ON;   *)
(*    nothing completes while the node is off).  Uninterrupted, the two    *)
(*    counters are equal.  Code as read: restart completes on tick d+1,    *)
(*    install on tick max(d,1); both inside the window.                    *)
(*  * Power (owned by C12): shutdown stops RUNNING software (software.rst: *)
(*    "service stops when node is powered off"); PAUSED / RESTARTING /     *)
(*    INSTALLING software may stay as it is or be stopped; nothing is      *)
(*    RUNNING on a node that is off.  Startup may start STOPPED services   *)
(*    and CLOSED applications.                                             *)
(*  * A payload for port p is handled only by software that is RUNNING on  *)
(*    a node that is ON; when exactly one present piece of software owns   *)
(*    or listens on p and it is RUNNING on an ON node, it handles it.      *)
(*  * The four registries list exactly the present software, and the open  *)
(*    ports are exactly the ports (own + listening) of RUNNING software.   *)
(*                                                                         *)
(* svcs, apps, portsOf, restartDur, installDur are configuration variables *)
(* (never change).  Names not present carry "ABSENT".                      *)
(***************************************************************************)
EXTENDS Naturals, FiniteSets, Sequences

VARIABLES
    svcs, apps,             \* names of the services / applications the node knows (present or installable)
    portsOf,                \* [Names -> SUBSET Nat] own port + listening ports (port 0 = "none" left out)
    restartDur, installDur, \* configured durations
    nodeOn,                 \* the node is ON
    op,                     \* [Names -> state]
    age,                    \* [Names -> Nat] ticks with the node ON since the timed operation started
    tot,                    \* [Names -> Nat] all ticks since it started (capped at the duration)
    installed,              \* software_manager.software
    nodeList,               \* node.services / node.applications
    routes,                 \* names routable under node/service and node/application
    reported,               \* describe_state()["services" | "applications"]
    ports                   \* open ports

cvars == <<svcs, apps, portsOf, restartDur, installDur>>
regs  == <<installed, nodeList, routes, reported>>
svars == <<svcs, apps, portsOf, restartDur, installDur, nodeOn, op, age, tot,
           installed, nodeList, routes, reported, ports>>

Names == svcs \cup apps
SvcStates == {"RUNNING", "STOPPED", "PAUSED", "DISABLED", "INSTALLING", "RESTARTING"}
AppStates == {"RUNNING", "CLOSED", "INSTALLING"}
Absent == "ABSENT"

Present(o)   == {n \in Names : o[n] # Absent}
Running(o)   == {n \in Names : o[n] = "RUNNING"}
OpenPorts(o) == UNION {portsOf[n] : n \in Running(o)}
Dur(n)       == IF n \in svcs THEN restartDur ELSE installDur
InProg(n, o) == \/ n \in svcs /\ o[n] = "RESTARTING"
                \/ n \in apps /\ o[n] = "INSTALLING"

SoftwareInit(S, A, P, rd, id, on, o0) ==
    /\ svcs = S /\ apps = A /\ portsOf = P /\ restartDur = rd /\ installDur = id
    /\ nodeOn = on /\ op = o0
    /\ age = [n \in S \cup A |-> 0] /\ tot = [n \in S \cup A |-> 0]
    /\ installed = {n \in S \cup A : o0[n] # Absent}
    /\ nodeList  = {n \in S \cup A : o0[n] # Absent}
    /\ routes    = {n \in S \cup A : o0[n] # Absent}
    /\ reported  = {n \in S \cup A : o0[n] # Absent}
    /\ ports = UNION {P[n] : n \in {m \in S \cup A : o0[m] = "RUNNING"}}

-----------------------------------------------------------------------------
(* acceptance table *)
SvcSource(verb) ==
    CASE verb = "start" -> {"STOPPED"}
      [] verb \in {"stop", "pause", "restart", "scan", "fix"} -> {"RUNNING"}
      [] verb = "resume" -> {"PAUSED"}
      [] verb = "enable" -> {"DISABLED"}
      [] verb = "disable" -> SvcStates
      [] OTHER -> {}
AppSource(verb) ==
    CASE verb \in {"close", "scan", "fix"} -> {"RUNNING"}
      [] verb = "execute" -> AppStates
      [] OTHER -> {}
Source(n, verb) == IF n \in svcs THEN SvcSource(verb) ELSE AppSource(verb)
Accepted(n, verb) == nodeOn /\ n \in Names /\ op[n] \in Source(n, verb)

OutcomeFree == {"fix", "execute"}

Targets(n, verb) ==
    CASE verb = "start"   -> {"RUNNING"}
      [] verb = "stop"    -> {"STOPPED"}
      [] verb = "pause"   -> {"PAUSED"}
      [] verb = "resume"  -> {"RUNNING"}
      [] verb = "restart" -> IF restartDur = 0 THEN {"RESTARTING", "RUNNING"} ELSE {"RESTARTING"}
      [] verb = "disable" -> {"DISABLED"}
      [] verb = "enable"  -> {"STOPPED", "RUNNING"}
      [] verb = "close"   -> {"CLOSED"}
      [] verb = "execute" -> IF op[n] = "CLOSED" THEN {"CLOSED", "RUNNING"} ELSE {op[n]}
      [] OTHER            -> {op[n]}          \* scan, fix

InstallTargets == IF installDur = 0 THEN {"INSTALLING", "RUNNING"} ELSE {"INSTALLING"}

OthersUntouched(n, o2) == \A m \in Names \ {n} : o2[m] = op[m]

\* timers restart from 0 whenever the state of a piece of software changes
Rearm(o2) ==
    /\ age' = [m \in Names |-> IF o2[m] = op[m] THEN age[m] ELSE 0]
    /\ tot' = [m \in Names |-> IF o2[m] = op[m] THEN tot[m] ELSE 0]

(* a lifecycle / scan / fix / execute request addressed to software n *)
Req(n, verb, ok, o2) ==
    /\ IF Accepted(n, verb)
       THEN /\ ok \/ verb \in OutcomeFree
            /\ o2[n] \in Targets(n, verb)
            /\ OthersUntouched(n, o2)
       ELSE /\ ~ok
            /\ o2 = op
    /\ op' = o2
    /\ Rearm(o2)
    /\ ports' = OpenPorts(o2)
    /\ UNCHANGED <<cvars, nodeOn, regs>>

(* node/software_manager/application/install n *)
Install(n, ok, o2) ==
    /\ n \in apps
    /\ IF nodeOn /\ op[n] = Absent
       THEN /\ ok
            /\ o2[n] \in InstallTargets
            /\ OthersUntouched(n, o2)
            /\ installed' = installed \cup {n}
            /\ nodeList'  = nodeList \cup {n}
            /\ routes'    = routes \cup {n}
            /\ reported'  = reported \cup {n}
       ELSE /\ nodeOn \/ ~ok
            /\ o2 = op
            /\ UNCHANGED regs
    /\ op' = o2
    /\ Rearm(o2)
    /\ ports' = OpenPorts(o2)
    /\ UNCHANGED <<cvars, nodeOn>>

(* node/software_manager/application/uninstall n *)
Uninstall(n, ok, o2) ==
    /\ n \in apps
    /\ IF nodeOn /\ op[n] # Absent
       THEN /\ ok
            /\ o2[n] = Absent
            /\ OthersUntouched(n, o2)
            /\ installed' = installed \ {n}
            /\ nodeList'  = nodeList \ {n}
            /\ routes'    = routes \ {n}
            /\ reported'  = reported \ {n}
       ELSE /\ nodeOn \/ ~ok
            /\ o2 = op
            /\ UNCHANGED regs
    /\ op' = o2
    /\ Rearm(o2)
    /\ ports' = OpenPorts(o2)
    /\ UNCHANGED <<cvars, nodeOn>>

(* one tick *)
Window(n, s) == (IF tot[n] + 1 >= Dur(n) THEN {"RUNNING"} ELSE {}) \cup (IF age[n] < Dur(n) THEN {s} ELSE {})
TickTargets(n) == IF nodeOn /\ InProg(n, op) THEN Window(n, op[n]) ELSE {op[n]}
Min(a, b) == IF a <= b THEN a ELSE b

Tick(o2) ==
    /\ \A n \in Names : o2[n] \in TickTargets(n)
    /\ op' = o2
    /\ age' = [n \in Names |-> IF InProg(n, o2) /\ o2[n] = op[n]
                               THEN (IF nodeOn THEN age[n] + 1 ELSE age[n]) ELSE 0]
    /\ tot' = [n \in Names |-> IF InProg(n, o2) /\ o2[n] = op[n] THEN Min(tot[n] + 1, Dur(n)) ELSE 0]
    /\ ports' = OpenPorts(o2)
    /\ UNCHANGED <<cvars, nodeOn, regs>>

(* node shutdown / startup (instantaneous; the timing of power is C12's) *)
OffTargets(n) ==
    CASE op[n] = "RUNNING"    -> {IF n \in svcs THEN "STOPPED" ELSE "CLOSED"}
      [] op[n] = "PAUSED"     -> {"PAUSED", "STOPPED"}
      [] op[n] = "RESTARTING" -> {"RESTARTING", "STOPPED"}
      [] op[n] = "INSTALLING" /\ n \in apps -> {"INSTALLING", "CLOSED"}
      [] OTHER -> {op[n]}
OnTargets(n) ==
    CASE op[n] = "STOPPED" -> {"STOPPED", "RUNNING"}
      [] op[n] = "CLOSED"  -> {"CLOSED", "RUNNING"}
      [] OTHER -> {op[n]}
PowerAccepted(kind) == IF kind = "startup" THEN ~nodeOn ELSE nodeOn

Power(kind, ok, o2) ==
    /\ kind \in {"shutdown", "startup"}
    /\ IF PowerAccepted(kind)
       THEN /\ ok
            /\ nodeOn' = (kind = "startup")
            /\ \A n \in Names : o2[n] \in (IF kind = "startup" THEN OnTargets(n) ELSE OffTargets(n))
       ELSE /\ ~ok
            /\ o2 = op
            /\ UNCHANGED nodeOn
    /\ op' = o2
    /\ Rearm(o2)
    /\ ports' = OpenPorts(o2)
    /\ UNCHANGED <<cvars, regs>>

(* a payload arrives from the network for port p; `handled' = the software that processed it *)
SoleOwner(t, p) == p \in portsOf[t] /\ \A m \in Present(op) \ {t} : p \notin portsOf[m]
NotRunningNeverHandles(handled) == handled \subseteq (IF nodeOn THEN Running(op) ELSE {})
RunningHandles(p, handled) ==
    \A t \in Names : (nodeOn /\ op[t] = "RUNNING" /\ SoleOwner(t, p)) => t \in handled

Payload(p, handled) ==
    /\ NotRunningNeverHandles(handled)
    /\ RunningHandles(p, handled)
    /\ UNCHANGED svars

-----------------------------------------------------------------------------
(* property clauses *)
RegistriesAgree(o, i, nl, r, rp) == i = Present(o) /\ nl = i /\ r = i /\ rp = i
NoPortOpenUnlessRunning(o, ps) == ps \subseteq OpenPorts(o)
RunningKeepsPortOpen(o, ps)    == OpenPorts(o) \subseteq ps
NothingRunsWhenOff(on, o)      == ~on => Running(o) = {}

TypeOK ==
    /\ nodeOn \in BOOLEAN
    /\ \A n \in svcs : op[n] \in SvcStates
    /\ \A n \in apps : op[n] \in AppStates \cup {Absent}
InvRegistriesAgree == RegistriesAgree(op, installed, nodeList, routes, reported)
InvPorts == NoPortOpenUnlessRunning(op, ports) /\ RunningKeepsPortOpen(op, ports)
InvNothingRunsWhenOff == NothingRunsWhenOff(nodeOn, op)
InvTimers == \A n \in Names : /\ age[n] <= tot[n] /\ tot[n] <= Dur(n)
                               /\ (~InProg(n, op) => tot[n] = 0)

\* operating states change only along the documented edges
LegalEdge(n, a, b) ==
    IF n \in svcs
    THEN \/ <<a, b>> \in {<<"STOPPED", "RUNNING">>, <<"RUNNING", "STOPPED">>, <<"RUNNING", "PAUSED">>,
                          <<"PAUSED", "RUNNING">>, <<"RUNNING", "RESTARTING">>, <<"RESTARTING", "RUNNING">>,
                          <<"DISABLED", "STOPPED">>, <<"DISABLED", "RUNNING">>,
                          <<"PAUSED", "STOPPED">>, <<"RESTARTING", "STOPPED">>}   \* last two: power-off only
         \/ b = "DISABLED"
    ELSE \/ <<a, b>> \in {<<"CLOSED", "RUNNING">>, <<"RUNNING", "CLOSED">>, <<Absent, "INSTALLING">>,
                          <<"INSTALLING", "RUNNING">>, <<"INSTALLING", "CLOSED">>}
         \/ (installDur = 0 /\ <<a, b>> = <<Absent, "RUNNING">>)
         \/ (b = Absent)
OnlyDocumentedTransitions ==
    [][\A n \in Names : op'[n] # op[n] => LegalEdge(n, op[n], op'[n])]_svars
\* a timed operation never completes early nor while the node is off
TimedNotEarly ==
    [][\A n \in Names : (InProg(n, op) /\ op'[n] = "RUNNING") => (nodeOn /\ tot[n] + 1 >= Dur(n))]_svars
\* ... and is never still pending once d+1 ticks have passed with the node ON
TimedNotLate ==
    [][\A n \in Names : (InProg(n, op) /\ InProg(n, op') /\ op'[n] = op[n]) => age'[n] <= Dur(n)]_svars
=============================================================================
