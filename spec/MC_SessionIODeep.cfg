SPECIFICATION Spec
CONSTANTS
  Inst = {"A", "B"}
  Variant = "design"
  MaxEp = 1
  MaxLen = 2
  MaxWrites = 2
  LevelsUsed = {1, 3, 5}
  ShapesUsed = {"plain", "json", "tail"}
  First = "A"
  Refill = FALSE
  ProfilesUsed = {"on", "off", "warn"}
INVARIANT InvFinishedRecorded
INVARIANT InvFilePerFinishedEpisode
INVARIANT InvFileHoldsEpisode
INVARIANT InvWrittenOnce
INVARIANT InvMetaPerStep
INVARIANT InvSysIffOn
INVARIANT InvPcapIffOn
INVARIANT InvAgentIffOn
PROPERTY OptNeverChanges
VIEW View
CHECK_DEADLOCK FALSE
