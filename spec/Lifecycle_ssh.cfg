SPECIFICATION Spec
CONSTANTS
  Facet = "ssh"
  PowDur = 2
  FixDur = 2
  RestDur = 2
  InstDur = 2
INVARIANT TypeOK
CHECK_DEADLOCK FALSE
