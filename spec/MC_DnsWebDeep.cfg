SPECIFICATION Spec
CONSTANTS
  Clients = {"c1", "c2"}
  Names = {"a", "b"}
  SvcStates = {"RUNNING", "STOPPED"}
  MaxHist = 1
  MaxCodes = 1
  MaxEnv = 2
  TickAlways = FALSE
INVARIANT TypeOK
INVARIANT NoPendingItem
INVARIANT NestedLookup
INVARIANT CacheSound
INVARIANT TableSound
INVARIANT AnswerFromTable
INVARIANT AnsweredByRunning
INVARIANT AskedOnlyUncached
INVARIANT ResolvedAddress
INVARIANT ServedByRunning
INVARIANT Users200NeedsDb
INVARIANT Root200
INVARIANT Other404
PROPERTY CacheOnlyByReplyOrAdd
PROPERTY PositiveOnly
PROPERTY LookupOkMeansKnown
PROPERTY FreshNeedsServer
PROPERTY OkItemOnlyFromResponse
PROPERTY SuccessIff200
PROPERTY DeadRecordsNothing
PROPERTY HistoryGrowsAtEnd
PROPERTY SentMeansRecorded
PROPERTY CodesPerStep
PROPERTY ConfigFrozen
VIEW View
CHECK_DEADLOCK FALSE
