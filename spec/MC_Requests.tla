---------------------------- MODULE MC_Requests ----------------------------
(* All trees of depth <= 3 over two keys with every guard valuation, every *)
(* path over the keys plus a misspelt key, of every length 1..4.           *)
EXTENDS Requests, TLC

CONSTANTS Variant   \* "design" | "leafonly"

Keys == {"a", "b"}
PKeys == Keys \cup {"zz"}

Leaf(g) == [guard |-> g, leaf |-> TRUE, sub |-> <<>>]
Node(g, t) == [guard |-> g, leaf |-> FALSE, sub |-> t]

\* level-3 trees (leaves only), level-2, level-1
T3 == [Keys -> {Leaf(TRUE), Leaf(FALSE)}]
E2 == {Leaf(TRUE), Leaf(FALSE)} \cup {Node(g, t) : g \in BOOLEAN, t \in T3}
T2 == [Keys -> E2]
\* keep level 1 small: key "a" is an inner node over any level-2 tree, key "b" a leaf or a fixed inner node
T1 == {[a |-> Node(g, t), b |-> e] : g \in BOOLEAN, t \in T2, e \in {Leaf(TRUE), Leaf(FALSE)}}

Paths == UNION {[1..n -> PKeys] : n \in 1..4}

VARIABLES tree, path, done
vars == <<tree, path, done>>

Init == tree \in T1 /\ path \in Paths /\ done = FALSE
Next == ~done /\ done' = TRUE /\ UNCHANGED <<tree, path>>
Spec == Init /\ [][Next]_vars

Obs == Observe(tree, path)
Ran == Resolve(tree, path)

\* the observation determines the outcome exactly as the recursive resolution does
DispatchMatchesResolve ==
    Ran # "raise" => Dispatch(Obs) = Ran
\* a path that runs out inside the tree is the only way to "raise"
RaiseOnlyWhenTruncated ==
    Ran = "raise" => (\A i \in 1..Len(Obs) : Obs[i].present /\ Obs[i].guard)
\* the mask is exact
MaskExact ==
    LET cv == IF Variant = "design" THEN CheckValid(tree, path) ELSE CheckValidLeafOnly(tree, path)
    IN  Ran # "raise" => (cv <=> MaskAllows(Obs))
StatusDomain == Ran \in {"handled", "failure", "unreachable", "raise"}
=============================================================================
