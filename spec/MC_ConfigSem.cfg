SPECIFICATION Spec
INVARIANT PrefixIsExpected
INVARIANT BuiltIsExpected
INVARIANT Progress
INVARIANT NoDiffWhenEqual
CHECK_DEADLOCK FALSE
