------------------------------ MODULE C2Trace ------------------------------
(* Trace validation of recorded histories of a real C2 beacon / C2 server    *)
(* pair against C2.tla (batch idiom, DESIGN.md 4.4).                         *)
(*                                                                           *)
(* trace: cfg = [pathKnown, env, bcn, srv]  (the projected state of the real *)
(*        objects when recording starts; records as in C2.tla)               *)
(* event: [ev |-> "Configure"|"Establish"|"Command"|"Return"|"SrvKA"|"BcnKA"|*)
(*                "BcnInput"|"SrvOutput"|"Drop"|"BcnTick"|"BcnConfirm"|      *)
(*                "SrvTick"|"Acl"|"Power"|"Close"|"Env"|"Raised"|"ExtraSend",*)
(*   f, port, proto   Configure: the requested settings; handlers / Drop:    *)
(*                    the settings carried by the C2 packet                  *)
(*   cmd, ran, status the command sent / carried, the beacon method that     *)
(*                    ran, the status of the output                          *)
(*   sent, ok         a payload left the sender; status of the request       *)
(*   who, flag        Acl: direction, blocked; Power: host, on; Close: app   *)
(*   wport, wproto    port / protocol of the frame on the wire               *)
(*   bOn sOn bRun sRun blkBS blkSB  bAddr bFreq bPort bProto bAct bInact bAtt *)
(*   bSPort bSProto  sRemote sFreq sPort sProto sAct sInact sSPort sSProto ] *)
(*   (b/sSPort, b/sSProto: port / protocol of the application's c2_session,  *)
(*    0 / "" without one)                                                    *)
(* the last twenty-three are read from the real objects when the action is   *)
(* over                                                                      *)
(* (for a handler / stimulus that sends: just before it sends).              *)
EXTENDS C2, TLC, TLCExt, Json, IOUtils

Traces == JsonDeserialize(IOEnv.TRACE_FILE)

VARIABLES tid, l
tvars == <<pathKnown, env, bcn, srv, net, todo, retOk, last, tid, l>>

T == Traces[tid].ev
Cfg == Traces[tid].cfg

ProjE(e) == [bOn |-> e.bOn, sOn |-> e.sOn, bRun |-> e.bRun, sRun |-> e.sRun, blkBS |-> e.blkBS, blkSB |-> e.blkSB]
ProjB(e) == [addr |-> e.bAddr, freq |-> e.bFreq, port |-> e.bPort, proto |-> e.bProto,
             act |-> e.bAct, inact |-> e.bInact, att |-> e.bAtt, sport |-> e.bSPort, sproto |-> e.bSProto]
ProjS(e) == [remote |-> e.sRemote, freq |-> e.sFreq, port |-> e.sPort, proto |-> e.sProto, act |-> e.sAct, inact |-> e.sInact,
             sport |-> e.sSPort, sproto |-> e.sSProto]
ReqCfg(e) == [freq |-> e.f, port |-> e.port, proto |-> e.proto]
NoFreq(r) == [r EXCEPT !.freq = 0]

Deliveries == {"SrvKA", "BcnKA", "BcnInput", "SrvOutput"}
TopLevel == {"Configure", "Establish", "Command", "BcnTick", "SrvTick", "Acl", "Power", "Close", "Env"}
DestOf(e) == IF e.ev \in {"SrvKA", "SrvOutput"} THEN "S" ELSE "B"
KindOf(e) == CASE e.ev \in {"SrvKA", "BcnKA"} -> "ka" [] e.ev = "BcnInput" -> "in" [] e.ev = "SrvOutput" -> "out" [] OTHER -> "?"

\* the event comes at a point where the protocol has such a step at all
Order(e) ==
    CASE e.ev = "BcnTick" -> Idle /\ env.bOn
      [] e.ev = "SrvTick" -> Idle /\ env.sOn
      [] e.ev = "Acl" -> Idle /\ pathKnown
      [] e.ev = "Env" -> Idle /\ ~pathKnown
      [] e.ev \in TopLevel -> Idle
      [] e.ev \in Deliveries -> net.kind = KindOf(e) /\ net.to = DestOf(e)
      [] e.ev = "Drop" -> net.kind # "none"
      [] e.ev = "BcnConfirm" -> net.kind = "none" /\ todo = <<"confirm">>
      [] e.ev = "Return" -> net.kind = "none" /\ todo = <<"ret">>
      [] OTHER -> FALSE

Guard(e) ==
    CASE e.ev = "Configure"  -> ConfigureGuard(ReqCfg(e), e.sent)
      [] e.ev = "Establish"  -> EstablishGuard(e.sent, e.bRun)
      [] e.ev = "Command"    -> CommandGuard(e.cmd, e.sent)
      [] e.ev = "Return"     -> ReturnGuard(e.ok)
      [] e.ev = "SrvKA"      -> SrvKAGuard(e.sent)
      [] e.ev = "BcnKA"      -> BcnKAGuard(e.sent)
      [] e.ev = "BcnInput"   -> BcnInputGuard(e.ran, e.status, e.sent)
      [] e.ev = "SrvOutput"  -> SrvOutputGuard
      [] e.ev = "Drop"       -> DropGuard
      [] e.ev = "BcnTick"    -> BcnTickGuard(e.sent)
      [] e.ev = "BcnConfirm" -> BcnConfirmGuard
      [] e.ev = "SrvTick"    -> SrvTickGuard
      [] e.ev = "Acl"        -> AclGuard(e.who, e.flag)
      [] e.ev = "Power"      -> PowerGuard(e.who, e.flag)
      [] e.ev = "Close"      -> CloseGuard(e.who)
      [] e.ev = "Env"        -> EnvGuard(ProjE(e))
      [] OTHER -> FALSE

Out(e) ==
    CASE e.ev = "Configure"  -> ConfigureOut(ReqCfg(e), e.sent)
      [] e.ev = "Establish"  -> EstablishOut(e.sent, e.bRun)
      [] e.ev = "Command"    -> CommandOut(e.cmd, e.sent)
      [] e.ev = "Return"     -> ReturnOut
      [] e.ev = "SrvKA"      -> SrvKAOut(e.sent)
      [] e.ev = "BcnKA"      -> BcnKAOut(e.sent)
      [] e.ev = "BcnInput"   -> BcnInputOut(e.ran, e.status, e.sent)
      [] e.ev = "SrvOutput"  -> SrvOutputOut
      [] e.ev = "Drop"       -> DropOut
      [] e.ev = "BcnTick"    -> BcnTickOut(e.sent)
      [] e.ev = "BcnConfirm" -> BcnConfirmOut
      [] e.ev = "SrvTick"    -> SrvTickOut
      [] e.ev = "Acl"        -> AclOut(e.who, e.flag)
      [] e.ev = "Power"      -> PowerOut(e.who, e.flag)
      [] e.ev = "Close"      -> CloseOut(e.who)
      [] e.ev = "Env"        -> EnvOut(ProjE(e))
      [] OTHER -> State

\* named clauses, all predicates of (current specification state, event): the guard of the step
Clauses(e) ==
    LET o == Out(e) IN
    [ NoException |-> e.ev \notin {"Raised", "ExtraSend"},
      ProtocolOrder |-> Order(e),
      \* K1
      EstablishOnlyWhenConfigured |-> e.ev = "Establish" => (e.sent => MayEstablish),
      EstablishesWhenConfigured   |-> (e.ev = "Establish" /\ pathKnown /\ MayEstablish) => (e.sent /\ e.bRun),
      \* K2
      ConnectionNeedsBothRunning |->
          (~bcn.act /\ e.bAct) => (e.ev = "BcnKA" /\ env.bOn /\ env.bRun /\ env.sOn /\ env.sRun /\ bcn.addr),
      \* K3
      ServerLearnsFromKeepAlive |->
          /\ (~srv.remote /\ e.sRemote) => e.ev = "SrvKA"
          /\ e.ev = "SrvKA" => (e.sRemote /\ e.sAct /\ e.sInact = 0
                                /\ e.sFreq = net.freq /\ e.sPort = net.port /\ e.sProto = net.proto),
      \* K4
      AnswersEachKeepAliveOnce |-> e.ev = "SrvKA" => e.sent \in SendOutcome(TRUE),
      \* K5
      KeepAliveEveryFrequency |->
          e.ev = "BcnTick" => e.sent \in (IF BcnCounts /\ Due(bcn.inact + 1, bcn.freq) THEN SendOutcome(TRUE) ELSE {FALSE}),
      \* K6
      LostAfterMissedKeepAlive |-> e.ev = "BcnConfirm" => (NoFreq(ProjB(e)) = NoFreq(o.bcn) /\ e.bRun = o.env.bRun),
      ServerDropsAfterInactivity |-> e.ev = "SrvTick" => NoFreq(ProjS(e)) = NoFreq(o.srv),
      ResetRestoresDefaults |-> /\ e.ev = "BcnConfirm" => e.bFreq = o.bcn.freq
                                /\ e.ev = "SrvTick" => e.sFreq = o.srv.freq,
      \* K7
      CommandOnlyWhileActive |-> e.ev = "Command" => (e.sent => (srv.act /\ MayCommand)),
      CommandSentWhileActive |-> (e.ev = "Command" /\ pathKnown /\ MayCommand) => e.sent,
      \* K8
      ExecutesExactlyTheCommandSent |-> e.ev = "BcnInput" => (e.ran = net.cmd /\ e.cmd = net.cmd),
      \* K9
      ExactlyOneOutput |-> e.ev = "BcnInput" => (e.status \in Statuses /\ e.sent \in SendOutcome(TRUE)),
      ResponseIsThisCommandsOutput |-> e.ev = "Return" => e.ok = retOk,
      \* K10
      KeepAliveCarriesConfig |-> e.ev \in Deliveries => (e.f = net.freq /\ e.port = net.port /\ e.proto = net.proto),
      \* execute sends on the configured masquerade, everything else in the session it belongs to (net.wport / wproto)
      TrafficOnMasqueradePort |-> e.ev \in Deliveries \cup {"Drop"} => (e.wport = net.wport /\ e.wproto = net.wproto),
      \* K11
      NothingThroughBlockOrOff |-> e.ev \in Deliveries => Deliverable(DestOf(e)),
      DeliveredWhenPathOpen |-> e.ev = "Drop" => (pathKnown => ~PathOpen(net.to)),
      \* binding: everything else the real objects show is what the module says
      BeaconStateAsSpecified |-> IF e.ev = "BcnConfirm" THEN TRUE ELSE ProjB(e) = o.bcn,
      ServerStateAsSpecified |-> IF e.ev = "SrvTick" THEN TRUE ELSE ProjS(e) = o.srv,
      EnvAsSpecified |-> ProjE(e) = o.env
    ]
Failing(e) == LET cl == Clauses(e) IN {c \in DOMAIN cl : ~cl[c]}

Step(e) == Guard(e) /\ Apply(Out(e), <<e.ev>>)

TraceInit ==
    /\ tid \in 1..Len(Traces)
    /\ l = 1
    /\ C2Init(Cfg.pathKnown, Cfg.env, Cfg.bcn, Cfg.srv)

TraceNext ==
    /\ l <= Len(T)
    /\ Failing(T[l]) = {}
    /\ Step(T[l])
    /\ l' = l + 1
    /\ UNCHANGED tid

TraceSpec == TraceInit /\ [][TraceNext]_tvars

Seen == TLCGet(tid)
Record ==
    IF l > Seen.pos
    THEN TLCSet(tid, [pos |-> l,
                      fail |-> IF l <= Len(T) THEN Failing(T[l]) ELSE {},
                      st |-> [env |-> env, bcn |-> bcn, srv |-> srv, net |-> net, todo |-> todo, retOk |-> retOk]])
    ELSE TRUE
InitRegs == \A i \in 1..Len(Traces) : TLCSet(i, [pos |-> 0, fail |-> {}, st |-> <<>>])
ASSUME InitRegs

Report ==
    \A i \in 1..Len(Traces) :
        LET r == TLCGet(i) IN
        /\ PrintT(<<"TRACE", i, r.pos, Len(Traces[i].ev)>>)
        /\ (r.pos = Len(Traces[i].ev) + 1 \/ PrintT(<<"STUCK", i, r.pos, r.fail, r.st>>))
=============================================================================
