SPECIFICATION TraceSpec
CONSTANTS
  Facet = "svc"
  PowDur = 2
  FixDur = 2
  RestDur = 5
  InstDur = 2
CONSTRAINT Record
POSTCONDITION Report
CHECK_DEADLOCK FALSE
