SPECIFICATION Spec
CONSTANTS
  FixDurs = {1}
  ScanDurs = {0,1,2}
  RestDurs = {0,1,2}
  NodeDurs = {1}
  UseSw = FALSE
  FsOps = {"FolderScan","FolderRestore","FileCorrupt"}
  AllowRestart = FALSE
  InitSw = {"GOOD"}
INVARIANT InvNeverOverdue
INVARIANT InvFixClock
INVARIANT InvTypes
PROPERTY SwVisibleOnlyByScan
PROPERTY FileVisibleOnlyByScan
PROPERTY FolderVisibleOnlyByScan
PROPERTY SwActualOnlyByEvent
PROPERTY FileHealthOnlyByEvent
PROPERTY ScanLeavesTruth
PROPERTY FixExactly
PROPERTY ScanInWindow
PROPERTY RestoreInWindow
PROPERTY OsScanInWindow
PROPERTY InstantOnlyAtZero
PROPERTY OffTicksChangeNothing
PROPERTY ScanCompletes
PROPERTY RestoreCompletes
PROPERTY OsScanCompletes
CHECK_DEADLOCK TRUE
