------------------------------- MODULE DnsWeb -------------------------------
(***************************************************************************)
(* Extension module (beyond the listed properties): name resolution and    *)
(* web page retrieval - DNSClient / DNSServer / WebBrowser / WebServer.    *)
(*                                                                         *)
(* Entities: a set of client hosts (each with a dns-client service and a   *)
(* web-browser application), one DNS server node "d" (dns-server service)  *)
(* and one web server node "w" (web-server service, optionally with a      *)
(* configured database client).  Addresses are tokens: "w" = the address   *)
(* of the web server node, anything else = an address where no web server  *)
(* lives.  The simulator is synchronous: a lookup / a page request is one  *)
(* nested call chain, modelled as an exchange in flight (`lk', `br') that  *)
(* moves through one action per handler / message kind of the code:        *)
(*                                                                         *)
(*   LookupBegin   DNSClient.check_domain_exists entered                   *)
(*   DnsServe      DNSServer.receive handled a DNSPacket request and sends *)
(*                 the reply (DNSServer.dns_lookup)                        *)
(*   DnsReply      DNSClient.receive handled the reply (fills the cache)   *)
(*   LookupEnd     check_domain_exists returned                            *)
(*   BrowseBegin   WebBrowser.get_webpage entered (request `execute')      *)
(*   WebServe      WebServer._handle_get_request decided the status        *)
(*   HttpResp      WebBrowser.receive handled the HttpResponsePacket       *)
(*   WebLog        WebServer._process_http_request accounted the response  *)
(*                 in response_codes_this_timestep                         *)
(*   BrowseEnd     get_webpage returned (history item appended)            *)
(*   Register      DNSServer.dns_register                                  *)
(*   AddCache      DNSClient.add_domain_to_cache                           *)
(*   SetOp / Power operating state of the four pieces of software / of a   *)
(*                 node changed (requests, timed completions, power)       *)
(*   Tick          WebServer.pre_timestep (start of a simulation step)     *)
(*                                                                         *)
(* CONTRACT CLAUSES (and where they come from)                             *)
(*  D1 AnswersFromTableOnly   the DNS server answers with the address it   *)
(*     has registered for the name and with no address for an unknown name *)
(*     (DNSServer.dns_lookup docstring ":return: The IP address of that    *)
(*     domain name or None"; docs dns_server.rst "Returns the IP address   *)
(*     for a given domain name").                                          *)
(*  D2 SilentUnlessRunning    a DNS server that is not RUNNING or whose    *)
(*     node is not ON answers nothing and registers nothing                *)
(*     (Service._can_perform_action docstring; dns_lookup / dns_register   *)
(*     guard; software.rst operating states).                              *)
(*  D3 CacheBeforeAsk         the client asks the server only for names    *)
(*     that are not in its cache (dns_client.rst "keeps a cache of known   *)
(*     domain name IP addresses"; comment in check_domain_exists).         *)
(*  D4 CachesPositiveOnly     the cache changes only by a reply that       *)
(*     carries an address (that name -> that address) or by                *)
(*     add_domain_to_cache on a running client (dns_client.rst "will       *)
(*     automatically add the IP Address of the domain into its cache").    *)
(*  D5 LookupResult           check_domain_exists is True iff the client   *)
(*     can act (RUNNING, node ON) and the name is in its cache when the    *)
(*     exchange ends: hence a fresh name needs a configured, reachable,    *)
(*     running server that knows it (check_domain_exists docstring /       *)
(*     body, dns_client.rst Usage).                                        *)
(*  D6 ServedWhenReachable    on a shared LAN a query of a running client  *)
(*     to its configured running server IS answered and the answer IS      *)
(*     delivered (web_browser.rst "once DNS server is configured with the  *)
(*     correct domain mapping this should work").                          *)
(*  W1 ResolvesThroughDns     the browser resolves the host of the URL     *)
(*     through the DNS client before anything is sent; an IP literal is    *)
(*     used as it is when the lookup fails (web_browser.rst "Automatically *)
(*     uses DNSClient to resolve domain names"; get_webpage comments).     *)
(*  W2 StatusRules            GET of the root page = 200; a `users' page   *)
(*     = 200 only when the database query succeeded, 500 when no database  *)
(*     connection can be made, not 200 when the query failed; any other    *)
(*     path = 404 (web_server.rst "returns an HTTP 200 status if the       *)
(*     database is responsive", HttpStatusCode docstrings,                 *)
(*     _handle_get_request).                                               *)
(*  W3 ServesOnlyWhenRunning  a web server that is not RUNNING / whose     *)
(*     node is not ON serves nothing (Service._can_perform_action).        *)
(*  W4 OutcomeAsReceived      the history item of a request records the    *)
(*     status of the response that was received for it: LOADED/<code>;     *)
(*     200 therefore only from a running web server; get_webpage (and the  *)
(*     `execute' request) succeeds iff that code is 200 (relied on by      *)
(*     WebpageUnavailablePenalty, rewards.py).                             *)
(*  W5 NoResponseNotSuccessful  when no response came back the item is     *)
(*     SERVER_UNREACHABLE or LOADED/404 (the latter pinned by the          *)
(*     repository's own test_web_client_server_and_database.py) - never    *)
(*     200, and the call fails.                                            *)
(*  W6 DeadBrowserRecordsNothing a browser that is not RUNNING or whose    *)
(*     node is not ON sends nothing, records nothing and fails             *)
(*     (Application._can_perform_action).                                  *)
(*  W7 HistoryAppendOnly      at most one item per request, appended when  *)
(*     the request ends, exactly one when a request was sent; items are    *)
(*     final (never PENDING / NOT_SENT afterwards) and never change again  *)
(*     (BrowserHistoryItem docstrings).                                    *)
(*  W8 ServedWhenReachable    on a shared LAN a request to the address of  *)
(*     a running web server IS served and the response IS received.        *)
(*  W9 CodesPerStep           response_codes_this_timestep holds the codes *)
(*     of the responses of the current step in order, and is emptied at    *)
(*     the start of a step (WebServer.pre_timestep docstring; relied on by *)
(*     WebServer404Penalty).                                               *)
(*  X1 NoException            no handler raises (a request is answered     *)
(*     success / failure).                                                 *)
(*                                                                         *)
(* Configuration lives in variables that never change.                     *)
(***************************************************************************)
EXTENDS Naturals, Sequences, FiniteSets

VARIABLES
    clients,    \* set of client ids
    dnsCfg,     \* [clients -> "d" | "none" | other]  DNS server configured on the client ("d" = the DNS server node)
    hasDb,      \* the web server node has a configured database client
    direct,     \* all nodes share one LAN segment (delivery depends on power / operating states only)
    on,         \* [Nodes -> BOOLEAN]  node operating state is ON
    dcOp, brOp, \* [clients -> STRING] operating state of the client's dns-client / web-browser
    dsOp, wsOp, \* operating state of the dns-server / web-server
    table,      \* the DNS server's table: function name -> address
    cache,      \* [clients -> function name -> address]
    hist,       \* [clients -> Seq(Nat)]  browser history: HTTP code of a LOADED item, 1/2/3 otherwise
    codes,      \* the web server's response codes of this step
    lk,         \* the lookup in flight
    br          \* the page request in flight

cfgvars == <<clients, dnsCfg, hasDb, direct>>
envvars == <<on, dcOp, brOp, dsOp, wsOp>>
datavars == <<table, cache, hist, codes>>
dwvars == <<cfgvars, envvars, datavars, lk, br>>

Unreach == 1      \* SERVER_UNREACHABLE
Pending == 2      \* PENDING
NotSent == 3      \* NOT_SENT
Running == "RUNNING"
Nodes == clients \cup {"d", "w"}

NoLk == [c |-> "", n |-> "", st |-> "idle", ans |-> ""]
NoBr == [c |-> "", host |-> "", lit |-> "", path |-> "", st |-> "idle", addr |-> "", code |-> 0, logged |-> FALSE]

Empty == [x \in {} |-> ""]
Get(f, k) == IF k \in DOMAIN f THEN f[k] ELSE ""
Put(f, k, v) == [x \in DOMAIN f \cup {k} |-> IF x = k THEN v ELSE f[x]]

DcUp(c) == on[c] /\ dcOp[c] = Running
BrUp(c) == on[c] /\ brOp[c] = Running
DsUp == on["d"] /\ dsOp = Running
WsUp == on["w"] /\ wsOp = Running
Idle == lk.st = "idle" /\ br.st = "idle"

DnsWebInit(cl, dcfg, db, dir, on0, dc0, br0, ds0, ws0, tbl0, cache0, hist0, codes0) ==
    /\ clients = cl /\ dnsCfg = dcfg /\ hasDb = db /\ direct = dir
    /\ on = on0 /\ dcOp = dc0 /\ brOp = br0 /\ dsOp = ds0 /\ wsOp = ws0
    /\ table = tbl0 /\ cache = cache0 /\ hist = hist0 /\ codes = codes0
    /\ lk = NoLk /\ br = NoBr

-----------------------------------------------------------------------------
(* DNS *)

\* a running client that does not know the name and has a server configured sends a query
Asks(c, n) == DcUp(c) /\ n \notin DOMAIN cache[c] /\ dnsCfg[c] # "none"

LookupBegin(c, n) ==
    /\ c \in clients
    /\ lk.st = "idle"
    /\ br.st = "idle" \/ (br.st = "begun" /\ br.c = c /\ br.host = n)
    /\ lk' = [c |-> c, n |-> n, st |-> IF Asks(c, n) THEN "asked" ELSE "local", ans |-> ""]
    /\ UNCHANGED <<cfgvars, envvars, datavars, br>>

\* D1, D2, D3 (as guards; the trace specification names them)
AnswersFromTableOnly(n, ip) == ip = Get(table, n)
SilentUnlessRunning == DsUp
CacheBeforeAsk == lk.st = "asked"

DnsServe(c, n, ip) ==
    /\ lk.c = c /\ lk.n = n /\ dnsCfg[c] = "d"
    /\ CacheBeforeAsk
    /\ SilentUnlessRunning
    /\ AnswersFromTableOnly(n, ip)
    /\ lk' = [lk EXCEPT !.st = "answered", !.ans = ip]
    /\ UNCHANGED <<cfgvars, envvars, datavars, br>>

DnsReply(c, n, ip) ==
    /\ lk.st = "answered" /\ lk.c = c /\ lk.n = n /\ lk.ans = ip
    /\ DcUp(c)
    /\ cache' = IF ip # "" THEN [cache EXCEPT ![c] = Put(@, n, ip)] ELSE cache
    /\ lk' = [lk EXCEPT !.st = "replied"]
    /\ UNCHANGED <<cfgvars, envvars, table, hist, codes, br>>

\* D5
LookupResult(c, n) == DcUp(c) /\ n \in DOMAIN cache[c]
\* D6: the exchange may end without an answer only when none was due
LookupComplete ==
    \/ lk.st \in {"local", "replied"}
    \/ ~direct
    \/ lk.st = "asked" /\ ~(dnsCfg[lk.c] = "d" /\ DsUp)

LookupEnd(c, n, ok) ==
    /\ lk.st # "idle" /\ lk.c = c /\ lk.n = n
    /\ ok = LookupResult(c, n)
    /\ lk' = NoLk
    /\ br' = IF br.st = "begun"
             THEN IF ok THEN [br EXCEPT !.st = "resolved", !.addr = cache[c][n]]
                  ELSE IF br.lit # "" THEN [br EXCEPT !.st = "resolved", !.addr = br.lit]
                  ELSE [br EXCEPT !.st = "unresolved"]
             ELSE br
    /\ UNCHANGED <<cfgvars, envvars, datavars>>

Register(n, ip) ==
    /\ table' = IF DsUp THEN Put(table, n, ip) ELSE table
    /\ UNCHANGED <<cfgvars, envvars, cache, hist, codes, lk, br>>

AddCache(c, n, ip, ok) ==
    /\ c \in clients
    /\ ok = DcUp(c)
    /\ cache' = IF ok THEN [cache EXCEPT ![c] = Put(@, n, ip)] ELSE cache
    /\ UNCHANGED <<cfgvars, envvars, table, hist, codes, lk, br>>

-----------------------------------------------------------------------------
(* web *)

\* host = the host part of the URL, lit = its address token when it is an IP literal ("" otherwise)
BrowseBegin(c, host, lit, path) ==
    /\ c \in clients
    /\ Idle
    /\ br' = [c |-> c, host |-> host, lit |-> lit, path |-> path,
              st |-> IF BrUp(c) /\ host # "" THEN "begun" ELSE "dead", addr |-> "", code |-> 0, logged |-> FALSE]
    /\ UNCHANGED <<cfgvars, envvars, datavars, lk>>

\* W2
StatusAllowed(path, conn, q) ==
    IF path = "" THEN {200}
    ELSE IF path = "users" THEN (IF ~conn THEN {500} ELSE IF q THEN {200} ELSE {404, 500})
    ELSE {404}
ServesOnlyWhenRunning == WsUp

WebServe(c, path, conn, q, code) ==
    /\ br.st = "resolved" /\ br.c = c /\ br.path = path /\ br.addr = "w"
    /\ lk.st = "idle"
    /\ ServesOnlyWhenRunning
    /\ conn => hasDb
    /\ q => conn
    /\ code \in StatusAllowed(path, conn, q)
    /\ br' = [br EXCEPT !.st = "served", !.code = code]
    /\ UNCHANGED <<cfgvars, envvars, datavars, lk>>

HttpResp(c, code) ==
    /\ br.st = "served" /\ br.c = c /\ br.code = code
    /\ BrUp(c)
    /\ br' = [br EXCEPT !.st = "responded"]
    /\ UNCHANGED <<cfgvars, envvars, datavars, lk>>

\* W9: the server accounts the response it has sent (before or after the browser handled it)
WebLog(code) ==
    /\ br.st \in {"served", "responded"} /\ br.code = code /\ ~br.logged
    /\ codes' = Append(codes, code)
    /\ br' = [br EXCEPT !.logged = TRUE]
    /\ UNCHANGED <<cfgvars, envvars, table, cache, hist, lk>>

\* what the end of the request may record: newh = the whole history afterwards
Appended(c, newh) == Len(newh) = Len(hist[c]) + 1 /\ SubSeq(newh, 1, Len(hist[c])) = hist[c]
HistoryAppendOnly(c, newh) == newh = hist[c] \/ Appended(c, newh)
Last(s) == s[Len(s)]
ResolvesThroughDns == br.st # "begun"
DeadBrowserRecordsNothing(c, ok, newh) == br.st = "dead" => (~ok /\ newh = hist[c])
UnresolvedNotSent(c, ok, newh) ==
    br.st = "unresolved" => (~ok /\ (newh = hist[c] \/ (Appended(c, newh) /\ Last(newh) \in {Unreach, NotSent})))
NoResponseNotSuccessful(c, ok, newh) ==
    br.st \in {"resolved", "served"} => (~ok /\ Appended(c, newh) /\ Last(newh) \in {404, Unreach})
OutcomeAsReceived(c, ok, newh) ==
    br.st = "responded" => (Appended(c, newh) /\ Last(newh) = br.code /\ ok = (br.code = 200))
LoggedOnce == br.st \in {"served", "responded"} => br.logged
\* W8
BrowseComplete ==
    \/ br.st \in {"dead", "unresolved", "responded"}
    \/ ~direct
    \/ br.st = "resolved" /\ ~(br.addr = "w" /\ WsUp)

BrowseEnd(c, ok, newh) ==
    /\ br.st # "idle" /\ br.c = c /\ lk.st = "idle"
    /\ ResolvesThroughDns
    /\ HistoryAppendOnly(c, newh)
    /\ DeadBrowserRecordsNothing(c, ok, newh)
    /\ UnresolvedNotSent(c, ok, newh)
    /\ NoResponseNotSuccessful(c, ok, newh)
    /\ OutcomeAsReceived(c, ok, newh)
    /\ LoggedOnce
    /\ hist' = [hist EXCEPT ![c] = newh]
    /\ br' = NoBr
    /\ UNCHANGED <<cfgvars, envvars, table, cache, codes, lk>>

-----------------------------------------------------------------------------
(* environment *)

SetOp(kind, c, st) ==
    /\ kind \in {"dc", "br", "ds", "ws"}
    /\ kind \in {"dc", "br"} => c \in clients
    /\ dcOp' = IF kind = "dc" THEN [dcOp EXCEPT ![c] = st] ELSE dcOp
    /\ brOp' = IF kind = "br" THEN [brOp EXCEPT ![c] = st] ELSE brOp
    /\ dsOp' = IF kind = "ds" THEN st ELSE dsOp
    /\ wsOp' = IF kind = "ws" THEN st ELSE wsOp
    /\ UNCHANGED <<cfgvars, on, datavars, lk, br>>

Power(node, b) ==
    /\ node \in Nodes
    /\ on' = [on EXCEPT ![node] = b]
    /\ UNCHANGED <<cfgvars, dcOp, brOp, dsOp, wsOp, datavars, lk, br>>

Tick ==
    /\ codes' = <<>>
    /\ UNCHANGED <<cfgvars, envvars, table, cache, hist, lk, br>>

-----------------------------------------------------------------------------
(* state invariants of the composition *)

FinalCodes == {200, 400, 401, 404, 405, 500, Unreach}
TypeOK ==
    /\ on \in [Nodes -> BOOLEAN]
    /\ DOMAIN dcOp = clients /\ DOMAIN brOp = clients /\ DOMAIN cache = clients /\ DOMAIN hist = clients
    /\ lk.st \in {"idle", "asked", "local", "answered", "replied"}
    /\ br.st \in {"idle", "dead", "begun", "resolved", "unresolved", "served", "responded"}
    /\ lk.st # "idle" => lk.c \in clients
    /\ br.st # "idle" => br.c \in clients
\* W7: every recorded item is final
NoPendingItem == \A c \in clients : \A i \in 1..Len(hist[c]) : hist[c][i] \in FinalCodes
\* a lookup is in flight inside a page request only while that request is resolving its host
NestedLookup == (lk.st # "idle" /\ br.st # "idle") => (br.st = "begun" /\ lk.c = br.c /\ lk.n = br.host)
=============================================================================
