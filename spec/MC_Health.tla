----------------------------- MODULE MC_Health -----------------------------
(* Exhaustive model for Health.tla: every interleaving of compromise /      *)
(* corrupt / SQL attacks, scans (item, folder, node), fix, repair, restore, *)
(* connections, ticks (with the completion phases in any order), power off  *)
(* / on, a second compromise during a fix, overlapping scans, for all       *)
(* durations in the given sets.  The parameters passed to the module's      *)
(* actions are the DESIGN's choices (requests are accepted iff the node is  *)
(* ON; a fix is accepted on GOOD / COMPROMISED software; corrupt acts on    *)
(* GOOD files, repair / restore on CORRUPT ones; duration 0 completes       *)
(* inside the request or on the next tick).                                 *)
EXTENDS Health, TLC

CONSTANTS FixDurs, ScanDurs, RestDurs, NodeDurs,   \* sets of durations swept from Init
          UseSw, FsOps,                             \* which half of the node is exercised: software; set of file/folder operations
          AllowRestart,                             \* an overlapping scan / restore request may restart the clock
          InitSw                                    \* initial true health values of the software

View == <<cfgv, on, swv, fsv, osAge, inTick>>
UseFs == FsOps # {}
Fs(op) == op \in FsOps

Rank(h) == CASE h = "NONE" -> 0 [] h = "GOOD" -> 1 [] h = "COMPROMISED" -> 2 [] h = "CORRUPT" -> 3
             [] h = "RESTORING" -> 4 [] h = "REPAIRING" -> 5
Worst(fh) == IF Rank(fh[1]) >= Rank(fh[2]) THEN fh[1] ELSE fh[2]
RestoredAll == [i \in Files |-> IF fH[i] \in {"CORRUPT", "RESTORING"} THEN "GOOD" ELSE fH[i]]
Rs == IF AllowRestart THEN BOOLEAN ELSE {FALSE}
Instant(d) == IF d = 0 THEN BOOLEAN ELSE {FALSE}

Init ==
    \E fd \in FixDurs, sd \in ScanDurs, rd \in RestDurs, nd \in NodeDurs, a0 \in InitSw :
        HealthInit(fd, sd, rd, nd, a0, "UNUSED", <<"GOOD", "GOOD">>, <<"NONE", "NONE">>, "NONE")

\* --- software ---------------------------------------------------------------
MSwCompromise == UseSw /\ SwCompromise(IF on THEN "COMPROMISED" ELSE swA)
MSwFix        == UseSw /\ SwFix(on /\ swA \in {"GOOD", "COMPROMISED"})
MSwScan       == UseSw /\ SwScan(on)
MSwStart      == UseSw /\ swA = "UNUSED" /\ SwStart(IF on THEN "GOOD" ELSE swA)
MSwConnect(a2) == UseSw /\ on /\ a2 # swA /\ SwConnect(a2)
MSwInstall    == UseSw /\ on /\ ~installing /\ swA = "UNUSED" /\ SwInstall
\* --- files / folder ---------------------------------------------------------------
MFileScan(i)    == Fs("FileScan") /\ FileScan(i, on)
MFileCorrupt(i) == Fs("FileCorrupt") /\ FileEvent("FileCorrupt", i, IF on /\ fH[i] = "GOOD" THEN "CORRUPT" ELSE fH[i])
MFileRepair(i)  == Fs("FileRepair") /\ FileEvent("FileRepair", i, IF on /\ fH[i] = "CORRUPT" THEN "GOOD" ELSE fH[i])
MFileRestore(i) == Fs("FileRestore") /\ FileEvent("FileRestore", i, IF on /\ fH[i] = "CORRUPT" THEN "GOOD" ELSE fH[i])
MSqlDelete      == Fs("SqlDelete") /\ FileEvent("SqlDelete", 1, IF on THEN "COMPROMISED" ELSE fH[1])
MSqlEncrypt     == Fs("SqlEncrypt") /\ FileEvent("SqlEncrypt", 1, IF on THEN "CORRUPT" ELSE fH[1])
MFolderCorrupt  == Fs("FolderCorrupt") /\ FolderEvent("FolderCorrupt",
                        [i \in Files |-> IF on /\ fH[i] = "GOOD" THEN "CORRUPT" ELSE fH[i]])
MFolderRepair   == Fs("FolderRepair") /\ FolderEvent("FolderRepair",
                        [i \in Files |-> IF on /\ fH[i] = "CORRUPT" THEN "GOOD" ELSE fH[i]])
MFolderScan(dn, rs) ==
    Fs("FolderScan") /\ FolderScanReq(on, on /\ dn, rs, Files, IF on /\ dn THEN fH ELSE fV, IF on /\ dn THEN Worst(fH) ELSE foV)
MFolderRestore(dn, rs) ==
    Fs("FolderRestore") /\ FolderRestoreReq(on, on /\ dn, rs, Files, IF on /\ dn THEN RestoredAll ELSE fH)
\* --- node ---------------------------------------------------------------------
MOsScan(dn, rs) ==
    OsScanReq(on, on /\ dn, rs, Files, IF on /\ dn THEN fH ELSE fV, IF on /\ dn THEN Worst(fH) ELSE foV)
MOther    == ~inTick /\ Other
MPowerOff == on /\ ~inTick /\ PowerOff
MPowerOn  == ~on /\ ~inTick /\ PowerOn(IF swA = "UNUSED" /\ UseSw THEN "GOOD" ELSE swA)
\* --- tick ------------------------------------------------------------------------
MTickBegin   == TickBegin
MOsScanDone  == OsScanDone(Files, fH, Worst(fH))
MFoScanDone  == UseFs /\ FoScanDone(Files, fH, Worst(fH))
MFixDone(r)  == UseSw /\ FixDone(IF r /\ UseFs /\ fH[1] # "GOOD" THEN [fH EXCEPT ![1] = "GOOD"] ELSE fH)
MInstallDone == UseSw /\ InstallDone
MRestoreDone == UseFs /\ RestoreDone(Files, RestoredAll)
MTickEnd     == TickEnd

MFolderScanAny    == \E dn \in Instant(scanDur), rs \in Rs : MFolderScan(dn, rs)
MFolderRestoreAny == \E dn \in Instant(restDur), rs \in Rs : MFolderRestore(dn, rs)
MOsScanAny        == \E dn \in Instant(nodeDur), rs \in Rs : MOsScan(dn, rs)

TickStep ==
    \/ MTickBegin \/ MOsScanDone \/ MFoScanDone \/ (\E r \in BOOLEAN : MFixDone(r))
    \/ MInstallDone \/ MRestoreDone \/ MTickEnd

Next ==
    \/ MSwCompromise \/ MSwFix \/ MSwScan \/ MSwStart \/ MSwInstall
    \/ \E a2 \in SwHealth : MSwConnect(a2)
    \/ \E i \in Files : MFileScan(i) \/ MFileCorrupt(i) \/ MFileRepair(i) \/ MFileRestore(i)
    \/ MSqlDelete \/ MSqlEncrypt \/ MFolderCorrupt \/ MFolderRepair
    \/ MFolderScanAny \/ MFolderRestoreAny \/ MOsScanAny
    \/ MPowerOff \/ MPowerOn \/ MOther
    \/ TickStep

SafetySpec == Init /\ [][Next]_hvars
Spec == SafetySpec /\ WF_hvars(TickStep)

\* every started timed operation completes while the node stays ON
FixCompletes     == [](swA = "FIXING" => <>(swA # "FIXING" \/ ~on))
ScanCompletes    == [](scanAge # -1 => <>(scanAge = -1 \/ ~on))
RestoreCompletes == [](restAge # -1 => <>(restAge = -1 \/ ~on))
OsScanCompletes  == [](osAge # -1 => <>(osAge = -1 \/ ~on))
=============================================================================
