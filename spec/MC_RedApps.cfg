SPECIFICATION Spec
CONSTANTS
  PScan = {50}
  PAtk = {50}
  PDos = {50}
  DosMaxs = {2}
  DosInts = {50}
  Payloads = {"DELETE"}
  Clients = {TRUE, FALSE}
  Tgts = {TRUE}
  Repeats = {TRUE, FALSE}
  Present = {"dm", "rw", "dos", "dbc"}
  MaxStim = 7
  AsCoded = "no"
INVARIANT TypeOK
INVARIANT NothingUnlessEnabled
INVARIANT NoTerminalAtRestWhenRepeating
INVARIANT DosWithinBound
INVARIANT NothingRunsWhenOff
PROPERTY StageOrder
PROPERTY Gates
PROPERTY OnlyLoopsChangeStages
PROPERTY DbOnlyBySuccess
PROPERTY DeliveryNeedsClient
PROPERTY RepeatFollowsSetting
VIEW View
CHECK_DEADLOCK FALSE
