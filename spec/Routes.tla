------------------------------- MODULE Routes -------------------------------
(***************************************************************************)
(* Route selection (pure).  Property C08.                                  *)
(*                                                                         *)
(* Vocabulary.  Addresses are naturals of AddrBits bits (the harness      *)
(* embeds them into IPv4).  A route is a record                            *)
(*     [net, plen, hop, metric]                                            *)
(* "packets whose first `plen' address bits equal those of `net' go to     *)
(* next hop `hop'"; `net' may carry host bits (they are ignored, as for a  *)
(* non-strict network).  A table is a sequence of routes (order carries    *)
(* no meaning in the specification).  The default route is a next hop or   *)
(* NoHop.                                                                  *)
(*                                                                         *)
(* BestRoutes is DECLARATIVE: among the matching routes those of the       *)
(* longest prefix, among those the ones of the lowest metric (if several   *)
(* remain the statement does not choose: all of them are best); the        *)
(* default route only when no route of the table matches; nothing when     *)
(* nothing matches.  No scan of the table.                                 *)
(***************************************************************************)
EXTENDS Naturals, Sequences, FiniteSets

CONSTANT AddrBits   \* width of an address (8 in the exhaustive models, 30 for recorded real networks)

NoHop == 0          \* "no default route" / "no next hop"
Default == 0        \* the choice "use the default route" (indices of table routes are 1..Len)

Pow2(n) == 2 ^ n

\* size of an address block of prefix length plen
Block(plen) == Pow2(AddrBits - plen)

\* the prefix (first plen bits) of an address
Prefix(a, plen) == a \div Block(plen)

Matches(r, dst) == Prefix(dst, r.plen) = Prefix(r.net, r.plen)

\* a in the subnet net/plen
InNet(a, net, plen) == Prefix(a, plen) = Prefix(net, plen)

MatchIdx(table, dst) == {i \in 1..Len(table) : Matches(table[i], dst)}

\* i is at least as good as j
Beats(table, i, j) ==
    \/ table[i].plen > table[j].plen
    \/ table[i].plen = table[j].plen /\ table[i].metric <= table[j].metric

BestIdx(table, dst) ==
    {i \in MatchIdx(table, dst) : \A j \in MatchIdx(table, dst) : Beats(table, i, j)}

(* The set of acceptable choices: indices into the table, or Default.      *)
BestRoutes(table, dflt, dst) ==
    IF BestIdx(table, dst) # {} THEN BestIdx(table, dst)
    ELSE IF dflt # NoHop THEN {Default}
    ELSE {}

\* the next hop of a choice
HopOf(table, dflt, c) == IF c = Default THEN dflt ELSE table[c].hop

\* the acceptable next hops
BestHops(table, dflt, dst) == {HopOf(table, dflt, c) : c \in BestRoutes(table, dflt, dst)}

(* What an implementation answered: `chosen' = index of the returned table  *)
(* route (0 if none of them), usedDefault = it returned the default route. *)
ChoiceOK(table, dflt, dst, chosen, usedDefault) ==
    IF usedDefault THEN chosen = 0 /\ Default \in BestRoutes(table, dflt, dst) /\ BestIdx(table, dst) = {}
    ELSE IF chosen = 0 THEN BestRoutes(table, dflt, dst) = {}
    ELSE chosen \in BestIdx(table, dst)

-----------------------------------------------------------------------------
(* An OPERATIONAL selection in table order (first best wins) - used only   *)
(* as a lemma in MC_Routes: a scan that keeps (longest prefix, lowest      *)
(* metric) picks a member of the declarative set.                          *)
RECURSIVE Scan(_, _, _, _)
Scan(table, dst, i, best) ==
    IF i > Len(table) THEN best
    ELSE IF Matches(table[i], dst)
            /\ (best = 0
                \/ table[i].plen > table[best].plen
                \/ (table[i].plen = table[best].plen /\ table[i].metric < table[best].metric))
         THEN Scan(table, dst, i + 1, i)
         ELSE Scan(table, dst, i + 1, best)
ScanBest(table, dst) == Scan(table, dst, 1, 0)
=============================================================================
