---------------------------- MODULE AgentsTrace ----------------------------
(* Trace validation of recorded episodes of primaite scripted agents       *)
(* against Agents.tla (batch idiom, DESIGN.md 4.4; same shape as           *)
(* LinkTrace.tla).  One trace = one scripted agent over one episode.       *)
(*                                                                         *)
(* A trace is [cfg |-> settings read from the constructed agent object,    *)
(*             ev  |-> <<one event per game step>>];                       *)
(*   cfg = [kind, start, startVar, freq, var, maxExec, nodes (list),       *)
(*          action, app, p (list of per-mille), nStages, repeatChain,      *)
(*          repeatStages]                                                  *)
(*   event = [ev |-> "Act"|"Idle"|"Choose"|"TapAct"|"TapIdle"|"Raised",    *)
(*            t      timestep of the history item (game.step_counter       *)
(*                   before it is incremented),                            *)
(*            action, node, app   from agent.history[-1] ("" if none),     *)
(*            choice  index drawn by the probabilistic agent (-1 if n/a),  *)
(*            consistent  history item = action-map entry `choice',        *)
(*            s0, s1  current_kill_chain_stage before / after the step,    *)
(*            nxt     next_kill_chain_stage after the step (informative)]  *)
(* (unused fields carry 0 / -1 / FALSE / "").                              *)
EXTENDS Agents, TLC, TLCExt, Json, IOUtils

Traces == JsonDeserialize(IOEnv.TRACE_FILE)

VARIABLES tid, l
tvars == <<avars, tid, l>>

T == Traces[tid].ev
Cfg == Traces[tid].cfg
SetOf(s) == {s[i] : i \in 1..Len(s)}

IsAct(e) == e.ev = "Act"
IsIdle(e) == e.ev = "Idle"
IsTap(e) == e.ev \in {"TapAct", "TapIdle"}

\* named clauses, all predicates of (current state, event): the guard of the step
Clauses(e) ==
    [ NoException          |-> e.ev # "Raised",
      StepNumbering        |-> e.ev # "Raised" => e.t = t,
      \* ---- periodic agents
      NothingBeforeStart   |-> (IsAct(e) /\ execs = 0) => NotBeforeWindow(e.t),
      FirstActionInStartWindow |->
          /\ (IsAct(e) /\ execs = 0) => NotAfterWindow(e.t)
          /\ (IsIdle(e) /\ execs = 0) => MayIdle(e.t),
      GapAtLeast           |-> (IsAct(e) /\ execs > 0) => NotBeforeWindow(e.t),
      GapAtMost            |->
          /\ (IsAct(e) /\ execs > 0) => NotAfterWindow(e.t)
          /\ (IsIdle(e) /\ execs > 0) => MayIdle(e.t),
      ExecsBounded         |-> IsAct(e) => WithinMaxExec,
      ConfiguredAction     |-> IsAct(e) => ConfiguredAction(e.action, e.app),
      ConfiguredStartNode  |-> (IsAct(e) \/ e.ev = "TapAct") => ConfiguredNode(e.node),
      StartNodeFixed       |-> IsAct(e) => NodeFixed(e.node),
      \* the command-and-control server's host is used for the commands the C2 server issues, for nothing else: every
      \* other action of a threat actor is taken on one of its configured start nodes
      C2HostOnlyForC2Commands |->
          (e.ev = "TapAct" /\ "c2" \in DOMAIN Cfg /\ Cfg.c2 # "" /\ e.node = Cfg.c2 /\ Cfg.c2 \notin SetOf(Cfg.startNodes))
              => e.c2act,
      \* a kill-chain option that is switched off in the settings (PAYLOAD.exfiltrate / PAYLOAD.corrupt of TAP001) means the
      \* action that option stands for is never taken
      SwitchedOffPayloadNeverUsed |->
          (e.ev = "TapAct" /\ "forbid" \in DOMAIN Cfg) => e.action \notin SetOf(Cfg.forbid),
      \* a kill-chain stage whose handler "performs a trial using the stage probability" and whose probability is 0 never acts
      ZeroProbabilityStageNeverActs |->
          (e.ev = "TapAct" /\ "zeroStages" \in DOMAIN Cfg) => e.s0 \notin SetOf(Cfg.zeroStages),
      \* ---- probabilistic agents
      ChoiceInTable        |-> e.ev = "Choose" => InTable(e.choice),
      NeverZeroProbability |-> e.ev = "Choose" => Positive(e.choice),
      HistoryIsChoice      |-> e.ev = "Choose" => e.consistent,
      \* ---- threat-actor agents
      StageSampleContinuity |-> IsTap(e) => e.s0 = stage,
      StageInChain         |-> IsTap(e) => e.s1 \in StageVals,
      StageOrder           |->
          (IsTap(e) /\ e.s1 \in StageVals) =>
              \/ e.s1 = stage \/ Advance(stage, e.s1) \/ Fail(stage, e.s1) \/ Restart(stage, e.s1),
      FailOnlyWithoutStageRepeat |-> (IsTap(e) /\ Fail(stage, e.s1)) => FailAllowed,
      RestartOnlyWithRepeat |-> (IsTap(e) /\ Restart(stage, e.s1) /\ ~Advance(stage, e.s1)) => RestartAllowed(stage),
      RestartsInTime       |-> IsTap(e) => RestartsInTime(e.s1),
      ConcludedDoesNothing |-> (IsTap(e) /\ Concluded) => (e.ev = "TapIdle" /\ e.s1 \in Terminal),
      TapNothingBeforeStart |-> (e.ev = "TapAct" \/ (IsTap(e) /\ e.s1 # stage)) => TapNotBeforeStart(e.t),
      TapGapAtLeast        |-> e.ev = "TapAct" => TapGapAtLeast(e.t)
    ]
Failing(e) == LET cl == Clauses(e) IN {c \in DOMAIN cl : ~cl[c]}

Step(e) ==
    CASE e.ev = "Act"     -> Act(e.t, e.node, e.action, e.app)
      [] e.ev = "Idle"    -> Idle(e.t)
      [] e.ev = "Choose"  -> Choose(e.choice)
      [] e.ev = "TapAct"  -> TapAct(e.t, e.node, e.s1)
      [] e.ev = "TapIdle" -> TapIdle(e.t, e.s1)
      [] OTHER -> FALSE

TraceInit ==
    /\ tid \in 1..Len(Traces)
    /\ l = 1
    /\ AgentInit(Cfg.kind, Cfg.start, Cfg.startVar, Cfg.freq, Cfg.var, Cfg.maxExec, SetOf(Cfg.nodes),
                 Cfg.action, Cfg.app, Cfg.p, Cfg.nStages, Cfg.repeatChain, Cfg.repeatStages)

TraceNext ==
    /\ l <= Len(T)
    /\ Failing(T[l]) = {}
    /\ Step(T[l])
    /\ l' = l + 1
    /\ UNCHANGED tid

TraceSpec == TraceInit /\ [][TraceNext]_tvars

\* progress bookkeeping in TLC registers (one per trace); -workers 1
Seen == TLCGet(tid)
Record ==
    IF l > Seen.pos
    THEN TLCSet(tid, [pos |-> l,
                      fail |-> IF l <= Len(T) THEN Failing(T[l]) ELSE {},
                      st |-> [t |-> t, execs |-> execs, last |-> last, lo |-> next.lo, hi |-> next.hi,
                              node |-> node, stage |-> stage, termRun |-> termRun]])
    ELSE TRUE
InitRegs == \A i \in 1..Len(Traces) : TLCSet(i, [pos |-> 0, fail |-> {}, st |-> <<>>])
ASSUME InitRegs

Report ==
    \A i \in 1..Len(Traces) :
        LET r == TLCGet(i) IN
        /\ PrintT(<<"TRACE", i, r.pos, Len(Traces[i].ev)>>)
        /\ (r.pos = Len(Traces[i].ev) + 1 \/ PrintT(<<"STUCK", i, r.pos, r.fail, r.st>>))
=============================================================================
