------------------------------ MODULE MC_Ssh ------------------------------
(* Exhaustive model of Ssh.tla: the design (every handler does what the contract says) over the nodes of   *)
(* Nodes, each client and server at once: remote logins with good / bad credentials, commands, logoffs,    *)
(* server-side logouts, local commands, ticks with time-outs, power, service stop / start, port blocking.  *)
(* AsCoded = TRUE adds the answer the code gives to a command that got no reply (the answer of an earlier  *)
(* exchange); TLC must refute AnswerIsThisCommand there (negative configuration MC_SshAsCoded.cfg).        *)
EXTENDS Ssh, TLC
CONSTANTS Nodes, Timeouts, MaxRemotes, MaxEnv, AsCoded
VARIABLE n   \* number of requests and environment steps taken (bounds the exploration; also numbers the commands)
mvars == <<svars, n>>

Init ==
    /\ n = 0
    /\ \E to \in Timeouts, mr \in MaxRemotes :
          SshInit(Nodes, to, mr, [x \in Nodes |-> TRUE], [x \in Nodes |-> TRUE], "open")

EnvStep == n < MaxEnv /\ n' = n + 1
Same == n' = n

\* ---- requests (stimulus)
MLoginBegin(c, s, good) == c # s /\ EnvStep /\ Begin("login", c, s, good, 0, 0)
MCmdBegin(c, s) == c # s /\ EnvStep /\ Begin("cmd", c, s, FALSE, n + 1, 0)
MLogoffBegin(c, s) == c # s /\ EnvStep /\ Begin("logoff", c, s, FALSE, 0, 0)
MKickBegin(s, id) == id \in Ids(sess[s]) /\ EnvStep /\ Begin("kick", s, "", FALSE, 0, id)
MLocalBegin(x, good) == EnvStep /\ Begin("local", x, "", good, n + 1, 0)

\* ---- the design's handlers
C == call.n
MLoginSend == Open /\ call.kind = "login" /\ LoginSend(C) /\ Same
MLoginRecv ==
    /\ wire.k = "LoginReq"
    /\ LoginRecv(wire.dst, IF Entitled(wire.dst, wire) THEN nid + 1 ELSE 0) /\ Same
MLoginOkRecv == wire.k = "LoginOk" /\ LoginOkRecv(wire.dst) /\ Same
MLoginReturn ==
    /\ Open /\ call.kind = "login" /\ wire = Nil /\ (call.sent \/ ~Up(C))
    /\ LoginReturn(C, call.got, IF call.got THEN "success" ELSE "failure") /\ Same

HeldTo == {x \in cli[C] : x.peer = call.peer}
MCmdSend == Open /\ call.kind = "cmd" /\ (\E x \in HeldTo : CmdSend(C, x.id)) /\ Same
MCmdRecv(st) ==
    /\ wire.k = "Cmd"
    /\ LET v == ValidAt(wire.dst, wire.id) IN
       CmdRecv(wire.dst, v, IF v THEN st ELSE "", IF v THEN "CmdReply" ELSE "") /\ Same
MCmdReplyRecv == wire.k = "CmdReply" /\ CmdReplyRecv(wire.dst) /\ Same
MCmdReturn ==
    /\ Open /\ call.kind = "cmd" /\ wire = Nil /\ (call.sent \/ ~Up(C) \/ HeldTo = {})
    /\ CmdReturn(C, IF call.got THEN call.rst ELSE "failure", IF call.got THEN call.rcmd ELSE 0) /\ Same
\* as coded: a command that got no reply is answered with the answer of an earlier exchange
CodedStaleReturn ==
    /\ AsCoded /\ Open /\ call.kind = "cmd" /\ wire = Nil /\ ~call.got /\ call.cmd > 1
    /\ Close(TRUE, "success", call.cmd - 1)
    /\ UNCHANGED <<cfgvars, on, run, net, cli, srv, sess, nid, ended, wire, pre>> /\ Same

MDiscSend == Open /\ call.kind = "logoff" /\ (\E x \in HeldTo : DiscSend(C, x.id)) /\ Same
MKickSend == Open /\ call.kind = "kick" /\ KickSend(C) /\ Same
MDiscRecv ==
    /\ wire.k = "Disc"
    /\ DiscRecv(wire.dst, IF HeldSrv(wire.dst, wire.id) \/ HeldCli(wire.dst, wire.id, wire.src) THEN "Disc" ELSE "") /\ Same
MLogoffReturn ==
    /\ Open /\ call.kind = "logoff" /\ wire = Nil /\ (call.sent \/ ~Up(C) \/ HeldTo = {})
    /\ LogoffReturn(C, call.sent, IF call.sent THEN "success" ELSE "failure") /\ Same
MKickReturn ==
    /\ Open /\ call.kind = "kick" /\ wire = Nil /\ (call.sent \/ ~on[C] \/ call.id \notin Ids(srv[C]))
    /\ KickReturn(C, on[C] /\ call.id \in Ids(sess[C])) /\ Same
MLost == Lost /\ Same

MLocalExec(st) == Open /\ call.kind = "local" /\ LocalExec(C, st) /\ Same
MLocalReturn ==
    /\ Open /\ call.kind = "local" /\ (call.execs = 1 \/ ~(call.good /\ Up(C)))
    /\ LocalReturn(C, call.execs = 1 /\ call.rst = "success",
                   IF call.execs = 1 THEN call.rst ELSE "failure") /\ Same

\* ---- time
MTickBegin == EnvStep /\ TickBegin
Due == {<<s, x.id>> : s \in nodes, x \in {y \in UNION {sess[t] : t \in nodes} : y.idle >= timeout}}
MTimeoutPush == Open /\ call.kind = "tick" /\ (\E s \in nodes : \E x \in sess[s] : x.idle >= timeout /\ TimeoutPush(s, x.id)) /\ Same
MTimeoutRecv == wire.k = "Timeout" /\ TimeoutRecv(wire.dst) /\ Same
MTickEnd == Open /\ call.kind = "tick" /\ (\A s \in nodes : \A x \in sess[s] : x.idle < timeout) /\ TickEnd /\ Same

\* ---- environment
MPower(x) == EnvStep /\ Power(x, ~on[x], ~on[x])
MSvcSet(x) == on[x] /\ EnvStep /\ SvcSet(x, ~run[x])
MBlock == EnvStep /\ Block(net = "open")

Next ==
    \/ \E c \in Nodes, s \in Nodes, g \in BOOLEAN : MLoginBegin(c, s, g)
    \/ \E c \in Nodes, s \in Nodes : MCmdBegin(c, s) \/ MLogoffBegin(c, s)
    \/ \E s \in Nodes, id \in 1..MaxEnv : MKickBegin(s, id)
    \/ \E x \in Nodes, g \in BOOLEAN : MLocalBegin(x, g)
    \/ MLoginSend \/ MLoginRecv \/ MLoginOkRecv \/ MLoginReturn
    \/ MCmdSend \/ (\E st \in {"success", "failure"} : MCmdRecv(st)) \/ MCmdReplyRecv \/ MCmdReturn \/ CodedStaleReturn
    \/ MDiscSend \/ MKickSend \/ MDiscRecv \/ MLogoffReturn \/ MKickReturn \/ MLost
    \/ (\E st \in {"success", "failure"} : MLocalExec(st)) \/ MLocalReturn
    \/ MTickBegin \/ MTimeoutPush \/ MTimeoutRecv \/ MTickEnd
    \/ \E x \in Nodes : MPower(x) \/ MSvcSet(x)
    \/ MBlock
Spec == Init /\ [][Next]_mvars
=============================================================================
