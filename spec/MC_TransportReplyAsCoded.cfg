SPECIFICATION Spec
CONSTANTS
  MaxStim = 5
  MaxSess = 2
  Asym = TRUE
  ShadowAsCoded = FALSE
  Peers = {1}
  Tomes = {TRUE, FALSE}
  Full = FALSE
  ReplyAsCoded = TRUE
INVARIANT ReplyOnSameSession
VIEW View
CHECK_DEADLOCK FALSE
