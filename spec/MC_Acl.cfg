SPECIFICATION Spec
CONSTANTS
  NPos = 3
  MaxRules = 3
  Modes = {"fill", "free"}
  Domain = "cover"
VIEW View
INVARIANT TypeOK
INVARIANT NoCounterWithoutRule
INVARIANT ScanIsLowestMatch
INVARIANT DeciderIsLowestMatch
PROPERTY VerdictProp
PROPERTY AddProp
PROPERTY RemoveProp
PROPERTY CounterProp
CHECK_DEADLOCK FALSE
