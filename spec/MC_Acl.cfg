SPECIFICATION Spec
CONSTANTS
  NPos = 3
  MaxRules = 3
  Domain = "cover"
VIEW View
INVARIANT TypeOK
INVARIANT NoCounterWithoutRule
PROPERTY VerdictProp
PROPERTY AddProp
PROPERTY RemoveProp
PROPERTY CounterProp
CHECK_DEADLOCK FALSE
