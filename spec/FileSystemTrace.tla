-------------------------- MODULE FileSystemTrace --------------------------
(* Trace validation of recorded file-system histories against FileSystem.tla *)
(* event: [ev, fo, fi, ok, raised, nc, nd, on,   (on: the node is ON)        *)
(*         folders |-> << [name, live, del, flag] >>,   (by folder id)       *)
(*         files   |-> << [folder, name, live, del, flag] >>, (by file id)   *)
(*         rep     |-> << "section:folder/file:list", "section:folder" >> ]  *)
(* live/del = membership in the live / deleted dictionary of the parent,     *)
(* flag = the item's own `deleted' attribute, rep = what describe_state says *)
(* (files are compared for live folders only: deleted folders are reported   *)
(* keyed by name, and several deleted folders may share a name)              *)
EXTENDS FileSystem, TLC, TLCExt, Json, IOUtils

Traces == JsonDeserialize(IOEnv.TRACE_FILE)

VARIABLES tid, l
tvars == <<folders, files, pend, ncreate, ndelete, on, tid, l>>

T == Traces[tid].ev
Cfg == Traces[tid].cfg
SetOf(s) == {s[i] : i \in 1..Len(s)}

FoOf(x) == [i \in 1..Len(x) |-> [name |-> x[i].name, del |-> x[i].del]]
FiOf(x) == [i \in 1..Len(x) |-> [folder |-> x[i].folder, name |-> x[i].name, del |-> x[i].del]]

Outs(e) ==
    CASE e.ev = "CreateFile"    -> CreateFileNext(e.fo, e.fi)
      [] e.ev = "CreateFolder"  -> CreateFolderNext(e.fo)
      [] e.ev = "DeleteFile"    -> DeleteFileNext(e.fo, e.fi)
      [] e.ev = "DeleteFolder"  -> DeleteFolderNext(e.fo)
      [] e.ev = "RestoreFile"   -> RestoreFileNext(e.fo, e.fi)
      [] e.ev = "RestoreFolder" -> RestoreFolderNext(e.fo)
      [] e.ev = "FileOp"        -> FileOpNext(e.fo, e.fi)
      [] e.ev = "FolderOp"      -> FolderOpNext(e.fo)
      [] e.ev = "Tick"          -> TickNext
      [] e.ev = "PreTick"       -> Out({TRUE}, folders, files)
      [] e.ev = "Power"         -> Out(BOOLEAN, folders, files)
      [] OTHER -> {}

RepExpected(e) ==
    LET fo == e.folders  fi == e.files
        Sec(F) == IF fo[F].live THEN "folders" ELSE "deleted_folders"
        \* the report is keyed by folder name: the content of a deleted folder is judged when no other deleted folder
        \* carries its name (the harness leaves the content of shared names out, reading the plain tables)
        Listed(F) == fo[F].live \/ \A G \in 1..Len(fo) : (G # F /\ ~fo[G].live) => fo[G].name # fo[F].name
    IN  {Sec(F) \o ":" \o fo[F].name : F \in 1..Len(fo)}
        \cup {Sec(fi[j].folder) \o ":" \o fo[fi[j].folder].name \o "/" \o fi[j].name \o ":" \o
                 (IF fi[j].live THEN "files" ELSE "deleted_files") : j \in {k \in 1..Len(fi) : Listed(fi[k].folder)}}

Clauses(e) ==
    [ NoError        |-> ~e.raised,
      LiveXorDeleted |-> /\ \A i \in 1..Len(e.folders) : e.folders[i].live # e.folders[i].del
                         /\ \A j \in 1..Len(e.files) : e.files[j].live # e.files[j].del,
      FlagAgrees     |-> /\ \A i \in 1..Len(e.folders) : e.folders[i].flag = e.folders[i].del
                         /\ \A j \in 1..Len(e.files) : e.files[j].flag = e.files[j].del,
      UniqueLiveNames |-> UniqueLiveNames(FoOf(e.folders), FiOf(e.files)),
      NothingVanishes |-> AppendOnly(FoOf(e.folders), FiOf(e.files)),
      ReportedAsIs   |-> SetOf(e.rep) = RepExpected(e),
      OutcomeAllowed |-> [ok |-> e.ok, fo |-> FoOf(e.folders), fi |-> FiOf(e.files)] \in Outs(e)
                          \/ (e.ev \in {"Tick", "PreTick", "Power"} /\ \E o \in Outs(e) : o.fo = FoOf(e.folders) /\ o.fi = FiOf(e.files)),
      CountersStartAtZero |-> e.ev = "PreTick" => (e.nc = 0 /\ e.nd = 0)
    ]
Failing(e) == {c \in DOMAIN Clauses(e) : ~Clauses(e)[c]}

Step(e) ==
    LET fo2 == FoOf(e.folders)  fi2 == FiOf(e.files) IN
    CASE e.ev = "CreateFile"    -> CreateFile(e.fo, e.fi, e.ok, fo2, fi2, e.nc)
      [] e.ev = "CreateFolder"  -> CreateFolder(e.fo, e.ok, fo2, fi2)
      [] e.ev = "DeleteFile"    -> DeleteFile(e.fo, e.fi, e.ok, fo2, fi2, e.nd)
      [] e.ev = "DeleteFolder"  -> DeleteFolder(e.fo, e.ok, fo2, fi2)
      [] e.ev = "RestoreFile"   -> RestoreFile(e.fo, e.fi, e.ok, fo2, fi2)
      [] e.ev = "RestoreFolder" -> RestoreFolder(e.fo, e.ok, fo2, fi2)
      [] e.ev = "FileOp"        -> FileOp(e.fo, e.fi, e.ok, fo2, fi2)
      [] e.ev = "FolderOp"      -> FolderOp(e.fo, e.ok, fo2, fi2)
      [] e.ev = "PreTick"       -> PreTick(fo2, fi2, e.nc, e.nd)
      [] e.ev = "Tick"          -> Tick(fo2, fi2, e.on)
      [] e.ev = "Power"         -> Power(fo2, fi2, e.on)
      [] OTHER -> FALSE

TraceInit ==
    /\ tid \in 1..Len(Traces)
    /\ l = 1
    /\ FsInitP(FoOf(Cfg.folders), FiOf(Cfg.files), Cfg.on, Cfg.nc, Cfg.nd)

TraceNext ==
    /\ l <= Len(T)
    /\ Failing(T[l]) = {}
    /\ Step(T[l])
    /\ l' = l + 1
    /\ UNCHANGED tid

TraceSpec == TraceInit /\ [][TraceNext]_tvars

Seen == TLCGet(tid)
Record ==
    IF l > Seen.pos
    THEN TLCSet(tid, [pos |-> l,
                      fail |-> IF l <= Len(T) THEN Failing(T[l]) ELSE {},
                      st |-> [folders |-> folders, files |-> files, pend |-> pend, nc |-> ncreate, nd |-> ndelete, on |-> on]])
    ELSE TRUE
InitRegs == \A i \in 1..Len(Traces) : TLCSet(i, [pos |-> 0, fail |-> {}, st |-> <<>>])
ASSUME InitRegs

Report ==
    \A i \in 1..Len(Traces) :
        LET r == TLCGet(i) IN
        /\ PrintT(<<"TRACE", i, r.pos, Len(Traces[i].ev)>>)
        /\ (r.pos = Len(Traces[i].ev) + 1 \/ PrintT(<<"STUCK", i, r.pos, r.fail, r.st>>))
=============================================================================
