SPECIFICATION Spec
CONSTANTS
  MaxSteps = 12
  MaxNest = 3
  Rich = TRUE
  Variant = "design"
INVARIANT LoadWithinCapacity
INVARIANT EnabledOnlyIfNodeOn
INVARIANT NothingCapturedWhenOffOrNoKeywords
INVARIANT SenderNeverReceivesOwnFrame
INVARIANT OnAirWellFormed
INVARIANT ReceiversEnabledOnFrequency
INVARIANT CountedOncePerFrame
INVARIANT KeysWellFormed
PROPERTY CountsNeverDecrease
PROPERTY LoadResetsEachTimestep
PROPERTY LoadOnlyGrowsWithinTimestep
PROPERTY DroppedReachesNobody
VIEW View
CHECK_DEADLOCK FALSE
