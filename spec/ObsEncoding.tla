---------------------------- MODULE ObsEncoding ----------------------------
(***************************************************************************)
(* The documented encoding of an agent's observation (properties C02, C09) *)
(* as a pure function: for every kind K of leaf group of the observation   *)
(* tree                                                                    *)
(*     EncodeSet(K, cfg, truth)  record  field |-> SET of admissible values*)
(*     Encode(K, cfg, truth)     record  field |-> the least such value    *)
(*     Space(K, cfg)             record  field |-> documented Discrete size*)
(* `cfg' is what the scenario file says about the leaf group, `truth' is   *)
(* the simulation quantity at the end of the step.  A field is *pinned*    *)
(* when its set is a singleton; where the documentation is silent or       *)
(* ambiguous the set is larger (listed at the end of this header).         *)
(*                                                                         *)
(* SOURCES (the encoding is transcribed from these texts, never from the   *)
(* observe() code paths):                                                  *)
(*  [DM]  notebooks/Data-Manipulation-E2E-Demonstration.ipynb, section     *)
(*        "Observation Space" (tables: service operating_state 0 UNUSED    *)
(*        1 RUNNING 2 STOPPED 3 PAUSED 4 DISABLED 5 INSTALLING             *)
(*        6 RESTARTING; service health 0 UNUSED 1 GOOD 2 FIXING            *)
(*        3 COMPROMISED 4 OVERWHELMED; file/folder health 0 UNUSED 1 GOOD  *)
(*        2 COMPROMISED 3 CORRUPT 4 RESTORING 5 REPAIRING; NIC status      *)
(*        0 UNUSED 1 ENABLED 2 DISABLED; NMNE 0 none, 1: 1-5, 2: 6-10,     *)
(*        3: more than 10; link load 0 "exactly 0%", 1 "0-11%", ...,       *)
(*        9 "88-99%", 10 "exactly 100%"; ACL permission 0 UNUSED 1 ALLOW   *)
(*        2 DENY; ACL ip / port / protocol ids 0 UNUSED, 1 ALL, 2.. = the  *)
(*        configured list in order; "The ACL rules in the observation      *)
(*        space appear in the same order that they do in the actual ACL";  *)
(*        "Other services are only there for padding ... They are filled   *)
(*        with zeroes"; "the health statuses of components are not updated *)
(*        until a scan is performed").                                     *)
(*  [UC7] notebooks/UC7-E2E-Demo.ipynb (tables: host operating state       *)
(*        0 UNUSED 1 ON 2 OFF 3 BOOTING 4 SHUTTING DOWN; "No. file         *)
(*        creations/deletions" 0: 0, 1: 1-5, 2: 6-10, 3: >10; application  *)
(*        operating state 0 UNUSED 1 RUNNING 2 CLOSED 3 INSTALLING;        *)
(*        num_executions and num_access 0: 0, 1: 1-5, 2: 6-10, 3: >10;     *)
(*        "NIC monitored traffic utilisation" = the link-load table).      *)
(*  [DOC] class / attribute docstrings of game/agent/observations/*.py:    *)
(*        "*_requires_scan: If True, ... must be scanned to update the     *)
(*        health state. If False, true state is always shown";             *)
(*        NICObservation._categorise_mne_count ("0: No MNEs, 1: Low        *)
(*        (default 1-5), 2: Moderate (default 6-10), 3: High (default more *)
(*        than 10)"); max_users "Maximum number of remote sessions         *)
(*        observable, excess sessions are truncated" (= 3); ACL space      *)
(*        comment "reserved values 0 (unused) and 1 (any)".                *)
(*  [CFG] docs/source/configuration/game.rst `thresholds' ("the thresholds *)
(*        of high, medium and low categories for counted observation       *)
(*        occurrences") and configuration/agents.rst ("The size and shape  *)
(*        of the obs space must remain constant ... padding is performed   *)
(*        and these options set the size of the obs space").               *)
(*  [CHG] CHANGELOG.md ("ACL observations now include the ACL at index 0", *)
(*        "Node observations can now be configured to show the number of   *)
(*        active local and remote logins").                                *)
(*                                                                         *)
(* BANDING RULE transcribed for link load and NIC traffic ([DM]/[UC7]      *)
(* tables): 0 iff there was no traffic; 10 iff the utilisation is exactly  *)
(* 100%; otherwise band k in 1..9 covers ((k-1)/9, k/9) of the capacity    *)
(* (the table's 11, 22, ... 99 % are the ninths rounded down to a whole    *)
(* per cent: nine equal bands tile 0..100 %).  The table does not say to   *)
(* which side an exact ninth belongs: both neighbours are admitted.  It    *)
(* says nothing about a utilisation above 100 %: any band 0..10 is         *)
(* admitted there (membership in Discrete(11) is still demanded by C02).   *)
(*                                                                         *)
(* LEAVES WITH MEMORY: NMNE (previous totals in truth.nmInPrev/nmOutPrev) and the folder health under             *)
(* file_system_requires_scan (truth.last / truth.scanned, see FolderEnc).                                          *)
(*                                                                         *)
(* NOT PINNED BY THE DOCUMENTATION (sets larger than a singleton):         *)
(*  - band at an exact ninth of the capacity (k or k+1) and above 100 %;   *)
(*  - NMNE: whether the count is cumulative over the episode or the number *)
(*    since the previous observation: both categories are admitted;        *)
(*  - ACL ids of a rule value that is not in the configured list;          *)
(*  - `position' of an empty ACL slot / of an ACL that reads as default    *)
(*    (0 or the slot number);                                              *)
(*  - number of PORTS of a firewall observation.                           *)
(* The category thresholds of num_file_creations / num_file_deletions are  *)
(* the fixed ones of the [UC7] table (there is no threshold option for     *)
(* them in [CFG]).                                                         *)
(***************************************************************************)
EXTENDS Naturals, Sequences, FiniteSets, TLC

Kinds == {"service", "application", "file", "folder", "nic", "traffic", "port", "host", "users",
          "link", "acl", "router", "firewall"}

OUT == 999          \* index of a rule value that is not in the configured list
MaxUsers == 3       \* [DOC] max_users

\* all-default records; the harness and the generator model fill in what a kind uses
Cfg0 == [scan |-> FALSE, incAccess |-> FALSE, incNmne |-> FALSE, capNmne |-> FALSE, incUsers |-> FALSE,
         lo |-> 0, med |-> 5, hi |-> 10,
         nIp |-> 0, nWc |-> 0, nPort |-> 0, nProto |-> 0, nRules |-> 0, slot |-> 0,
         nSvc |-> 0, nApp |-> 0, nFold |-> 0, nNic |-> 0, nFiles |-> 0, nPorts |-> 0]
Truth0 == [exists |-> FALSE, nodeOn |-> FALSE, op |-> 0, actual |-> 0, visible |-> 0,
           count |-> 0, count2 |-> 0, enabled |-> FALSE, scanned |-> FALSE, last |-> 0,
           inN |-> 0, inD |-> 1, outN |-> 0, outD |-> 1,
           nmIn |-> 0, nmInPrev |-> 0, nmOut |-> 0, nmOutPrev |-> 0,
           local |-> FALSE, remote |-> 0,
           rule |-> FALSE, action |-> 0, sIp |-> 0, sWc |-> 0, sPort |-> 0, dIp |-> 0, dWc |-> 0, dPort |-> 0,
           proto |-> 0]

Min2(a, b) == IF a < b THEN a ELSE b
MinOf(S) == CHOOSE x \in S : \A y \in S : x <= y
Nil == [x \in {} |-> {}]
B(b) == IF b THEN 1 ELSE 0

(* a component that does not exist (padding slot, deleted, uninstalled, unknown name) and every       *)
(* component of a node that is not ON read as the default (zero) record                               *)
Live(t) == t.exists /\ t.nodeOn

(* "using the last-scanned ('visible') value exactly when the scenario says scanning is required"     *)
Health(c, t) == IF c.scan THEN t.visible ELSE t.actual

(* counted occurrences -> category by the low / medium / high thresholds ([UC7], [DOC], [CFG])        *)
Cat(n, lo, med, hi) == IF n > hi THEN 3 ELSE IF n > med THEN 2 ELSE IF n > lo THEN 1 ELSE 0

(* utilisation n/d -> band (see BANDING RULE above)                                                   *)
Band(n, d) ==
    IF n = 0 THEN {0}
    ELSE IF d = 0 THEN 0..10
    ELSE IF n = d THEN {10}
    ELSE IF n > d THEN 0..10
    ELSE LET q == (9 * n) \div d
             r == (9 * n) % d
         IN  IF r = 0 THEN {q, q + 1} ELSE {q + 1}

(* ACL ids: 0 unused, 1 any, k+1 = k-th entry of the configured list                                  *)
Id(i, n) == IF i = 0 THEN {1} ELSE IF i <= n THEN {i + 1} ELSE 0..(n + 1)

Zero(fields) == [f \in fields |-> {0}]

-----------------------------------------------------------------------------
ServiceEnc(c, t) ==
    IF Live(t) THEN [operating_status |-> {t.op}, health_status |-> {Health(c, t)}]
    ELSE Zero({"operating_status", "health_status"})

ApplicationEnc(c, t) ==
    IF Live(t) THEN [operating_status |-> {t.op}, health_status |-> {Health(c, t)},
                     num_executions |-> {Cat(t.count, c.lo, c.med, c.hi)}]
    ELSE Zero({"operating_status", "health_status", "num_executions"})

FileEnc(c, t) ==
    [health_status |-> {IF Live(t) THEN Health(c, t) ELSE 0}]
    @@ (IF c.incAccess THEN [num_access |-> {IF Live(t) THEN Cat(t.count, c.lo, c.med, c.hi) ELSE 0}] ELSE Nil)

(* A FOLDER under file_system_requires_scan is a small state machine (the maintainers' pinned unit test         *)
(* TestFileSystemRequiresScan::test_folder_require_scan fixes the reading): the observation shows the folder's     *)
(* visible status as it was at the last step in which THIS observation saw a folder scan complete                  *)
(* (`scanned' = the folder's scanned-this-step flag at observation time), and 0 before it has seen any.            *)
(* `t.last' is that memory before the observation, FolderNext the memory after it.  A change of the visible        *)
(* status that does not come with a completed folder scan (a node OS scan) is not tracked.  While the folder does  *)
(* not exist or its node is not ON the observation reads default and sees nothing (memory unchanged).              *)
FolderHealth(c, t) == IF c.scan THEN (IF t.scanned THEN t.visible ELSE t.last) ELSE t.actual
FolderNext(c, t) == IF Live(t) /\ t.scanned THEN t.visible ELSE t.last

FolderEnc(c, t) ==
    [health_status |-> {IF Live(t) THEN FolderHealth(c, t) ELSE 0}, n_files |-> {c.nFiles}]

NmneSet(total, prev, c) ==
    {Cat(total, c.lo, c.med, c.hi)} \cup (IF total >= prev THEN {Cat(total - prev, c.lo, c.med, c.hi)} ELSE {})

NicEnc(c, t) ==
    [nic_status |-> {IF Live(t) THEN (IF t.enabled THEN 1 ELSE 2) ELSE 0}]
    @@ (IF c.incNmne
        THEN [nmne_inbound  |-> IF Live(t) THEN NmneSet(t.nmIn, t.nmInPrev, c) ELSE {0},
              nmne_outbound |-> IF Live(t) THEN NmneSet(t.nmOut, t.nmOutPrev, c) ELSE {0}]
        ELSE Nil)

TrafficEnc(c, t) ==
    [inbound  |-> IF Live(t) THEN Band(t.inN, t.inD) ELSE {0},
     outbound |-> IF Live(t) THEN Band(t.outN, t.outD) ELSE {0}]

PortEnc(c, t) == [operating_status |-> {IF Live(t) THEN (IF t.enabled THEN 1 ELSE 2) ELSE 0}]

(* a host's own power state is shown whenever the host exists; its per-tick file counters are part    *)
(* of what reads as default while it is not ON                                                        *)
HostEnc(c, t) ==
    [operating_status |-> {IF t.exists THEN t.op ELSE 0},
     n_services |-> {c.nSvc}, n_applications |-> {c.nApp}, n_folders |-> {c.nFold}, n_nics |-> {c.nNic},
     has_users |-> {B(c.incUsers)}]
    @@ (IF c.incAccess
        THEN [num_file_creations |-> {IF Live(t) THEN Cat(t.count, 0, 5, 10) ELSE 0},
              num_file_deletions |-> {IF Live(t) THEN Cat(t.count2, 0, 5, 10) ELSE 0}]
        ELSE Nil)

UsersEnc(c, t) ==
    [local_login     |-> {IF Live(t) THEN B(t.local) ELSE 0},
     remote_sessions |-> {IF Live(t) THEN Min2(MaxUsers, t.remote) ELSE 0}]

LinkEnc(c, t) == [load |-> IF t.exists THEN Band(t.inN, t.inD) ELSE {0}]

AclFields == {"permission", "source_ip_id", "source_wildcard_id", "source_port_id", "dest_ip_id",
              "dest_wildcard_id", "dest_port_id", "protocol_id"}
AclEnc(c, t) ==
    IF Live(t) /\ t.rule
    THEN [position |-> {c.slot}, permission |-> {t.action},
          source_ip_id |-> Id(t.sIp, c.nIp), source_wildcard_id |-> Id(t.sWc, c.nWc),
          source_port_id |-> Id(t.sPort, c.nPort),
          dest_ip_id |-> Id(t.dIp, c.nIp), dest_wildcard_id |-> Id(t.dWc, c.nWc),
          dest_port_id |-> Id(t.dPort, c.nPort), protocol_id |-> Id(t.proto, c.nProto)]
    ELSE [position |-> {0, c.slot}] @@ Zero(AclFields)

RouterEnc(c, t) == [n_rules |-> {c.nRules}, n_ports |-> {c.nPorts}, has_users |-> {B(c.incUsers)}]

FirewallEnc(c, t) == [n_acls |-> {6}, n_rules_min |-> {c.nRules}, n_rules_max |-> {c.nRules},
                      n_ports |-> 0..64, has_users |-> {B(c.incUsers)}]

EncodeSet(k, c, t) ==
    CASE k = "service"     -> ServiceEnc(c, t)
      [] k = "application" -> ApplicationEnc(c, t)
      [] k = "file"        -> FileEnc(c, t)
      [] k = "folder"      -> FolderEnc(c, t)
      [] k = "nic"         -> NicEnc(c, t)
      [] k = "traffic"     -> TrafficEnc(c, t)
      [] k = "port"        -> PortEnc(c, t)
      [] k = "host"        -> HostEnc(c, t)
      [] k = "users"       -> UsersEnc(c, t)
      [] k = "link"        -> LinkEnc(c, t)
      [] k = "acl"         -> AclEnc(c, t)
      [] k = "router"      -> RouterEnc(c, t)
      [] k = "firewall"    -> FirewallEnc(c, t)

Encode(k, c, t) == LET E == EncodeSet(k, c, t) IN [f \in DOMAIN E |-> MinOf(E[f])]
Pinned(k, c, t, f) == Cardinality(EncodeSet(k, c, t)[f]) = 1

-----------------------------------------------------------------------------
(* documented sizes: number of documented values of each field (structure fields: count + 1)          *)
Space(k, c) ==
    CASE k = "service"     -> [operating_status |-> 7, health_status |-> 5]
      [] k = "application" -> [operating_status |-> 4, health_status |-> 5, num_executions |-> 4]
      [] k = "file"        -> [health_status |-> 6] @@ (IF c.incAccess THEN [num_access |-> 4] ELSE Nil)
      [] k = "folder"      -> [health_status |-> 6, n_files |-> c.nFiles + 1]
      [] k = "nic"         -> [nic_status |-> 3]
                              @@ (IF c.incNmne THEN [nmne_inbound |-> 4, nmne_outbound |-> 4] ELSE Nil)
      [] k = "traffic"     -> [inbound |-> 11, outbound |-> 11]
      [] k = "port"        -> [operating_status |-> 3]
      [] k = "host"        -> [operating_status |-> 5, n_services |-> c.nSvc + 1, n_applications |-> c.nApp + 1,
                               n_folders |-> c.nFold + 1, n_nics |-> c.nNic + 1, has_users |-> 2]
                              @@ (IF c.incAccess THEN [num_file_creations |-> 4, num_file_deletions |-> 4] ELSE Nil)
      [] k = "users"       -> [local_login |-> 2, remote_sessions |-> MaxUsers + 1]
      [] k = "link"        -> [load |-> 11]
      [] k = "acl"         -> [position |-> c.nRules, permission |-> 3,
                               source_ip_id |-> c.nIp + 2, source_wildcard_id |-> c.nWc + 2,
                               source_port_id |-> c.nPort + 2,
                               dest_ip_id |-> c.nIp + 2, dest_wildcard_id |-> c.nWc + 2,
                               dest_port_id |-> c.nPort + 2, protocol_id |-> c.nProto + 2]
      [] k = "router"      -> [n_rules |-> c.nRules + 1, n_ports |-> c.nPorts + 1, has_users |-> 2]
      [] k = "firewall"    -> [n_acls |-> 7, n_rules_min |-> c.nRules + 1, n_rules_max |-> c.nRules + 1,
                               n_ports |-> 65, has_users |-> 2]

(* C02 on the model: every admissible encoding of every field lies inside the documented space       *)
EncodeInSpaceAt(k, c, t) ==
    LET E == EncodeSet(k, c, t)
        S == Space(k, c)
    IN  /\ DOMAIN E = DOMAIN S
        /\ \A f \in DOMAIN E : E[f] # {} /\ \A v \in E[f] : v < S[f]
=============================================================================
