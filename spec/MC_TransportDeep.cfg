SPECIFICATION Spec
CONSTANTS
  MaxStim = 6
  MaxSess = 2
  Asym = TRUE
  ShadowAsCoded = FALSE
  Peers = {1, 2}
  Tomes = {TRUE, FALSE}
  Full = FALSE
  ReplyAsCoded = FALSE
INVARIANT OwnerIsInstalledClaimant
INVARIANT EveryClaimedPairOwned
INVARIANT ConnsWithinMax
INVARIANT DeliveredOnlyToRunning
INVARIANT ServedWhenOpen
INVARIANT ReplyOnSameSession
INVARIANT NothingRunsWhenOff
PROPERTY SessionsGrowByConversation
VIEW View
CHECK_DEADLOCK FALSE
