------------------------------- MODULE Link -------------------------------
(***************************************************************************)
(* A wired link (two end interfaces) or one wireless channel, within and   *)
(* across ticks.  Property C18.                                            *)
(*                                                                         *)
(* Vocabulary (DESIGN.md 1): PreTick zeroes the loads; a send is an        *)
(* admission test at the sender (Admit) followed, when admitted, by the    *)
(* crossing of the frame (Begin .. End).  Delivery is synchronous: the     *)
(* receiver may send replies *inside* Begin..End (nested on `stack').      *)
(*                                                                         *)
(* Units are abstract (the harness uses bytes).  `bw' is a configuration   *)
(* variable (never changes) so that one TLC run can sweep several          *)
(* configurations / validate traces of differently configured links.       *)
(***************************************************************************)
EXTENDS Naturals, Sequences

VARIABLES
    bw,       \* capacity per tick
    wireless, \* TRUE: a wireless channel (no end points, broadcast medium)
    upA, upB, \* the two end interfaces are enabled (wired only)
    carried,  \* data that has crossed since the last PreTick - the spec's own accounting
    load,     \* the load the link itself reports
    stack     \* sizes of the frames currently being delivered, innermost last

lvars == <<bw, wireless, upA, upB, carried, load, stack>>

RECURSIVE SumSeq(_)
SumSeq(s) == IF s = <<>> THEN 0 ELSE Head(s) + SumSeq(Tail(s))

Up == wireless \/ (upA /\ upB)

\* everything already committed to this tick: crossed, or crossing right now
Committed == carried + SumSeq(stack)

LinkInit(b, w, a0, b0) ==
    /\ bw = b /\ wireless = w
    /\ upA = a0 /\ upB = b0
    /\ carried = 0 /\ load = 0 /\ stack = <<>>

(* Start of a tick: loads return to zero.  Only between deliveries.        *)
PreTick(newLoad) ==
    /\ stack = <<>>
    /\ newLoad = 0            \* "loads start every tick at zero"
    /\ carried' = 0
    /\ load' = newLoad
    /\ UNCHANGED <<bw, wireless, upA, upB, stack>>

(* Admission test at the sender.  A frame that would overflow the tick's   *)
(* capacity - counting what already crossed and what is crossing right now *)
(* - is dropped; nothing is admitted on a link that is not up.  (The       *)
(* statement does not oblige the sender to admit a frame that fits.)       *)
AdmitOK(sz) == Up /\ Committed + sz <= bw

Admit(sz, ok, newLoad) ==
    /\ ok => AdmitOK(sz)
    /\ load' = newLoad
    /\ UNCHANGED <<bw, wireless, upA, upB, carried, stack>>

(* The frame starts to cross.  Only on a link that is up.                  *)
Begin(sz, newLoad) ==
    /\ Up
    /\ stack' = Append(stack, sz)
    /\ load' = newLoad
    /\ UNCHANGED <<bw, wireless, upA, upB, carried>>

(* The delivery returns.  A frame taken by the far end (or, on a wireless  *)
(* channel, put on the air) counts as carried.                             *)
End(received, newLoad) ==
    /\ stack # <<>>
    /\ stack' = SubSeq(stack, 1, Len(stack) - 1)
    /\ carried' = IF received THEN carried + stack[Len(stack)] ELSE carried
    /\ load' = newLoad
    /\ UNCHANGED <<bw, wireless, upA, upB>>

(* An end interface is disabled / enabled.                                 *)
SetEnd(side, en, newLoad) ==
    /\ ~wireless
    /\ IF side = "A" THEN upA' = en /\ upB' = upB ELSE upB' = en /\ upA' = upA
    /\ load' = newLoad
    /\ UNCHANGED <<bw, wireless, carried, stack>>

-----------------------------------------------------------------------------
(* C18 clauses *)

CarriedWithinBandwidth == carried <= bw
LoadWithinBandwidth    == load <= bw
LinkInv == CarriedWithinBandwidth /\ LoadWithinBandwidth

=============================================================================
