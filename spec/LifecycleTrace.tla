--------------------------- MODULE LifecycleTrace ---------------------------
(* Trace validation of Lifecycle.tla itself (facets svc, app, fs): after     *)
(* every environment step of a tour the harness reads the node's power      *)
(* state and countdown, the component's operating state, health and timers  *)
(* from the live objects; the model's step for the same action must produce *)
(* exactly that state.  (Makes the tours' coverage meaningful: the abstract *)
(* state the tour believes it is in IS the state of the simulator.)         *)
(* trace: cfg = [] ; event = [a, pw, pc, rs, op, oc, hs, fc]                *)
EXTENDS Lifecycle, TLC, TLCExt, Json, IOUtils, Sequences

Traces == JsonDeserialize(IOEnv.TRACE_FILE)
VARIABLES tid, l
tvars == <<vars, tid, l>>
T == Traces[tid].ev

\* the model's successor for action a, component-wise (Step is deterministic)
Clauses(e) ==
    [ KnownAction       |-> e.a \in Acts,
      PowerAsModelled   |-> e.a \in Acts => \E s \in {1} : ENABLED (Step(e.a) /\ pw' = e.pw /\ pc' = e.pc /\ rs' = e.rs),
      ComponentAsModelled |-> e.a \in Acts => \E s \in {1} : ENABLED (Step(e.a) /\ op' = e.op /\ oc' = e.oc),
      HealthAsModelled  |-> e.a \in Acts => \E s \in {1} : ENABLED (Step(e.a) /\ hs' = e.hs /\ fc' = e.fc)
    ]
Failing(e) == {c \in DOMAIN Clauses(e) : ~Clauses(e)[c]}

TraceInit == tid \in 1..Len(Traces) /\ l = 1 /\ Init
TraceNext == l <= Len(T) /\ Failing(T[l]) = {} /\ Step(T[l].a) /\ l' = l + 1 /\ UNCHANGED tid
TraceSpec == TraceInit /\ [][TraceNext]_tvars

Seen == TLCGet(tid)
Record ==
    IF l > Seen.pos
    THEN TLCSet(tid, [pos |-> l, fail |-> IF l <= Len(T) THEN Failing(T[l]) ELSE {},
                      st |-> [pw |-> pw, pc |-> pc, rs |-> rs, op |-> op, oc |-> oc, hs |-> hs, fc |-> fc]])
    ELSE TRUE
InitRegs == \A i \in 1..Len(Traces) : TLCSet(i, [pos |-> 0, fail |-> {}, st |-> <<>>])
ASSUME InitRegs
Report ==
    \A i \in 1..Len(Traces) :
        LET r == TLCGet(i) IN
        /\ PrintT(<<"TRACE", i, r.pos, Len(Traces[i].ev)>>)
        /\ (r.pos = Len(Traces[i].ev) + 1 \/ PrintT(<<"STUCK", i, r.pos, r.fail, r.st>>))
=============================================================================
