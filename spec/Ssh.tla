-------------------------------- MODULE Ssh --------------------------------
(***************************************************************************)
(* The Terminal service of PrimAITE and its SSH-like protocol (extension   *)
(* module, beyond the listed properties).  Code:                           *)
(*   simulator/system/services/terminal/terminal.py  (Terminal,            *)
(*     LocalTerminalConnection, RemoteTerminalConnection; the requests     *)
(*     node_session_remote_login / remote_logoff / send_remote_command /   *)
(*     send_local_command),                                                *)
(*   simulator/network/protocols/ssh.py  (SSHPacket and message kinds),    *)
(*   simulator/network/hardware/base.py  (UserSessionManager: the server's *)
(*     table of remote sessions, time-outs, remote_logout),                *)
(*   game/agent/actions/session.py, node.py  (the agent actions that form  *)
(*     those requests).                                                    *)
(* Property C16 (Sessions.tla) decides WHEN a login succeeds and a command *)
(* is executed, seen from outside as one step per request.  This module is *)
(* about the PROTOCOL and the tables at the two ends: every node has a     *)
(* terminal and may be client and server at once; a request (or API call)  *)
(* is a bracket  Begin .. Return  and inside it every message that is sent *)
(* and every message that a terminal handles is one action:                *)
(*   LoginSend     client sends SSH_MSG_USERAUTH_REQUEST                   *)
(*                 (Terminal._send_remote_login)                           *)
(*   LoginRecv     server handles it (Terminal.receive ->                  *)
(*                 UserSessionManager.remote_login): accepted = session +  *)
(*                 connection at the server and SSH_MSG_USERAUTH_SUCCESS   *)
(*                 back; refused = nothing (the code has no failure reply: *)
(*                 the client infers failure from the absence of a reply)  *)
(*   LoginOkRecv   client handles SSH_MSG_USERAUTH_SUCCESS: connection     *)
(*                 object at the client (Terminal._create_remote_connection)*)
(*   CmdSend       client sends SSH_MSG_SERVICE_REQUEST through a          *)
(*                 connection (RemoteTerminalConnection.execute)           *)
(*   CmdRecv       server handles it: executed through the node's request  *)
(*                 manager iff the connection id is valid there, then      *)
(*                 SSH_MSG_SERVICE_SUCCESS / _FAILED back                  *)
(*   CmdReplyRecv  client handles the reply                                *)
(*   DiscSend      client ends a connection (remote_logoff /               *)
(*                 connection.disconnect -> Terminal._disconnect)          *)
(*   KickSend      server ends a session (UserSessionManager._logout: the  *)
(*                 remote_logout request, a password change)               *)
(*   DiscRecv      a terminal handles {"type": "disconnect"}               *)
(*   TimeoutPush   server times a session out and pushes                   *)
(*                 {"type": "user_timeout"} (UserSessionManager.           *)
(*                 pre_timestep -> _timeout_session)                       *)
(*   TimeoutRecv   client handles it                                       *)
(*   Lost          a message that was sent reaches no handler              *)
(*   LocalExec     send_local_command: local login + command               *)
(* plus the brackets (Begin / *Return, TickBegin / TickEnd) and the        *)
(* environment (Power, SvcSet, Block, Env).                                *)
(*                                                                         *)
(* CONTRACT CLAUSES (and where they come from)                             *)
(*  K1 SameIdBothEnds / FailedLoginLeavesNothing.  After a successful      *)
(*     remote login both ends hold a connection with the same connection   *)
(*     id: the client a RemoteTerminalConnection to the server's address   *)
(*     (terminal.rst "Terminal Clients connect, execute commands and       *)
(*     disconnect from remote nodes", Terminal.login / _send_remote_login  *)
(*     ":return: RemoteTerminalConnection: Connection Object for sending   *)
(*     further commands if successful", SSHPacket.connection_uuid          *)
(*     "Connection UUID used when validating a remote connection"), the    *)
(*     server a remote session of its user session manager and a           *)
(*     connection of its terminal ("Manages remote connections in a        *)
(*     dictionary by session ID", "Ensures packets are matched to an       *)
(*     existing session").  A failed login leaves no connection and no     *)
(*     session at either end.                                              *)
(*  K2 ExecOnceIffValid.  A remote command is executed on the server,      *)
(*     exactly once, iff its connection id is valid there at that moment   *)
(*     (terminal.rst "Ensures that users are logged in to the component    *)
(*     before executing any commands"; Terminal._check_client_connection;  *)
(*     receive: "Connection UUID ... is not valid. Rejecting Command."),   *)
(*     through a connection the sender holds AS A CLIENT of that address   *)
(*     (node-send-remote-command: "After remotely logging into another     *)
(*     host ... execute commands across the network"), never on the client.*)
(*  K3 AnswerIsThisCommand.  The answer of the client's                    *)
(*     send_remote_command request is the server's answer to THAT command  *)
(*     (Terminal._last_response "Last response received from               *)
(*     RequestManager, for returning remote RequestResponse"; receive      *)
(*     clears it: "Clear last response"); when no answer came back the     *)
(*     request is answered failure (remote_execute_request; fix 4f3d69d),  *)
(*     never with the answer of an earlier exchange.                       *)
(*  K4 LogoffBothEnds / NoExecAfterEnd.  remote_logoff, a disconnect       *)
(*     message and a time-out remove the connection at both ends (at the   *)
(*     end that can still be reached) and later commands on it are not     *)
(*     executed (terminal.rst "Disconnect from Remote Node";               *)
(*     TerminalClientConnection.disconnect "Disconnect the session";       *)
(*     UserSessionManager._timeout_session / remote_logout docstrings).    *)
(*  K5 NotRunningInert.  A terminal that is not RUNNING or whose node is   *)
(*     not ON sends nothing and executes nothing (Terminal.login "Cannot   *)
(*     login as service is not running", Terminal.send "Cannot send        *)
(*     commands when Operating state is ...", the two connection classes   *)
(*     "Cannot process command as system not running", Software.           *)
(*     _can_perform_action, SoftwareManager.receive_payload_from_session_  *)
(*     manager "software that is not running does not handle payloads").   *)
(*  K6 LocalNeedsCredentials / LocalAnswerSaysSo.  send_local_command      *)
(*     executes only with valid credentials of an enabled user             *)
(*     (terminal.rst node-send-local-command; "Ensures that users are      *)
(*     logged in ... before executing any commands") and its answer is     *)
(*     success only if the command was executed (request_system.rst:       *)
(*     "success: The request was received and successfully executed.       *)
(*     failure: The request was received, but it could not be executed";   *)
(*     interface/request.py RequestResponse.status).                       *)
(*  K7 Answered.  Every request is answered with a RequestResponse whose   *)
(*     status is success / failure / unreachable - never None, never an    *)
(*     exception (request_system.rst; RequestType.func ->                  *)
(*     RequestResponse).                                                   *)
(* Binding clauses (TablesAsSpecified, CallBracket, Delivered ...) live in *)
(* SshTrace.tla: tables change only by the actions that may change them.   *)
(*                                                                         *)
(* Not demanded (undocumented): what power-off / stopping the service does *)
(* to the tables (as coded: nothing); the idle arithmetic of time-outs is  *)
(* C16's (allowed from `timeout', due after it).                           *)
(* Configuration (nodes, timeout, maxRemote) lives in variables.           *)
(***************************************************************************)
EXTENDS Naturals, FiniteSets

VARIABLES
    nodes, timeout, maxRemote,  \* configuration
    on, run,        \* node -> BOOLEAN: node powered on / terminal service RUNNING
    net,            \* "open" | "blocked" | "unknown": the SSH port between the nodes
    cli,            \* node -> set of [id, peer]: connections it holds as a client of `peer'
    srv,            \* node -> set of [id, peer]: connections its terminal holds as the server of `peer'
    sess,           \* node -> set of [id, peer, idle]: remote sessions of its user session manager
    nid,            \* highest connection id issued so far (ids are never reused)
    ended,          \* ids whose session was ended at its server
    wire,           \* the message in flight, Nil = none (the simulator is sequential)
    call,           \* the request / tick in progress or just finished
    pre             \* the tables when it began
svars == <<nodes, timeout, maxRemote, on, run, net, cli, srv, sess, nid, ended, wire, call, pre>>
cfgvars == <<nodes, timeout, maxRemote>>

Nil == [k |-> "", src |-> "", dst |-> "", id |-> 0, cmd |-> 0, st |-> "", good |-> FALSE]
Msg(k, s, d, id, cmd, st, good) == [k |-> k, src |-> s, dst |-> d, id |-> id, cmd |-> cmd, st |-> st, good |-> good]
Idle == [stage |-> "idle", kind |-> "", via |-> "", n |-> "", peer |-> "", good |-> FALSE, id |-> 0, cmd |-> 0,
         sent |-> FALSE, rcvd |-> FALSE, valid |-> FALSE, got |-> FALSE, rst |-> "", rcmd |-> 0,
         execs |-> 0, execAt |-> "", ok |-> FALSE, ast |-> "", atag |-> 0]
Statuses == {"success", "failure", "unreachable"}
Kinds == {"login", "cmd", "logoff", "kick", "local", "tick"}

Ids(S) == {x.id : x \in S}
Tables == [cli |-> cli, srv |-> srv, sess |-> [n \in nodes |-> Ids(sess[n])], ended |-> ended]
Up(n) == on[n] /\ run[n]
Open == call.stage = "open"
Quiet == call.stage # "open" /\ wire = Nil
Closed == call.stage = "closed"
InCall(kind, n) == Open /\ call.kind = kind /\ call.n = n
\* a message may reach its handler / must reach it
MayDeliver(m) == on[m.src] /\ on[m.dst] /\ run[m.dst] /\ net # "blocked"
MustDeliver(m) == on[m.src] /\ on[m.dst] /\ run[m.dst] /\ net = "open"
Drop(S, id) == {x \in S : x.id # id}
PeerOf(S, id) == (CHOOSE x \in S : x.id = id).peer

SshInit(ns, to, mr, o, r, nt) ==
    /\ nodes = ns /\ timeout = to /\ maxRemote = mr
    /\ on = o /\ run = r /\ net = nt
    /\ cli = [n \in ns |-> {}] /\ srv = [n \in ns |-> {}] /\ sess = [n \in ns |-> {}]
    /\ nid = 0 /\ ended = {} /\ wire = Nil /\ call = Idle
    /\ pre = [cli |-> [n \in ns |-> {}], srv |-> [n \in ns |-> {}], sess |-> [n \in ns |-> {}], ended |-> {}]

-----------------------------------------------------------------------------
(* Brackets                                                                *)
BeginVia(kind, via, n, peer, good, cmd, id) ==
    /\ Quiet /\ kind \in Kinds \ {"tick"} /\ n \in nodes
    /\ call' = [Idle EXCEPT !.stage = "open", !.kind = kind, !.via = via, !.n = n, !.peer = peer, !.good = good, !.cmd = cmd, !.id = id]
    /\ pre' = Tables
    /\ UNCHANGED <<cfgvars, on, run, net, cli, srv, sess, nid, ended, wire>>
\* via = the entry the request came through: "req" (a request of the request tree) | "api" (the Python API of terminal.rst)
Begin(kind, n, peer, good, cmd, id) == BeginVia(kind, "req", n, peer, good, cmd, id)

Close(ok, ast, atag) == call' = [call EXCEPT !.stage = "closed", !.ok = ok, !.ast = ast, !.atag = atag]

(* ---- remote login ------------------------------------------------------ *)
LoginSend(n) ==
    /\ InCall("login", n) /\ ~call.sent /\ wire = Nil
    /\ Up(n)                                                                       \* K5
    /\ call.peer \in nodes \ {n}
    /\ wire' = Msg("LoginReq", n, call.peer, 0, 0, "", call.good)
    /\ call' = [call EXCEPT !.sent = TRUE]
    /\ UNCHANGED <<cfgvars, on, run, net, cli, srv, sess, nid, ended, pre>>

Entitled(s, m) == m.good /\ Cardinality(sess[s]) < maxRemote
\* newid = 0: refused (no reply)
LoginRecv(s, newid) ==
    /\ wire.k = "LoginReq" /\ wire.dst = s /\ Up(s) /\ MayDeliver(wire)            \* K5
    /\ (newid # 0) = Entitled(s, wire)
    /\ IF newid # 0
       THEN /\ newid > nid                                                         \* a fresh id
            /\ nid' = newid
            /\ sess' = [sess EXCEPT ![s] = @ \cup {[id |-> newid, peer |-> wire.src, idle |-> 0]}]
            /\ srv' = [srv EXCEPT ![s] = @ \cup {[id |-> newid, peer |-> wire.src]}]
            /\ wire' = Msg("LoginOk", s, wire.src, newid, 0, "", FALSE)
       ELSE /\ wire' = Nil
            /\ UNCHANGED <<nid, sess, srv>>
    /\ call' = [call EXCEPT !.rcvd = TRUE]
    /\ UNCHANGED <<cfgvars, on, run, net, cli, ended, pre>>

LoginOkRecv(c) ==
    /\ wire.k = "LoginOk" /\ wire.dst = c /\ Up(c) /\ MayDeliver(wire)
    /\ cli' = [cli EXCEPT ![c] = @ \cup {[id |-> wire.id, peer |-> wire.src]}]     \* K1: the same id
    /\ call' = [call EXCEPT !.got = TRUE, !.id = wire.id]
    /\ wire' = Nil
    /\ UNCHANGED <<cfgvars, on, run, net, srv, sess, nid, ended, pre>>

LoginReturn(n, ok, ast) ==
    /\ InCall("login", n) /\ wire = Nil
    /\ ok = call.got
    /\ ast = IF ok THEN "success" ELSE "failure"                                   \* K7
    /\ Close(ok, ast, 0)
    /\ UNCHANGED <<cfgvars, on, run, net, cli, srv, sess, nid, ended, wire, pre>>

(* ---- remote command ---------------------------------------------------- *)
CmdSend(n, id) ==
    /\ InCall("cmd", n) /\ ~call.sent /\ wire = Nil
    /\ Up(n)                                                                       \* K5
    /\ [id |-> id, peer |-> call.peer] \in cli[n]                                  \* K2: a connection held as a client
    /\ wire' = Msg("Cmd", n, call.peer, id, call.cmd, "", FALSE)
    /\ call' = [call EXCEPT !.sent = TRUE, !.id = id]
    /\ UNCHANGED <<cfgvars, on, run, net, cli, srv, sess, nid, ended, pre>>

ValidAt(s, id) == id \in Ids(sess[s]) /\ id \in Ids(srv[s])
\* exec = the command went through the node's request manager; st = its answer; out = "" | "CmdReply" | "Disc"
CmdRecv(s, exec, st, out) ==
    /\ wire.k = "Cmd" /\ wire.dst = s /\ Up(s) /\ MayDeliver(wire)                 \* K5
    /\ exec = ValidAt(s, wire.id)                                                  \* K2
    /\ IF exec
       THEN /\ st \in Statuses /\ out = "CmdReply"
            /\ sess' = [sess EXCEPT ![s] = {IF x.id = wire.id THEN [x EXCEPT !.idle = 0] ELSE x : x \in @}]
            /\ wire' = Msg("CmdReply", s, wire.src, wire.id, wire.cmd, st, FALSE)
            /\ call' = [call EXCEPT !.rcvd = TRUE, !.valid = TRUE, !.execs = @ + 1, !.execAt = s]
            /\ UNCHANGED srv
       ELSE /\ st = "" /\ out \in {"", "Disc"}    \* the server may tell the client that the connection is gone
            /\ wire' = IF out = "Disc" THEN Msg("Disc", s, wire.src, wire.id, 0, "", FALSE) ELSE Nil
            /\ srv' = [srv EXCEPT ![s] = Drop(@, wire.id)]
            /\ call' = [call EXCEPT !.rcvd = TRUE]
            /\ UNCHANGED sess
    /\ UNCHANGED <<cfgvars, on, run, net, cli, nid, ended, pre>>

CmdReplyRecv(c) ==
    /\ wire.k = "CmdReply" /\ wire.dst = c /\ Up(c) /\ MayDeliver(wire)
    /\ call' = [call EXCEPT !.got = TRUE, !.rst = wire.st, !.rcmd = wire.cmd]
    /\ wire' = Nil
    /\ UNCHANGED <<cfgvars, on, run, net, cli, srv, sess, nid, ended, pre>>

\* the answer of the request: that command's answer, or failure (atag = the command the answer belongs to, 0 = none)
CmdReturn(n, ast, atag) ==
    /\ InCall("cmd", n) /\ wire = Nil
    /\ IF call.got THEN ast = call.rst /\ atag = call.rcmd /\ atag = call.cmd      \* K3
                   ELSE ast = "failure" /\ atag = 0
    /\ Close(ast = "success", ast, atag)
    /\ UNCHANGED <<cfgvars, on, run, net, cli, srv, sess, nid, ended, wire, pre>>

(* ---- ending a connection ------------------------------------------------ *)
\* the client ends the connection it holds to call.peer
DiscSend(n, id) ==
    /\ InCall("logoff", n) /\ ~call.sent /\ wire = Nil
    /\ Up(n)                                                                       \* K5
    /\ [id |-> id, peer |-> call.peer] \in cli[n]
    /\ cli' = [cli EXCEPT ![n] = @ \ {[id |-> id, peer |-> call.peer]}]            \* K4
    /\ wire' = Msg("Disc", n, call.peer, id, 0, "", FALSE)
    /\ call' = [call EXCEPT !.sent = TRUE, !.id = id]
    /\ UNCHANGED <<cfgvars, on, run, net, srv, sess, nid, ended, pre>>

\* the server's user session manager ends session call.id: first the terminal's connection (and the message) ...
KickSend(s) ==
    /\ InCall("kick", s) /\ ~call.sent /\ wire = Nil
    /\ on[s] /\ call.id \in Ids(srv[s])
    /\ wire' = Msg("Disc", s, PeerOf(srv[s], call.id), call.id, 0, "", FALSE)
    /\ srv' = [srv EXCEPT ![s] = Drop(@, call.id)]
    /\ call' = [call EXCEPT !.sent = TRUE]
    /\ UNCHANGED <<cfgvars, on, run, net, cli, sess, nid, ended, pre>>
\* ... then the session itself
KickReturn(s, ok) ==
    /\ InCall("kick", s) /\ wire = Nil
    /\ ok = (on[s] /\ call.id \in Ids(sess[s]))
    /\ sess' = [sess EXCEPT ![s] = IF on[s] THEN Drop(@, call.id) ELSE @]
    /\ ended' = IF ok THEN ended \cup {call.id} ELSE ended
    /\ Close(ok, IF ok THEN "success" ELSE "failure", 0)
    /\ UNCHANGED <<cfgvars, on, run, net, cli, srv, nid, wire, pre>>

\* a terminal handles a disconnect message: whatever it holds under that id goes; out = "Disc": it says so to the sender
HeldSrv(x, id) == id \in Ids(srv[x])
HeldCli(x, id, from) == [id |-> id, peer |-> from] \in cli[x]
DiscRecv(x, out) ==
    /\ wire.k = "Disc" /\ wire.dst = x /\ Up(x) /\ MayDeliver(wire)
    /\ LET id == wire.id
           both == HeldSrv(x, id) /\ id \in Ids(sess[x]) IN
       /\ srv' = [srv EXCEPT ![x] = Drop(@, id)]
       /\ sess' = [sess EXCEPT ![x] = IF both THEN Drop(@, id) ELSE @]
       /\ ended' = IF both THEN ended \cup {id} ELSE ended
       /\ cli' = [cli EXCEPT ![x] = @ \ {[id |-> id, peer |-> wire.src]}]
       /\ out \in {"", "Disc"}
       /\ out = "Disc" => (HeldSrv(x, id) \/ HeldCli(x, id, wire.src))     \* an echo of an echo would never end
       /\ wire' = IF out = "Disc" THEN Msg("Disc", x, wire.src, id, 0, "", FALSE) ELSE Nil
    /\ call' = [call EXCEPT !.rcvd = TRUE]
    /\ UNCHANGED <<cfgvars, on, run, net, nid, pre>>

LogoffReturn(n, ok, ast) ==
    /\ InCall("logoff", n) /\ wire = Nil
    /\ ok = call.sent
    /\ ast = IF ok THEN "success" ELSE "failure"
    /\ Close(ok, ast, 0)
    /\ UNCHANGED <<cfgvars, on, run, net, cli, srv, sess, nid, ended, wire, pre>>

\* a message that was sent reaches no handler: only when it cannot be delivered
Lost ==
    /\ wire # Nil /\ ~MustDeliver(wire)
    /\ wire' = Nil
    /\ UNCHANGED <<cfgvars, on, run, net, cli, srv, sess, nid, ended, call, pre>>

(* ---- time --------------------------------------------------------------- *)
TickBegin ==
    /\ Quiet
    /\ sess' = [n \in nodes |-> {[x EXCEPT !.idle = @ + 1] : x \in sess[n]}]
    /\ call' = [Idle EXCEPT !.stage = "open", !.kind = "tick"]
    /\ pre' = Tables
    /\ UNCHANGED <<cfgvars, on, run, net, cli, srv, nid, ended, wire>>

TimeoutPush(s, id) ==
    /\ Open /\ call.kind = "tick" /\ wire = Nil /\ s \in nodes
    /\ \E x \in sess[s] : x.id = id /\ x.idle >= timeout
    /\ wire' = Msg("Timeout", s, PeerOf(sess[s], id), id, 0, "", FALSE)
    /\ sess' = [sess EXCEPT ![s] = Drop(@, id)]                                    \* K4
    /\ srv' = [srv EXCEPT ![s] = Drop(@, id)]
    /\ ended' = ended \cup {id}
    /\ UNCHANGED <<cfgvars, on, run, net, cli, nid, call, pre>>

TimeoutRecv(c) ==
    /\ wire.k = "Timeout" /\ wire.dst = c /\ Up(c) /\ MayDeliver(wire)
    /\ cli' = [cli EXCEPT ![c] = @ \ {[id |-> wire.id, peer |-> wire.src]}]        \* K4
    /\ wire' = Nil
    /\ UNCHANGED <<cfgvars, on, run, net, srv, sess, nid, ended, call, pre>>

TickEnd ==
    /\ Open /\ call.kind = "tick" /\ wire = Nil
    /\ \A n \in nodes : \A x \in sess[n] : x.idle <= timeout        \* overdue sessions are gone
    /\ Close(TRUE, "", 0)
    /\ UNCHANGED <<cfgvars, on, run, net, cli, srv, sess, nid, ended, wire, pre>>

(* ---- local command ------------------------------------------------------ *)
LocalExec(n, st) ==
    /\ InCall("local", n) /\ call.execs = 0
    /\ call.good /\ Up(n)                                                          \* K6, K5
    /\ st \in Statuses
    /\ call' = [call EXCEPT !.execs = 1, !.execAt = n, !.rst = st, !.rcmd = call.cmd]
    /\ UNCHANGED <<cfgvars, on, run, net, cli, srv, sess, nid, ended, wire, pre>>

LocalReturn(n, ok, ast) ==
    /\ InCall("local", n) /\ wire = Nil
    /\ ast \in Statuses                                                            \* K7
    /\ ok = (ast = "success")
    /\ ok => call.execs = 1                                                        \* K6: the answer says so
    /\ (call.good /\ Up(n)) => call.execs = 1
    /\ Close(ok, ast, IF call.execs = 1 THEN call.cmd ELSE 0)
    /\ UNCHANGED <<cfgvars, on, run, net, cli, srv, sess, nid, ended, wire, pre>>

(* ---- environment (between requests only: the simulator is sequential) --- *)
Settle == call' = Idle /\ pre' = Tables
Power(n, newOn, newRun) ==
    /\ Quiet /\ n \in nodes
    /\ on' = [on EXCEPT ![n] = newOn] /\ run' = [run EXCEPT ![n] = newRun]
    /\ UNCHANGED <<cfgvars, net, cli, srv, sess, nid, ended, wire>> /\ Settle
SvcSet(n, newRun) ==
    /\ Quiet /\ n \in nodes
    /\ run' = [run EXCEPT ![n] = newRun]
    /\ UNCHANGED <<cfgvars, on, net, cli, srv, sess, nid, ended, wire>> /\ Settle
Block(b) ==
    /\ Quiet /\ net' = IF b THEN "blocked" ELSE "open"
    /\ UNCHANGED <<cfgvars, on, run, cli, srv, sess, nid, ended, wire>> /\ Settle
\* whatever the rest of a scenario did to power / service states (scenario-scale runs)
Env(non, nrun) ==
    /\ Quiet /\ DOMAIN non = nodes /\ DOMAIN nrun = nodes
    /\ on' = non /\ run' = nrun
    /\ UNCHANGED <<cfgvars, net, cli, srv, sess, nid, ended, wire>> /\ Settle

-----------------------------------------------------------------------------
(* The clauses as state invariants (checked on MC_Ssh)                      *)
AllIds == UNION {Ids(cli[n]) \cup Ids(srv[n]) \cup Ids(sess[n]) : n \in nodes}
TypeOK ==
    /\ \A n \in nodes : on[n] \in BOOLEAN /\ run[n] \in BOOLEAN
    /\ net \in {"open", "blocked", "unknown"}
    /\ call.stage \in {"idle", "open", "closed"}
    /\ wire.k \in {"", "LoginReq", "LoginOk", "Cmd", "CmdReply", "Disc", "Timeout"}
    /\ AllIds \subseteq 1..nid
    /\ \A n \in nodes : \A x \in cli[n] \cup srv[n] : x.peer \in nodes \ {n}
\* K1
SameIdBothEnds == (Closed /\ call.kind = "login" /\ call.ok) =>
    /\ call.id \notin (UNION {Ids(pre.cli[n]) \cup Ids(pre.srv[n]) \cup pre.sess[n] : n \in nodes})
    /\ [id |-> call.id, peer |-> call.peer] \in cli[call.n]
    /\ [id |-> call.id, peer |-> call.n] \in srv[call.peer]
    /\ \E x \in sess[call.peer] : x.id = call.id /\ x.peer = call.n
FailedLoginLeavesNothing == (Closed /\ call.kind = "login" /\ ~call.ok /\ net # "unknown") =>
    /\ cli = pre.cli /\ srv = pre.srv /\ [n \in nodes |-> Ids(sess[n])] = pre.sess
\* the server's two tables agree between requests
ServerTablesAgree == (call.stage # "open" /\ wire = Nil) => \A n \in nodes : Ids(srv[n]) = Ids(sess[n])
\* K2
ExecOnceIffValid == (call.kind = "cmd" /\ call.stage \in {"open", "closed"}) =>
    /\ call.execs <= 1
    /\ (call.execs = 1) = (call.rcvd /\ call.valid)
    /\ call.execs = 1 => (call.execAt = call.peer /\ call.execAt # call.n)
    /\ call.sent => [id |-> call.id, peer |-> call.peer] \in pre.cli[call.n]
\* K3
AnswerIsThisCommand == (Closed /\ call.kind = "cmd") =>
    IF call.got THEN call.ast = call.rst /\ call.atag = call.cmd /\ call.rcmd = call.cmd
    ELSE call.ast = "failure" /\ call.atag = 0
\* K4
LogoffBothEnds == (Closed /\ call.kind = "logoff" /\ call.ok) =>
    /\ call.id \notin Ids({x \in cli[call.n] : x.peer = call.peer})
    /\ call.rcvd => (call.id \notin Ids(srv[call.peer]) /\ call.id \notin Ids(sess[call.peer]))
NoExecAfterEnd == (call.kind = "cmd" /\ call.execs > 0) => call.id \notin pre.ended
EndedAreGone == \A n \in nodes : Ids(sess[n]) \cap ended = {}
\* K5
NotRunningInert ==
    /\ wire.k \in {"LoginReq", "LoginOk", "Cmd", "CmdReply"} => Up(wire.src)
    /\ wire.k = "Disc" => on[wire.src]
    /\ (Open /\ call.execs > 0) => Up(call.execAt)
\* K6
LocalNeedsCredentials == (call.kind = "local" /\ call.execs > 0) => (call.good /\ call.execAt = call.n)
LocalAnswerSaysSo == (Closed /\ call.kind = "local") => (call.ok => call.execs = 1)
\* K7
Answered == (Closed /\ call.kind \in {"login", "cmd", "logoff", "local"}) => call.ast \in Statuses
=============================================================================
