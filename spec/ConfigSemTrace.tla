--------------------------- MODULE ConfigSemTrace ---------------------------
(* Batch validation of built simulations against ConfigSem.tla (idiom of     *)
(* LinkTrace.tla, DESIGN.md 4.4).                                            *)
(*                                                                           *)
(* A trace is [cfg |-> [scenario, host, type, scope], ev |-> <<event>>];     *)
(* scope "node": one node of one scenario, scope "net": links/agents/counts  *)
(* of one scenario, scope "pair": two trajectories of one scenario.          *)
(* An event is                                                               *)
(*   [ev |-> "Built",  declared |-> <<facts flattened from the scenario dict>>, *)
(*                     built    |-> <<facts read from the built objects>>,   *)
(*                     a, b |-> <<>>, exc |-> ""]                            *)
(*   [ev |-> "Pair",   a, b |-> digest-number sequences of the original and  *)
(*                     of the re-serialised scenario, ...]                   *)
(*   [ev |-> "Raised", exc |-> exception type of from_config, ...]           *)
EXTENDS ConfigSem, TLCExt, Json, IOUtils

Traces == JsonDeserialize(IOEnv.TRACE_FILE)

VARIABLES tid, l
tvars == <<inv, tid, l>>

T == Traces[tid].ev
Cfg == Traces[tid].cfg

ToSet(s) == {s[i] : i \in 1..Len(s)}
D(e) == IF e.ev = "Built" THEN Diff(ToSet(e.declared), ToSet(e.built))
        ELSE [c \in DOMAIN Diff({}, {}) |-> {}]

\* named clauses, all predicates of the event: the guard of the step
Clauses(e) ==
    LET d == D(e) IN
    [ Loads                          |-> e.ev # "Raised",
      NodesAsDeclared                |-> d.NodesAsDeclared = {},
      InitialStateAsDeclared         |-> d.InitialStateAsDeclared = {},
      InterfacesAsDeclared           |-> d.InterfacesAsDeclared = {},
      LinksAsDeclared                |-> d.LinksAsDeclared = {},
      RoutesAsDeclared               |-> d.RoutesAsDeclared = {},
      AclAsDeclared                  |-> d.AclAsDeclared = {},
      SoftwareAsDeclared             |-> d.SoftwareAsDeclared = {},
      UsersAsDeclared                |-> d.UsersAsDeclared = {},
      FilesAsDeclared                |-> d.FilesAsDeclared = {},
      AgentsAsDeclared               |-> d.AgentsAsDeclared = {},
      NoShadowedLeftovers            |-> d.NoShadowedLeftovers = {},
      SameTrajectoryUnderReordering  |-> e.ev = "Pair" => e.a = e.b
    ]
Failing(e) == LET cl == Clauses(e) IN {c \in DOMAIN cl : ~cl[c]}

Step(e) ==
    CASE e.ev = "Built" -> Load(ToSet(e.declared))
      [] e.ev = "Pair"  -> UNCHANGED inv
      [] OTHER -> FALSE

TraceInit ==
    /\ tid \in 1..Len(Traces)
    /\ l = 1
    /\ inv = {}

TraceNext ==
    /\ l <= Len(T)
    /\ Failing(T[l]) = {}
    /\ Step(T[l])
    /\ l' = l + 1
    /\ UNCHANGED tid

TraceSpec == TraceInit /\ [][TraceNext]_tvars

\* progress bookkeeping in TLC registers (one per trace); -workers 1
Seen == TLCGet(tid)
Record ==
    IF l > Seen.pos
    THEN LET f == IF l <= Len(T) THEN Failing(T[l]) ELSE {}
         IN  TLCSet(tid, [pos |-> l,
                          fail |-> f,
                          st |-> IF f = {} THEN <<>>
                                 ELSE LET d == D(T[l]) IN [c \in f \cap DOMAIN d |-> d[c]]])
    ELSE TRUE
InitRegs == \A i \in 1..Len(Traces) : TLCSet(i, [pos |-> 0, fail |-> {}, st |-> <<>>])
ASSUME InitRegs

Report ==
    \A i \in 1..Len(Traces) :
        LET r == TLCGet(i) IN
        /\ PrintT(<<"TRACE", i, r.pos, Len(Traces[i].ev)>>)
        /\ (r.pos = Len(Traces[i].ev) + 1 \/ PrintT(<<"STUCK", i, r.pos, r.fail, r.st>>))
=============================================================================
