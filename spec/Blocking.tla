------------------------------ MODULE Blocking ------------------------------
(***************************************************************************)
(* A packet emitted by host A towards host B through one middlebox M (a    *)
(* switch, a router with one ACL, or a firewall with per-zone inbound /    *)
(* outbound ACLs).  Property C06: if every path from A to B is blocked -   *)
(* denying rule(s), a disabled interface / port, a missing link, B or M    *)
(* powered off - nothing emitted by A reaches B; and a frame the middlebox *)
(* decided to deny is never forwarded, learnt from, or handed to its own   *)
(* software.                                                               *)
(*                                                                         *)
(* The pipeline at M is modelled stage by stage, as the code runs it:      *)
(*   MRecv ; Check(list, verdict)* ; [Learn] ; [Local | Forward] ; BRecv   *)
(* All configuration is held in variables that never change.               *)
(***************************************************************************)
EXTENDS Naturals, Sequences, FiniteSets

VARIABLES
    topo,        \* "lan" | "routed" | "fw"
    zoneA, zoneB,\* firewall zones of A and B: "ext" | "int" | "dmz"  (routed/lan: "s1","s2")
    up,          \* record of booleans: nicA, nicB, portA (M's interface towards A), portB, linkA, linkB, onM, onB
    lists,       \* function list name -> [rules |-> <<rule>>, implicit |-> "PERMIT"|"DENY"]
    pkt,         \* the packet: [dst |-> "B"|"M"|"other", proto |-> "tcp"|"udp"|"icmp"|"arp", dport |-> Nat]
    loc,         \* "A" | "wire1" | "M" | "wire2" | "B" | "dropped"
    seen,        \* ACLs consulted so far at M, in order
    denied,      \* M decided to deny this frame
    did          \* what M did with the frame: subset of {"learn","local","forward"}

bvars == <<topo, zoneA, zoneB, up, lists, pkt, loc, seen, denied, did>>

Protos == {"tcp", "udp", "icmp", "arp"}

\* --- rules ---------------------------------------------------------------
\* rule = [act, src, dst, proto, dport]; src / dst are the SETS of symbolic addresses ("A","B","M","other") the
\* rule's address+wildcard covers (unspecified = all of them); proto "any" / dport 0 = unspecified
Addrs == {"A", "B", "M", "MB", "MC", "other"}   \* M = the middlebox's address facing A, MB facing B, MC its others
FieldMatches(rv, pv) == pv \in rv
ProtoMatches(r, p) ==
    \/ r.proto = "any"
    \/ r.proto = p.proto
    \/ (r.proto = "udp" /\ p.proto = "arp")          \* ARP travels as UDP/219
PortMatches(r, p) == r.dport = 0 \/ (p.proto \in {"tcp", "udp", "arp"} /\ r.dport = p.dport)
Matches(r, p) ==
    /\ FieldMatches(r.src, "A") /\ FieldMatches(r.dst, p.dst)
    /\ ProtoMatches(r, p) /\ PortMatches(r, p)

Verdict(l, p) ==
    LET rs == lists[l].rules
        hit == {i \in 1..Len(rs) : Matches(rs[i], p)}
    IN  IF hit = {} THEN lists[l].implicit
        ELSE rs[CHOOSE i \in hit : \A j \in hit : i <= j].act

\* --- which lists M consults for a packet, in order ---------------------------
DstZone(p) == IF p.dst = "B" THEN zoneB ELSE IF p.dst = "M" THEN zoneA ELSE "ext"
SrcList(z) == IF z = "ext" THEN "ext_in" ELSE IF z = "int" THEN "int_out" ELSE "dmz_out"
DstList(z) == IF z = "ext" THEN "ext_out" ELSE IF z = "int" THEN "int_in" ELSE "dmz_in"
ListsFor(p) ==
    CASE topo = "lan"    -> <<>>
      [] topo = "routed" -> IF p.proto = "arp" THEN <<>> ELSE <<"acl">>      \* routers exempt ARP
      [] topo = "fw"     -> IF p.dst = "M" \/ DstZone(p) = zoneA THEN <<SrcList(zoneA)>>
                            ELSE <<SrcList(zoneA), DstList(DstZone(p))>>

AclDenies(p) == \E i \in 1..Len(ListsFor(p)) : Verdict(ListsFor(p)[i], p) = "DENY"
\* ARP (anything on UDP/219) is link-local: a router handles what is addressed to itself and routes none of it - which
\* is what makes its exemption from the router's ACL harmless
NeverRouted(p) == topo = "routed" /\ p.proto = "arp"

\* --- the structural definition of "every path from A to B is blocked" -------
PktsAB == {[dst |-> "B", proto |-> pr, dport |-> dp] : pr \in Protos, dp \in {80, 5432, 219, 0}}
Blocked ==
    \/ ~up.nicA \/ ~up.nicB \/ ~up.portA \/ ~up.portB \/ ~up.linkA \/ ~up.linkB \/ ~up.onM \/ ~up.onB
    \/ (topo # "lan" /\ \A p \in PktsAB : AclDenies(p) \/ NeverRouted(p))

\* --- the walk -------------------------------------------------------------------
BlockInit(t, za, zb, u, ls, p) ==
    /\ topo = t /\ zoneA = za /\ zoneB = zb /\ up = u /\ lists = ls /\ pkt = p
    /\ loc = "A" /\ seen = <<>> /\ denied = FALSE /\ did = {}

Same == UNCHANGED <<topo, zoneA, zoneB, up, lists, pkt>>

\* A's interface puts the frame on the wire (only when it is enabled and linked)
Emit ==
    /\ loc = "A" /\ up.nicA /\ up.linkA
    /\ loc' = "wire1" /\ UNCHANGED <<seen, denied, did>> /\ Same

\* M's interface towards A takes the frame in (only an enabled interface of a powered-on device)
MRecv(accepted) ==
    /\ loc = "wire1"
    /\ accepted => (up.portA /\ up.onM)
    /\ loc' = IF accepted THEN "M" ELSE "dropped"
    /\ UNCHANGED <<seen, denied, did>> /\ Same

\* M consults the next ACL on its list for this packet; the verdict is the first matching rule's
NextList == ListsFor(pkt)[Len(seen) + 1]
Check(l, permitted) ==
    /\ loc = "M" /\ ~denied
    /\ Len(seen) < Len(ListsFor(pkt)) /\ l = NextList
    /\ permitted <=> (Verdict(l, pkt) = "PERMIT")
    /\ seen' = Append(seen, l)
    /\ denied' = ~permitted
    /\ UNCHANGED <<loc, did>> /\ Same

\* M learns the sender's address / hands the frame to its own software: never for a denied frame, and only
\* once the ACL guarding the side the frame came from has been consulted
Learn ==
    /\ loc = "M" /\ ~denied
    /\ ListsFor(pkt) # <<>> => Len(seen) >= 1
    /\ did' = did \cup {"learn"}
    /\ UNCHANGED <<loc, seen, denied>> /\ Same
Local ==
    /\ loc = "M" /\ ~denied
    /\ ListsFor(pkt) # <<>> => Len(seen) >= 1
    /\ did' = did \cup {"local"}
    /\ UNCHANGED <<loc, seen, denied>> /\ Same

\* M forwards towards B: never a denied frame, only after every ACL on the path was consulted,
\* only through an enabled interface with a link
Forward ==
    /\ loc = "M" /\ ~denied
    /\ seen = ListsFor(pkt)
    /\ pkt.dst = "B" /\ up.portB /\ up.linkB
    /\ ~NeverRouted(pkt)
    /\ did' = did \cup {"forward"}
    /\ loc' = "wire2"
    /\ UNCHANGED <<seen, denied>> /\ Same

\* B's interface takes the frame in
BRecv(accepted) ==
    /\ loc = "wire2"
    /\ accepted => (up.nicB /\ up.onB)
    /\ loc' = IF accepted THEN "B" ELSE "dropped"
    /\ UNCHANGED <<seen, denied, did>> /\ Same

-----------------------------------------------------------------------------
\* C06: blocked => nothing from A reaches B
BlockingIsEffective == Blocked => loc # "B"
\* C06: a denied frame is never forwarded, learnt from or handed to M's own software afterwards
DenyIsFinal == [][denied => (did' = did /\ loc' = loc)]_bvars
=============================================================================
