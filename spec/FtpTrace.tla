------------------------------ MODULE FtpTrace ------------------------------
(* Trace validation of recorded executions of FTPClient / FTPServer against Ftp.tla (batch idiom of          *)
(* LinkTrace.tla).  A trace is [cfg |-> [clients, ext, fs, on, op, net, conn, active], ev |-> <<event..>>]. *)
(* An event is                                                                                               *)
(*   [ev |-> "Begin"|"SrvPort"|"SrvStor"|"SrvQuit"|"CliData"|"SrvRetr"|"SendFail"|"Return"|"SvcReq"|"Power"|"Block"| *)
(*           "CreateFile"|"DeleteFile"|"Tick"|"Env"|"Raised",                                                *)
(*    c, node, kind, src, dst, p, size, health, verb, flag, ok, st,          (arguments / results)           *)
(*    fs, conn, on, op, rep, active, net]      (state projected from the real objects after the call)        *)
(*   fs   : node -> sequence of [p, size, health, type]     conn : client names in the server's table        *)
(*   rep  : node -> operating state shown by describe_state  active : node -> FTPServiceABC._active           *)
EXTENDS Ftp, TLC, TLCExt, Json, IOUtils, Sequences

Traces == JsonDeserialize(IOEnv.TRACE_FILE)
VARIABLES tid, l
tvars == <<clients, ext, fs, on, op, net, sConn, active, call, pre, tid, l>>
T == Traces[tid].ev
Cfg == Traces[tid].cfg

SetOf(s) == {s[i] : i \in 1..Len(s)}
ProjFiles(s) == [p \in {s[i].p : i \in 1..Len(s)} |->
                    LET i == CHOOSE i \in 1..Len(s) : s[i].p = p
                    IN [size |-> s[i].size, health |-> s[i].health, type |-> s[i].type]]
ProjFs(x) == [nd \in Nodes |-> ProjFiles(x[nd])]
NoDupFiles(x) == \A nd \in Nodes : Cardinality({x[nd][i].p : i \in 1..Len(x[nd])}) = Len(x[nd])
TypeAt(x, nd, p) == IF \E i \in 1..Len(x[nd]) : x[nd][i].p = p
                    THEN x[nd][CHOOSE i \in 1..Len(x[nd]) : x[nd][i].p = p].type ELSE ""

Handlers == {"SrvPort", "SrvStor", "SrvQuit", "CliData", "SrvRetr"}
EnvEvents == {"SvcReq", "Power", "Block", "CreateFile", "DeleteFile", "Tick", "Env"}
\* the event can be interpreted at all in the current state (everything below is guarded by it)
InCall(e) == e.c \in clients /\ Open /\ call.c = e.c
Safe(e) ==
    CASE e.ev = "SrvStor" -> InCall(e) /\ Has(e.c, call.src)
      [] e.ev = "CliData" -> InCall(e) /\ Has(Server, call.src)
      [] e.ev \in Handlers \cup {"Return", "SendFail"} -> InCall(e)
      [] e.ev = "Begin" -> e.c \in clients /\ Quiet
      [] e.ev \in {"SvcReq", "Power", "CreateFile", "DeleteFile"} -> e.node \in Nodes /\ Quiet
      [] e.ev \in {"Block", "Tick", "Env"} -> Quiet
      [] OTHER -> FALSE

ExpectedFs(e) ==
    CASE e.ev = "SrvStor" -> StorFs(e.c, TypeAt(e.fs, Server, call.dst))
      [] e.ev = "CliData" -> DataFs(e.c, TypeAt(e.fs, e.c, call.dst))
      [] e.ev = "CreateFile" -> [fs EXCEPT ![e.node] = Put(@, e.p, [size |-> e.size, health |-> e.health,
                                                                 type |-> TypeAt(e.fs, e.node, e.p)])]
      [] e.ev = "DeleteFile" -> [fs EXCEPT ![e.node] = Del(@, e.p)]
      [] e.ev = "Env" -> ProjFs(e.fs)
      [] OTHER -> fs
ExpectedConn(e) ==
    CASE e.ev = "SrvPort" -> sConn \cup {e.c}
      [] e.ev = "SrvQuit" -> sConn \ {e.c}
      [] OTHER -> sConn
ExpectedOp(e) ==
    CASE e.ev = "SvcReq" -> [op EXCEPT ![e.node] = IF e.op[e.node] = Target(e.verb, @) THEN e.op[e.node] ELSE @]
      [] e.ev = "Power" -> [op EXCEPT ![e.node] = PowerOp(e.flag, @)]
      [] e.ev = "Env" -> e.op
      [] OTHER -> op
ExpectedOn(e) ==
    CASE e.ev = "Power" -> [on EXCEPT ![e.node] = e.flag]
      [] e.ev = "Env" -> e.on
      [] OTHER -> on
Parts(e) == CASE e.ev \in {"Begin", "Return"} -> {e.c} [] e.ev \in Handlers \cup {"SendFail"} -> {e.c, Server} [] OTHER -> {}

\* named clauses (K1..K9 of Ftp.tla), all predicates of (current spec state, event)
Clauses(e) ==
    LET s == Safe(e)
        h == e.ev \in Handlers
        x == e.ev \in {"SrvStor", "CliData", "SrvRetr"}
        pf == ProjFs(e.fs)
        xf == IF s THEN ExpectedFs(e) ELSE fs
        snd == IF e.ev = "SrvStor" THEN e.c ELSE Server
        rcv == IF e.ev = "SrvStor" THEN Server ELSE e.c
    IN
    [ NoException           |-> e.ev # "Raised",
      CallBracket           |-> s /\ (e.ev = "SendFail" => e.verb \in {"client", "server"}),
      HandlerOrder          |-> (s /\ h) =>
                                  CASE e.ev = "SrvPort" -> call.last \in {"Begin", "SrvPort"}
                                    [] e.ev = "SrvStor" -> call.kind = "send" /\ call.last \in {"Begin", "SrvPort"}
                                    [] e.ev = "SrvQuit" -> call.last \in {"SrvPort", "SrvStor", "SrvRetr"}
                                    [] e.ev = "CliData" -> call.kind = "retr" /\ call.last \in {"Begin", "SrvPort"}
                                    [] e.ev = "SrvRetr" -> /\ call.kind = "retr" /\ call.last \in {"Begin", "SrvPort", "CliData"}
                                                           /\ ((call.last # "CliData" /\ ~call.fault) => ~Has(Server, call.src)),
      ServerServes          |-> h => G_ServerServes,                                                        \* K1
      OnlyRunningClient     |-> (s /\ h) => IF e.ev = "SrvQuit" THEN on[e.c] ELSE G_OnlyRunningClient(e.c),  \* K2
      HandshakeFirst        |-> (s /\ x) => G_HandshakeFirst(e.c),                                           \* K1
      RetrOnlyIfOnServer    |-> e.ev = "CliData" => Has(Server, call.src),                                   \* K4
      SourceUntouched       |-> (s /\ e.ev \in {"SrvStor", "CliData"}) => pf[snd] = fs[snd],                  \* K3
      ExactlyOneCreated     |-> (s /\ e.ev \in {"SrvStor", "CliData"}) => (pf[rcv] = xf[rcv] /\ NoDupFiles(e.fs)), \* K3
      TypeOfSourceKept      |-> (s /\ e.ev \in {"SrvStor", "CliData"} /\ ~Has(rcv, call.dst)) =>
                                  TypeKept(call.src, call.dst, fs[snd][call.src], TypeAt(e.fs, rcv, call.dst)),
      NothingElseChanges    |-> IF s /\ e.ev \in {"SrvStor", "CliData"}
                                THEN \A nd \in Nodes \ {rcv} : pf[nd] = fs[nd]
                                ELSE pf = xf,                                                                \* K3, K5
      ConnTable             |-> s => (SetOf(e.conn) = ExpectedConn(e) /\ Len(e.conn) = Cardinality(SetOf(e.conn))), \* K6
      StatusOkOnlyOnSuccess |-> s =>                                                                         \* K7
                                  /\ (e.ev \in {"SrvPort", "SrvQuit"} => e.st = "OK")
                                  /\ (e.ev = "SrvStor" => (e.st = "OK") = ~Has(Server, call.dst))
                                  /\ (e.ev = "SrvRetr" => ((e.st = "OK") => Has(Server, call.src))),
      RetrOkOnlyIfDelivered |-> (s /\ e.ev = "SrvRetr") => ((e.st = "OK") => call.data),                     \* K7
      RetrDeliveredIsOk     |-> (s /\ e.ev = "SrvRetr") => (call.data => e.st = "OK"),
      ReturnTrueIffTransferred |-> (s /\ e.ev = "Return") =>                                                 \* K5, K7
                                  /\ e.kind = call.kind
                                  /\ e.ok = Delivered
                                  /\ ((e.ok /\ call.kind = "send") => call.quit),
      MustSucceed           |-> (s /\ e.ev = "Return") => ((Promised /\ ~call.fault) => e.ok),                                \* K8
      ServiceStates         |-> s => (e.op = ExpectedOp(e) /\ e.on = ExpectedOn(e)
                                      /\ (e.ev = "SvcReq" => e.op[e.node] \in {op[e.node], Target(e.verb, op[e.node])})),
      ReportedState         |-> \A nd \in Nodes :                                                            \* K9
                                  e.rep[nd] = IF e.op[nd] = "RUNNING" /\ ~e.active[nd] THEN "STOPPED" ELSE e.op[nd],
      ActivityFlag          |-> s =>                                                                         \* K9
                                  /\ (e.ev = "Tick" => \A nd \in Nodes : ~e.active[nd])
                                  /\ (e.ev # "Tick" => G_Active(e.active, Parts(e)))
                                  /\ ((e.ev = "Return" /\ e.ok) => (e.active[e.c] /\ e.active[Server]))
    ]
Failing(e) == LET cl == Clauses(e) IN {c \in DOMAIN cl : ~cl[c]}

Step(e) ==
    CASE e.ev = "Begin"   -> Begin(e.c, e.kind, e.src, e.dst, e.active)
      [] e.ev = "SrvPort" -> SrvPort(e.c, e.st, e.active)
      [] e.ev = "SrvStor" -> SrvStor(e.c, e.st, TypeAt(e.fs, Server, call.dst), e.active)
      [] e.ev = "SrvQuit" -> SrvQuit(e.c, e.st, e.active)
      [] e.ev = "CliData" -> CliData(e.c, TypeAt(e.fs, e.c, call.dst), e.active)
      [] e.ev = "SrvRetr" -> SrvRetr(e.c, e.st, e.active)
      [] e.ev = "SendFail" -> SendFail(e.c, e.verb, e.active)
      [] e.ev = "Return"  -> Return(e.c, e.kind, e.ok, e.active)
      [] e.ev = "SvcReq"  -> SvcReq(e.node, e.verb, e.op[e.node])
      [] e.ev = "Power"   -> Power(e.node, e.flag)
      [] e.ev = "Block"   -> Block(e.flag)
      [] e.ev = "CreateFile" -> CreateFile(e.node, e.p, [size |-> e.size, health |-> e.health, type |-> TypeAt(e.fs, e.node, e.p)])
      [] e.ev = "DeleteFile" -> DeleteFile(e.node, e.p)
      [] e.ev = "Tick"    -> Tick
      [] e.ev = "Env"     -> Env(ProjFs(e.fs), e.on, e.op, e.net)
      [] OTHER -> FALSE

TraceInit ==
    /\ tid \in 1..Len(Traces)
    /\ l = 1
    /\ clients = SetOf(Cfg.clients) /\ ext = Cfg.ext
    /\ fs = [nd \in SetOf(Cfg.clients) \cup {Server} |-> ProjFiles(Cfg.fs[nd])]
    /\ on = Cfg.on /\ op = Cfg.op /\ net = Cfg.net
    /\ sConn = SetOf(Cfg.conn) /\ active = Cfg.active /\ call = Idle
    /\ pre = [nd \in SetOf(Cfg.clients) \cup {Server} |-> ProjFiles(Cfg.fs[nd])]
TraceNext ==
    /\ l <= Len(T)
    /\ Failing(T[l]) = {}
    /\ Step(T[l])
    /\ l' = l + 1
    /\ UNCHANGED tid
TraceSpec == TraceInit /\ [][TraceNext]_tvars

Seen == TLCGet(tid)
Record ==
    IF l > Seen.pos
    THEN TLCSet(tid, [pos |-> l,
                      fail |-> IF l <= Len(T) THEN Failing(T[l]) ELSE {},
                      st |-> [fs |-> [nd \in Nodes |-> fs[nd]], sConn |-> sConn, net |-> net, call |-> call,
                              on |-> [nd \in Nodes |-> on[nd]], op |-> [nd \in Nodes |-> op[nd]],
                              active |-> [nd \in Nodes |-> active[nd]]]])
    ELSE TRUE
InitRegs == \A i \in 1..Len(Traces) : TLCSet(i, [pos |-> 0, fail |-> {}, st |-> <<>>])
ASSUME InitRegs
Report ==
    \A i \in 1..Len(Traces) :
        LET r == TLCGet(i) IN
        /\ PrintT(<<"TRACE", i, r.pos, Len(Traces[i].ev)>>)
        /\ (r.pos = Len(Traces[i].ev) + 1 \/ PrintT(<<"STUCK", i, r.pos, r.fail, r.st>>))
=============================================================================
