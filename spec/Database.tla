------------------------------ MODULE Database ------------------------------
(***************************************************************************)
(* The database service, its clients and its backup.  Property C17.        *)
(*                                                                         *)
(* One database service (on the "server" node) keeps one data file and     *)
(* issues connection ids to client applications on other hosts; a backup   *)
(* host keeps at most one backup copy of the file.  Connection ids are     *)
(* canonical: the i-th id ever issued is i, 0 is an id that was never      *)
(* issued (forged).  `owner' remembers who every issued id was given to;   *)
(* `conns' are the ids issued and not closed by the service.               *)
(*                                                                         *)
(* Every action takes the *post-state projection* P                        *)
(*   [op, health, conns, own, held, file, backup]                          *)
(* and the outcome flags as parameters: the exhaustive model passes the    *)
(* design's values, the trace specification passes what was read from the  *)
(* real objects after the call returned.  The guard of an action is the    *)
(* conjunction of the named clauses below; they never say more than the    *)
(* statement of C17 (the direction is "only"/"only if": a refusal is       *)
(* always allowed) plus the frame conditions that give the variables their *)
(* meaning (connections appear only by Connect, the data file changes only *)
(* by a query, a restore or a file-system operation, the backup only by a  *)
(* backup).                                                                *)
(*                                                                         *)
(* pw, Cap are configuration variables (never change).                     *)
(***************************************************************************)
EXTENDS Naturals, Sequences, FiniteSets

VARIABLES
    pw,        \* password configured on the service ("none" = no password)
    Cap,       \* max_sessions of the service
    svcOp,     \* "RUNNING" | "STOPPED" | "PAUSED" | "RESTARTING" | ...
    svcHealth, \* "GOOD" | "FIXING" | "COMPROMISED" | "OVERWHELMED" | ... (observed, never constrained)
    srvOn,     \* the node of the service is powered on
    bkOn,      \* the backup host is powered on
    reach,     \* [client -> BOOLEAN]: requests of the client can reach the server (no ACL block)
    bkPath,    \* BOOLEAN: the path server <-> backup host is open (no ACL block in either direction)
    owner,     \* sequence: owner[i] = client the i-th issued id was given to
    conns,     \* ids issued and not closed by the service
    held,      \* [client -> set of ids]: handles the client application keeps
    inst,      \* clients whose database client application is installed
    file,      \* health of the stored file: "GOOD" | "COMPROMISED" | "CORRUPT" | "absent" | ...
    backup     \* health of the copy on the backup host, "none" if there is none

dvars == <<pw, Cap, svcOp, svcHealth, srvOn, bkOn, reach, bkPath, owner, conns, held, inst, file, backup>>

Clients == DOMAIN reach
Queries == {"SELECT", "INSERT", "DELETE", "ENCRYPT", "OTHER"}
Fresh == Len(owner) + 1

\* the projection of the current state, in the shape of a post-state
Cur == [op |-> svcOp, health |-> svcHealth, conns |-> conns, own |-> [i \in conns |-> owner[i]],
        held |-> held, file |-> file, backup |-> backup]

DbInit(p, cap, cl, P, son, bon, rch, bp) ==
    /\ pw = p /\ Cap = cap
    /\ svcOp = P.op /\ svcHealth = P.health
    /\ srvOn = son /\ bkOn = bon /\ reach = rch /\ bkPath = bp
    /\ owner = <<>> /\ conns = {} /\ held = P.held /\ inst = cl
    /\ file = P.file /\ backup = P.backup

\* the service is running on a powered-on node and the client's requests reach it
Up(c) == svcOp = "RUNNING" /\ srvOn /\ reach[c]
\* the service can fetch its backup
CanRestore == svcOp = "RUNNING" /\ srvOn /\ bkOn /\ bkPath /\ backup # "none"

Apply(P) ==
    /\ svcOp' = P.op /\ svcHealth' = P.health
    /\ conns' = P.conns
    /\ owner' = IF Fresh \in P.conns THEN Append(owner, P.own[Fresh]) ELSE owner
    /\ held' = P.held
    /\ file' = P.file /\ backup' = P.backup

-----------------------------------------------------------------------------
(* Frame clauses (all events) *)

\* only ids that were issued, plus at most the next fresh one, are ever open
IdsKnown(P) == P.conns \subseteq (1..Fresh)
\* a connection appears only in a connect
ConnsOnlyByConnect(ev, P) == ev # "Connect" => P.conns \subseteq conns
\* the stored data changes only through a query, a restore or an operation on the file system
FileOnlyByDataEvents(ev, P) == ev \notin {"Query", "Restore", "FsOp"} => P.file = file
\* the backup copy changes only through a backup
BackupOnlyByBackup(ev, P) == ev # "Backup" => P.backup = backup
\* "not at capacity" as a state property
WithinCapacity(P) == Cardinality(P.conns) <= Cap

Frame(ev, P) ==
    /\ IdsKnown(P) /\ ConnsOnlyByConnect(ev, P) /\ FileOnlyByDataEvents(ev, P)
    /\ BackupOnlyByBackup(ev, P) /\ WithinCapacity(P)

-----------------------------------------------------------------------------
(* Connect: client c asks for a new connection presenting password pwd.    *)
(* ok = the client obtained a handle; status = what the service answered   *)
(* (0 if the request was not processed).                                   *)

ConnectAllowed(c, pwd) == pwd = pw /\ Up(c) /\ Cardinality(conns) < Cap

OpenOnlyIfAllowed(c, pwd, P)  == Fresh \in P.conns => ConnectAllowed(c, pwd)
NewOwnedByCaller(c, P)        == Fresh \in P.conns => P.own[Fresh] = c
HandleOnlyIfOpened(c, ok, P)  == ok => (Fresh \in P.conns /\ Fresh \in P.held[c])
StatusOkOnlyIfOpened(st, P)   == st = 200 => Fresh \in P.conns

ConnectOK(c, pwd, ok, st, P) ==
    /\ c \in inst
    /\ OpenOnlyIfAllowed(c, pwd, P) /\ NewOwnedByCaller(c, P)
    /\ HandleOnlyIfOpened(c, ok, P) /\ StatusOkOnlyIfOpened(st, P)
    /\ Frame("Connect", P)

Connect(c, pwd, ok, st, P) ==
    /\ ConnectOK(c, pwd, ok, st, P)
    /\ Apply(P)
    /\ UNCHANGED <<pw, Cap, srvOn, bkOn, reach, bkPath, inst>>

-----------------------------------------------------------------------------
(* Query: client c sends query q quoting connection id `id'.               *)
(* ran = the service executed the query; ok = the client was told success. *)

Effect(q) == IF q = "DELETE" THEN "COMPROMISED" ELSE "CORRUPT"

QueryOnlyOnOpenConn(id, ran)   == ran => id \in conns
NoQueryWhileDown(c, ran)       == ran => Up(c)
SuccessOnlyIfRun(ran, ok)      == ok => ran
NotRunNoEffect(ran, P)         == ~ran => P.file = file
DestructiveChangesHealth(q, ok, P) ==
    (ok /\ q \in {"DELETE", "ENCRYPT"} /\ file # "absent") => P.file = Effect(q)
OnlyDestructiveChange(q, P)    == P.file # file => (q \in {"DELETE", "ENCRYPT"} /\ P.file = Effect(q))
CompromisedReadFails(q, ok)    == (q = "SELECT" /\ file = "COMPROMISED") => ~ok

QueryOK(c, id, q, ran, ok, P) ==
    /\ c \in inst
    /\ QueryOnlyOnOpenConn(id, ran) /\ NoQueryWhileDown(c, ran) /\ SuccessOnlyIfRun(ran, ok)
    /\ NotRunNoEffect(ran, P) /\ DestructiveChangesHealth(q, ok, P) /\ OnlyDestructiveChange(q, P)
    /\ CompromisedReadFails(q, ok)
    /\ Frame("Query", P)

Query(c, id, q, ran, ok, P) ==
    /\ QueryOK(c, id, q, ran, ok, P)
    /\ Apply(P)
    /\ UNCHANGED <<pw, Cap, srvOn, bkOn, reach, bkPath, inst>>

-----------------------------------------------------------------------------
(* Disconnect: client c gives up its handle `id'.  Whether the service     *)
(* hears of it is left open (it cannot when the path is blocked).          *)

HandleDropped(c, id, ok, P) == ok => id \notin P.held[c]

DisconnectOK(c, id, ok, P) == c \in inst /\ HandleDropped(c, id, ok, P) /\ Frame("Disconnect", P)

Disconnect(c, id, ok, P) ==
    /\ DisconnectOK(c, id, ok, P)
    /\ Apply(P)
    /\ UNCHANGED <<pw, Cap, srvOn, bkOn, reach, bkPath, inst>>

(* The client application is removed from its host. *)
UninstallOK(c, ok, P) == c \in inst /\ (ok => P.held[c] = {}) /\ Frame("ClientUninstall", P)

ClientUninstall(c, ok, P) ==
    /\ UninstallOK(c, ok, P)
    /\ Apply(P)
    /\ inst' = IF ok THEN inst \ {c} ELSE inst
    /\ UNCHANGED <<pw, Cap, srvOn, bkOn, reach, bkPath>>

-----------------------------------------------------------------------------
(* Service life cycle requests (stop/start/pause/resume/restart/fix), one  *)
(* tick, file-system operations on the data file: C17 says nothing about   *)
(* their outcome; they are environment steps whose effect on the service   *)
(* state is taken as observed, under the frame clauses.                    *)

SvcReq(kind, ok, P) ==
    /\ Frame("SvcReq", P)
    /\ Apply(P)
    /\ UNCHANGED <<pw, Cap, srvOn, bkOn, reach, bkPath, inst>>

Tick(P) ==
    /\ Frame("Tick", P)
    /\ Apply(P)
    /\ UNCHANGED <<pw, Cap, srvOn, bkOn, reach, bkPath, inst>>

FsOp(kind, ok, P) ==
    /\ Frame("FsOp", P)
    /\ Apply(P)
    /\ UNCHANGED <<pw, Cap, srvOn, bkOn, reach, bkPath, inst>>

-----------------------------------------------------------------------------
(* Backup: the service copies its file to the backup host.  What the copy  *)
(* holds is the health of the data at that moment ("taken while ...").     *)

BackupReflectsData(P) == P.backup # backup => (file # "absent" /\ P.backup = file)

\* a backup that reports failure has stored nothing: the copy taken earlier is what a later restore brings back
RefusedBackupKeepsCopy(ok, P) == ~ok => P.backup = backup

BackupOK(ok, P) == BackupReflectsData(P) /\ RefusedBackupKeepsCopy(ok, P) /\ Frame("Backup", P)

Backup(ok, P) ==
    /\ BackupOK(ok, P)
    /\ Apply(P)
    /\ UNCHANGED <<pw, Cap, srvOn, bkOn, reach, bkPath, inst>>

(* Restore: the service fetches the copy and replaces its file with it.    *)

NoRestoreWhileDown(ok, P) ==
    ~(svcOp = "RUNNING" /\ srvOn /\ bkPath) => (~ok /\ P.file = file)
GoodBackupRestoresGood(ok, P) ==
    ((CanRestore \/ ok) /\ backup = "GOOD") => P.file = "GOOD"

RestoreOK(ok, P) == NoRestoreWhileDown(ok, P) /\ GoodBackupRestoresGood(ok, P) /\ Frame("Restore", P)

Restore(ok, P) ==
    /\ RestoreOK(ok, P)
    /\ Apply(P)
    /\ UNCHANGED <<pw, Cap, srvOn, bkOn, reach, bkPath, inst>>

-----------------------------------------------------------------------------
(* Environment: node power, ACL blocks.                                    *)

Power(node, on, ok, P) ==
    /\ Frame("Power", P)
    /\ Apply(P)
    /\ IF node = "srv"
       THEN srvOn' = (IF ok THEN on ELSE srvOn) /\ bkOn' = bkOn
       ELSE bkOn' = (IF ok THEN on ELSE bkOn) /\ srvOn' = srvOn
    /\ UNCHANGED <<pw, Cap, reach, bkPath, inst>>

Block(c, blocked, P) ==
    /\ Frame("Block", P)
    /\ Apply(P)
    /\ reach' = [reach EXCEPT ![c] = ~blocked]
    /\ UNCHANGED <<pw, Cap, srvOn, bkOn, bkPath, inst>>

BlockBk(blocked, P) ==
    /\ Frame("BlockBk", P)
    /\ Apply(P)
    /\ bkPath' = ~blocked
    /\ UNCHANGED <<pw, Cap, srvOn, bkOn, reach, inst>>

-----------------------------------------------------------------------------
(* State invariants *)
InvWithinCapacity == Cardinality(conns) <= Cap
InvConnsIssued    == conns \subseteq 1..Len(owner)
=============================================================================
