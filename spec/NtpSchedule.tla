---------------------------- MODULE NtpSchedule ----------------------------
(***************************************************************************)
(* Extension "ntp_schedule": two small components, each in its own module, *)
(* put side by side (disjoint variables; `comp' says which one a behaviour *)
(* / a recorded trace is about, the other one stays at its idle state).    *)
(*                                                                         *)
(*  A  Ntp.tla       NTP client / server                                   *)
(*     N1 RequestsEachTickWhileRunning  (NTPClient.apply_timestep docstr.) *)
(*     N2 RequestToConfiguredServer     (request_time docstr., ntp_client. *)
(*                                       rst `ntp_server_ip')              *)
(*     N3 ServerAnswersEachRequestOnce / ServerAnswersOnlyRequests         *)
(*                                      (NTPServer.receive docstring,      *)
(*                                       ntp_server.rst)                   *)
(*     N4 OnlyRunningSoftwareHandles    (SoftwareManager.receive_payload_  *)
(*                                       from_session_manager, Node.apply_ *)
(*                                       timestep, router ACL)             *)
(*     N5 TimeNoneUntilFirstReply / TimeIsLatestReply (NTPClient.time,     *)
(*                                       NTPClient.receive docstring)      *)
(*     N6 NoLossWithoutCause            (synchronous delivery relied on)   *)
(*     N7 NoException                   (PrimaiteGame.step must not raise) *)
(*  B  Schedule.tla  episode scheduling                                    *)
(*     S1 EntryIsKModN  S2 ExactlyListedVariations  S3 WarnsWhenWrapping   *)
(*     S4 HandOverFresh (deep-copy ownership)  S5 ConstantIsConstant       *)
(*     S6 EnvUsesEpisodeCounter  S7 SpacesAgree                            *)
(*     (episode_schedule.py docstrings, docs/source/varying_config_files.  *)
(*      rst, notebook Using-Episode-Schedules, environment.py reset)       *)
(* The sources of every clause are spelt out in the headers of Ntp.tla and *)
(* Schedule.tla.  Actions (one per handler / tick phase / message kind):   *)
(*  A: Configure SetNode SetSvc SetBlock Tick Request ServerReceive Reply  *)
(*     ClientReceive PeerReceive TickEnd                                   *)
(*  B: Call Mutate EnvInit Reset Step                                      *)
(***************************************************************************)
EXTENDS Ntp, Schedule

VARIABLE comp       \* "ntp" | "sched" (never changes)
vars == <<comp, nvars, svars>>

NtpOff == NtpInit(<<>>, <<>>, <<>>, <<>>, <<>>, FALSE)
SchedOff == SchedInit("const", 1, <<"">>, <<"">>)

\* an action of one component leaves the other one alone
A(act) == comp = "ntp" /\ act /\ UNCHANGED <<comp, svars>>
B(act) == comp = "sched" /\ act /\ UNCHANGED <<comp, nvars>>
=============================================================================
