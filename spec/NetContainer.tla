---------------------------- MODULE NetContainer ----------------------------
(***************************************************************************)
(* The network container and the wiring of nodes (extension module, beyond *)
(* the listed properties): primaite/simulator/network/container.py         *)
(* (Network.add_node / remove_node / connect / remove_link /               *)
(* get_node_by_hostname / describe_state, the node request manager, the    *)
(* networkx graph, the typed node lists) and                               *)
(* primaite/simulator/network/hardware/base.py (Node.connect_nic /         *)
(* disconnect_nic, WiredNetworkInterface.enable / disable / connect_link / *)
(* disconnect_link, Link.__init__ / is_up).                                *)
(*                                                                         *)
(* Shape: one action per method / request of the real code                 *)
(*   AddNode(n)         Network.add_node                                   *)
(*   RemoveNode(n)      Network.remove_node                                *)
(*   Connect(i, j)      Network.connect (creates the Link, whose __init__  *)
(*                      calls connect_link -> enable on both interfaces)   *)
(*   RemoveLink(l)      Network.remove_link                                *)
(*   DisconnectLink(i)  WiredNetworkInterface.disconnect_link (also        *)
(*                      Switch.disconnect_link_from_port)                  *)
(*   Enable(i, via)     WiredNetworkInterface.enable, via = "api", or the  *)
(*   Disable(i, via)    request network/node/<h>/network_interface/<p>/    *)
(*                      enable|disable, via = "request"                    *)
(*   ConnectNic(i, p)   Node.connect_nic (p = the port number it got)      *)
(*   DisconnectNic(i)   Node.disconnect_nic                                *)
(*   LinkSelf(i)        Link(endpoint_a = i, endpoint_b = i)               *)
(*   Lookup(h)          Network.get_node_by_hostname                       *)
(*   Request(h)         a request routed by the node request manager       *)
(*   Observe            Network.describe_state and the typed node lists    *)
(*   Tick               Network.pre_timestep / apply_timestep              *)
(* and the environment (not under test here - spec/NodePower.tla and C12   *)
(* decide the power state machine; only its outcome ON / not ON is used):  *)
(*   Power(n, up)       node n enters / leaves the operating state ON      *)
(* Every action is `Apply(<X>Post(args))': the post-state the contract     *)
(* demands is an operator of the current state, so that the exhaustive     *)
(* model and the trace specification (which compares it, clause by clause, *)
(* with the state read from the real objects) use the same definition.     *)
(*                                                                         *)
(* Contract clauses (name : source)                                        *)
(*  NodesExact / AddTwiceChangesNothing : add_node docstring               *)
(*     (container.py:270-276) "Add an existing node to the network ... If  *)
(*     the node is already present in the network, a warning is logged";   *)
(*     remove_node docstring (container.py:303-310) "Remove a node from    *)
(*     the network ... If the node is not found in the network, a warning  *)
(*     is logged"; class docstring "nodes: Dictionary mapping node UUIDs   *)
(*     to Node instances".  A node is in Network.nodes iff it was added    *)
(*     (directly or by connect, below) and not removed.                    *)
(*  ParentFollowsNodes : add_node sets node.parent to the network, remove_  *)
(*     node clears it (SimComponent.parent "Reference to the parent object *)
(*     which manages this object"; test_adding_removing_nodes asserts      *)
(*     both): a node's parent is the network iff the node is in it.        *)
(*  RoutesFollowNodes / RequestReachesExactlyPresent : _init_request_      *)
(*     manager (container.py:72-85) routes "node" to a manager keyed by    *)
(*     hostname; add_node registers, remove_node unregisters the route;    *)
(*     every agent action on a node (game / actions) relies on it.         *)
(*  GraphVerticesFollowNodes / GraphEdgesFollowLinks : __init__ docstring  *)
(*     (container.py:43-48) "an empty MultiGraph for topology              *)
(*     representation", draw docstring "Draw the Network using NetworkX":  *)
(*     the graph has one vertex per node of the network and one edge per   *)
(*     link; add_node / connect add them, so removal must take them away   *)
(*     again or draw() shows nodes and cables that are not there.          *)
(*  LookupFindsExactlyPresent : get_node_by_hostname docstring             *)
(*     (container.py:290-297) ":return: The Node if it exists in the       *)
(*     network" (hostnames are unique - an assumption of the docstring).   *)
(*  ConnectSaysSo / LinksExact : connect docstring (container.py:326-339)  *)
(*     "Connect two endpoints on the network by creating a link between    *)
(*     their NICs/SwitchPorts ... If the nodes owning the endpoints are    *)
(*     not already in the network, they are automatically added ...        *)
(*     :raises RuntimeError: If any validation or runtime checks fail";    *)
(*     the code refuses two interfaces of one node with a warning and      *)
(*     returns None (test_connecting_node_to_itself_fails);                *)
(*     connect_link docstring (base.py:454-461) "establishes a connection  *)
(*     ... if the network interface is not already connected. If the       *)
(*     network interface is already connected to a link, it logs an error  *)
(*     and does not change the existing connection".  So a link is created *)
(*     iff the interfaces belong to two different nodes and neither has a  *)
(*     link; otherwise nothing but the documented auto-add happens and the *)
(*     call returns None or raises.  Both nodes being in the network is    *)
(*     NOT a precondition (they are added).                                *)
(*  NoDanglingLinkRef : Link docstring (base.py:658-665) "Represents a     *)
(*     network link between NIC<-->NIC, NIC<-->SwitchPort, or              *)
(*     SwitchPort<-->SwitchPort"; remove_link docstring "Disconnect a link *)
(*     from the network"; disconnect_link docstring (base.py:475-480)      *)
(*     "Disconnect the network interface from its connected Link, if any.  *)
(*     This method removes the association between the network interface   *)
(*     and its connected Link. It updates the connected Link's endpoints   *)
(*     to reflect the disconnection": a link of Network.links names an     *)
(*     interface iff that interface references the link.                   *)
(*  LinkEndsInNetwork (exhaustive model) / LinksExact at RemoveNode : the  *)
(*     connect note above establishes that the nodes at both ends of a     *)
(*     link of the network are nodes of the network; describe_state        *)
(*     docstring "A dictionary capturing the current state of the Network  *)
(*     and its child objects" keys a link by the hostnames of its ends     *)
(*     (container.py:253-262).  A removed node therefore takes its links   *)
(*     with it - else describe_state lists a link to a node it does not    *)
(*     list, and a node "removed from the network" still exchanges frames  *)
(*     with it while Network.apply_timestep no longer steps it.            *)
(*  EnabledOnlyIfOnAndLinked / EnabledAsDesigned : WiredNetworkInterface.  *)
(*     enable (base.py:412-438) refuses "as it is not connected to a       *)
(*     Node", "as the connected Node is not powered on", "as there is no   *)
(*     Link connected"; send_frame docstring (base.py:488-496) "False if   *)
(*     the Network Interface is disabled or not connected to a link";      *)
(*     base_hardware.rst:102-103 "power_on(): Initiates the node, enabling *)
(*     all connected Network Interfaces"; power_off docstring "Power off   *)
(*     the Node, disabling its NICs".  An interface is enabled only while  *)
(*     it belongs to a node that is ON and has a link - after every        *)
(*     enable / disable / connect / disconnect / remove / power event.     *)
(*  LinkUpIffBothEnabled : Link.is_up docstring (base.py:731-737) "Informs *)
(*     whether the link is up. This is based upon both NIC endpoints being *)
(*     enabled" (a link that lost an endpoint is not up; is_up answers).   *)
(*  DescribeListsExactly : describe_state (container.py:240-264) lists the *)
(*     nodes by hostname and the links by "<ha>:eth-<pa><-><hb>:eth-<pb>". *)
(*  TypedListsExact : the properties router_nodes, switch_nodes,           *)
(*     computer_nodes, server_nodes, firewall_nodes, printer_nodes,        *)
(*     wireless_router_nodes (container.py:110-158) "The Routers in the    *)
(*     Network" ... by exact type (tests/.../test_node_config.py counts a  *)
(*     firewall apart from the routers).                                   *)
(*  ExtendedListsByBase : extended_hostnodes "Extended nodes that          *)
(*     inherited HostNode in the network", extended_networknodes "...      *)
(*     inherited NetworkNode ...": the former holds no network node, the   *)
(*     latter no host node.                                                *)
(*  ReportsOutcome : enable "Attempt to enable the network interface"      *)
(*     -> bool, used by the request as RequestResponse.from_bool           *)
(*     (base.py:134-147): True iff the interface is enabled afterwards;    *)
(*     the request is only admitted on a disabled (enable) / enabled       *)
(*     (disable) interface of a node that is ON (_DisabledValidator,       *)
(*     _EnabledValidator, Node._NodeIsOnValidator);  connect_nic ":raise   *)
(*     NetworkError: If the NIC is already connected"; disconnect_nic      *)
(*     ":raise NetworkError: If the NIC is not connected"; Link.__init__   *)
(*     ":raises ValueError: If endpoint_a and endpoint_b are the same      *)
(*     NIC"; disconnect_link "... if any" does not raise.                  *)
(*  NicTableExact / FreshPort : connect_nic "Connect a Network Interface   *)
(*     to the node", disconnect_nic "Disconnect a NIC ... from the node",  *)
(*     base_hardware.rst:98-99: the node's interfaces by port number are   *)
(*     the connected ones, a newly connected one never displaces another,  *)
(*     each has its request route (base.py:2200), a disconnected one is    *)
(*     disabled and - not being connected to a node - cannot be enabled.   *)
(*                                                                         *)
(* Configuration lives in variables that never change: kind[n] the type    *)
(* of node n (its discriminator), home[i] the node interface i was made    *)
(* for (wired interfaces only).  A link is [a, b] with the interface       *)
(* identifiers of its two ends ("" once that end was disconnected).        *)
(***************************************************************************)
EXTENDS Naturals, FiniteSets, Sequences, Bags, TLC

VARIABLES kind, home,
          on,       \* nodes whose operating state is ON (environment)
          present,  \* Network.nodes
          routes,   \* names registered in the node request manager
          gV, gE,   \* vertices and (bag of) edges {h1, h2} of the networkx graph
          links,    \* Network.links: link number -> [a, b]
          nextL,    \* number the next created link gets (links are numbered in order of creation)
          ilink,    \* interface -> number of the link it references (0: none)
          en,       \* interface -> enabled
          att,      \* interface -> it is one of its node's network_interfaces
          port,     \* interface -> the port number its node lists it under (0: none)
          rt        \* interface -> its node routes network_interface/<port> to it

cvars == <<kind, home>>
nvars == <<on, present, routes, gV, gE, links, nextL, ilink, en, att, port, rt>>
vars == <<cvars, nvars>>

Nodes == DOMAIN kind
Ifaces == DOMAIN home
NoIf == ""
HostKinds == {"computer", "server", "printer", "host-node"}
NetKinds == {"router", "switch", "firewall", "wireless-router", "network-node"}
TypedKinds == {"router", "switch", "computer", "server", "firewall", "printer", "wireless-router"}

Cur == [on |-> on, present |-> present, routes |-> routes, gV |-> gV, gE |-> gE, links |-> links, nextL |-> nextL,
        ilink |-> ilink, en |-> en, att |-> att, port |-> port, rt |-> rt]
Apply(d) ==
    /\ on' = d.on /\ present' = d.present /\ routes' = d.routes /\ gV' = d.gV /\ gE' = d.gE /\ links' = d.links
    /\ nextL' = d.nextL /\ ilink' = d.ilink /\ en' = d.en /\ att' = d.att /\ port' = d.port /\ rt' = d.rt
    /\ UNCHANGED cvars

NetInit(k, h, s) ==
    /\ kind = k /\ home = h
    /\ on = s.on /\ present = s.present /\ routes = s.routes /\ gV = s.gV /\ gE = s.gE /\ links = s.links
    /\ nextL = s.nextL /\ ilink = s.ilink /\ en = s.en /\ att = s.att /\ port = s.port /\ rt = s.rt

\* ------------------------------------------------------------------ links
Ends(lk) == {links[lk].a, links[lk].b} \ {NoIf}
Full(lk) == links[lk].a # NoIf /\ links[lk].b # NoIf
Edge(lk) == {home[links[lk].a], home[links[lk].b]}
LinksOf(n) == {lk \in DOMAIN links : \E e \in Ends(lk) : home[e] = n}
EdgeBag(L) ==
    LET F == {lk \in L : Full(lk)} IN
    [p \in {Edge(lk) : lk \in F} |-> Cardinality({lk \in F : Edge(lk) = p})]
LinkUp(lk) == Full(lk) /\ en[links[lk].a] /\ en[links[lk].b]
\* links L leave the network: the interfaces that reference them are freed (and, having no link, disabled)
WithoutLinks(d, L) ==
    LET freed == {e \in Ifaces : ilink[e] \in L} IN
    [d EXCEPT !.links = [lk \in DOMAIN links \ L |-> links[lk]],
              !.ilink = [e \in Ifaces |-> IF e \in freed THEN 0 ELSE ilink[e]],
              !.en = [e \in Ifaces |-> IF e \in freed THEN FALSE ELSE en[e]],
              !.gE = gE (-) EdgeBag(L)]

\* ------------------------------------------------------------------ nodes
WithNodes(d, ns) == [d EXCEPT !.present = present \cup ns, !.routes = routes \cup ns, !.gV = gV \cup ns]

AddNodePost(n) == IF n \in present THEN Cur ELSE WithNodes(Cur, {n})
AddNode(n) == n \in Nodes /\ Apply(AddNodePost(n))

RemoveNodePost(n) ==
    IF n \notin present THEN Cur
    ELSE WithoutLinks([Cur EXCEPT !.present = present \ {n}, !.routes = routes \ {n}, !.gV = gV \ {n}], LinksOf(n))
RemoveNode(n) == n \in Nodes /\ Apply(RemoveNodePost(n))

\* ------------------------------------------------------------------ wiring
CanLink(i, j) == home[i] # home[j] /\ ilink[i] = 0 /\ ilink[j] = 0
ConnectResult(i, j) == IF CanLink(i, j) THEN "link" ELSE "none"
\* the Link's __init__ connects both interfaces, which attempt to enable themselves: that needs the node ON
ConnectPost(i, j) ==
    LET d0 == WithNodes(Cur, {home[i], home[j]}) IN
    IF ~CanLink(i, j) THEN d0
    ELSE [d0 EXCEPT !.links = (nextL :> [a |-> i, b |-> j]) @@ links,
                    !.nextL = nextL + 1,
                    !.ilink = [e \in Ifaces |-> IF e \in {i, j} THEN nextL ELSE ilink[e]],
                    !.en = [e \in Ifaces |-> IF e \in {i, j} THEN en[e] \/ home[e] \in on ELSE en[e]],
                    !.gE = gE (+) SetToBag({{home[i], home[j]}})]
Connect(i, j) == i \in Ifaces /\ j \in Ifaces /\ att[i] /\ att[j] /\ Apply(ConnectPost(i, j))

RemoveLinkPost(lk) == WithoutLinks(Cur, {lk})
RemoveLink(lk) == lk \in DOMAIN links /\ Apply(RemoveLinkPost(lk))

DisconnectLinkPost(i) ==
    IF ilink[i] = 0 THEN Cur
    ELSE LET lk == ilink[i]
             d0 == [Cur EXCEPT !.ilink = [ilink EXCEPT ![i] = 0], !.en = [en EXCEPT ![i] = FALSE]] IN
         IF lk \in DOMAIN links /\ i \in Ends(lk)
         THEN [d0 EXCEPT !.links = [links EXCEPT ![lk] = [a |-> IF @.a = i THEN NoIf ELSE @.a,
                                                         b |-> IF @.b = i THEN NoIf ELSE @.b]],
                         !.gE = IF Full(lk) THEN gE (-) SetToBag({Edge(lk)}) ELSE gE]
         ELSE d0
DisconnectLink(i) == i \in Ifaces /\ Apply(DisconnectLinkPost(i))

LinkSelf(i) == i \in Ifaces /\ UNCHANGED vars

\* ------------------------------------------------------------------ enable / disable
CanEnable(i) == att[i] /\ home[i] \in on /\ ilink[i] # 0
\* the request reaches the interface iff its node has a route, is ON, routes the port, and the interface is in the
\* state the request's validator demands
RequestPasses(i, wantEnabled) == home[i] \in routes /\ home[i] \in on /\ rt[i] /\ en[i] = wantEnabled
Admitted(i, via, wantEnabled) == via = "api" \/ RequestPasses(i, wantEnabled)
EnablePost(i, via) == [Cur EXCEPT !.en = [en EXCEPT ![i] = @ \/ (Admitted(i, via, FALSE) /\ CanEnable(i))]]
EnableOk(i, via) == IF via = "api" THEN en[i] \/ CanEnable(i) ELSE RequestPasses(i, FALSE) /\ CanEnable(i)
Enable(i, via) == i \in Ifaces /\ Apply(EnablePost(i, via))
DisablePost(i, via) == [Cur EXCEPT !.en = [en EXCEPT ![i] = @ /\ ~Admitted(i, via, TRUE)]]
DisableOk(i, via) == IF via = "api" THEN TRUE ELSE RequestPasses(i, TRUE)
Disable(i, via) == i \in Ifaces /\ Apply(DisablePost(i, via))

\* ------------------------------------------------------------------ interfaces of a node
PortsOf(n, but) == {port[k] : k \in {x \in Ifaces \ {but} : home[x] = n /\ att[x]}}
FreshPortOk(i, p) == p > 0 /\ p \notin PortsOf(home[i], i)
ConnectNicPost(i, p) ==
    IF att[i] THEN Cur
    ELSE [Cur EXCEPT !.att = [att EXCEPT ![i] = TRUE], !.port = [port EXCEPT ![i] = p], !.rt = [rt EXCEPT ![i] = TRUE],
                     !.en = [en EXCEPT ![i] = @ \/ (home[i] \in on /\ ilink[i] # 0)]]
ConnectNic(i, p) == i \in Ifaces /\ Apply(ConnectNicPost(i, p))
DisconnectNicPost(i) ==
    IF ~att[i] THEN Cur
    ELSE [Cur EXCEPT !.att = [att EXCEPT ![i] = FALSE], !.port = [port EXCEPT ![i] = 0], !.rt = [rt EXCEPT ![i] = FALSE],
                     !.en = [en EXCEPT ![i] = FALSE]]
DisconnectNic(i) == i \in Ifaces /\ Apply(DisconnectNicPost(i))

\* ------------------------------------------------------------------ environment: power
PowerPost(n, up) ==
    [Cur EXCEPT !.on = IF up THEN on \cup {n} ELSE on \ {n},
                !.en = [e \in Ifaces |-> IF home[e] = n /\ att[e] THEN (IF up THEN en[e] \/ ilink[e] # 0 ELSE FALSE)
                                         ELSE en[e]]]
Power(n, up) == n \in Nodes /\ Apply(PowerPost(n, up))

\* ------------------------------------------------------------------ observations (change nothing)
Lookup(h) == UNCHANGED vars
LookupFinds(h) == h \in present
Request(h) == UNCHANGED vars
RequestReaches(h) == h \in routes
Observe == UNCHANGED vars
Tick == UNCHANGED vars
Typed(k) == {n \in present : kind[n] = k}
DescribeNodes == present
DescribeLinks == {[ha |-> home[links[lk].a], ia |-> links[lk].a, hb |-> home[links[lk].b], ib |-> links[lk].b] :
                      lk \in {x \in DOMAIN links : Full(x)}}

\* ------------------------------------------------------------------ the clauses as invariants of the design
InvNodeRegistered == routes = present /\ gV = present
InvNoDanglingLinkRef ==
    /\ \A lk \in DOMAIN links : \A e \in Ends(lk) : ilink[e] = lk
    /\ \A i \in Ifaces : ilink[i] # 0 => (ilink[i] \in DOMAIN links /\ i \in Ends(ilink[i]))
    /\ \A lk \in DOMAIN links : lk < nextL
InvLinkJoinsTwoNodes == \A lk \in DOMAIN links : Full(lk) => home[links[lk].a] # home[links[lk].b]
InvLinkEndsInNetwork == \A lk \in DOMAIN links : \A e \in Ends(lk) : home[e] \in present
InvGraphEdgesFollowLinks == gE = EdgeBag(DOMAIN links)
InvEnabledOnlyIfOnAndLinked == \A i \in Ifaces : en[i] => (att[i] /\ home[i] \in on /\ ilink[i] # 0)
InvLinkUpIffBothEnabled == \A lk \in DOMAIN links : LinkUp(lk) => (Full(lk) /\ Edge(lk) \subseteq on /\ Edge(lk) \subseteq present)
InvDescribeListsExactly ==
    /\ DescribeNodes = {n \in Nodes : LookupFinds(n)}
    /\ \A r \in DescribeLinks : {r.ha, r.hb} \subseteq DescribeNodes /\ ilink[r.ia] = ilink[r.ib]
InvTypedListsExact ==
    /\ UNION {Typed(k) : k \in TypedKinds} = {n \in present : kind[n] \in TypedKinds}
    /\ \A k1, k2 \in TypedKinds : k1 # k2 => Typed(k1) \cap Typed(k2) = {}
InvNicTable ==
    /\ \A i \in Ifaces : (att[i] <=> port[i] # 0) /\ (att[i] <=> rt[i])
    /\ \A i, j \in Ifaces : (i # j /\ home[i] = home[j] /\ att[i] /\ att[j]) => port[i] # port[j]
=============================================================================
