--------------------------- MODULE Apa_NodePower ---------------------------
(***************************************************************************)
(* Unbounded argument for the DESIGN of NodePower.tla (property C12),      *)
(* checked with Apalache: an inductive invariant over ALL start-up and     *)
(* shut-down durations (MC_NodePower sweeps 0..3).  Two interfaces, two    *)
(* pieces of software.  Extra evidence only (DESIGN.md section 8).         *)
(*   apalache-mc check --init=Init --inv=IndInv --length=0 Apa_NodePower.tla    *)
(*   apalache-mc check --init=IndInit --inv=IndInv --length=1 Apa_NodePower.tla *)
(***************************************************************************)
EXTENDS Integers, Apalache

Software == {"s1", "s2"}
States == {"ON", "SD", "OFF", "BOOT"}

VARIABLES
    \* @type: Int;
    upDur,
    \* @type: Int;
    downDur,
    \* @type: Str;
    st,
    \* @type: Int;
    age,
    \* @type: Bool;
    resetting,
    \* @type: Bool;
    nic1,
    \* @type: Bool;
    nic2,
    \* @type: Set(Str);
    run,
    \* @type: Bool;
    snap1,
    \* @type: Bool;
    snap2,
    \* @type: Set(Str);
    snapRun

StartTarget == IF upDur = 0 THEN "ON" ELSE "BOOT"
AfterPower(kind) ==
    CASE kind = "startup"  -> StartTarget
      [] kind = "shutdown" -> IF downDur = 0 THEN "OFF" ELSE "SD"
      [] OTHER             -> IF downDur = 0 THEN StartTarget ELSE "SD"
AfterTick ==
    IF st = "SD" /\ age >= downDur THEN (IF resetting THEN StartTarget ELSE "OFF")
    ELSE IF st = "BOOT" /\ age >= upDur THEN "ON"
    ELSE st
PowerAccepted(kind) == IF kind = "startup" THEN st = "OFF" ELSE st = "ON"

Init ==
    /\ upDur \in Nat /\ downDur \in Nat
    /\ st = "ON" /\ age = 0 /\ resetting = FALSE
    /\ nic1 = TRUE /\ nic2 = TRUE /\ run = Software
    /\ snap1 = TRUE /\ snap2 = TRUE /\ snapRun = Software

\* enter power state t with the remembered configuration (sn1, sn2, sr)
Enter(t, sn1, sn2, sr) ==
    /\ st' = t
    /\ nic1' = (t = "ON" /\ sn1) /\ nic2' = (t = "ON" /\ sn2)
    /\ run' = IF t = "ON" THEN sr ELSE IF t = "OFF" THEN {} ELSE run

Power ==
    \E kind \in {"shutdown", "startup", "reset"} :
        IF PowerAccepted(kind)
        THEN LET leaving == kind # "startup"
                 t == AfterPower(kind)
             IN  /\ snap1' = (IF leaving THEN nic1 ELSE snap1)
                 /\ snap2' = (IF leaving THEN nic2 ELSE snap2)
                 /\ snapRun' = (IF leaving THEN run ELSE snapRun)
                 /\ Enter(t, IF leaving THEN nic1 ELSE snap1, IF leaving THEN nic2 ELSE snap2, IF leaving THEN run ELSE snapRun)
                 /\ age' = 0
                 /\ resetting' = (kind = "reset" /\ t = "SD")
                 /\ UNCHANGED <<upDur, downDur>>
        ELSE UNCHANGED <<upDur, downDur, st, age, resetting, nic1, nic2, run, snap1, snap2, snapRun>>

Tick ==
    LET t == AfterTick IN
    /\ IF t = st
       THEN UNCHANGED <<st, nic1, nic2, run>>
       ELSE Enter(t, snap1, snap2, snapRun)
    /\ age' = IF t = st /\ st \in {"SD", "BOOT"} THEN age + 1 ELSE 0
    /\ resetting' = (resetting /\ t = "SD")
    /\ UNCHANGED <<upDur, downDur, snap1, snap2, snapRun>>

Other ==
    /\ st = "ON"            \* (refused otherwise: nothing changes)
    /\ \/ \E s \in Software : run' = run \ {s} /\ UNCHANGED <<nic1, nic2>>
       \/ \E s \in Software : run' = run \cup {s} /\ UNCHANGED <<nic1, nic2>>
       \/ \E b \in BOOLEAN : nic1' = b /\ UNCHANGED <<nic2, run>>
       \/ \E b \in BOOLEAN : nic2' = b /\ UNCHANGED <<nic1, run>>
    /\ UNCHANGED <<upDur, downDur, st, age, resetting, snap1, snap2, snapRun>>

Next == Power \/ Tick \/ Other

IndInv ==
    /\ upDur >= 0 /\ downDur >= 0 /\ age >= 0
    /\ st \in States
    /\ run \subseteq Software /\ snapRun \subseteq Software
    /\ st # "ON" => (~nic1 /\ ~nic2)                 \* C12: interfaces are down unless the node is ON
    /\ st = "OFF" => run = {}                        \* C12: nothing runs on a node that is OFF
    /\ st = "SD" => (downDur >= 1 /\ age <= downDur) \* a timed transition is never overdue
    /\ st = "BOOT" => (upDur >= 1 /\ age <= upDur)
    /\ st \in {"ON", "OFF"} => age = 0
    /\ resetting => st = "SD"

IndInit ==
    /\ upDur = Gen(1) /\ downDur = Gen(1) /\ st = Gen(1) /\ age = Gen(1) /\ resetting = Gen(1)
    /\ nic1 = Gen(1) /\ nic2 = Gen(1) /\ run = Gen(2) /\ snap1 = Gen(1) /\ snap2 = Gen(1) /\ snapRun = Gen(2)
    /\ IndInv
=============================================================================
