--------------------------- MODULE TransportTrace ---------------------------
(* Trace validation of recorded executions of one primaite host (its       *)
(* SessionManager, SoftwareManager, installed IOSoftware) against          *)
(* Transport.tla (batch idiom).                                            *)
(*                                                                         *)
(* cfg: [cat |-> <<[n, port, proto, svc, listen, max, track]>>, power, inst, ops |-> <<[n, st]>>,               *)
(*       owners |-> <<[port, proto, n]>>, sess |-> <<[proto, ip, sp, dp]>>, cc |-> <<[n, c]>>, skip |-> <<clause>>]  *)
(* event: [ev, n, st, proto, ip, sp, dp, kind, tome, new, key (the key of the session that was created, as read    *)
(*         from the table, else <<>>), ok, built, fproto, fip, fsp, fdp, cid, cnt, nsess, power,                    *)
(*         inst, ops, owners, sess, open, cc]   (unused fields carry 0 / FALSE / "" / <<>>)                        *)
(*   Install / Uninstall (n, st, inst, owners)      SetOp (n, st)       Power (st)                                 *)
(*   SendNew (proto, ip, dp = the requested port, built, fsp, fdp, new, nsess)                                      *)
(*   SendSess (proto, ip, sp, dp = the session the id names, ok = the id was known, built, fproto, fip, fsp, fdp,   *)
(*             new, nsess)                          Clear (nsess)                                                   *)
(*   Accept / Drop (proto, ip, sp, dp, kind, tome)  SessIn (new, nsess)  Deliver (n)  DispatchEnd                  *)
(*   AddConn / TermConn (n, cid, ok, cnt)           ClearConns (n, cnt)  OpenPorts (open)                           *)
(*   Quiet (power, inst, ops, owners, sess, open, cc = the whole projection read from the objects)                  *)
EXTENDS Transport, TLC, TLCExt, Json, IOUtils

Traces == JsonDeserialize(IOEnv.TRACE_FILE)

VARIABLES tid, l
tvars == <<vars, tid, l>>

T == Traces[tid].ev
Cfg == Traces[tid].cfg
Skip == {Cfg.skip[i] : i \in 1..Len(Cfg.skip)}

SetOf(s) == {s[i] : i \in 1..Len(s)}
CatOf(s) == [n \in {s[i].n : i \in 1..Len(s)} |->
               LET c == s[CHOOSE i \in 1..Len(s) : s[i].n = n] IN
               [port |-> c.port, proto |-> c.proto, svc |-> c.svc, listen |-> SetOf(c.listen), max |-> c.max,
                track |-> c.track]]
OwnerOf(s) == [k \in {<<s[i].port, s[i].proto>> : i \in 1..Len(s)} |->
                 s[CHOOSE i \in 1..Len(s) : <<s[i].port, s[i].proto>> = k].n]
SessOf(s) == {<<s[i].proto, s[i].ip, s[i].sp, s[i].dp>> : i \in 1..Len(s)}
OpsOf(s, names) == [n \in names |-> IF \E i \in 1..Len(s) : s[i].n = n
                                    THEN s[CHOOSE i \in 1..Len(s) : s[i].n = n].st ELSE "NONE"]
ConnsOf(s, names) == [n \in names |-> {s[i].c : i \in {j \in 1..Len(s) : s[j].n = n}}]
CountOf(s, n) == IF \E i \in 1..Len(s) : s[i].n = n THEN s[CHOOSE i \in 1..Len(s) : s[i].n = n].c ELSE 0
FrameOf(e) == [proto |-> e.proto, ip |-> e.ip, sp |-> e.sp, dp |-> e.dp, kind |-> e.kind, tome |-> e.tome]
SessKey(e) == <<e.proto, e.ip, e.sp, e.dp>>
Hdr(e) == <<e.fproto, e.fip, e.fsp, e.fdp>>
Known(e) == e.n \in Names

\* the fields an event kind uses; every other field carries its blank value
AllFields == {"n", "st", "proto", "ip", "sp", "dp", "kind", "tome", "new", "key", "ok", "built", "fproto", "fip", "fsp", "fdp",
              "cid", "cnt", "nsess", "power", "inst", "ops", "owners", "sess", "open", "cc"}
Used(ev) ==
    CASE ev \in {"Install", "Uninstall"} -> {"n", "st", "inst", "owners"}
      [] ev = "SetOp" -> {"n", "st"}
      [] ev = "Power" -> {"st"}
      [] ev = "SendNew" -> {"proto", "ip", "dp", "built", "fsp", "fdp", "new", "key", "nsess"}
      [] ev = "SendSess" -> {"proto", "ip", "sp", "dp", "ok", "built", "fproto", "fip", "fsp", "fdp", "new", "key", "nsess"}
      [] ev = "Clear" -> {"nsess"}
      [] ev \in {"Accept", "Drop"} -> {"proto", "ip", "sp", "dp", "kind", "tome"}
      [] ev = "SessIn" -> {"new", "key", "nsess"}
      [] ev = "Deliver" -> {"n"}
      [] ev \in {"AddConn", "TermConn"} -> {"n", "cid", "ok", "cnt"}
      [] ev = "ClearConns" -> {"n", "cnt"}
      [] ev = "OpenPorts" -> {"open"}
      [] ev = "Quiet" -> {"power", "inst", "ops", "owners", "sess", "open", "cc"}
      [] OTHER -> {}
IsBlank(e, f) ==
    IF f \in {"n", "st", "proto", "kind", "fproto", "power"} THEN e[f] = ""
    ELSE IF f \in {"tome", "new", "ok", "built"} THEN e[f] = FALSE
    ELSE IF f \in {"key", "inst", "ops", "owners", "sess", "open", "cc"} THEN e[f] = <<>>
    ELSE e[f] = 0

\* named clauses, all predicates of (current state, event): the guard of the step
Clauses(e) ==
    [ FieldsAsDeclared |-> \A f \in AllFields \ Used(e.ev) : IsBlank(e, f),
      KnownSoftware |-> (e.ev \in {"Install", "Uninstall", "SetOp", "Deliver", "AddConn", "TermConn", "ClearConns"}) => Known(e),
      OwnerIsLastInstalled |-> (e.ev = "Install" /\ Known(e)) => OwnerIsLastInstalled(e.n, OwnerOf(e.owners)),
      ServiceStartsOnInstall |-> (e.ev = "Install" /\ Known(e)) => ServiceStartsOnInstall(e.n, e.st),
      RunsOnlyWhenOn |-> (e.ev \in {"Install", "SetOp"}) => RunsOnlyWhenOn(e.st),
      InstalledInOrder |-> /\ (e.ev = "Install" /\ Known(e)) => e.inst = Append(Without(inst, e.n), e.n)
                           /\ e.ev = "Uninstall" => e.inst = Without(inst, e.n),
      UninstallHandsPairBack |-> (e.ev = "Uninstall" /\ Known(e)) => UninstallOwnerOk(e.n, OwnerOf(e.owners)),
      NewConversationToRequestedPort |-> e.ev = "SendNew" => NewConversationToRequestedPort(e.dp, e.built, e.fdp),
      OneSessionPerConversation |->
          /\ e.ev = "SendNew" => OneSessionOut(e.proto, e.ip, e.built, e.fsp, e.fdp, e.new)
          /\ (e.ev = "SessIn" /\ stack # <<>>) => OneSessionIn(e.new),
      SessionKeyedByConversation |->
          /\ (e.ev = "SendNew" /\ e.new) => e.key = OutKey(e.proto, e.ip, e.fsp, e.fdp)
          /\ (e.ev = "SendSess" /\ e.new) => e.key = OutKey(e.fproto, e.fip, e.fsp, e.fdp)
          /\ (e.ev = "SessIn" /\ e.new /\ stack # <<>>) => e.key = InKey(Top.f),
      SessionCount |-> (e.ev \in {"SendNew", "SendSess", "SessIn"}) =>
                           e.nsess = Cardinality(sessions) + (IF e.new THEN 1 ELSE 0),
      SessionMustExist |-> e.ev = "SendSess" => (e.ok /\ SessionMustExist(SessKey(e))),
      ReplyOnSameSession |-> (e.ev = "SendSess" /\ e.built) => OnSession(SessKey(e), Hdr(e)),
      NoGrowthOnReply |-> e.ev = "SendSess" => ~e.new,
      ClearEmpties |-> e.ev = "Clear" => e.nsess = 0,
      AcceptedOnlyIfOpen |-> e.ev = "Accept" => MayAccept(FrameOf(e)),
      DroppedOnlyIfClosed |-> e.ev = "Drop" => ~MustAccept(FrameOf(e)),
      PipelineInOrder |->
          /\ e.ev = "SessIn" => (stack # <<>> /\ Top.phase = "accepted")
          /\ (e.ev \in {"Deliver", "DispatchEnd"}) => (stack # <<>> /\ Top.phase = "dispatch"),
      DeliveredOnlyToDue |-> (e.ev = "Deliver" /\ stack # <<>> /\ Known(e)) => DeliverAllowed(e.n),
      NotTwice |-> (e.ev = "Deliver" /\ stack # <<>>) => e.n \notin Top.got,
      AllDueDelivered |-> (e.ev = "DispatchEnd" /\ stack # <<>>) => Top.pending = {},
      ServedWhenOpen |-> (e.ev = "DispatchEnd" /\ stack # <<>>) => ServedOk(Top),
      AddConnOutcome |-> (e.ev = "AddConn" /\ Known(e)) => e.ok = AddConnExpected(e.n, e.cid),
      TerminateReportsRemoval |-> (e.ev = "TermConn" /\ Known(e)) => e.ok = (e.cid \in conns[e.n]),
      ConnCount |->
          /\ (e.ev = "AddConn" /\ Known(e)) => e.cnt = Cardinality(conns[e.n]) + (IF AddConnExpected(e.n, e.cid) THEN 1 ELSE 0)
          /\ (e.ev = "TermConn" /\ Known(e)) => e.cnt = Cardinality(conns[e.n] \ {e.cid})
          /\ e.ev = "ClearConns" => e.cnt = 0,
      ConnsWithinMax |-> (e.ev = "AddConn" /\ Known(e)) => e.cnt <= cat[e.n].max,
      OpenPortsExact |-> (e.ev \in {"OpenPorts", "Quiet"}) => SetOf(e.open) = RunningPorts,
      NothingRunsWhenOff |-> (e.ev = "Quiet" /\ power = "OFF") => RunningSet = {},
      StateMatchesObjects |-> e.ev = "Quiet" =>
          /\ e.power = power
          /\ e.inst = inst
          /\ \A n \in Installed : OpsOf(e.ops, Names)[n] = op[n]
          /\ OwnerOf(e.owners) = owner
          /\ SessOf(e.sess) = sessions
          /\ \A n \in Installed : cat[n].track => CountOf(e.cc, n) = Cardinality(conns[n])
          /\ stack = <<>>,
      RegistryWellFormed |-> e.ev = "Quiet" => (OwnerIsInstalledClaimant /\ EveryClaimedPairOwned /\ ConnsWithinMax)
    ]
Failing(e) == LET cl == Clauses(e) IN {c \in DOMAIN cl : ~cl[c] /\ c \notin Skip}

Step(e) ==
    CASE e.ev = "Install" -> Install(e.n, e.st, OwnerOf(e.owners))
      [] e.ev = "Uninstall" -> Uninstall(e.n, OwnerOf(e.owners))
      [] e.ev = "SetOp" -> SetOp(e.n, e.st)
      [] e.ev = "Power" -> Power(e.st)
      [] e.ev = "SendNew" -> SendNew(e.proto, e.ip, e.dp, e.built, e.fsp, e.fdp, e.new, e.key)
      [] e.ev = "SendSess" -> SendSess(SessKey(e), e.built, Hdr(e), e.new, e.key)
      [] e.ev = "Clear" -> Clear
      [] e.ev = "Accept" -> Accept(FrameOf(e))
      [] e.ev = "Drop" -> Drop(FrameOf(e))
      [] e.ev = "SessIn" -> SessIn(e.new, e.key)
      [] e.ev = "Deliver" -> Deliver(e.n)
      [] e.ev = "DispatchEnd" -> DispatchEnd
      [] e.ev = "AddConn" -> AddConn(e.n, e.cid, e.ok)
      [] e.ev = "TermConn" -> TermConn(e.n, e.cid)
      [] e.ev = "ClearConns" -> ClearConns(e.n)
      [] e.ev = "OpenPorts" -> OpenPorts
      [] e.ev = "Quiet" -> Quiet
      [] OTHER -> FALSE

TraceInit ==
    /\ tid \in 1..Len(Traces)
    /\ l = 1
    /\ LET c == CatOf(Cfg.cat) IN
       TInit(c, Cfg.power, Cfg.inst, OpsOf(Cfg.ops, DOMAIN c), OwnerOf(Cfg.owners), SessOf(Cfg.sess),
             ConnsOf(Cfg.cc, DOMAIN c))

TraceNext ==
    /\ l <= Len(T)
    /\ Failing(T[l]) = {}
    /\ Step(T[l])
    /\ l' = l + 1
    /\ UNCHANGED tid

TraceSpec == TraceInit /\ [][TraceNext]_tvars

\* progress bookkeeping in TLC registers (one per trace); -workers 1
Seen == TLCGet(tid)
Record ==
    IF l > Seen.pos
    THEN TLCSet(tid, [pos |-> l,
                      fail |-> IF l <= Len(T) THEN Failing(T[l]) ELSE {},
                      st |-> [power |-> power, inst |-> inst, running |-> RunningSet, nsess |-> Cardinality(sessions),
                              depth |-> Len(stack),
                              pending |-> IF stack # <<>> THEN Top.pending ELSE {},
                              got |-> IF stack # <<>> THEN Top.got ELSE {}]])
    ELSE TRUE
InitRegs == \A i \in 1..Len(Traces) : TLCSet(i, [pos |-> 0, fail |-> {}, st |-> <<>>])
ASSUME InitRegs

Report ==
    \A i \in 1..Len(Traces) :
        LET r == TLCGet(i) IN
        /\ PrintT(<<"TRACE", i, r.pos, Len(Traces[i].ev)>>)
        /\ (r.pos = Len(Traces[i].ev) + 1 \/ PrintT(<<"STUCK", i, r.pos, r.fail, r.st>>))
=============================================================================
