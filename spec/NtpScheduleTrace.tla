------------------------- MODULE NtpScheduleTrace -------------------------
(* Trace validation of recorded executions of the NTP services and of the  *)
(* episode schedulers / PrimaiteGymEnv against NtpSchedule.tla (batch      *)
(* idiom of LinkTrace.tla).                                                *)
(*                                                                         *)
(* trace cfg:  comp = "ntp":   hasSrv, target, on, cst, sst (records node  *)
(*                             -> value), blocked                          *)
(*             comp = "sched": kind, n, ref, gref (sequences of strings)   *)
(* event (every event has all fields; unused ones carry 0 / FALSE / "" /   *)
(* <<>>):                                                                  *)
(*   ntp:   Configure(n, d)  SetNode(n, b)  SetSvc(what = cli|srv, n, s)   *)
(*          SetBlock(b)  Tick  Request(n, d)  ServerReceive(n, d = from,   *)
(*          what = req)  Reply(n, d, tm)  ClientReceive(n, tm,             *)
(*          post)  PeerReceive(n, post)  TickEnd(times = <<[n, t]>>)       *)
(*   sched: Call(k, dig, w, b = shares structure with something handed out *)
(*          before or kept by the scheduler)  Mutate(i, b = it changed)    *)
(*          EnvInit(g, a, o)  Reset(k, g, a, o)  Step                      *)
(*   both:  Raised(what = exception type)                                  *)
(* d / post / times / dig / g / a / o are read from the real objects.      *)
(* Send / receive events are logged at the call that hands the message     *)
(* over (nested synchronous delivery: causal order), ClientReceive /       *)
(* PeerReceive / TickEnd / Call / EnvInit / Reset / Step at the return.    *)
(*                                                                         *)
(* named clauses -> contract clauses of Ntp.tla / Schedule.tla             *)
(*  N1 RequestsOnlyWhileRunning, RequestsEachTick                          *)
(*  N2 RequestToConfiguredServer                                           *)
(*  N3 ServerAnswersOnlyRequestsOnce, ReplyToRequester, ServerTimeAdvances,*)
(*     AnsweredEachRequestOnce                                             *)
(*  N4 OnlyRunningServerHandles, OnlyRunningClientHandles,                 *)
(*     RequestReachesItsServer                                             *)
(*  N5 TimeIsLatestReply, RequestsAreIgnoredByClients,                     *)
(*     TimeOnlyWrittenByReplies                                            *)
(*  N6 NoLossWithoutCause        N7 NoException                            *)
(*  S1 EntryIsKModN  S2+S4+S5 ExactlyListedVariationsFresh  S4 NoShared-   *)
(*  Structure, OwnerChangesItsOwn  S3 WarnsWhenWrapping  S6 EnvUsesEpisode-*)
(*  Counter, GameFromEntry  S7 SpacesAgree                                 *)
(*  binding: FieldsAsDeclared, EventOfThisComponent                        *)
EXTENDS NtpSchedule, TLC, TLCExt, Json, IOUtils

Traces == JsonDeserialize(IOEnv.TRACE_FILE)

VARIABLES tid, l
tvars == <<vars, tid, l>>

T == Traces[tid].ev
Cfg == Traces[tid].cfg

NtpEv == {"Configure", "SetNode", "SetSvc", "SetBlock", "Tick", "Request", "ServerReceive", "Reply",
          "ClientReceive", "PeerReceive", "TickEnd"}
SchedEv == {"Call", "Mutate", "EnvInit", "Reset", "Step"}
\* events after which nothing more can happen to the message that was in flight
Settling == {"Configure", "SetNode", "SetSvc", "SetBlock", "Tick", "Request", "TickEnd"}
TimesOf(s) == [x \in {s[j].n : j \in 1..Len(s)} |-> s[CHOOSE j \in 1..Len(s) : s[j].n = x].t]
Is(e, name) == e.ev = name

\* the fields an event of each kind uses; every other field carries its default
Used(ev) ==
    CASE ev = "Configure" -> {"n", "d"}          [] ev = "SetNode" -> {"n", "b"}
      [] ev = "SetSvc" -> {"what", "n", "s"}      [] ev = "SetBlock" -> {"b"}
      [] ev = "Request" -> {"n", "d"}             [] ev = "ServerReceive" -> {"n", "d", "what"}
      [] ev = "Reply" -> {"n", "d", "tm"}         [] ev = "ClientReceive" -> {"n", "tm", "post"}
      [] ev = "PeerReceive" -> {"n", "post"}      [] ev = "TickEnd" -> {"times"}
      [] ev = "Call" -> {"k", "dig", "w", "b"}    [] ev = "Mutate" -> {"i", "b"}
      [] ev = "EnvInit" -> {"g", "a", "o"}        [] ev = "Reset" -> {"k", "g", "a", "o"}
      [] ev = "Raised" -> {"what"}                [] OTHER -> {}
Default(f) ==
    CASE f \in {"n", "d", "what", "s", "dig", "g", "o"} -> ""
      [] f = "b" -> FALSE
      [] f = "times" -> <<>>
      [] OTHER -> 0

Clauses(e) ==
    [ NoException |-> e.ev # "Raised",
      FieldsAsDeclared |-> \A f \in (DOMAIN e \ ({"ev"} \cup Used(e.ev))) : e[f] = Default(f),
      EventOfThisComponent |-> (e.ev \in NtpEv => comp = "ntp") /\ (e.ev \in SchedEv => comp = "sched"),
      \* ---- A: NTP
      RequestsOnlyWhileRunning |-> (Is(e, "Request") /\ phase = "tick") => (ClientUp(e.n) /\ asked[e.n] = 0),
      RequestToConfiguredServer |-> Is(e, "Request") => (target[e.n] # "none" /\ e.d = target[e.n]),
      RequestsEachTick |-> Is(e, "TickEnd") => AskedAsDue,
      AnsweredEachRequestOnce |-> Is(e, "TickEnd") => AnsweredAsDue,
      RequestReachesItsServer |-> Is(e, "ServerReceive") =>
            (e.what = "req" /\ net.k = "req" /\ net.dst = e.n /\ net.src = e.d),
      OnlyRunningServerHandles |-> Is(e, "ServerReceive") => (ServerUp(e.n) /\ ~blocked),
      ServerAnswersOnlyRequestsOnce |-> Is(e, "Reply") => net.k = "atsrv",
      ReplyToRequester |-> (Is(e, "Reply") /\ net.k = "atsrv") => (net.dst = e.n /\ net.src = e.d),
      ServerTimeAdvances |-> Is(e, "Reply") => e.tm > clock,
      OnlyRunningClientHandles |-> e.ev \in {"ClientReceive", "PeerReceive"} => (ClientUp(e.n) /\ ~blocked),
      TimeIsLatestReply |-> Is(e, "ClientReceive") =>
            (net.k = "rep" /\ net.dst = e.n /\ net.tm = e.tm /\ e.post = e.tm),
      RequestsAreIgnoredByClients |-> Is(e, "PeerReceive") => (net.k = "req" /\ net.dst = e.n /\ e.post = time[e.n]),
      TimeOnlyWrittenByReplies |-> Is(e, "TickEnd") => TimesOf(e.times) = time,
      NoLossWithoutCause |-> e.ev \in Settling => LossJustified,
      \* ---- B: episode schedule
      EntryIsKModN |-> Is(e, "Call") => \A j \in 1..n : e.dig = ref[j] => ref[j] = ref[Idx(e.k)],
      ExactlyListedVariationsFresh |-> Is(e, "Call") => \E j \in 1..n : e.dig = ref[j],
      NoSharedStructure |-> Is(e, "Call") => ~e.b,
      WarnsWhenWrapping |-> Is(e, "Call") => WarnOK(e.k, e.w),
      EnvUsesEpisodeCounter |-> /\ Is(e, "EnvInit") => (env = "none" /\ pend = <<0>>)
                                /\ Is(e, "Reset") => (env = "up" /\ e.k = ep + 1 /\ pend = <<e.k>>),
      GameFromEntry |-> /\ Is(e, "EnvInit") => e.g = gref[Idx(0)]
                        /\ Is(e, "Reset") => e.g = gref[Idx(e.k)],
      SpacesAgree |-> Is(e, "Reset") => <<e.a, e.o>> = sp,
      OwnerChangesItsOwn |-> Is(e, "Mutate") => (e.i \in 1..Len(out) /\ e.b)
    ]
Failing(e) == LET cl == Clauses(e) IN {c \in DOMAIN cl : ~cl[c]}

Step1(e) ==
    CASE e.ev = "Configure"     -> A(Configure(e.n, e.d))
      [] e.ev = "SetNode"       -> A(SetNode(e.n, e.b))
      [] e.ev = "SetSvc"        -> A(SetSvc(e.what, e.n, e.s))
      [] e.ev = "SetBlock"      -> A(SetBlock(e.b))
      [] e.ev = "Tick"          -> A(Tick)
      [] e.ev = "Request"       -> A(Request(e.n, e.d))
      [] e.ev = "ServerReceive" -> A(ServerReceive(e.n, e.d, e.what))
      [] e.ev = "Reply"         -> A(Reply(e.n, e.d, e.tm))
      [] e.ev = "ClientReceive" -> A(ClientReceive(e.n, e.tm, e.post))
      [] e.ev = "PeerReceive"   -> A(PeerReceive(e.n, e.post))
      [] e.ev = "TickEnd"       -> A(TickEnd(TimesOf(e.times)))
      [] e.ev = "Call"          -> B(Call(e.k, e.dig, e.w) /\ Fresh(e.k, e.dig))
      [] e.ev = "Mutate"        -> B(Mutate(e.i))
      [] e.ev = "EnvInit"       -> B(EnvInit(e.g, e.a, e.o))
      [] e.ev = "Reset"         -> B(Reset(e.k, e.g, e.a, e.o))
      [] e.ev = "Step"          -> B(Step)
      [] OTHER -> FALSE

TraceInit ==
    /\ tid \in 1..Len(Traces)
    /\ l = 1
    /\ comp = Cfg.comp
    /\ IF Cfg.comp = "ntp"
       THEN NtpInit(Cfg.hasSrv, Cfg.target, Cfg.on, Cfg.cst, Cfg.sst, Cfg.blocked) /\ SchedOff
       ELSE SchedInit(Cfg.kind, Cfg.n, Cfg.ref, Cfg.gref) /\ NtpOff

TraceNext ==
    /\ l <= Len(T)
    /\ Failing(T[l]) = {}
    /\ Step1(T[l])
    /\ l' = l + 1
    /\ UNCHANGED tid

TraceSpec == TraceInit /\ [][TraceNext]_tvars

Seen == TLCGet(tid)
StNow ==
    IF comp = "ntp"
    THEN [phase |-> phase, net |-> net, clock |-> clock, blocked |-> blocked, target |-> target, up |-> on,
          cst |-> cst, sst |-> sst, time |-> time, asked |-> asked, due |-> exp, got |-> got]
    ELSE [kind |-> kind, n |-> n, ep |-> ep, env |-> env, pend |-> pend, warned |-> warned, handed |-> Len(out), sp |-> sp]
Record ==
    IF l > Seen.pos
    THEN TLCSet(tid, [pos |-> l, fail |-> IF l <= Len(T) THEN Failing(T[l]) ELSE {}, st |-> StNow])
    ELSE TRUE
InitRegs == \A j \in 1..Len(Traces) : TLCSet(j, [pos |-> 0, fail |-> {}, st |-> <<>>])
ASSUME InitRegs
Report ==
    \A j \in 1..Len(Traces) :
        LET r == TLCGet(j) IN
        /\ PrintT(<<"TRACE", j, r.pos, Len(Traces[j].ev)>>)
        /\ (r.pos = Len(Traces[j].ev) + 1 \/ PrintT(<<"STUCK", j, r.pos, r.fail, r.st>>))
=============================================================================
