--------------------------- MODULE MC_NetContainer ---------------------------
(* Exhaustive model of NetContainer: computer a (interfaces a1, a2), server b (b1), switch s (s1, s2).  The start  *)
(* is one of Inits: "empty" (an empty network, all nodes outside it, nothing wired) or "built" (a, b, s present,   *)
(* a1--s1 and b1--s2 wired, as PrimaiteGame.from_config leaves it); all nodes ON.  At most MaxLinks links are ever *)
(* created; only the interfaces of Detachable are taken off their node.                                            *)
(* `act' records the action taken and its outcome (what the real call has to report).                              *)
(* Variant = "design" is the contract.  The other variants are what the code does today and must be REFUTED:      *)
(*   "keep_enabled" (MC_NetContainerKeepEnabled.cfg): remove_link / disconnect_link leave the interface enabled    *)
(*                  and the graph edge in place            -> InvEnabledOnlyIfOnAndLinked                          *)
(*   "busy_link"    (MC_NetContainerBusyLink.cfg): connect on an interface that already has a link registers a     *)
(*                  second link naming it                  -> InvNoDanglingLinkRef                                 *)
(*   "keep_links"   (MC_NetContainerKeepLinks.cfg): remove_node leaves the node's links and graph vertex           *)
(*                                                         -> InvNodeRegistered / InvLinkEndsInNetwork             *)
EXTENDS NetContainer

CONSTANTS MaxLinks, Inits, Detachable, Variant, PowerNodes

VARIABLE act
mvars == <<vars, act>>

KIND == [a |-> "computer", b |-> "server", s |-> "switch"]
HOME == [a1 |-> "a", a2 |-> "a", b1 |-> "b", s1 |-> "s", s2 |-> "s"]
IF0 == DOMAIN HOME
ORD == [a1 |-> 1, a2 |-> 2, b1 |-> 3, s1 |-> 4, s2 |-> 5]  \* the model connects (i, j) in this order only
PORT0 == [a1 |-> 1, a2 |-> 2, b1 |-> 1, s1 |-> 1, s2 |-> 2]
Empty0 == [on |-> DOMAIN KIND, present |-> {}, routes |-> {}, gV |-> {}, gE |-> EmptyBag, links |-> <<>>, nextL |-> 1,
           ilink |-> [i \in IF0 |-> 0], en |-> [i \in IF0 |-> FALSE], att |-> [i \in IF0 |-> TRUE], port |-> PORT0,
           rt |-> [i \in IF0 |-> TRUE]]
Built0 == [Empty0 EXCEPT !.present = DOMAIN KIND, !.routes = DOMAIN KIND, !.gV = DOMAIN KIND,
                         !.gE = SetToBag({{"a", "s"}, {"b", "s"}}),
                         !.links = (1 :> [a |-> "a1", b |-> "s1"]) @@ (2 :> [a |-> "b1", b |-> "s2"]), !.nextL = 3,
                         !.ilink = [a1 |-> 1, a2 |-> 0, b1 |-> 2, s1 |-> 1, s2 |-> 2],
                         !.en = [a1 |-> TRUE, a2 |-> FALSE, b1 |-> TRUE, s1 |-> TRUE, s2 |-> TRUE]]
NoAct == [name |-> "Init", n |-> "", i |-> "", j |-> "", l |-> 0, via |-> "", flag |-> FALSE, res |-> "", p |-> 0]
A(name) == [NoAct EXCEPT !.name = name]

Init == /\ \E k \in Inits : NetInit(KIND, HOME, IF k = "empty" THEN Empty0 ELSE Built0)
        /\ act = NoAct

MAddNode(n) == AddNode(n) /\ act' = [A("AddNode") EXCEPT !.n = n, !.res = "none"]

\* as coded: the graph vertex and the node's links stay (container.py:311-321)
RemoveNodeAsCoded(n) ==
    IF n \notin present THEN Cur ELSE [Cur EXCEPT !.present = present \ {n}, !.routes = routes \ {n}]
MRemoveNode(n) ==
    /\ n \in Nodes
    /\ Apply(IF Variant = "keep_links" THEN RemoveNodeAsCoded(n) ELSE RemoveNodePost(n))
    /\ act' = [A("RemoveNode") EXCEPT !.n = n, !.res = "none"]

\* as coded: the Link is made and registered whatever connect_link did (container.py:349-354, base.py:463-465)
ConnectAsCoded(i, j) ==
    LET d0 == WithNodes(Cur, {home[i], home[j]}) IN
    IF home[i] = home[j] THEN d0
    ELSE [d0 EXCEPT !.links = (nextL :> [a |-> i, b |-> j]) @@ links, !.nextL = nextL + 1,
                    !.ilink = [e \in Ifaces |-> IF e \in {i, j} /\ ilink[e] = 0 THEN nextL ELSE ilink[e]],
                    !.en = [e \in Ifaces |-> IF e \in {i, j} /\ ilink[e] = 0 THEN en[e] \/ home[e] \in on ELSE en[e]],
                    !.gE = gE (+) SetToBag({{home[i], home[j]}})]
MConnect(i, j) ==
    /\ (nextL <= MaxLinks \/ ~CanLink(i, j)) /\ ORD[i] < ORD[j]
    /\ i \in Ifaces /\ j \in Ifaces /\ att[i] /\ att[j]
    /\ Apply(IF Variant = "busy_link" THEN ConnectAsCoded(i, j) ELSE ConnectPost(i, j))
    /\ act' = [A("Connect") EXCEPT !.i = i, !.j = j, !.res = ConnectResult(i, j)]

\* as coded: the interfaces keep `enabled', the graph keeps the edge (container.py:356-370, base.py:474-485)
WithoutLinksAsCoded(d, L) ==
    LET freed == {e \in Ifaces : ilink[e] \in L} IN
    [d EXCEPT !.links = [lk \in DOMAIN links \ L |-> links[lk]],
              !.ilink = [e \in Ifaces |-> IF e \in freed THEN 0 ELSE ilink[e]]]
MRemoveLink(lk) ==
    /\ lk \in DOMAIN links
    /\ Apply(IF Variant = "keep_enabled" THEN WithoutLinksAsCoded(Cur, {lk}) ELSE RemoveLinkPost(lk))
    /\ act' = [A("RemoveLink") EXCEPT !.l = lk, !.res = "none"]
MDisconnectLink(i) == DisconnectLink(i) /\ act' = [A("DisconnectLink") EXCEPT !.i = i, !.res = "none"]
MLinkSelf(i) == LinkSelf(i) /\ act' = [A("LinkSelf") EXCEPT !.i = i, !.res = "raised:ValueError"]

MEnable(i, via) == Enable(i, via) /\ act' = [A("Enable") EXCEPT !.i = i, !.via = via, !.flag = EnableOk(i, via)]
MDisable(i, via) == Disable(i, via) /\ act' = [A("Disable") EXCEPT !.i = i, !.via = via, !.flag = DisableOk(i, via)]

MinFree(n, but) == CHOOSE p \in 1..(Cardinality(Ifaces) + 1) :
                       p \notin PortsOf(n, but) /\ \A q \in 1..(p - 1) : q \in PortsOf(n, but)
MConnectNic(i) ==
    /\ i \in Detachable
    /\ LET p == IF att[i] THEN 0 ELSE MinFree(home[i], i) IN
       /\ ConnectNic(i, p)
       /\ act' = [A("ConnectNic") EXCEPT !.i = i, !.p = p, !.res = IF att[i] THEN "raised:NetworkError" ELSE "none"]
MDisconnectNic(i) ==
    /\ i \in Detachable
    /\ DisconnectNic(i)
    /\ act' = [A("DisconnectNic") EXCEPT !.i = i, !.res = IF att[i] THEN "none" ELSE "raised:NetworkError"]

MPower(n, up) == (n \in on) # up /\ Power(n, up) /\ act' = [A("Power") EXCEPT !.n = n, !.flag = up]
MLookup(h) == Lookup(h) /\ act' = [A("Lookup") EXCEPT !.n = h, !.flag = LookupFinds(h)]
MRequest(h) == Request(h) /\ act' = [A("Request") EXCEPT !.n = h, !.flag = RequestReaches(h)]
MObserve == Observe /\ act' = A("Observe")
MTick == Tick /\ act' = A("Tick")

Next ==
    \/ \E n \in DOMAIN KIND : MAddNode(n)
    \/ \E n \in DOMAIN KIND : MRemoveNode(n)
    \/ \E n \in DOMAIN KIND : MLookup(n)
    \/ \E n \in DOMAIN KIND : MRequest(n)
    \/ \E n \in PowerNodes, up \in BOOLEAN : MPower(n, up)
    \/ \E i, j \in IF0 : MConnect(i, j)
    \/ \E lk \in 1..MaxLinks : MRemoveLink(lk)
    \/ \E i \in IF0 : MDisconnectLink(i)
    \/ \E i \in IF0 : MLinkSelf(i)
    \/ \E i \in IF0 : MConnectNic(i)
    \/ \E i \in IF0 : MDisconnectNic(i)
    \/ \E i \in IF0, via \in {"api", "request"} : MEnable(i, via)
    \/ \E i \in IF0, via \in {"api", "request"} : MDisable(i, via)
    \/ MObserve \/ MTick
Spec == Init /\ [][Next]_mvars
View == vars

TypeOK ==
    /\ on \subseteq Nodes /\ present \subseteq Nodes /\ routes \subseteq Nodes /\ gV \subseteq Nodes
    /\ nextL \in 1..(MaxLinks + 1) /\ DOMAIN links \subseteq 1..MaxLinks
    /\ \A lk \in DOMAIN links : {links[lk].a, links[lk].b} \subseteq Ifaces \cup {NoIf}
    /\ \A i \in Ifaces : ilink[i] \in 0..MaxLinks /\ en[i] \in BOOLEAN /\ att[i] \in BOOLEAN

\* action properties
AddTwiceChangesNothing == [][(act'.name = "AddNode" /\ act'.n \in present) => UNCHANGED vars]_mvars
RefusedConnectOnlyAutoAdds ==
    [][(act'.name = "Connect" /\ act'.res # "link") => UNCHANGED <<on, gE, links, nextL, ilink, en, att, port, rt>>]_mvars
RemovedIsGoneEverywhere ==
    [][act'.name = "RemoveNode" => (act'.n \notin present' /\ act'.n \notin routes' /\ act'.n \notin gV'
                                    /\ \A i \in Ifaces : home[i] = act'.n => ilink'[i] = 0)]_mvars
ObservationsChangeNothing == [][act'.name \in {"Lookup", "Request", "Observe", "Tick", "LinkSelf"} => UNCHANGED vars]_mvars
ConfigNeverChanges == [][UNCHANGED cvars]_mvars
=============================================================================
