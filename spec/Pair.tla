-------------------------------- MODULE Pair --------------------------------
(***************************************************************************)
(* Self-composition of two recorded executions A and B that received the   *)
(* same declared inputs (scenario, seed, action sequence, reset points).   *)
(* Properties C03 (determinism across ambient conditions), C04 (episode /  *)
(* instance isolation) and C20 (key order / formatting) use it: whatever   *)
(* differs between A and B can only come from what was NOT declared.       *)
(*                                                                         *)
(* A position is one reset or step; its record carries, for each of A and  *)
(* B, field-wise digests of what the environment returned.  The module is  *)
(* the comparator and first-divergence locator; the exploration of ambient *)
(* conditions is done by the harness.                                      *)
(***************************************************************************)
EXTENDS Naturals, Sequences

VARIABLES pos
pvars == <<pos>>

PairInit == pos = 0

\* both executions take the same next input and return the same outputs
Advance(e) ==
    /\ e.a.kind = e.b.kind          \* same declared input
    /\ pos' = pos + 1

SameObservation(e) == e.a.obs = e.b.obs
SameReward(e)      == e.a.reward = e.b.reward
SameFlags(e)       == e.a.flags = e.b.flags
SameState(e)       == e.a.state = e.b.state
AgentsOf(e)        == 1..Len(e.a.agents)
SameActions(e)     == /\ Len(e.a.agents) = Len(e.b.agents)
                      /\ \A i \in AgentsOf(e) : /\ e.a.agents[i].action = e.b.agents[i].action
                                                /\ e.a.agents[i].params = e.b.agents[i].params
SameResponses(e)   == \A i \in AgentsOf(e) : Len(e.b.agents) >= i =>
                          /\ e.a.agents[i].status = e.b.agents[i].status
                          /\ e.a.agents[i].data = e.b.agents[i].data
SameAgentRewards(e) == \A i \in AgentsOf(e) : Len(e.b.agents) >= i => e.a.agents[i].reward = e.b.agents[i].reward
\* both runs end at the same point, neither raised
SameEnd(e) == e.a.kind = "end" => (e.a.obs = e.b.obs)
=============================================================================
