------------------------------ MODULE Sessions ------------------------------
(***************************************************************************)
(* User accounts, local / remote login sessions and remote terminals of    *)
(* one server node and its client nodes.  Property C16.                    *)
(*                                                                         *)
(* Statement: a local or remote login succeeds only with the current       *)
(* password of an existing, enabled account on a powered-on node and, for  *)
(* remote logins, while fewer than the maximum number of remote sessions   *)
(* are open; commands sent through a remote terminal are executed on the   *)
(* target only while that session is live.  Logout, inactivity time-out    *)
(* and a password change end the ability to run commands on that session,  *)
(* and the last enabled administrator account can never be disabled.       *)
(*                                                                         *)
(* The statement is a safety statement ("only", "never"): nothing here     *)
(* demands that a valid login succeeds, that a live session executes, or   *)
(* that a session survives.  Wherever the implementation has latitude the  *)
(* action takes the observed outcome / post-state as a parameter (the      *)
(* exhaustive model passes the design's value, the trace spec the logged   *)
(* one) and the *clauses* below say what the statement allows.             *)
(*                                                                         *)
(* An event is a record                                                    *)
(*   [name, c (client), u (user), p (password), np (new password),         *)
(*    adm, ok (answer was success), exec (the command took effect on the   *)
(*    server), sid (session used / logged off, 0 = none), node,            *)
(*    post |-> [users, local, rem, conn, srvOn, srvTerm, cliOn, cliTerm]]  *)
(* `post' is the projection of the real objects after the call: accounts,  *)
(* current local user, the server's table of remote sessions               *)
(* {[sid,user,origin]}, the connection handles each client holds, power    *)
(* and terminal-service flags.                                             *)
(*                                                                         *)
(* Time: instead of now / lastActive the module keeps idle = now -         *)
(* lastActive per session (same information, finite state space).          *)
(* Activity = the login and every executed command.  Time-out latitude     *)
(* (DESIGN 5.2): a session must have lost the ability to run commands once *)
(* it has been idle for timeout+1 ticks; ending at `timeout' is accepted.  *)
(*                                                                         *)
(* maxRemote, timeout are configuration variables (never change).          *)
(***************************************************************************)
EXTENDS Naturals, FiniteSets, Sequences

VARIABLES
    maxRemote, timeout, \* configuration
    users,              \* [name -> [pw, disabled, admin]] over the existing accounts
    local,              \* user of the local session, "" = none
    remote,             \* the server's table: set of [sid, user, origin, idle]
    conn,               \* [client -> set of session ids it holds a connection handle for]
    nsid,               \* highest session id seen so far (ids are never reused)
    ended,              \* ids of sessions that were logged off / timed out / whose user changed password
    srvOn, srvTerm,     \* server powered on / its terminal service running
    cliOn, cliTerm      \* [client -> BOOLEAN]

svars == <<maxRemote, timeout, users, local, remote, conn, nsid, ended, srvOn, srvTerm, cliOn, cliTerm>>

Sids(R) == {r.sid : r \in R}
Strip(R) == {[sid |-> r.sid, user |-> r.user, origin |-> r.origin] : r \in R}
SetMax(S) == IF S = {} THEN 0 ELSE CHOOSE x \in S : \A y \in S : y <= x
Clients == DOMAIN conn

Valid(u, p) == u \in DOMAIN users /\ ~users[u].disabled /\ users[u].pw = p
EnabledAdmins(U) == {u \in DOMAIN U : U[u].admin /\ ~U[u].disabled}

SessInit(mr, to, u0, clients, sOn, sTerm, cOn, cTerm) ==
    /\ maxRemote = mr /\ timeout = to
    /\ users = u0 /\ local = "" /\ remote = {}
    /\ conn = [c \in clients |-> {}]
    /\ nsid = 0 /\ ended = {}
    /\ srvOn = sOn /\ srvTerm = sTerm /\ cliOn = cOn /\ cliTerm = cTerm

\* the projection of the current state (what `post' of a step that changes nothing looks like)
Here == [users |-> users, local |-> local, rem |-> Strip(remote), conn |-> conn,
         srvOn |-> srvOn, srvTerm |-> srvTerm, cliOn |-> cliOn, cliTerm |-> cliTerm]

-----------------------------------------------------------------------------
(* Common state update: the table of sessions, the handles, the local user *)
(* and the flags are the observed ones; idle / nsid / ended are the        *)
(* module's own book-keeping.  idl = idle value of every surviving         *)
(* session, fin = ids that lose the ability in this step.                  *)
Update(U2, P, idl, fin) ==
    /\ users' = U2
    /\ local' = P.local
    /\ remote' = {[sid |-> x.sid, user |-> x.user, origin |-> x.origin,
                   idle |-> IF x.sid \in DOMAIN idl THEN idl[x.sid] ELSE 0] : x \in P.rem}
    /\ conn' = P.conn
    /\ nsid' = SetMax({nsid} \cup Sids(P.rem) \cup UNION {P.conn[c] : c \in DOMAIN P.conn})
    /\ ended' = ended \cup fin
    /\ srvOn' = P.srvOn /\ srvTerm' = P.srvTerm /\ cliOn' = P.cliOn /\ cliTerm' = P.cliTerm
    /\ UNCHANGED <<maxRemote, timeout>>

Idle == [s \in Sids(remote) |-> (CHOOSE r \in remote : r.sid = s).idle]
IdleReset(sid) == [s \in Sids(remote) |-> IF s = sid THEN 0 ELSE Idle[s]]
IdlePlus1 == [s \in Sids(remote) |-> Idle[s] + 1]

ExtendUsers(u, rec) == [x \in DOMAIN users \cup {u} |-> IF x = u THEN rec ELSE users[x]]

(* ---- account management ------------------------------------------------ *)
AddUser(u, pw, adm, ok, P) ==
    Update(IF ok THEN ExtendUsers(u, [pw |-> pw, disabled |-> FALSE, admin |-> adm]) ELSE users, P, Idle, {})

DisableUser(u, ok, P) ==
    Update(IF ok /\ u \in DOMAIN users THEN [users EXCEPT ![u].disabled = TRUE] ELSE users, P, Idle, {})

\* a successful password change ends every session of that user
ChangePassword(u, cur, new, ok, P) ==
    Update(IF ok /\ u \in DOMAIN users THEN [users EXCEPT ![u].pw = new] ELSE users, P, Idle,
           IF ok THEN {r.sid : r \in {x \in remote : x.user = u}} ELSE {})

(* ---- logins ------------------------------------------------------------ *)
\* local login + one command in the local terminal (the request the agents have for it)
LocalLogin(u, p, exec, P) == Update(users, P, Idle, {})

RemoteLogin(c, u, p, ok, P) == Update(users, P, Idle, {})

(* ---- remote terminal ---------------------------------------------------- *)
\* client c sends a command through its handle sid (0: it has none to send through)
RemoteCommand(c, sid, exec, P) == Update(users, P, IF exec THEN IdleReset(sid) ELSE Idle, {})

\* client c logs off from the session behind its handle sid
Logoff(c, sid, ok, P) == Update(users, P, Idle, IF ok /\ sid # 0 THEN {sid} ELSE {})

(* ---- time --------------------------------------------------------------- *)
\* one tick (pre-timestep = time-outs, then the timestep itself)
Tick(P) == Update(users, P, IdlePlus1, {r.sid : r \in {x \in remote : x.idle + 1 >= timeout + 1}})

(* ---- power / service events on either end ------------------------------- *)
NodeOff(n, ok, P) == Update(users, P, Idle, {})
NodeOn(n, ok, P) == Update(users, P, Idle, {})
ServiceStop(n, ok, P) == Update(users, P, Idle, {})
ServiceStart(n, ok, P) == Update(users, P, Idle, {})

Do(e) ==
    CASE e.name = "AddUser"        -> AddUser(e.u, e.p, e.adm, e.ok, e.post)
      [] e.name = "DisableUser"    -> DisableUser(e.u, e.ok, e.post)
      [] e.name = "ChangePassword" -> ChangePassword(e.u, e.p, e.np, e.ok, e.post)
      [] e.name = "LocalLogin"     -> LocalLogin(e.u, e.p, e.exec, e.post)
      [] e.name = "RemoteLogin"    -> RemoteLogin(e.c, e.u, e.p, e.ok, e.post)
      [] e.name = "RemoteCommand"  -> RemoteCommand(e.c, e.sid, e.exec, e.post)
      [] e.name = "Logoff"         -> Logoff(e.c, e.sid, e.ok, e.post)
      [] e.name = "Tick"           -> Tick(e.post)
      [] e.name = "NodeOff"        -> NodeOff(e.node, e.ok, e.post)
      [] e.name = "NodeOn"         -> NodeOn(e.node, e.ok, e.post)
      [] e.name = "ServiceStop"    -> ServiceStop(e.node, e.ok, e.post)
      [] e.name = "ServiceStart"   -> ServiceStart(e.node, e.ok, e.post)
      [] OTHER -> FALSE     \* in particular "Raised": an exception out of repository code

-----------------------------------------------------------------------------
(* Clauses: predicates of (current state, event).  The first group is the  *)
(* statement; the second group ("binding") says that accounts, sessions,   *)
(* handles and the local user change only by the events that can change    *)
(* them, which is what gives `current password', `existing account',       *)
(* `live session' and `that session' their meaning over a history.         *)

ExpUsers(e) ==
    CASE e.name = "AddUser" /\ e.ok ->
             ExtendUsers(e.u, [pw |-> e.p, disabled |-> FALSE, admin |-> e.adm])
      [] e.name = "DisableUser" /\ e.ok /\ e.u \in DOMAIN users -> [users EXCEPT ![e.u].disabled = TRUE]
      [] e.name = "ChangePassword" /\ e.ok /\ e.u \in DOMAIN users -> [users EXCEPT ![e.u].pw = e.np]
      [] OTHER -> users

NewSess(P) == {x \in P.rem : x.sid \notin Sids(remote)}
NewHandles(P, c) == IF c \in DOMAIN P.conn /\ c \in Clients THEN P.conn[c] \ conn[c] ELSE {}

\* a remote login succeeded if it was answered success, or the server opened a session, or the
\* client obtained a connection handle
RemoteLoginSucceeded(e) ==
    e.name = "RemoteLogin" /\ (e.ok \/ NewSess(e.post) # {} \/ NewHandles(e.post, e.c) # {})
\* a local login succeeded if its command took effect or the local user became u
LocalLoginSucceeded(e) ==
    e.name = "LocalLogin" /\ (e.exec \/ (e.post.local = e.u /\ local # e.u))
LoginSucceeded(e) == RemoteLoginSucceeded(e) \/ LocalLoginSucceeded(e)

Clauses(e) ==
    LET P == e.post IN
    [ \* ---- the statement
      LoginNeedsCredentials |-> LoginSucceeded(e) => Valid(e.u, e.p),
      LoginNeedsPower       |-> LoginSucceeded(e) => srvOn,
      LoginRespectsLimit    |-> RemoteLoginSucceeded(e) => Cardinality(remote) < maxRemote,
      RemoteBound           |-> Cardinality(P.rem) <= maxRemote,
      ExecOnlyIfLive        |-> (e.name = "RemoteCommand" /\ e.exec) =>
                                    /\ e.c \in Clients /\ e.sid \in conn[e.c]
                                    /\ \E r \in remote : r.sid = e.sid /\ r.origin = e.c,
      NoExecAfterEnd        |-> (e.name = "RemoteCommand" /\ e.exec) => e.sid \notin ended,
      LastAdminStays        |-> EnabledAdmins(users) # {} => EnabledAdmins(P.users) # {},
      \* ---- binding
      UsersAsSpecified      |-> P.users = ExpUsers(e),
      SessionsOnlyByLogin   |->
          /\ \A x \in P.rem : x.sid \in Sids(remote) => x \in Strip(remote)
          /\ NewSess(P) # {} =>
                 /\ e.name = "RemoteLogin"
                 /\ Cardinality(NewSess(P)) = 1
                 /\ \A x \in NewSess(P) : x.sid > nsid /\ x.user = e.u /\ x.origin = e.c,
      HandlesOnlyByLogin    |->
          /\ DOMAIN P.conn = Clients
          /\ \A d \in Clients :
                 P.conn[d] \ conn[d] \subseteq
                     (IF e.name = "RemoteLogin" /\ d = e.c THEN Sids(NewSess(P)) ELSE {}),
      LocalOnlyByLogin      |-> P.local \in {local, ""} \/ (e.name = "LocalLogin" /\ P.local = e.u)
    ]
Failing(e) == LET C == Clauses(e) IN {k \in DOMAIN C : ~C[k]}

-----------------------------------------------------------------------------
\* state invariants of the module
InvRemoteBound == Cardinality(remote) <= maxRemote
InvLastAdmin   == EnabledAdmins(users) # {}
\* a handle that can still run commands belongs to a session that has not been ended
Able(c, s) == s \in conn[c] /\ s \in Sids(remote)
=============================================================================
