SPECIFICATION Spec
CONSTANTS
  Inst = {"A", "B"}
  Variant = "process_cells"
  MaxEp = 1
  MaxLen = 1
  MaxWrites = 2
  LevelsUsed = {2, 4}
  ShapesUsed = {"plain", "json"}
  First = "A"
  Refill = FALSE
  ProfilesUsed = {"on", "off", "warn"}
INVARIANT InvFinishedRecorded
INVARIANT InvFilePerFinishedEpisode
INVARIANT InvFileHoldsEpisode
INVARIANT InvWrittenOnce
INVARIANT InvMetaPerStep
INVARIANT InvSysIffOn
INVARIANT InvPcapIffOn
INVARIANT InvAgentIffOn
PROPERTY OptNeverChanges
VIEW View
CHECK_DEADLOCK FALSE
