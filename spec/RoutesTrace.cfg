SPECIFICATION TraceSpec
CONSTANTS
  AddrBits = 8
CONSTRAINT Record
POSTCONDITION Report
CHECK_DEADLOCK FALSE
