--------------------------- MODULE RewardTrace ---------------------------
(* Trace validation of recorded episodes of PrimaiteGame / PrimaiteGymEnv    *)
(* against RewardGraph.tla (batch idiom, DESIGN.md 4.4).  Property C10.      *)
(*                                                                           *)
(* A trace is one episode of one scenario:                                   *)
(*   cfg = [n      |-> number of agents (agent i = i-th declared agent),     *)
(*          comps  |-> <<components of agent 1, ...>>, each component        *)
(*                     [w |-> weight in milli-units,                         *)
(*                      kind |-> "own" | "shared" | "sticky",                *)
(*                      src |-> index of the sharee (kind "shared", else 0), *)
(*                      sticky |-> the sticky flag (kind "sticky")],         *)
(*          proxy  |-> index of the agent whose reward env.step returns, 0   *)
(*                     when the game is stepped directly]                    *)
(*   ev  = <<event, ...>>, an event is                                       *)
(*     [ev |-> "Load", accepted, order (agent indices in                     *)
(*             game._reward_calculation_order), tot]                         *)
(*     [ev |-> "Step", vals (per agent, per component: the value its         *)
(*             calculate returned, milli-units), qual (per agent, per        *)
(*             component: a qualifying event occurred this step), lar (per   *)
(*             agent: calculate was given that agent's own latest history    *)
(*             item of the step just taken), post (per agent: calculate was  *)
(*             given a state taken from the simulation after this step's     *)
(*             tick), once (per agent: each of its components was evaluated  *)
(*             exactly once in this step - binding: otherwise the recorder   *)
(*             cannot attribute values), cur, tot (milli-units, read from    *)
(*             the objects after the step), envr (reward returned by         *)
(*             env.step, milli-units)]                                       *)
(*   every event carries all fields (unused ones <<>> / 0 / FALSE).          *)
(* Floats are compared in integer milli-units with a slack of one unit per   *)
(* term (DESIGN.md 5.1).                                                     *)
EXTENDS RewardGraph, TLC, TLCExt, Json, IOUtils

Traces == JsonDeserialize(IOEnv.TRACE_FILE)

VARIABLES tid, l
tvars == <<decl, g, wt, phase, accepted, order, own, cur, tot, sum, n, tid, l>>

T == Traces[tid].ev
Cfg == Traces[tid].cfg

Abs(x) == IF x < 0 THEN 0 - x ELSE x
Comps(c, a) == c.comps[a]
Idx(c, a) == 1..Len(Comps(c, a))
SharedIdx(c, a) == {k \in Idx(c, a) : Comps(c, a)[k].kind = "shared"}
StickyIdx(c, a) == {k \in Idx(c, a) : Comps(c, a)[k].kind = "sticky"}

CfgAgents(c) == 1..c.n
\* the sharing digraph and its summed weights, from the shared components
EdgesOf(c, a) == {<<a, Comps(c, a)[k].src>> : k \in SharedIdx(c, a)}
Graph(c) == UNION {EdgesOf(c, a) : a \in CfgAgents(c)}
WeightOf(c, e) ==
    LET ks == {k \in SharedIdx(c, e[1]) : Comps(c, e[1])[k].src = e[2]}
    IN  SumOver(ks, [k \in ks |-> Comps(c, e[1])[k].w])

\* sum over the components of agent a of weight * value, in micro-units
Weighted(a, e) == SumOver(Idx(Cfg, a), [k \in Idx(Cfg, a) |-> Comps(Cfg, a)[k].w * e.vals[a][k]])

\* named clauses, all predicates of (current state, event): the guard of the step
Clauses(e) ==
    [ LoadAcceptedIffAcyclic |-> e.ev = "Load" => (e.accepted <=> ~Cyclic(Agents, g)),
      OrderDepsFirst |-> (e.ev = "Load" /\ e.accepted) => DepsFirst(e.order, Agents, g),
      TotalStartsAtZero |-> (e.ev = "Load" /\ e.accepted) => \A a \in Agents : e.tot[a] = 0,
      WeightedSum |->
          e.ev = "Step" =>
              \A a \in Agents :
                  Abs(1000 * e.cur[a] - Weighted(a, e)) <= 1000 * (Len(Comps(Cfg, a)) + 1),
      SharedIsSameStep |->
          e.ev = "Step" =>
              \A a \in Agents : \A k \in SharedIdx(Cfg, a) :
                  e.vals[a][k] = e.cur[Comps(Cfg, a)[k].src],
      TotalAccumulates |->
          e.ev = "Step" => \A a \in Agents : Abs(e.tot[a] - (tot[a] + e.cur[a])) <= 1,
      StickyKeepsValue |->
          (e.ev = "Step" /\ n > 0) =>
              \A a \in Agents : \A k \in StickyIdx(Cfg, a) :
                  Comps(Cfg, a)[k].sticky => StickyOK(TRUE, e.qual[a][k], own[a][k], e.vals[a][k]),
      NonStickyReturnsToZero |->
          e.ev = "Step" =>
              \A a \in Agents : \A k \in StickyIdx(Cfg, a) :
                  ~Comps(Cfg, a)[k].sticky => StickyOK(FALSE, e.qual[a][k], 0, e.vals[a][k]),
      \* at a qualifying event the remembered value is replaced by the component's fresh evaluation (= what a memory-less
      \* twin of the component returns for the same state and action)
      QualifyingEventReplacesValue |->
          e.ev = "Step" =>
              \A a \in Agents : \A k \in StickyIdx(Cfg, a) :
                  e.qual[a][k] => e.vals[a][k] = e.fresh[a][k],
      EachComponentEvaluatedOnce |-> e.ev = "Step" => \A a \in Agents : e.once[a],
      OwnLatestAction |-> e.ev = "Step" => \A a \in Agents : e.lar[a],
      PostStepState |-> e.ev = "Step" => \A a \in Agents : e.post[a],
      EnvRewardIsAgentReward |-> (e.ev = "Step" /\ Cfg.proxy # 0) => e.envr = e.cur[Cfg.proxy]
    ]
Failing(e) == {c \in DOMAIN Clauses(e) : ~Clauses(e)[c]}

Step(e) ==
    CASE e.ev = "Load" -> Load(e.accepted, e.order)
      [] e.ev = "Step" -> StepR(e.vals, e.cur, e.tot)
      [] OTHER -> FALSE      \* "Raised": an exception out of repository code is no action

TraceInit ==
    /\ tid \in 1..Len(Traces)
    /\ l = 1
    /\ RInit([i \in 1..Cfg.n |-> i], Graph(Cfg), [e \in Graph(Cfg) |-> WeightOf(Cfg, e)])

TraceNext ==
    /\ l <= Len(T)
    /\ Failing(T[l]) = {}
    /\ Step(T[l])
    /\ l' = l + 1
    /\ UNCHANGED tid

TraceSpec == TraceInit /\ [][TraceNext]_tvars

\* progress bookkeeping in TLC registers (one per trace); -workers 1
Seen == TLCGet(tid)
Record ==
    IF l > Seen.pos
    THEN TLCSet(tid, [pos |-> l,
                      fail |-> IF l <= Len(T) THEN Failing(T[l]) ELSE {},
                      st |-> [phase |-> phase, n |-> n, cur |-> cur, tot |-> tot, last |-> own]])
    ELSE TRUE
InitRegs == \A i \in 1..Len(Traces) : TLCSet(i, [pos |-> 0, fail |-> {}, st |-> <<>>])
ASSUME InitRegs

Report ==
    \A i \in 1..Len(Traces) :
        LET r == TLCGet(i) IN
        /\ PrintT(<<"TRACE", i, r.pos, Len(Traces[i].ev)>>)
        /\ (r.pos = Len(Traces[i].ev) + 1 \/ PrintT(<<"STUCK", i, r.pos, r.fail, r.st>>))
=============================================================================
