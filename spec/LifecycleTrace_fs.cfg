SPECIFICATION TraceSpec
CONSTANTS
  Facet = "fs"
  PowDur = 2
  FixDur = 2
  RestDur = 3
  InstDur = 2
CONSTRAINT Record
POSTCONDITION Report
CHECK_DEADLOCK FALSE
