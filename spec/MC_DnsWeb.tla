----------------------------- MODULE MC_DnsWeb -----------------------------
(* Exhaustive / simulation model of DnsWeb.tla: the module's actions composed with the values the design   *)
(* prescribes, an environment (operating states, power, registrations, the database being responsive) with *)
(* a bounded number of changes, and the contract clauses as invariants / action properties.                *)
(* `act' names the last action and its stimulus (read by the harness from -simulate behaviours); it is     *)
(* hidden from the exhaustive search by the VIEW.  `ever' is a ghost: every (name, address) pair that was  *)
(* ever registered at the server or put into a cache through the API.                                      *)
EXTENDS DnsWeb, TLC
CONSTANTS Clients, Names, SvcStates, MaxHist, MaxCodes, MaxEnv, TickAlways
VARIABLES dbUp, nenv, ever, act
mvars == <<dwvars, dbUp, nenv, ever, act>>

Hosts == Names \cup {"ipw"}
Lit(h) == IF h = "ipw" THEN "w" ELSE ""
Paths == {"", "users", "nope"}
Addrs == {"w", "x"}
Cfgs == {<<"d", TRUE>>, <<"d", FALSE>>, <<"none", TRUE>>, <<"x", TRUE>>}

Init ==
    /\ \E k \in Cfgs :
         DnsWebInit(Clients, [c \in Clients |-> k[1]], k[2], TRUE,
                    [nd \in Clients \cup {"d", "w"} |-> TRUE],
                    [c \in Clients |-> Running], [c \in Clients |-> Running], Running, Running,
                    [n \in {"a"} |-> "w"], [c \in Clients |-> Empty], [c \in Clients |-> <<>>], <<>>)
    /\ dbUp = TRUE /\ nenv = 0 /\ ever = {<<"a", "w">>} /\ act = <<"Init">>

Same == UNCHANGED <<dbUp, nenv, ever>>
Env == Idle /\ nenv < MaxEnv /\ nenv' = nenv + 1

(* the exchanges *)
MLookupBegin(c, n) == Idle /\ LookupBegin(c, n) /\ act' = <<"LookupBegin", c, n>> /\ Same
MNestedLookup == br.st = "begun" /\ LookupBegin(br.c, br.host) /\ act' = <<"NestedLookup">> /\ Same
MDnsServe ==
    /\ lk.st = "asked" /\ direct /\ dnsCfg[lk.c] = "d" /\ DsUp
    /\ DnsServe(lk.c, lk.n, Get(table, lk.n)) /\ act' = <<"DnsServe">> /\ Same
MDnsReply == lk.st = "answered" /\ DnsReply(lk.c, lk.n, lk.ans) /\ act' = <<"DnsReply">> /\ Same
MLookupEnd ==
    /\ lk.st # "idle" /\ LookupComplete
    /\ LookupEnd(lk.c, lk.n, LookupResult(lk.c, lk.n))
    /\ act' = <<"LookupEnd", LookupResult(lk.c, lk.n)>> /\ Same
MBrowseBegin(c, h, p) ==
    /\ Idle /\ Len(hist[c]) < MaxHist /\ Len(codes) < MaxCodes
    /\ BrowseBegin(c, h, Lit(h), p) /\ act' = <<"BrowseBegin", c, h, p>> /\ Same
CodeOf(p, conn, q) ==
    IF p = "" THEN 200 ELSE IF p = "users" THEN (IF ~conn THEN 500 ELSE IF q THEN 200 ELSE 404) ELSE 404
MWebServe(conn) ==
    /\ br.st = "resolved" /\ lk.st = "idle" /\ direct /\ br.addr = "w" /\ WsUp
    /\ conn \in (IF br.path # "users" \/ ~hasDb THEN {FALSE} ELSE IF dbUp THEN {TRUE} ELSE BOOLEAN)
    /\ LET q == conn /\ dbUp IN WebServe(br.c, br.path, conn, q, CodeOf(br.path, conn, q))
    /\ act' = <<"WebServe", conn>> /\ Same
MHttpResp == br.st = "served" /\ HttpResp(br.c, br.code) /\ act' = <<"HttpResp">> /\ Same
MWebLog == br.st = "responded" /\ WebLog(br.code) /\ act' = <<"WebLog">> /\ Same
MBrowseEnd(entry) ==
    /\ br.st \notin {"idle", "begun"} /\ lk.st = "idle" /\ BrowseComplete /\ LoggedOnce
    /\ entry = 404 \/ br.st = "resolved"
    /\ LET c == br.c
           newh == IF br.st = "responded" THEN Append(hist[c], br.code)
                   ELSE IF br.st = "resolved" THEN Append(hist[c], entry)
                   ELSE hist[c]
           ok == br.st = "responded" /\ br.code = 200
       IN BrowseEnd(c, ok, newh) /\ act' = <<"BrowseEnd", ok>>
    /\ Same

(* the environment *)
MSetOp(kind, c, st) ==
    /\ Env
    /\ st # (CASE kind = "dc" -> dcOp[c] [] kind = "br" -> brOp[c] [] kind = "ds" -> dsOp [] OTHER -> wsOp)
    /\ SetOp(kind, c, st) /\ act' = <<"SetOp", kind, c, st>> /\ UNCHANGED <<dbUp, ever>>
MPower(nd, b) == Env /\ b # on[nd] /\ Power(nd, b) /\ act' = <<"Power", nd, b>> /\ UNCHANGED <<dbUp, ever>>
MRegister(n, ip) ==
    /\ Env /\ Register(n, ip)
    /\ ever' = IF DsUp THEN ever \cup {<<n, ip>>} ELSE ever
    /\ act' = <<"Register", n, ip>> /\ UNCHANGED dbUp
MAddCache(c, n, ip) ==
    /\ Env /\ AddCache(c, n, ip, DcUp(c))
    /\ ever' = IF DcUp(c) THEN ever \cup {<<n, ip>>} ELSE ever
    /\ act' = <<"AddCache", c, n, ip>> /\ UNCHANGED dbUp
MSetDb(b) == Env /\ b # dbUp /\ dbUp' = b /\ act' = <<"SetDb", b>> /\ UNCHANGED <<dwvars, ever>>
MTick == Idle /\ (TickAlways \/ codes # <<>>) /\ Tick /\ act' = <<"Tick">> /\ Same

Next ==
    \/ \E c \in Clients, n \in Hosts : MLookupBegin(c, n)
    \/ MNestedLookup \/ MDnsServe \/ MDnsReply \/ MLookupEnd
    \/ \E c \in Clients, h \in Hosts, p \in Paths : MBrowseBegin(c, h, p)
    \/ \E conn \in BOOLEAN : MWebServe(conn)
    \/ MHttpResp \/ MWebLog
    \/ \E entry \in {404, Unreach} : MBrowseEnd(entry)
    \/ \E kind \in {"dc"}, c \in Clients, st \in SvcStates : MSetOp(kind, c, st)
    \/ \E kind \in {"br"}, c \in Clients, st \in {"RUNNING", "CLOSED"} : MSetOp(kind, c, st)
    \/ \E kind \in {"ds", "ws"}, st \in SvcStates : MSetOp(kind, "", st)
    \/ \E nd \in Clients \cup {"d", "w"}, b \in BOOLEAN : MPower(nd, b)
    \/ \E n \in Names, ip \in Addrs : MRegister(n, ip)
    \/ \E c \in Clients, n \in Names, ip \in Addrs : MAddCache(c, n, ip)
    \/ \E b \in BOOLEAN : MSetDb(b)
    \/ MTick
Spec == Init /\ [][Next]_mvars
View == <<dwvars, dbUp, nenv, ever>>

-----------------------------------------------------------------------------
(* the contract clauses over the composition; one INVARIANT / PROPERTY line each *)

\* D1 / D4: every cached or registered address was registered / added under that name
CacheSound == \A c \in Clients : \A n \in DOMAIN cache[c] : <<n, cache[c][n]>> \in ever
TableSound == \A n \in DOMAIN table : <<n, table[n]>> \in ever
\* D1: the answer in flight is what the table holds (unknown name: no address)
AnswerFromTable == lk.st \in {"answered", "replied"} => lk.ans = Get(table, lk.n)
\* D2: only a running server on a powered node has answered
AnsweredByRunning == lk.st \in {"answered", "replied"} => (DsUp /\ dnsCfg[lk.c] = "d")
\* D3: a query is in flight only for a name the client does not know
AskedOnlyUncached == lk.st \in {"asked", "answered"} => lk.n \notin DOMAIN cache[lk.c]
\* D4: caches change only by a positive reply or the API
CacheOnlyByReplyOrAdd == [][cache' # cache => act'[1] \in {"DnsReply", "AddCache"}]_mvars
PositiveOnly == [][(act'[1] = "DnsReply" /\ lk.ans = "") => cache' = cache]_mvars
\* D5: a successful lookup means the name is known to a client that can act
LookupOkMeansKnown == [][(act'[1] = "LookupEnd" /\ act'[2]) => (DcUp(lk.c) /\ lk.n \in DOMAIN cache[lk.c])]_mvars
\* D5/D6: a fresh name is resolved only through a configured running server that knows it
FreshNeedsServer ==
    [][(act'[1] = "LookupEnd" /\ act'[2] /\ lk.st # "local") => (lk.st = "replied" /\ DsUp /\ lk.n \in DOMAIN table)]_mvars
\* W1: the address a request goes to is the cached address of its host, or the literal
ResolvedAddress == br.st \in {"resolved", "served", "responded"} =>
                       br.addr \in {Get(cache[br.c], br.host), br.lit} /\ br.addr # ""
\* W3: only a running web server on a powered node has served
ServedByRunning == br.st \in {"served", "responded"} => (WsUp /\ br.addr = "w")
\* W2: a users page is 200 only with a configured database client and a responsive database
Users200NeedsDb == (br.st \in {"served", "responded"} /\ br.path = "users" /\ br.code = 200) => (hasDb /\ dbUp)
Root200 == (br.st \in {"served", "responded"} /\ br.path = "") => br.code = 200
Other404 == (br.st \in {"served", "responded"} /\ br.path = "nope") => br.code = 404
\* W4: a 200 item enters the history only from a response of the running web server, and then the call succeeds
OkItemOnlyFromResponse ==
    [][\A c \in Clients : (hist'[c] # hist[c] /\ Last(hist'[c]) = 200) =>
           (br.st = "responded" /\ br.code = 200 /\ WsUp /\ act'[2])]_mvars
SuccessIff200 == [][act'[1] = "BrowseEnd" => (act'[2] <=> (hist'[br.c] # hist[br.c] /\ Last(hist'[br.c]) = 200))]_mvars
\* W6
DeadRecordsNothing == [][(act'[1] = "BrowseEnd" /\ ~BrUp(br.c)) => (hist' = hist /\ ~act'[2])]_mvars
\* W7
HistoryGrowsAtEnd == [][\A c \in Clients : hist'[c] = hist[c] \/ (Appended(c, hist'[c]) /\ act'[1] = "BrowseEnd")]_mvars
SentMeansRecorded == [][(act'[1] = "BrowseEnd" /\ br.st \in {"resolved", "served", "responded"}) => Len(hist'[br.c]) = Len(hist[br.c]) + 1]_mvars
\* W9
CodesPerStep == [][codes' = codes \/ (act'[1] = "Tick" /\ codes' = <<>>) \/ (act'[1] = "WebLog" /\ codes' = Append(codes, br.code))]_mvars
\* configuration never changes
ConfigFrozen == [][UNCHANGED cfgvars]_mvars

\* NEGATIVE (MC_DnsWebNeg.cfg): TLC must refute this - a lookup can succeed from the cache while the server is down
LookupNeedsLiveServer == [][(act'[1] = "LookupEnd" /\ act'[2]) => DsUp]_mvars
=============================================================================
