SPECIFICATION Spec
CONSTANTS
  MaxEnv = 12
  MaxScans = 6
  CheckFirst = TRUE
  Scanners = {"a", "b"}
  EnvPerScan = 2
  Vias = {"request", "api"}
INVARIANT TypeOK
INVARIANT EnvSane
INVARIANT InvPingScanExact
INVARIANT InvNeverDeadAddress
INVARIANT InvPortScanExact
INVARIANT InvNothingForDeadTargets
INVARIANT InvReconScansOnlyLiveHosts
INVARIANT InvResultInRequestOrder
INVARIANT InvPortsInRequestOrder
INVARIANT InvNotRunningReturnsNothing
INVARIANT InvRunningSucceeds
INVARIANT InvNoTrafficUnlessRunning
INVARIANT InvProbesBounded
INVARIANT InvFoundIsReported
PROPERTY MTargetsUntouched
PROPERTY MConfigNeverChanges
CHECK_DEADLOCK FALSE
