---------------------------- MODULE MC_Sessions ----------------------------
(* Exhaustive reference model for C16: one server, the clients in Clients, *)
(* all interleavings of account management, local / remote logins with     *)
(* right and wrong credentials, remote commands, logoffs, ticks up to and  *)
(* past the time-out, and power / terminal-service events on either end.   *)
(* Every action computes the *design's* outcome and post-state, hands them *)
(* to the module's action (Sessions!Do) and records the clauses of         *)
(* Sessions!Clauses that the design's step would break in `viol'.          *)
(* Actions are split by outcome so that TLC's coverage table shows that    *)
(* both the accepting and the refusing branch of every clause are reached. *)
EXTENDS Sessions, TLC

CONSTANTS Users, Passwords, NewPasswords, Clients0, MaxRemotes, Timeouts, MaxDepth, MaxSid,
          SimMode   \* TRUE only in the stimulus-generation cfg (MC_SessionsSim.cfg)

VARIABLES
    viol,   \* clauses broken by some step of the design so far
    last    \* SimMode only: the step counter and last event, so that refused attempts are not stuttering steps
            \* (TLC's simulator drops those) and every parameter choice is a distinct successor
mvars == <<svars, viol, last>>

AllOn == [c \in Clients0 |-> TRUE]

Init ==
    /\ viol = {} /\ last = <<0>>
    /\ \E mr \in MaxRemotes, to \in Timeouts :
         SessInit(mr, to, [u \in {"admin"} |-> [pw |-> "p", disabled |-> FALSE, admin |-> TRUE]],
                  Clients0, TRUE, TRUE, AllOn, AllOn)

Ev(name) == [name |-> name, c |-> "", u |-> "", p |-> "", np |-> "", adm |-> FALSE, ok |-> FALSE,
             exec |-> FALSE, sid |-> 0, node |-> "", post |-> Here]

\* SimMode only: thin out the refused attempts and the power-down events so that the random walks spend
\* most of their steps where sessions exist (no effect on the exhaustive run)
RefGate == ~SimMode \/ last[1] % 3 = 0
OffGate == ~SimMode \/ last[1] % 4 = 0
ChgGate == ~SimMode \/ last[1] % 3 = 1

Take(e) ==
    /\ Do(e)
    /\ viol' = viol \cup Failing(e)
    /\ last' = IF SimMode THEN <<last[1] + 1, e.name, e.c, e.u, e.p, e.np, e.adm, e.sid, e.node>> ELSE last

\* client c and the server can exchange frames / their terminals work
Reach(c) == srvOn /\ cliOn[c]
Terms(c) == srvTerm /\ cliTerm[c]
\* handles a reachable client drops when the server ends the sessions in S
DropHandles(S) == [c \in Clients0 |-> IF Reach(c) THEN conn[c] \ S ELSE conn[c]]

(* ---- accounts ---- *)
AddOK(u) == srvOn /\ u \notin DOMAIN users
DoAdd(u, pw, adm) ==
    LET ok == AddOK(u)
        U2 == IF ok THEN ExtendUsers(u, [pw |-> pw, disabled |-> FALSE, admin |-> adm]) ELSE users
    IN  Take([Ev("AddUser") EXCEPT !.u = u, !.p = pw, !.adm = adm, !.ok = ok, !.post = [Here EXCEPT !.users = U2]])
MAddUser(u, pw, adm)    == AddOK(u) /\ DoAdd(u, pw, adm)
MAddUserNo(u, pw, adm)  == RefGate /\ ~AddOK(u) /\ DoAdd(u, pw, adm)

DisableOK(u) == srvOn /\ u \in DOMAIN users /\ ~users[u].disabled /\ EnabledAdmins(users) # {u}
DoDisable(u) ==
    LET ok == DisableOK(u)
        U2 == IF ok THEN [users EXCEPT ![u].disabled = TRUE] ELSE users
    IN  Take([Ev("DisableUser") EXCEPT !.u = u, !.ok = ok, !.post = [Here EXCEPT !.users = U2]])
MDisableUser(u)   == DisableOK(u) /\ DoDisable(u)
MDisableUserNo(u) == RefGate /\ ~DisableOK(u) /\ DoDisable(u)

ChangeOK(u, cur) == srvOn /\ u \in DOMAIN users /\ users[u].pw = cur
DoChange(u, cur, new) ==
    LET ok == ChangeOK(u, cur)
        gone == {r \in remote : r.user = u}
        P == IF ok THEN [Here EXCEPT !.users = [users EXCEPT ![u].pw = new],
                                    !.rem = Strip(remote \ gone),
                                    !.conn = DropHandles(Sids(gone)),
                                    !.local = IF local = u THEN "" ELSE local]
             ELSE Here
    IN  Take([Ev("ChangePassword") EXCEPT !.u = u, !.p = cur, !.np = new, !.ok = ok, !.post = P])
MChangePassword(u, cur, new)   == ChgGate /\ ChangeOK(u, cur) /\ DoChange(u, cur, new)
MChangePasswordNo(u, cur, new) == RefGate /\ ~ChangeOK(u, cur) /\ DoChange(u, cur, new)

(* ---- logins ---- *)
LocalOK(u, p) == srvOn /\ srvTerm /\ Valid(u, p)
DoLocal(u, p) ==
    LET ok == LocalOK(u, p)
    IN  Take([Ev("LocalLogin") EXCEPT !.u = u, !.p = p, !.ok = ok, !.exec = ok,
                                      !.post = IF ok THEN [Here EXCEPT !.local = u] ELSE Here])
MLocalLogin(u, p)   == LocalOK(u, p) /\ DoLocal(u, p)
MLocalLoginNo(u, p) == RefGate /\ ~LocalOK(u, p) /\ DoLocal(u, p)

RemoteOK(c, u, p) == Reach(c) /\ Terms(c) /\ Valid(u, p) /\ Cardinality(remote) < maxRemote
DoRemote(c, u, p) ==
    LET ok == RemoteOK(c, u, p)
        s == nsid + 1
        P == IF ok THEN [Here EXCEPT !.rem = @ \cup {[sid |-> s, user |-> u, origin |-> c]},
                                    !.conn = [conn EXCEPT ![c] = @ \cup {s}]]
             ELSE Here
    IN  Take([Ev("RemoteLogin") EXCEPT !.c = c, !.u = u, !.p = p, !.ok = ok, !.post = P])
MRemoteLogin(c, u, p)   == RemoteOK(c, u, p) /\ DoRemote(c, u, p)
MRemoteLoginNo(c, u, p) == RefGate /\ ~RemoteOK(c, u, p) /\ DoRemote(c, u, p)

(* ---- remote terminal ---- *)
Handles(c) == IF conn[c] = {} THEN {0} ELSE conn[c]
ExecOK(c, s) == s # 0 /\ s \in Sids(remote) /\ Reach(c) /\ Terms(c)
DoCommand(c, s) ==
    LET ex == ExecOK(c, s)
        \* a reachable server tells the client that the session is gone: the client drops the handle
        P == IF s # 0 /\ s \notin Sids(remote) /\ Reach(c) /\ Terms(c)
             THEN [Here EXCEPT !.conn = [conn EXCEPT ![c] = @ \ {s}]] ELSE Here
    IN  Take([Ev("RemoteCommand") EXCEPT !.c = c, !.sid = s, !.ok = ex, !.exec = ex, !.post = P])
MRemoteCommand(c, s)   == s \in Handles(c) /\ ExecOK(c, s) /\ DoCommand(c, s)
Stale(c, s) == s # 0 /\ s \notin Sids(remote) /\ Reach(c) /\ Terms(c)
MRemoteCommandStale(c, s) == s \in Handles(c) /\ Stale(c, s) /\ DoCommand(c, s)
MRemoteCommandNo(c, s)    == RefGate /\ s \in Handles(c) /\ ~ExecOK(c, s) /\ ~Stale(c, s) /\ DoCommand(c, s)

LogoffOK(c, s) == s # 0 /\ cliOn[c] /\ cliTerm[c]
DoLogoff(c, s) ==
    LET ok == LogoffOK(c, s)
        P == IF ok THEN [Here EXCEPT !.conn = [conn EXCEPT ![c] = @ \ {s}],
                                    !.rem = IF Reach(c) THEN Strip({r \in remote : r.sid # s}) ELSE @]
             ELSE Here
    IN  Take([Ev("Logoff") EXCEPT !.c = c, !.sid = s, !.ok = ok, !.post = P])
MLogoff(c, s)   == s \in Handles(c) /\ LogoffOK(c, s) /\ DoLogoff(c, s)
MLogoffNo(c, s) == RefGate /\ s \in Handles(c) /\ ~LogoffOK(c, s) /\ DoLogoff(c, s)

(* ---- time ---- *)
TimedOut == {r \in remote : r.idle + 1 >= timeout}
DoTick == Take([Ev("Tick") EXCEPT !.ok = TRUE,
                    !.post = [Here EXCEPT !.rem = Strip(remote \ TimedOut), !.conn = DropHandles(Sids(TimedOut))]])
MTick        == TimedOut = {} /\ DoTick
MTickTimeout == TimedOut # {} /\ DoTick

(* ---- power / service ---- *)
Nodes == {"srv"} \cup Clients0
IsOn(n) == IF n = "srv" THEN srvOn ELSE cliOn[n]
TermUp(n) == IF n = "srv" THEN srvTerm ELSE cliTerm[n]
WithFlags(n, on, term) ==
    IF n = "srv" THEN [Here EXCEPT !.srvOn = on, !.srvTerm = term]
    ELSE [Here EXCEPT !.cliOn = [cliOn EXCEPT ![n] = on], !.cliTerm = [cliTerm EXCEPT ![n] = term]]
PowerEv(name, n, ok, P) == Take([Ev(name) EXCEPT !.node = n, !.ok = ok, !.post = P])

\* a node that goes down stops its services, a node that comes up starts them
OffOK(n)   == IsOn(n)
OnOK(n)    == ~IsOn(n)
StopOK(n)  == IsOn(n) /\ TermUp(n)
StartOK(n) == IsOn(n) /\ ~TermUp(n)
MNodeOff(n)        == OffGate /\ n \in Nodes /\ OffOK(n) /\ PowerEv("NodeOff", n, TRUE, WithFlags(n, FALSE, FALSE))
MNodeOn(n)         == n \in Nodes /\ OnOK(n) /\ PowerEv("NodeOn", n, TRUE, WithFlags(n, TRUE, TRUE))
MServiceStop(n)    == OffGate /\ n \in Nodes /\ StopOK(n) /\ PowerEv("ServiceStop", n, TRUE, WithFlags(n, TRUE, FALSE))
MServiceStart(n)   == n \in Nodes /\ StartOK(n) /\ PowerEv("ServiceStart", n, TRUE, WithFlags(n, TRUE, TRUE))
MNodeOffNo(n)      == RefGate /\ n \in Nodes /\ ~OffOK(n) /\ PowerEv("NodeOff", n, FALSE, Here)
MNodeOnNo(n)       == RefGate /\ n \in Nodes /\ ~OnOK(n) /\ PowerEv("NodeOn", n, FALSE, Here)
MServiceStopNo(n)  == RefGate /\ n \in Nodes /\ ~StopOK(n) /\ PowerEv("ServiceStop", n, FALSE, Here)
MServiceStartNo(n) == RefGate /\ n \in Nodes /\ ~StartOK(n) /\ PowerEv("ServiceStart", n, FALSE, Here)

\* steps that change the design's state (a refused request, a refused login and a refused logoff change
\* nothing, a command that is not executed may cost the client its stale handle)
Next ==
    \/ \E u \in Users, pw \in NewPasswords, adm \in BOOLEAN : MAddUser(u, pw, adm)
    \/ \E u \in Users : MDisableUser(u)
    \/ \E u \in Users, cur \in Passwords, new \in NewPasswords : MChangePassword(u, cur, new)
    \/ \E u \in Users, p \in Passwords : MLocalLogin(u, p)
    \/ \E c \in Clients0, u \in Users, p \in Passwords : MRemoteLogin(c, u, p)
    \/ \E c \in Clients0, s \in 0..MaxSid : MRemoteCommand(c, s) \/ MRemoteCommandStale(c, s)
    \/ \E c \in Clients0, s \in 0..MaxSid : MLogoff(c, s)
    \/ MTick \/ MTickTimeout
    \/ \E n \in Nodes : MNodeOff(n) \/ MNodeOn(n) \/ MServiceStop(n) \/ MServiceStart(n)

\* the refused attempts (wrong credentials, missing / disabled accounts, limit reached, unreachable or
\* stopped ends): stuttering steps of the design, taken in the exhaustive run only to evaluate the clauses
\* on them, and in the simulation runs as stimuli for the implementation
Refusals ==
    \/ \E u \in Users, pw \in NewPasswords, adm \in BOOLEAN : MAddUserNo(u, pw, adm)
    \/ \E u \in Users : MDisableUserNo(u)
    \/ \E u \in Users, cur \in Passwords, new \in NewPasswords : MChangePasswordNo(u, cur, new)
    \/ \E u \in Users, p \in Passwords : MLocalLoginNo(u, p)
    \/ \E c \in Clients0, u \in Users, p \in Passwords : MRemoteLoginNo(c, u, p)
    \/ \E c \in Clients0, s \in 0..MaxSid : MRemoteCommandNo(c, s) \/ MLogoffNo(c, s)
    \/ \E n \in Nodes : MNodeOffNo(n) \/ MNodeOnNo(n) \/ MServiceStopNo(n) \/ MServiceStartNo(n)

NextAll == Next \/ Refusals

\* stimulus generation: TLC's simulator picks an enabled disjunct uniformly, so the disjuncts that the
\* property is about (ticks up to and past the time-out, commands, coming back up) are listed several times
NextSim ==
    \/ NextAll
    \/ MTick \/ MTickTimeout
    \/ MTick \/ MTickTimeout
    \/ MTick \/ MTickTimeout
    \/ \E c \in Clients0, s \in 0..MaxSid : MRemoteCommand(c, s) \/ MRemoteCommandStale(c, s) \/ MRemoteCommandNo(c, s)
    \/ \E c \in Clients0, s \in 0..MaxSid : MRemoteCommand(c, s) \/ MRemoteCommandStale(c, s) \/ MRemoteCommandNo(c, s)
    \/ \E c \in Clients0, u \in Users, p \in Passwords : MRemoteLogin(c, u, p)
    \/ \E c \in Clients0, u \in Users, p \in Passwords : MRemoteLogin(c, u, p)
    \/ \E n \in Nodes : MNodeOn(n) \/ MServiceStart(n)
    \/ \E n \in Nodes : MNodeOn(n) \/ MServiceStart(n)

Spec == Init /\ [][Next]_mvars
SimSpec == Init /\ [][NextSim]_mvars

Bound == TLCGet("level") <= MaxDepth /\ nsid <= MaxSid

-----------------------------------------------------------------------------
\* one invariant per clause: the design never takes a step that breaks it
C_LoginNeedsCredentials == "LoginNeedsCredentials" \notin viol
C_LoginNeedsPower       == "LoginNeedsPower" \notin viol
C_LoginRespectsLimit    == "LoginRespectsLimit" \notin viol
C_RemoteBound           == "RemoteBound" \notin viol
C_ExecOnlyIfLive        == "ExecOnlyIfLive" \notin viol
C_NoExecAfterEnd        == "NoExecAfterEnd" \notin viol
C_LastAdminStays        == "LastAdminStays" \notin viol
C_Binding               == viol \cap {"UsersAsSpecified", "SessionsOnlyByLogin", "HandlesOnlyByLogin",
                                      "LocalOnlyByLogin"} = {}
\* design level: once ended, no client is able to run a command through that session again
InvEndedUnable == \A c \in Clients0, s \in ended : ~Able(c, s)
=============================================================================
