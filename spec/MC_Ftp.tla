------------------------------ MODULE MC_Ftp ------------------------------
(* Exhaustive model of Ftp.tla: the design (every handler answers as the contract says) over one or two   *)
(* clients, two paths, all service verbs, power, port blocking, file creation / deletion and ticks.        *)
(* AsCoded = TRUE adds the reply the code gives to a RETR whose file was not stored by the client; TLC     *)
(* must refute OkOnlyOnSuccess there (negative configuration MC_FtpAsCoded.cfg).                          *)
EXTENDS Ftp, TLC
CONSTANTS ClientSets, AllClients, Paths, Verbs, MaxEnv, AsCoded
VARIABLE n   \* number of API calls and environment steps taken (bounds the exploration)
mvars == <<fvars, n>>

ExtOf == [p \in Paths |-> IF p = "d/a.txt" THEN "txt" ELSE IF p = "e/b.pdf" THEN "pdf" ELSE ""]
TypeByExt(p) == IF ExtOf[p] = "txt" THEN "TXT" ELSE IF ExtOf[p] = "pdf" THEN "PDF" ELSE "UNKNOWN"
NewFile(p) == [size |-> 3, health |-> "GOOD", type |-> TypeByExt(p)]
InitFs(nd) == IF nd = "c1" THEN ("d/a.txt" :> [size |-> 1, health |-> "GOOD", type |-> "TXT"])
              ELSE IF nd = "c2" THEN ("d/a.txt" :> [size |-> 2, health |-> "CORRUPT", type |-> "TXT"])
              ELSE <<>>

Init ==
    /\ n = 0
    /\ \E cl \in ClientSets :
          FtpInit(cl, ExtOf, [nd \in cl \cup {Server} |-> InitFs(nd)], [nd \in cl \cup {Server} |-> TRUE],
                  [nd \in cl \cup {Server} |-> "RUNNING"], "open", {}, [nd \in cl \cup {Server} |-> FALSE])

EnvStep == n < MaxEnv /\ n' = n + 1
Same == n' = n

\* ---- API calls (stimulus)
MBegin(c, kind, src, dst) == c \in clients /\ EnvStep /\ Begin(c, kind, src, dst, [active EXCEPT ![c] = TRUE])

\* ---- the design's handlers, in the order the protocol prescribes
C == call.c
CanExchange == Running(C) /\ Running(Server) /\ net = "open"
TyOf(f) == IF ExtOf[call.src] = ExtOf[call.dst] THEN f.type ELSE TypeByExt(call.dst)
MSrvPort ==
    /\ Open /\ ~call.fault /\ call.last = "Begin" /\ CanExchange /\ (call.kind = "send" => Has(C, call.src))
    /\ SrvPort(C, "OK", active) /\ Same
MSrvStor ==
    /\ Open /\ ~call.fault /\ call.kind = "send" /\ call.last = "SrvPort"
    /\ SrvStor(C, IF Has(Server, call.dst) THEN "ERROR" ELSE "OK", TyOf(fs[C][call.src]), [active EXCEPT ![Server] = TRUE]) /\ Same
MSrvQuit ==
    /\ Open /\ call.last = "SrvStor" /\ call.stor
    /\ SrvQuit(C, "OK", active) /\ Same
MCliData ==
    /\ Open /\ ~call.fault /\ call.kind = "retr" /\ call.last = "SrvPort" /\ Has(Server, call.src)
    /\ CliData(C, TyOf(fs[Server][call.src]), [active EXCEPT ![Server] = TRUE]) /\ Same
MSrvRetr ==
    /\ Open /\ call.kind = "retr"
    /\ \/ call.last = "CliData"
       \/ (call.last = "SrvPort" /\ (~Has(Server, call.src) \/ call.fault))
    /\ SrvRetr(C, IF call.data THEN "OK" ELSE "ERROR", [active EXCEPT ![Server] = TRUE]) /\ Same
MReturn ==
    /\ Open
    /\ IF call.kind = "send"
       THEN \/ (call.last = "Begin" /\ ~(CanExchange /\ Has(C, call.src)))
            \/ (call.last = "SrvStor" /\ ~call.stor)
            \/ call.last = "SrvQuit"
            \/ call.fault
       ELSE \/ (call.last = "Begin" /\ (~CanExchange \/ call.fault))
            \/ call.last = "SrvRetr"
    /\ Return(C, call.kind, Delivered, active) /\ Same
\* the environment fault: the frame that is about to be sent (PORT, or the data of STOR / RETR) is refused by the
\* sender's interface - the link has no capacity left in this timestep
MSendFail ==
    /\ Open /\ ~call.fault /\ CanExchange
    /\ \/ (call.last = "Begin" /\ (call.kind = "send" => Has(C, call.src)))
       \/ (call.last = "SrvPort" /\ (call.kind = "retr" => Has(Server, call.src)))
    /\ SendFail(C, IF call.kind = "retr" /\ call.last = "SrvPort" THEN "server" ELSE "client", active) /\ Same
\* as coded: the RETR reply is OK whenever the file was found, stored by the client or not
CodedRetrReturn ==
    /\ AsCoded /\ Open /\ call.kind = "retr" /\ call.last = "SrvRetr" /\ call.found /\ ~call.data
    /\ call' = [call EXCEPT !.stage = "closed", !.ok = TRUE, !.last = "Return"]
    /\ UNCHANGED <<clients, ext, fs, on, op, net, sConn, active, pre>> /\ Same

\* ---- environment
MSvcReq(nd, verb) == nd \in Nodes /\ EnvStep /\ SvcReq(nd, verb, IF on[nd] THEN Target(verb, op[nd]) ELSE op[nd])
MPower(nd) == nd \in Nodes /\ EnvStep /\ Power(nd, ~on[nd])
MBlock == EnvStep /\ Block(net = "open")
MCreateFile(nd, p) == nd \in Nodes /\ EnvStep /\ CreateFile(nd, p, NewFile(p))
MDeleteFile(nd, p) == nd \in Nodes /\ EnvStep /\ DeleteFile(nd, p)
MTick == EnvStep /\ Tick /\ (\E nd \in Nodes : active[nd])

Next ==
    \/ \E c \in AllClients, k \in {"send", "retr"}, s \in Paths, d \in Paths : MBegin(c, k, s, d)
    \/ MSrvPort \/ MSrvStor \/ MSrvQuit \/ MCliData \/ MSrvRetr \/ MReturn \/ MSendFail \/ CodedRetrReturn
    \/ \E nd \in AllClients \cup {Server}, v \in Verbs : MSvcReq(nd, v)
    \/ \E nd \in AllClients \cup {Server} : MPower(nd)
    \/ MBlock
    \/ \E nd \in AllClients \cup {Server}, p \in Paths : MCreateFile(nd, p) \/ MDeleteFile(nd, p)
    \/ MTick
Spec == Init /\ [][Next]_mvars
=============================================================================
