SPECIFICATION Spec
CONSTANTS
  FolderNames = {"f", "g"}
  FileNames = {"a.txt", "b.txt", "c.txt"}
  MaxItems = 9
  MaxDepth = 30
INVARIANT InvUniqueLiveNames
CHECK_DEADLOCK FALSE
