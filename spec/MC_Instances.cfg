SPECIFICATION Spec
CONSTANTS
  Inst = {"A", "B"}
  Opts = {"x", "y"}
  Variant = "design"
  MaxOps = 8
INVARIANT NonInterference
VIEW View2
CHECK_DEADLOCK FALSE
