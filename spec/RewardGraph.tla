---------------------------- MODULE RewardGraph ----------------------------
(***************************************************************************)
(* Reward sharing between agents and the per-step reward bookkeeping.      *)
(* Property C10.                                                           *)
(*                                                                         *)
(* Agents are small integers.  `decl' is the order in which the scenario   *)
(* declares them, `g' the sharing digraph: <<a, b>> \in g  iff  a has a    *)
(* shared-reward component naming b ("a shares b's reward"), `wt[<<a,b>>]' *)
(* the (summed) weight of those components.  All three are configuration   *)
(* variables: no action changes them, so one TLC run sweeps every graph    *)
(* and one trace batch mixes scenarios.                                    *)
(*                                                                         *)
(* Vocabulary: Load = PrimaiteGame.from_config (setup_reward_sharing):     *)
(* accept or reject the scenario and fix the evaluation order;  StepR =    *)
(* one game step as seen by the rewards (update_agents): every agent gets  *)
(* a step reward, totals accumulate.                                       *)
(*                                                                         *)
(* Part 1 (pure):  HasCycleDecl / DepsFirst are the *declarative*          *)
(* requirements of the statement;  CodeHasCycle / EvalOrderN are           *)
(* transcriptions of science.py graph_has_cycle / topological_sort, so     *)
(* that TLC can compare the two on every digraph.                          *)
(***************************************************************************)
EXTENDS Integers, Sequences, FiniteSets

VARIABLES
    decl,      \* sequence of agents in declaration order (configuration)
    g,         \* sharing digraph, a set of pairs <<sharer, sharee>> (configuration)
    wt,        \* weight of every edge of g (configuration)
    phase,     \* "new" -> "run" | "rejected"
    accepted,  \* the loader's verdict (meaningful once phase # "new")
    order,     \* evaluation order fixed by the loader
    own,       \* the agents' own (non-shared) reward of the latest step
    cur,       \* step reward of every agent after the latest step
    tot,       \* the total the implementation reports
    sum,       \* ghost: sum of the step rewards so far
    n          \* number of steps taken

rvars == <<decl, g, wt, phase, accepted, order, own, cur, tot, sum, n>>
cfgvars == <<decl, g, wt>>

-----------------------------------------------------------------------------
(* generic helpers *)

Range(s) == {s[i] : i \in DOMAIN s}
Agents == Range(decl)
Pos(s, x) == CHOOSE i \in DOMAIN s : s[i] = x
IsPermOf(s, S) == Len(s) = Cardinality(S) /\ Range(s) = S

RECURSIVE SumOver(_, _)
\* sum of f[x] over the finite set S (f a function with S in its domain)
SumOver(S, f) == IF S = {} THEN 0 ELSE LET x == CHOOSE y \in S : TRUE IN f[x] + SumOver(S \ {x}, f)

OutEdges(gg, a) == {e \in gg : e[1] = a}
Succs(gg, a) == {e[2] : e \in OutEdges(gg, a)}

-----------------------------------------------------------------------------
(* Part 1a - declarative requirements *)

\* there is a non-empty path from some node to itself (a self loop is one).
\* A shortest such path repeats no inner node: at most |V| edges.
HasCycleDecl(V, gg) ==
    \E k \in 1..Cardinality(V) :
        \E p \in [1..(k + 1) -> V] :
            /\ p[1] = p[k + 1]
            /\ \A i \in 1..k : <<p[i], p[i + 1]>> \in gg

\* the same thing through the transitive closure (nodes reachable by >= 1 edge): polynomial, for
\* scenarios with many agents; MC_RewardGraph checks that it agrees with HasCycleDecl
RECURSIVE ReachPlus(_, _, _)
ReachPlus(gg, R, k) == IF k = 0 THEN R ELSE ReachPlus(gg, R \cup {e[2] : e \in {x \in gg : x[1] \in R}}, k - 1)
HasCycleTC(V, gg) == \E a \in V : a \in ReachPlus(gg, Succs(gg, a), Cardinality(V))
Cyclic(V, gg) == IF Cardinality(V) <= 4 THEN HasCycleDecl(V, gg) ELSE HasCycleTC(V, gg)

\* every agent is evaluated exactly once, and every sharee before its sharer
DepsFirst(ord, V, gg) ==
    /\ IsPermOf(ord, V)
    /\ \A e \in gg : (e[1] \in V /\ e[2] \in V) => Pos(ord, e[2]) < Pos(ord, e[1])

-----------------------------------------------------------------------------
(* Part 1b - the code, transcribed.                                          *)
(* `graph' in the code is a dict name -> set of names built in declaration   *)
(* order; "for node in graph" therefore follows `d', and "for neighbour in   *)
(* graph.get(node, [])" follows the iteration order of a Python set, which   *)
(* the code does not control: it is the parameter `nord' (a sequence holding *)
(* every agent once; the neighbours of a node are visited in the order in    *)
(* which they occur in nord).                                                *)

NbSeq(gg, nord, a) == SelectSeq(nord, LAMBDA b : <<a, b>> \in gg)

RECURSIVE CDfs(_, _, _, _), CLoop(_, _, _, _, _)
\* depth_first_search(node) of graph_has_cycle; st = [found, visited, visiting]
CDfs(gg, nord, node, st) ==
    IF node \in st.visiting THEN [st EXCEPT !.found = TRUE]
    ELSE IF node \in st.visited THEN st
    ELSE LET st1 == [found |-> FALSE,
                     visited |-> st.visited \cup {node},
                     visiting |-> st.visiting \cup {node}]
             st2 == CLoop(gg, nord, NbSeq(gg, nord, node), 1, st1)
         IN  IF st2.found THEN st2 ELSE [st2 EXCEPT !.visiting = @ \ {node}]
\* a "for x in s: if depth_first_search(x): return True" loop
CLoop(gg, nord, s, i, st) ==
    IF i > Len(s) THEN st
    ELSE LET r == CDfs(gg, nord, s[i], st)
         IN  IF r.found THEN r ELSE CLoop(gg, nord, s, i + 1, r)

CodeHasCycle(d, nord, gg) ==
    CLoop(gg, nord, d, 1, [found |-> FALSE, visited |-> {}, visiting |-> {}]).found

RECURSIVE TDfs(_, _, _, _), TLoop(_, _, _, _, _)
\* dfs(node) of topological_sort; st = [visited, stack]
TDfs(gg, nord, node, st) ==
    IF node \in st.visited THEN st
    ELSE LET st1 == [st EXCEPT !.visited = @ \cup {node}]
             st2 == TLoop(gg, nord, NbSeq(gg, nord, node), 1, st1)
         IN  [st2 EXCEPT !.stack = Append(@, node)]
TLoop(gg, nord, s, i, st) ==
    IF i > Len(s) THEN st ELSE TLoop(gg, nord, s, i + 1, TDfs(gg, nord, s[i], st))

\* the list topological_sort returns (= game._reward_calculation_order)
EvalOrderN(d, nord, gg) == TLoop(gg, nord, d, 1, [visited |-> {}, stack |-> <<>>]).stack
EvalOrder(d, gg) == EvalOrderN(d, d, gg)

-----------------------------------------------------------------------------
(* Part 2 - one step of reward evaluation *)

\* the same-step equations: what the statement says a step reward is
SharedPart(gg, w, c, a) == SumOver(OutEdges(gg, a), [e \in OutEdges(gg, a) |-> w[e] * c[e[2]]])
SatisfiesSameStep(ownv, c) == \A a \in Agents : c[a] = ownv[a] + SharedPart(g, wt, c, a)

RECURSIVE Sol(_, _)
\* their unique solution on an acyclic graph (declaration order does not occur in it)
Sol(ownv, a) ==
    ownv[a] + SumOver(OutEdges(g, a), [e \in OutEdges(g, a) |-> wt[e] * Sol(ownv, e[2])])

RECURSIVE EvalIn(_, _, _, _)
\* the code: agents are visited in `ord'; a shared component reads whatever the sharee's
\* current reward is at that moment (`c' starts as the previous step's rewards)
EvalIn(ord, i, ownv, c) ==
    IF i > Len(ord) THEN c
    ELSE LET a == ord[i]
         IN  EvalIn(ord, i + 1, ownv, [c EXCEPT ![a] = ownv[a] + SharedPart(g, wt, c, a)])

\* a sticky-capable component: without a qualifying event a sticky one repeats its previous
\* value and a non-sticky one yields zero; with one the statement leaves the value open
StickyOK(sticky, qualifying, prev, v) == ~qualifying => v = (IF sticky THEN prev ELSE 0)

-----------------------------------------------------------------------------
(* actions; the logged post-values are parameters *)

RInit(d, gg, w) ==
    /\ decl = d /\ g = gg /\ wt = w
    /\ phase = "new" /\ accepted = FALSE /\ order = <<>>
    /\ own = [a \in Range(d) |-> 0]
    /\ cur = [a \in Range(d) |-> 0]
    /\ tot = [a \in Range(d) |-> 0]
    /\ sum = [a \in Range(d) |-> 0]
    /\ n = 0

\* the scenario is loaded: accepted (with an evaluation order) or rejected
Load(acc, ord) ==
    /\ phase = "new"
    /\ accepted' = acc
    /\ order' = ord
    /\ phase' = IF acc THEN "run" ELSE "rejected"
    /\ UNCHANGED <<decl, g, wt, own, cur, tot, sum, n>>

\* one game step: own rewards `ownv', resulting step rewards `c', reported totals `t'
StepR(ownv, c, t) ==
    /\ phase = "run"
    /\ own' = ownv /\ cur' = c /\ tot' = t
    /\ sum' = [a \in Agents |-> sum[a] + c[a]]
    /\ n' = n + 1
    /\ UNCHANGED <<decl, g, wt, phase, accepted, order>>

-----------------------------------------------------------------------------
(* C10 clauses (exact arithmetic; the trace spec restates them with slack) *)

LoadIffAcyclic  == phase # "new" => (accepted <=> ~HasCycleDecl(Agents, g))
OrderDepsFirst  == phase = "run" => DepsFirst(order, Agents, g)
SameStepShared  == (phase = "run" /\ n > 0) => SatisfiesSameStep(own, cur)
CurIsSolution   == (phase = "run" /\ n > 0) => \A a \in Agents : cur[a] = Sol(own, a)
TotalIsSum      == tot = sum

=============================================================================
