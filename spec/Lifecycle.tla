------------------------------ MODULE Lifecycle ------------------------------
(***************************************************************************)
(* History generator: the product of a node's power state with the life    *)
(* cycle of ONE component on it (a service, an application or a file in a  *)
(* folder), seen at the grain of the agent interface: one action = one     *)
(* agent action followed by one tick (what PrimaiteGymEnv.step does).      *)
(*                                                                         *)
(* Purpose: many listed properties quantify over "all reachable            *)
(* simulation states" (nodes off/booting, services stopped/disabled/being  *)
(* fixed, files deleted, software uninstalled).  TLC's state graph of this *)
(* module is turned into a TRANSITION TOUR - every (state, action) edge is *)
(* taken at least once, transients are left to run out after each newly    *)
(* covered edge - and the tour is executed through the real environment    *)
(* (harness/tour.py), where the property's own trace specification is the  *)
(* oracle.  The module is deliberately coarse: it decides nothing by       *)
(* itself and its faithfulness is not relied on (a wrong guess here only   *)
(* costs coverage); the component models (NodePower, Software, Health,     *)
(* FileSystem) are the precise ones.                                       *)
(***************************************************************************)
EXTENDS Naturals

CONSTANTS Facet,      \* "svc" | "app" | "fs"
          PowDur,     \* node start-up / shut-down duration (ticks)
          FixDur,     \* software fixing duration
          RestDur,    \* service restart / file restore duration
          InstDur     \* application install duration

VARIABLES pw,   \* node power: "ON" "SD" "OFF" "BOOT"
          pc,   \* power countdown
          rs,   \* the shutdown in progress is a reset
          op,   \* component operating state
          oc,   \* its countdown (restart / install / restore)
          hs,   \* component health
          fc,   \* fix countdown
          act   \* the last action (labels the edge for the tour)
vars == <<pw, pc, rs, op, oc, hs, fc, act>>

PowerActs == {"node-shutdown", "node-startup", "node-reset", "do-nothing", "red-compromise"}
SvcActs == {"node-service-stop", "node-service-start", "node-service-pause", "node-service-resume",
            "node-service-restart", "node-service-disable", "node-service-enable", "node-service-fix",
            "node-service-scan"}
AppActs == {"node-application-execute", "node-application-close", "node-application-fix",
            "node-application-scan", "node-application-remove", "node-application-install"}
FsActs == {"node-file-create", "node-file-delete", "node-file-restore", "node-file-corrupt", "node-file-repair",
           "node-file-scan", "node-file-checkhash", "node-file-access", "node-folder-scan", "node-folder-repair",
           "node-folder-restore", "node-folder-checkhash", "node-folder-create"}
\* facet "ssh": a remote terminal session from the node (the client side) to a server; op = "NONE" | "OPEN" is whether the
\* client holds a connection handle (history generator only, like "fs")
SshActs == {"node-session-remote-login", "node-send-remote-command", "node-session-remote-logoff", "node-account-change-password"}
Acts == PowerActs \cup (CASE Facet = "svc" -> SvcActs [] Facet = "app" -> AppActs [] Facet = "ssh" -> SshActs [] OTHER -> FsActs)

InitOp == CASE Facet = "svc" -> "RUNNING" [] Facet = "app" -> "RUNNING" [] Facet = "ssh" -> "NONE" [] OTHER -> "NOFOLDER"

Init == /\ pw = "ON" /\ pc = 0 /\ rs = FALSE
        /\ op = InitOp /\ oc = 0 /\ hs = "GOOD" /\ fc = 0 /\ act = "init"

(* ---- the agent's request (only a node that is ON takes requests other than startup) ---- *)
SvcReq(a) ==   \* (service.py: the request validators and stop / start / pause / resume / restart / disable / enable / fix)
    CASE a = "node-service-stop"    /\ op = "RUNNING"  -> [o |-> "STOPPED", c |-> oc, h |-> hs, f |-> fc]
      [] a = "node-service-start"   /\ op = "STOPPED"  -> [o |-> "RUNNING", c |-> oc, h |-> hs, f |-> fc]
      [] a = "node-service-pause"   /\ op = "RUNNING"  -> [o |-> "PAUSED", c |-> oc, h |-> hs, f |-> fc]
      [] a = "node-service-resume"  /\ op = "PAUSED"   -> [o |-> "RUNNING", c |-> oc, h |-> hs, f |-> fc]
      [] a = "node-service-restart" /\ op = "RUNNING"  -> [o |-> "RESTARTING", c |-> RestDur, h |-> hs, f |-> fc]
      [] a = "node-service-disable"                     -> [o |-> "DISABLED", c |-> oc, h |-> hs, f |-> fc]
      [] a = "node-service-enable"  /\ op = "DISABLED" -> [o |-> "STOPPED", c |-> oc, h |-> hs, f |-> fc]
      [] a = "node-service-fix"     /\ op = "RUNNING" /\ hs \in {"GOOD", "COMPROMISED"}
                                                        -> [o |-> op, c |-> oc, h |-> "FIXING", f |-> FixDur]
      [] OTHER -> [o |-> op, c |-> oc, h |-> hs, f |-> fc]

AppReq(a) ==   \* (application.py: scan / close / fix need a RUNNING application; install / remove at the node)
    CASE a = "node-application-close"   /\ op = "RUNNING" -> [o |-> "CLOSED", c |-> oc, h |-> hs, f |-> fc]
      [] a = "node-application-fix"     /\ op = "RUNNING" /\ hs \in {"GOOD", "COMPROMISED"}
                                                           -> [o |-> op, c |-> oc, h |-> "FIXING", f |-> FixDur]
      [] a = "node-application-remove"  /\ op # "ABSENT"  -> [o |-> "ABSENT", c |-> 0, h |-> "GOOD", f |-> 0]
      [] a = "node-application-install" /\ op = "ABSENT"  -> [o |-> "INSTALLING", c |-> InstDur, h |-> "GOOD", f |-> 0]
      [] OTHER -> [o |-> op, c |-> oc, h |-> hs, f |-> fc]

FsReq(a) ==    \* (file_system.py / folder.py / file.py through the agent actions; op: the file t.txt of folder tourf;
               \*  fc: deleted files of that name in the folder - 0 / 1 (one or more) next to a live file, 1 / 2 (two or more) otherwise)
    CASE a = "node-folder-create"  /\ op = "NOFOLDER" -> [o |-> "ABSENT", c |-> 0, h |-> "GOOD", f |-> 0]
      [] a = "node-file-create"    /\ op \in {"NOFOLDER", "ABSENT"}
                                                       -> [o |-> "PRESENT", c |-> oc, h |-> "GOOD", f |-> 0]
      [] a = "node-file-create"    /\ op = "DELETED"  -> [o |-> "PRESENT", c |-> oc, h |-> "GOOD", f |-> 1]
      [] a = "node-file-delete"    /\ op = "PRESENT"  -> [o |-> "DELETED", c |-> oc, h |-> hs, f |-> fc + 1]
      \* (the agent action reaches live files only: a deleted file comes back through a folder restore)
      [] a = "node-file-restore"   /\ op = "PRESENT" /\ hs = "CORRUPT" -> [o |-> op, c |-> oc, h |-> "GOOD", f |-> fc]
      [] a = "node-file-corrupt"   /\ op = "PRESENT"  -> [o |-> op, c |-> oc, h |-> "CORRUPT", f |-> fc]
      [] a = "node-file-repair"    /\ op = "PRESENT"  -> [o |-> op, c |-> oc, h |-> "GOOD", f |-> fc]
      [] a = "node-folder-repair"  /\ op = "PRESENT"  -> [o |-> op, c |-> oc, h |-> "GOOD", f |-> fc]
      [] a = "node-folder-restore" /\ op # "NOFOLDER" /\ oc = 0 -> [o |-> op, c |-> RestDur, h |-> hs, f |-> fc]
      [] OTHER -> [o |-> op, c |-> oc, h |-> hs, f |-> fc]

SshReq(a) ==
    CASE a = "node-session-remote-login"  /\ op = "NONE" -> [o |-> "OPEN", c |-> oc, h |-> hs, f |-> fc]
      [] a = "node-session-remote-logoff" /\ op = "OPEN" -> [o |-> "NONE", c |-> oc, h |-> hs, f |-> fc]
      [] OTHER -> [o |-> op, c |-> oc, h |-> hs, f |-> fc]

Req(a) == CASE Facet = "svc" -> SvcReq(a) [] Facet = "app" -> AppReq(a) [] Facet = "ssh" -> SshReq(a) [] OTHER -> FsReq(a)

Compromise == IF Facet = "fs" THEN (IF op = "PRESENT" THEN "CORRUPT" ELSE hs)
              ELSE (IF op = "RUNNING" /\ hs \in {"GOOD", "FIXING"} THEN "COMPROMISED" ELSE hs)  \* (mid-fix too: the countdown goes stale)

(* ---- one tick, applied to the state (p, c, r) of the node and (o, k, h, f) of the component ---- *)
Dec(x) == IF x > 0 THEN x - 1 ELSE 0
\* the node reaches OFF: services are stopped, applications closed (a restart / an installation in flight is left as it is)
OffOp(o) == CASE Facet = "svc" /\ o \in {"RUNNING", "PAUSED"} -> "STOPPED"
              [] Facet = "app" /\ o = "RUNNING" -> "CLOSED"
              [] OTHER -> o
\* the node reaches ON: stopped services are started, closed applications run
BootOp(o) == CASE Facet = "svc" /\ o = "STOPPED" -> "RUNNING"
               [] Facet = "app" /\ o = "CLOSED" -> "RUNNING"
               [] OTHER -> o
BootHs(o, h) == IF o \in {"STOPPED", "CLOSED"} /\ h = "UNUSED" THEN "GOOD" ELSE h
\* a countdown set to d: the restart completes on the tick that finds it at 0, the installation on the tick that takes it to 0
TimedOp(o, k) == CASE o = "RESTARTING" /\ k = 0 -> "RUNNING"
                   [] o = "INSTALLING" /\ k <= 1 -> "RUNNING"
                   [] OTHER -> o

Step(a) ==
    LET on  == pw = "ON"
        q   == IF on THEN Req(a) ELSE [o |-> op, c |-> oc, h |-> hs, f |-> fc]
        h1  == IF a = "red-compromise" /\ on /\ Facet # "ssh" THEN Compromise ELSE q.h
        \* the power request
        p1  == CASE a = "node-shutdown" /\ on -> IF PowDur = 0 THEN "OFF" ELSE "SD"
                 [] a = "node-reset"    /\ on -> IF PowDur = 0 THEN "OFF" ELSE "SD"
                 [] a = "node-startup"  /\ pw = "OFF" -> IF PowDur = 0 THEN "ON" ELSE "BOOT"
                 [] OTHER -> pw
        c1  == IF p1 # pw THEN PowDur ELSE pc
        r1  == IF a = "node-reset" /\ on THEN TRUE ELSE IF p1 # pw THEN FALSE ELSE rs
        \* the tick
        \* (a countdown set to d is decremented d times and the transition completes on the tick after: d + 1 ticks)
        p2  == CASE p1 = "SD"   /\ c1 = 0 -> (IF r1 THEN "BOOT" ELSE "OFF")
                 [] p1 = "BOOT" /\ c1 = 0 -> "ON"
                 [] OTHER -> p1
        c2  == IF p2 # p1 THEN (IF p2 = "BOOT" THEN PowDur ELSE 0) ELSE Dec(c1)
        off == p1 = "SD" /\ p2 # "SD"                     \* the node passes through OFF in this tick
        on2 == (p1 = "BOOT" /\ p2 = "ON")                   \* the node comes up in this tick
        o0  == IF Facet = "ssh" /\ a = "node-account-change-password" THEN "NONE" ELSE IF off THEN OffOp(q.o) ELSE q.o
        o1  == IF on2 THEN BootOp(o0) ELSE o0
        h0  == IF on2 THEN BootHs(o0, h1) ELSE h1
        live == p2 = "ON"                                   \* software gets this tick iff the node is ON after its power step
        ticking == live /\ (Facet = "fs" \/ o1 \in {"RESTARTING", "INSTALLING"})
        fsdone == Facet = "fs" /\ live /\ q.c = 1       \* a folder restore completes on the tick that takes its countdown to 0
        o2  == IF fsdone /\ o1 = "DELETED" THEN "PRESENT" ELSE IF live THEN TimedOp(o1, q.c) ELSE o1
        k2  == IF ticking THEN Dec(q.c) ELSE q.c
        fixing == Facet # "fs" /\ live /\ h0 = "FIXING" /\ o1 # "ABSENT"
        f2  == IF Facet = "fs" THEN (IF fsdone /\ o1 = "DELETED" THEN q.f - 1 ELSE q.f)
               ELSE IF fixing THEN (IF q.f <= 1 THEN 0 ELSE q.f - 1) ELSE q.f
        \* (a folder restore repairs the live file; of the deleted files of one name the one deleted last is un-deleted as it
        \*  was, and every further deleted file of that name "restores" - i.e. repairs - the now live one)
        h2  == IF fsdone /\ ((o1 = "PRESENT" /\ h0 = "CORRUPT") \/ (o1 = "DELETED" /\ q.f >= 2)) THEN "GOOD"
               ELSE IF fixing /\ q.f <= 1 THEN "GOOD"
               ELSE IF live /\ o1 = "INSTALLING" /\ q.c <= 1 THEN "GOOD" ELSE h0
    IN  /\ pw' = p2 /\ pc' = c2 /\ rs' = (r1 /\ p2 = "SD")
        /\ op' = o2 /\ oc' = k2 /\ hs' = h2 /\ fc' = f2 /\ act' = a

Next == \E a \in Acts : Step(a)
Spec == Init /\ [][Next]_vars

TypeOK == /\ pw \in {"ON", "SD", "OFF", "BOOT"} /\ pc \in 0..PowDur /\ rs \in BOOLEAN
          /\ oc \in 0..(RestDur + InstDur) /\ fc \in 0..FixDur
=============================================================================
