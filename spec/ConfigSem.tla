------------------------------ MODULE ConfigSem ------------------------------
(* C20 - the meaning of a scenario file.                                     *)
(*                                                                           *)
(* A FACT is a record [kind, key, val]: kind names what it talks about,      *)
(* key identifies the item (<<hostname, ...>>), val carries its attributes.  *)
(* All components are strings.  In a DECLARED fact "" means "the file does   *)
(* not state this attribute"; in an EXPECTED fact "*" (ANY) means "neither   *)
(* the file nor the documentation pins this attribute".                      *)
(*                                                                           *)
(*   kind        key                         val                             *)
(*   node        <<h>>                       <<type, opstate, startup, shutdown>> *)
(*   nodeopt     <<h, option>>               <<value>>   (default_gateway, dns_server, frequency) *)
(*   nports      <<h>>                       <<number of interfaces>>        *)
(*   nic         <<h, port>>                 <<ip, mask>>                    *)
(*   link        <<h1, p1, h2, p2>> (sorted) <<bandwidth in kbit>>           *)
(*   route       <<h, address, mask, hop>>   <<metric * 1000>>               *)
(*   defroute    <<h>>                       <<next hop>>                    *)
(*   acl         <<h, list, position>>       <<action, proto, srcip, srcwc, dstip, dstwc, srcport, dstport>> *)
(*   aclimplicit <<h, list>>                 <<action>>                      *)
(*   software    <<h, name>>                 <<"service" | "application">>   *)
(*   opt         <<h, name, option>>         <<value>>                       *)
(*   user        <<h, username>>             <<password, is_admin>>          *)
(*   folder      <<h, folder>>               <<>>                            *)
(*   file        <<h, folder, file>>         <<size, type>>                  *)
(*   agent       <<ref>>                     <<type, team, |action map|>>    *)
(*   count       <<"nodes"|"links"|"agents">> <<n>>                          *)
(*                                                                           *)
(* Expected(decl) is the semantic function: the declared facts completed by  *)
(* the DEFAULTING rules of the documentation (docs/source/configuration) and *)
(* of the node classes' declared defaults (DESIGN.md Appendix A).            *)
(*                                                                           *)
(* The second half of the module is the abstract BUILDER: one action per     *)
(* declared fact (AddNode, Install, Configure, AddRule(pos), AddRoute,       *)
(* AddUser, CreateFile, AddNic, Connect, AddAgent) accumulating an inventory *)
(* `inv'; MC_ConfigSem checks that every order of independent steps ends in  *)
(* Expected(decl) (order-insensitivity of mapping keys).                     *)
EXTENDS Naturals, Sequences, FiniteSets, TLC

ANY == "*"
Fact(k, key, val) == [kind |-> k, key |-> key, val |-> val]
Dflt(v, d) == IF v = "" THEN d ELSE v
OfKind(S, k) == {f \in S : f.kind = k}
OnHost(S, h) == {f \in S : f.kind # "link" /\ f.kind # "agent" /\ f.kind # "count" /\ f.key[1] = h}
Hosts(S) == {f.key[1] : f \in OfKind(S, "node")}
TypeOf(S, h) == (CHOOSE f \in OfKind(S, "node") : f.key[1] = h).val[1]

HostTypes   == {"computer", "server", "printer"}
RouterTypes == {"router", "wireless-router"}
L3Types     == {"router", "wireless-router", "firewall"}

(* ---------------- defaulting tables (documentation / Appendix A) -------- *)
HostSystem == {"arp", "icmp", "dns-client", "ntp-client", "web-browser", "nmap",
               "user-session-manager", "user-manager", "terminal"}
SysSoftware(t) ==
    CASE t \in {"server", "printer"} -> HostSystem
      [] t = "computer"              -> HostSystem \cup {"ftp-client"}
      [] t \in L3Types               -> {"user-session-manager", "user-manager", "terminal", "icmp", "arp", "nmap"}
      [] OTHER                       -> {}            \* switch: none
HasUserManager(t) == "user-manager" \in SysSoftware(t)

\* software a declared service brings with it / folders it creates: the documentation does not
\* pin these, so they are ALLOWED (never demanded, never counted as extra)
ImpliedSoftware(s) == IF s = "database-service" THEN {"ftp-client"} ELSE {}
ImpliedFolders(s)  == CASE s = "database-service" -> {"database"}
                        [] s = "web-server"       -> {"primaite"}
                        [] s \in {"ftp-client", "ftp-server"} -> {"downloads", "ftp_server"}
                        [] OTHER -> {}

AnyRule(action, proto, sp, dp) == <<action, proto, "ANY", "ANY", "ANY", "ANY", sp, dp>>
DefaultRules(h) ==          \* router.py _set_default_acl / Appendix A: PERMIT ARP at 22, PERMIT ICMP at 23
    { Fact("acl", <<h, "acl", "22">>, AnyRule("PERMIT", "ANY", "219", "219")),
      Fact("acl", <<h, "acl", "23">>, AnyRule("PERMIT", "icmp", "ANY", "ANY")) }
FwLists == {"internal_inbound_acl", "internal_outbound_acl", "dmz_inbound_acl", "dmz_outbound_acl",
            "external_inbound_acl", "external_outbound_acl"}
FwImplicit(l) == IF l \in {"external_inbound_acl", "external_outbound_acl"} THEN "PERMIT" ELSE "DENY"  \* firewall.rst
ImplicitFacts(h, t) ==
    CASE t \in RouterTypes -> {Fact("aclimplicit", <<h, "acl">>, <<"DENY">>)}
      [] t = "firewall"    -> {Fact("aclimplicit", <<h, l>>, <<FwImplicit(l)>>) : l \in FwLists}
      [] OTHER             -> {}

DefaultPorts(t) == CASE t = "router" -> "5" [] t = "switch" -> "8" [] t = "firewall" -> "3" [] OTHER -> ANY

(* ---------------- Expected(decl), fact kind by fact kind ---------------- *)
ExpNode(f) == Fact("node", f.key, <<f.val[1], Dflt(f.val[2], "ON"), Dflt(f.val[3], "3"), Dflt(f.val[4], "3")>>)
ExpNodes(decl) == {ExpNode(f) : f \in OfKind(decl, "node")} \cup OfKind(decl, "nodeopt") \cup OfKind(decl, "count")

ExpNic(f) == Fact("nic", f.key, <<f.val[1], Dflt(f.val[2], "255.255.255.0")>>)
NicCount(S, h) == Cardinality({f \in OfKind(S, "nic") : f.key[1] = h})
ExpNports(decl, h) ==
    LET t == TypeOf(decl, h)
        d == {f \in OfKind(decl, "nports") : f.key[1] = h}
    IN  Fact("nports", <<h>>,
             << IF t \in HostTypes THEN ToString(NicCount(decl, h))
                ELSE IF t \in {"firewall", "wireless-router"} THEN DefaultPorts(t)
                ELSE IF d # {} THEN (CHOOSE f \in d : TRUE).val[1]
                ELSE DefaultPorts(t) >>)
ExpNics(decl) == {ExpNic(f) : f \in OfKind(decl, "nic")} \cup {ExpNports(decl, h) : h \in Hosts(decl)}

ExpLinks(decl) == {Fact("link", f.key, <<Dflt(f.val[1], "100000")>>) : f \in OfKind(decl, "link")}

ExpRoute(f) == Fact("route", <<f.key[1], f.key[2], Dflt(f.key[3], "255.255.255.0"), f.key[4]>>, <<Dflt(f.val[1], "0")>>)
ExpRoutes(decl) == {ExpRoute(f) : f \in OfKind(decl, "route")} \cup OfKind(decl, "defroute")

ExpAcl(decl) ==
    OfKind(decl, "acl")
    \cup UNION { {d \in DefaultRules(h) : ~\E f \in OfKind(decl, "acl") : f.key = d.key} :
                 h \in {x \in Hosts(decl) : TypeOf(decl, x) \in RouterTypes} }
    \cup UNION { ImplicitFacts(h, TypeOf(decl, h)) : h \in Hosts(decl) }

DeclaredSw(decl, h) == {f.key[2] : f \in {g \in OfKind(decl, "software") : g.key[1] = h}}
ExpSoftware(decl) ==
    OfKind(decl, "software")
    \cup UNION { {Fact("software", <<h, s>>, <<ANY>>) : s \in SysSoftware(TypeOf(decl, h)) \ DeclaredSw(decl, h)} :
                 h \in Hosts(decl) }
ExpOpts(decl) ==
    OfKind(decl, "opt")
    \cup { Fact("opt", <<f.key[1], f.key[2], "fixing_duration">>, <<"2">>) :      \* common_configuration.rst
           f \in {g \in OfKind(decl, "software") :
                    ~\E o \in OfKind(decl, "opt") : o.key = <<g.key[1], g.key[2], "fixing_duration">>} }
    \cup { Fact("opt", <<f.key[1], "dns-client", "dns_server">>, f.val) :          \* common_node_attributes.rst
           f \in {g \in OfKind(decl, "nodeopt") :
                    /\ g.key[2] = "dns_server"
                    /\ TypeOf(decl, g.key[1]) \in HostTypes
                    /\ ~\E o \in OfKind(decl, "opt") : o.key = <<g.key[1], "dns-client", "dns_server">>} }

\* common_node_attributes.rst ``users``: the declared users are ADDITIONAL to the default administrator
\* admin/admin.  A file that declares a user called `admin' itself collides with that default; the
\* documentation does not say which wins, so the account must exist and its attributes are unconstrained.
ExpUser(f) == IF f.key[2] = "admin" THEN Fact("user", f.key, <<ANY, ANY>>)
              ELSE Fact("user", f.key, <<f.val[1], Dflt(f.val[2], "false")>>)
ExpUsers(decl) ==
    {ExpUser(f) : f \in OfKind(decl, "user")}
    \cup { Fact("user", <<h, "admin">>, <<"admin", "true">>) :
           h \in {x \in Hosts(decl) : /\ HasUserManager(TypeOf(decl, x))
                                      /\ ~\E u \in OfKind(decl, "user") : u.key = <<x, "admin">>} }

ExpFiles(decl) ==
    OfKind(decl, "folder")
    \cup {Fact("folder", <<h, "root">>, <<>>) : h \in Hosts(decl)}
    \cup {Fact("folder", <<f.key[1], f.key[2]>>, <<>>) : f \in OfKind(decl, "file")}
    \cup {Fact("file", f.key, <<Dflt(f.val[1], ANY), Dflt(f.val[2], ANY)>>) : f \in OfKind(decl, "file")}

ExpAgents(decl) == OfKind(decl, "agent")

Expected(decl) ==
    ExpNodes(decl) \cup ExpNics(decl) \cup ExpLinks(decl) \cup ExpRoutes(decl) \cup ExpAcl(decl)
    \cup ExpSoftware(decl) \cup ExpOpts(decl) \cup ExpUsers(decl) \cup ExpFiles(decl) \cup ExpAgents(decl)

(* ---------------- comparison: Built = Expected(Declared) ---------------- *)
SameKey(e, b) == e.kind = b.kind /\ e.key = b.key
ValMatch(e, b) == /\ Len(e.val) = Len(b.val)
                  /\ \A i \in 1..Len(e.val) : e.val[i] = ANY \/ e.val[i] = b.val[i]
Missing(exp, built, kinds) == {e \in exp : e.kind \in kinds /\ ~\E b \in built : SameKey(e, b)}
Wrong(exp, built, kinds)   == {e \in exp : e.kind \in kinds /\ \E b \in built : SameKey(e, b) /\ ~ValMatch(e, b)}
Extra(exp, built, kinds)   == {b \in built : b.kind \in kinds /\ ~\E e \in exp : SameKey(e, b)}

\* an option is honoured iff the configured value AND the runtime attribute of the same name (when the
\* software has one) carry the declared value
OptCarriers(built, e) == {b \in built : b.kind \in {"opt", "optattr"} /\ b.key = e.key}
OptMissing(exp, built) == {e \in OfKind(exp, "opt") : OptCarriers(built, e) = {}}
OptWrong(exp, built)   == {e \in OfKind(exp, "opt") : \E b \in OptCarriers(built, e) : ~ValMatch(e, [b EXCEPT !.kind = "opt"])}

AllowedSoftware(decl, h) == UNION {ImpliedSoftware(s) : s \in DeclaredSw(decl, h)}
AllowedFolders(decl, built, h) ==
    UNION {ImpliedFolders(f.key[2]) : f \in {g \in OfKind(built, "software") : g.key[1] = h}}
ExtraSoftware(decl, exp, built) ==
    {b \in Extra(exp, built, {"software"}) : b.key[2] \notin AllowedSoftware(decl, b.key[1])}
ExtraFiles(decl, exp, built) ==
    {b \in Extra(exp, built, {"folder", "file"}) : b.key[2] \notin AllowedFolders(decl, built, b.key[1])}
\* interfaces nobody declared exist on network nodes (unconfigured ports): only hosts are closed
ExtraNics(decl, exp, built) ==
    {b \in Extra(exp, built, {"nic"}) : b.key[1] \in Hosts(decl) /\ TypeOf(decl, b.key[1]) \in HostTypes}

NoState(S) == {Fact("node", f.key, <<f.val[1], f.val[3], f.val[4]>>) : f \in OfKind(S, "node")}
           \cup {f \in S : f.kind \in {"nodeopt", "count"}}
StateOf(S) == {Fact("state", f.key, <<f.val[2]>>) : f \in OfKind(S, "node")}

\* the divergences of one (declared, built) pair, clause by clause
Diff(decl, built) ==
    LET exp == Expected(decl) IN
    [ NodesAsDeclared |->
          Missing(NoState(exp), NoState(built), {"node", "nodeopt", "count"})
          \cup Wrong(NoState(exp), NoState(built), {"node", "nodeopt", "count"})
          \cup Extra(NoState(exp), NoState(built), {"node"}),
      InitialStateAsDeclared |->
          Wrong(StateOf(exp), StateOf(built), {"state"}),
      InterfacesAsDeclared |->
          Missing(exp, built, {"nic", "nports"}) \cup Wrong(exp, built, {"nic", "nports"}) \cup ExtraNics(decl, exp, built),
      LinksAsDeclared |->
          Missing(exp, built, {"link"}) \cup Wrong(exp, built, {"link"}) \cup Extra(exp, built, {"link"}),
      RoutesAsDeclared |->
          Missing(exp, built, {"route", "defroute"}) \cup Wrong(exp, built, {"route", "defroute"})
          \cup Extra(exp, built, {"route", "defroute"}),
      AclAsDeclared |->
          Missing(exp, built, {"acl", "aclimplicit"}) \cup Wrong(exp, built, {"acl", "aclimplicit"})
          \cup Extra(exp, built, {"acl", "aclimplicit"}),
      SoftwareAsDeclared |->
          Missing(exp, built, {"software"}) \cup Wrong(exp, built, {"software"}) \cup ExtraSoftware(decl, exp, built)
          \cup OptMissing(exp, built) \cup OptWrong(exp, built),
      UsersAsDeclared |->
          Missing(exp, built, {"user"}) \cup Wrong(exp, built, {"user"}) \cup Extra(exp, built, {"user"}),
      FilesAsDeclared |->
          Missing(exp, built, {"folder", "file"}) \cup Wrong(exp, built, {"folder", "file"}) \cup ExtraFiles(decl, exp, built),
      AgentsAsDeclared |->
          Missing(exp, built, {"agent"}) \cup Wrong(exp, built, {"agent"}) \cup Extra(exp, built, {"agent"}),
      NoShadowedLeftovers |->
          OfKind(built, "leftover")
    ]

(* ---------------- the abstract builder ---------------------------------- *)
VARIABLES inv        \* the inventory accumulated so far (set of facts)
cvars == <<inv>>

Replace(S, f) == {g \in S : ~SameKey(g, f)} \cup {f}
Recount(S, h) == Replace(S, Fact("nports", <<h>>, <<ToString(NicCount(S, h))>>))

\* what adding a node contributes on its own: the node with its defaults, its system software, the
\* default administrator, the default rules / implicit actions, the root folder, its port count
NodeContribution(f) ==
    LET h == f.key[1]
        t == f.val[1] IN
    {ExpNode(f)}
    \cup {Fact("software", <<h, s>>, <<ANY>>) : s \in SysSoftware(t)}
    \cup (IF HasUserManager(t) THEN {Fact("user", <<h, "admin">>, <<"admin", "true">>)} ELSE {})
    \cup (IF t \in RouterTypes THEN DefaultRules(h) ELSE {})
    \cup ImplicitFacts(h, t)
    \cup {Fact("folder", <<h, "root">>, <<>>)}
    \cup {Fact("nports", <<h>>, <<IF t \in HostTypes THEN "0" ELSE DefaultPorts(t)>>)}

Present(h) == \E f \in OfKind(inv, "node") : f.key[1] = h
HostType(h) == (CHOOSE f \in OfKind(inv, "node") : f.key[1] = h).val[1]

AddNode(f)   == /\ f.kind = "node" /\ ~Present(f.key[1])
                /\ inv' = inv \cup NodeContribution(f)
Configure(f) == /\ f.kind \in {"nodeopt", "count", "defroute"} /\ (f.kind = "count" \/ Present(f.key[1]))
                /\ inv' = Replace(inv, f)
                         \cup (IF /\ f.kind = "nodeopt" /\ f.key[2] = "dns_server" /\ HostType(f.key[1]) \in HostTypes
                                  /\ ~\E o \in OfKind(inv, "opt") : o.key = <<f.key[1], "dns-client", "dns_server">>
                               THEN {Fact("opt", <<f.key[1], "dns-client", "dns_server">>, f.val)} ELSE {})
SetPorts(f)  == /\ f.kind = "nports" /\ Present(f.key[1])
                /\ inv' = IF HostType(f.key[1]) \in {"router", "switch"} THEN Replace(inv, f) ELSE inv
AddNic(f)    == /\ f.kind = "nic" /\ Present(f.key[1])
                /\ inv' = IF HostType(f.key[1]) \in HostTypes
                          THEN Recount(Replace(inv, ExpNic(f)), f.key[1])
                          ELSE Replace(inv, ExpNic(f))
Connect(f)   == /\ f.kind = "link" /\ Present(f.key[1]) /\ Present(f.key[3])
                /\ inv' = Replace(inv, Fact("link", f.key, <<Dflt(f.val[1], "100000")>>))
AddRoute(f)  == /\ f.kind = "route" /\ Present(f.key[1])
                /\ inv' = Replace(inv, ExpRoute(f))
AddRule(f)   == /\ f.kind = "acl" /\ Present(f.key[1])
                /\ inv' = Replace(inv, f)                       \* the rule at its STATED position, overwriting
Install(f)   == /\ f.kind = "software" /\ Present(f.key[1])
                /\ inv' = Replace(inv, f)
                         \cup (IF \E o \in OfKind(inv, "opt") : o.key = <<f.key[1], f.key[2], "fixing_duration">>
                               THEN {} ELSE {Fact("opt", <<f.key[1], f.key[2], "fixing_duration">>, <<"2">>)})
SetOption(f) == /\ f.kind = "opt" /\ Present(f.key[1])
                /\ inv' = Replace(inv, f)
AddUser(f)   == /\ f.kind = "user" /\ Present(f.key[1])
                /\ inv' = Replace(inv, ExpUser(f))
CreateFile(f) == /\ f.kind \in {"folder", "file"} /\ Present(f.key[1])
                 /\ inv' = IF f.kind = "folder" THEN Replace(inv, f)
                           ELSE Replace(Replace(inv, Fact("folder", <<f.key[1], f.key[2]>>, <<>>)),
                                        Fact("file", f.key, <<Dflt(f.val[1], ANY), Dflt(f.val[2], ANY)>>))
AddAgent(f)  == /\ f.kind = "agent"
                /\ inv' = Replace(inv, f)

Build(f) == \/ AddNode(f) \/ Configure(f) \/ SetPorts(f) \/ AddNic(f) \/ Connect(f) \/ AddRoute(f) \/ AddRule(f)
            \/ Install(f) \/ SetOption(f) \/ AddUser(f) \/ CreateFile(f) \/ AddAgent(f)

\* loading a whole scenario in one go (used by the trace specification)
Load(decl) == inv' = Expected(decl)
=============================================================================
