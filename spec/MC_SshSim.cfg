SPECIFICATION Spec
CONSTANTS
  Nodes = {"a", "b", "c"}
  Timeouts = {1, 2, 3}
  MaxRemotes = {1, 2, 3}
  MaxEnv = 18
  AsCoded = FALSE
CHECK_DEADLOCK FALSE
