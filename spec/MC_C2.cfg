SPECIFICATION Spec
CONSTANTS
  Freqs = {1, 3}
  NMasq = 2
  Variant = "contract"
  MaxInact = 3
  EstWeight = 1
  TickWeight = 1
  MCmds = {"terminal_command", "exfiltrate"}
INVARIANT TypeOK
INVARIANT InvRunNeedsOn
INVARIANT InvActiveIsConfigured
INVARIANT InvServerActiveIffRemote
INVARIANT InvAttemptOnlyInFlight
INVARIANT InvBounded
INVARIANT InvConnectionHasSession
PROPERTY PropEstablishOnlyWhenConfigured
PROPERTY PropConnectionNeedsBothRunning
PROPERTY PropServerLearnsFromKeepAlive
PROPERTY PropAnswersEachKeepAliveOnce
PROPERTY PropKeepAliveEveryFrequency
PROPERTY PropLostAfterMissedKeepAlive
PROPERTY PropServerDropsAfterInactivity
PROPERTY PropCommandOnlyWhileActive
PROPERTY PropExecutesExactlyTheCommandSent
PROPERTY PropResponseIsThisCommandsOutput
PROPERTY PropKeepAliveCarriesConfig
PROPERTY PropTrafficOnMasqueradePort
PROPERTY PropNothingThroughBlockOrOff
VIEW View
CHECK_DEADLOCK FALSE
