----------------------------- MODULE MC_Switch -----------------------------
EXTENDS Switch, TLC
CONSTANTS Macs, MaxSteps
VARIABLE n
mvars == <<svars, n>>
Init == n = 0 /\ SwitchInit(3, [p \in 1..3 |-> TRUE])
Tick == n < MaxSteps /\ n' = n + 1
MReceive(src, dst, inp) == Tick /\ Receive(src, dst, inp, OutPorts(src, dst, inp))
MSetPort(p, en) == Tick /\ SetPort(p, en)
Next ==
    \/ \E s \in Macs, d \in Macs \cup {Bcast}, i \in 1..3 : MReceive(s, d, i)
    \/ \E p \in 1..3, e \in BOOLEAN : MSetPort(p, e)
Spec == Init /\ [][Next]_mvars
View == svars
\* a frame never leaves through the port it came in on when it is flooded, and never through a disabled port
NeverOutDisabled == [][\A s \in Macs, d \in Macs \cup {Bcast}, i \in 1..3 :
                          \A p \in OutPorts(s, d, i) : enabled[p]]_mvars
=============================================================================
