---------------------------- MODULE ScenarioGen -----------------------------
(* C20 - a model whose STATES are small scenario descriptions.               *)
(* One action per dimension of the family; a behaviour chooses the           *)
(* dimensions one after the other and its last state is one member.          *)
(* `tlc -simulate' samples members; harness/c20.py (member_to_cfg) turns a   *)
(* member into a config dict with the structure a YAML scenario file has.    *)
(*                                                                           *)
(*   topo     switched LAN | routed two-subnet | firewall + DMZ              *)
(*   mask     /24 /28 /30 addressing; nhosts 2..3; node types per host       *)
(*   opstate  declared operating_state of host 2 ("" = not declared)         *)
(*   durUp/durDown  start_up/shut_down_duration of host 1 (9 = not declared) *)
(*   bw       link bandwidth (0 = not declared); nports of router / switch   *)
(*   xnic     extra interfaces on host 1: 0 none, 1 {2}, 2 {2,3}, 3 {3,2}    *)
(*   rules    0-3 ACL rules <<position, shape>> at distinct positions        *)
(*            (position 22/23 overrides a default rule); rlist = which of    *)
(*            the six firewall lists receives them                           *)
(*   routes   0-2 static routes, optional default route, metric              *)
(*   mix      software mix per host (0 none .. 6, see member_to_cfg) with    *)
(*            options; fixopt = fixing_duration option; listen = listen_on_ports *)
(*   users    0-2 extra users; adminDecl = the file declares `admin' itself  *)
(*   files    0-2 folders/files                                              *)
(*   agents   0-2 scripted agents; proxy = an RL (proxy) agent as well       *)
EXTENDS Naturals, FiniteSets, TLC

VARIABLES stage, topo, mask, nhosts, htype, opstate, durUp, durDown, bw, nports, xnic,
          rules, rlist, routes, defroute, metric, mix, fixopt, listen, users, adminDecl, files, agents, proxy
gvars == <<stage, topo, mask, nhosts, htype, opstate, durUp, durDown, bw, nports, xnic,
           rules, rlist, routes, defroute, metric, mix, fixopt, listen, users, adminDecl, files, agents, proxy>>

HostTypes == {"computer", "server", "printer"}
Positions == {1, 5, 22, 23}
Shapes    == 1..5
RuleSets  == UNION { [P -> Shapes] : P \in {Q \in SUBSET Positions : Cardinality(Q) <= 3} }
AgentKinds == {"periodic", "probabilistic", "random"}

Init ==
    /\ stage = 0
    /\ topo = "lan" /\ mask = 24 /\ nhosts = 2
    /\ htype = [i \in 1..3 |-> "computer"]
    /\ opstate = "" /\ durUp = 9 /\ durDown = 9
    /\ bw = 0 /\ nports = 0 /\ xnic = 0
    /\ rules = <<>> /\ rlist = 1
    /\ routes = {} /\ defroute = FALSE /\ metric = 0
    /\ mix = [i \in 1..3 |-> 0] /\ fixopt = 0 /\ listen = 0
    /\ users = 0 /\ adminDecl = FALSE /\ files = 0
    /\ agents = {} /\ proxy = FALSE

ChooseTopology ==
    /\ stage = 0 /\ stage' = 1
    /\ topo' \in {"lan", "routed", "fw"}
    /\ mask' \in {24, 28, 30}
    /\ nhosts' \in 2..3
    /\ UNCHANGED <<htype, opstate, durUp, durDown, bw, nports, xnic, rules, rlist, routes, defroute, metric,
                   mix, fixopt, listen, users, adminDecl, files, agents, proxy>>
ChooseHosts ==
    /\ stage = 1 /\ stage' = 2
    /\ htype' \in [1..3 -> HostTypes]
    /\ opstate' \in {"", "ON", "OFF"}
    /\ durUp' \in {9, 0, 2}
    /\ durDown' \in {9, 0, 4}
    /\ UNCHANGED <<topo, mask, nhosts, bw, nports, xnic, rules, rlist, routes, defroute, metric,
                   mix, fixopt, listen, users, adminDecl, files, agents, proxy>>
ChooseNet ==
    /\ stage = 2 /\ stage' = 3
    /\ bw' \in {0, 10, 1000}
    /\ nports' \in {0, 4, 6}
    /\ xnic' \in 0..3
    /\ UNCHANGED <<topo, mask, nhosts, htype, opstate, durUp, durDown, rules, rlist, routes, defroute, metric,
                   mix, fixopt, listen, users, adminDecl, files, agents, proxy>>
ChooseAcl ==
    /\ stage = 3 /\ stage' = 4
    /\ rules' \in RuleSets
    /\ rlist' \in 1..6
    /\ UNCHANGED <<topo, mask, nhosts, htype, opstate, durUp, durDown, bw, nports, xnic, routes, defroute, metric,
                   mix, fixopt, listen, users, adminDecl, files, agents, proxy>>
ChooseRoutes ==
    /\ stage = 4 /\ stage' = 5
    /\ routes' \in SUBSET {1, 2}
    /\ defroute' \in BOOLEAN
    /\ metric' \in {0, 1, 3}
    /\ UNCHANGED <<topo, mask, nhosts, htype, opstate, durUp, durDown, bw, nports, xnic, rules, rlist,
                   mix, fixopt, listen, users, adminDecl, files, agents, proxy>>
ChooseSoftware ==
    /\ stage = 5 /\ stage' = 6
    /\ mix' \in [1..3 -> 0..6]
    /\ fixopt' \in {0, 1, 4}
    /\ listen' \in 0..2
    /\ UNCHANGED <<topo, mask, nhosts, htype, opstate, durUp, durDown, bw, nports, xnic, rules, rlist, routes,
                   defroute, metric, users, adminDecl, files, agents, proxy>>
ChooseUsersFiles ==
    /\ stage = 6 /\ stage' = 7
    /\ users' \in 0..2
    /\ adminDecl' \in BOOLEAN
    /\ files' \in 0..2
    /\ UNCHANGED <<topo, mask, nhosts, htype, opstate, durUp, durDown, bw, nports, xnic, rules, rlist, routes,
                   defroute, metric, mix, fixopt, listen, agents, proxy>>
ChooseAgents ==
    /\ stage = 7 /\ stage' = 8
    /\ agents' \in {A \in SUBSET AgentKinds : Cardinality(A) <= 2}
    /\ proxy' \in BOOLEAN
    /\ UNCHANGED <<topo, mask, nhosts, htype, opstate, durUp, durDown, bw, nports, xnic, rules, rlist, routes,
                   defroute, metric, mix, fixopt, listen, users, adminDecl, files>>
Done == stage = 8 /\ UNCHANGED gvars

Next == \/ ChooseTopology \/ ChooseHosts \/ ChooseNet \/ ChooseAcl \/ ChooseRoutes \/ ChooseSoftware
        \/ ChooseUsersFiles \/ ChooseAgents \/ Done

Spec == Init /\ [][Next]_gvars

\* well-formedness of every member (checked while sampling)
WellFormed ==
    /\ Cardinality(DOMAIN rules) <= 3
    /\ Cardinality(agents) <= 2
    /\ nhosts \in 2..3
=============================================================================
