------------------------------ MODULE Episode ------------------------------
(***************************************************************************)
(* The step / reset pipeline of the environment.  Property C01.            *)
(*                                                                         *)
(* One environment step = StepBegin ; PreTick ; one Act per agent (in      *)
(* declaration order) ; Tick (simulated time +1) ; observation / reward    *)
(* updates ; StepReturn.  Reset throws the game away and builds a new one. *)
(* nAg and maxLen are configuration variables (never change).              *)
(***************************************************************************)
EXTENDS Naturals, Sequences, FiniteSets

VARIABLES
    nAg, maxLen,  \* number of agents in the scenario, configured maximum episode length
    ep,           \* episode index
    t,            \* simulated time = steps taken in the episode
    phase,        \* "idle" | "step" | "reset"
    pre, ticks,   \* within a step: pre-tick done, number of ticks applied
    acted,        \* within a step: how many actions each agent has recorded
    hist          \* per agent: number of (action, response) records in its history

evars == <<nAg, maxLen, ep, t, phase, pre, ticks, acted, hist>>
Agents == 1..nAg

EpisodeInit(n, m) ==
    /\ nAg = n /\ maxLen = m
    /\ ep = 0 /\ t = 0 /\ phase = "idle" /\ pre = FALSE /\ ticks = 0
    /\ acted = [a \in 1..n |-> 0] /\ hist = [a \in 1..n |-> 0]

StepBegin ==
    /\ phase = "idle"
    /\ phase' = "step" /\ pre' = FALSE /\ ticks' = 0 /\ acted' = [a \in Agents |-> 0]
    /\ UNCHANGED <<nAg, maxLen, ep, t, hist>>

PreTick ==
    /\ phase = "step" /\ ~pre /\ ticks = 0 /\ \A a \in Agents : acted[a] = 0
    /\ pre' = TRUE
    /\ UNCHANGED <<nAg, maxLen, ep, t, phase, ticks, acted, hist>>

\* agent a's action has been applied and (action, response) recorded
Act(a) ==
    /\ phase = "step" /\ pre /\ ticks = 0
    /\ a \in Agents /\ acted[a] = 0
    /\ \A b \in Agents : b < a => acted[b] = 1      \* declaration order
    /\ acted' = [acted EXCEPT ![a] = 1]
    /\ hist' = [hist EXCEPT ![a] = @ + 1]
    /\ UNCHANGED <<nAg, maxLen, ep, t, phase, pre, ticks>>

Tick ==
    /\ phase = "step" /\ pre /\ ticks = 0
    /\ \A a \in Agents : acted[a] = 1
    /\ ticks' = 1 /\ t' = t + 1
    /\ UNCHANGED <<nAg, maxLen, ep, phase, pre, acted, hist>>

\* what a step returns: `steps' = the time the environment reports, `h' = history lengths it reports
StepReturnOK(steps, h, obsOK, rFinite, respOK, term, trunc, nInfo) ==
    /\ ticks = 1                                  \* exactly one tick in this step
    /\ steps = t                                  \* time advanced by exactly one
    /\ \A a \in Agents : h[a] = hist[a] /\ hist[a] = t   \* one action + response per agent per step
    /\ obsOK /\ rFinite /\ respOK
    /\ ~term
    /\ trunc <=> (t >= maxLen)
    /\ nInfo = nAg
StepReturn(steps, h, obsOK, rFinite, respOK, term, trunc, nInfo) ==
    /\ phase = "step"
    /\ StepReturnOK(steps, h, obsOK, rFinite, respOK, term, trunc, nInfo)
    /\ phase' = "idle"
    /\ UNCHANGED <<nAg, maxLen, ep, t, pre, ticks, acted, hist>>

ResetBegin ==
    /\ phase = "idle"
    /\ phase' = "reset"
    /\ UNCHANGED <<nAg, maxLen, ep, t, pre, ticks, acted, hist>>

\* a reset always yields a new episode at tick 0 with no accumulated reward or history
ResetReturnOK(steps, h, totZero, obsOK) ==
    /\ steps = 0 /\ \A a \in 1..Len(h) : h[a] = 0 /\ totZero /\ obsOK
ResetReturn(steps, h, totZero, obsOK, n2, m2) ==
    /\ phase = "reset"
    /\ ResetReturnOK(steps, h, totZero, obsOK)
    /\ ep' = ep + 1 /\ t' = 0 /\ phase' = "idle" /\ pre' = FALSE /\ ticks' = 0
    /\ nAg' = n2 /\ maxLen' = m2            \* an episode schedule may change the scenario
    /\ acted' = [a \in 1..n2 |-> 0] /\ hist' = [a \in 1..n2 |-> 0]

-----------------------------------------------------------------------------
\* at rest every agent has exactly one record per step taken
InvHistoryIsTime == phase = "idle" => \A a \in Agents : hist[a] = t
=============================================================================
