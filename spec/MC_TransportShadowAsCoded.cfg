SPECIFICATION Spec
CONSTANTS
  MaxStim = 5
  MaxSess = 2
  Asym = TRUE
  ShadowAsCoded = TRUE
  Peers = {1}
  Tomes = {TRUE, FALSE}
  Full = FALSE
  ReplyAsCoded = FALSE
INVARIANT ServedWhenOpen
VIEW View
CHECK_DEADLOCK FALSE
