SPECIFICATION Spec
INVARIANT WellFormed
CHECK_DEADLOCK FALSE
