-------------------------------- MODULE Ntp --------------------------------
(***************************************************************************)
(* NTP client / server (extension module, component A of NtpSchedule).     *)
(*                                                                         *)
(* Code: primaite/simulator/system/services/ntp/ntp_client.py,             *)
(*       ntp_server.py, primaite/simulator/network/protocols/ntp.py.       *)
(*                                                                         *)
(* Contract clauses and where they come from                               *)
(*  N1 RequestsEachTickWhileRunning   NTPClient.apply_timestep docstring   *)
(*     "For each timestep request the time from the NTP server" + the      *)
(*     RUNNING test in it + Node.apply_timestep (services only tick on a   *)
(*     node that is ON): a client sends exactly one request per tick iff   *)
(*     it is RUNNING on an ON node and has a server configured.            *)
(*  N2 RequestToConfiguredServer      NTPClient.request_time "Send request *)
(*     to ntp_server"; ntp_client.rst `ntp_server_ip` ("The IP address of  *)
(*     an NTP Server which provides a time that the NTPClient can          *)
(*     synchronise to", optional, default None = nothing is sent).         *)
(*  N3 ServerAnswersEachRequestOnce   NTPServer.receive docstring          *)
(*     "Receives a request from NTPClient ... return True if valid NTP     *)
(*     request"; ntp_server.rst "Simulates NTP requests and NTPPacket      *)
(*     transfer": a running server on an ON node answers every *request*   *)
(*     with exactly one reply carrying its time, addressed to the          *)
(*     requester; nothing that is not a request is answered.               *)
(*  N4 OnlyRunningSoftwareHandles     SoftwareManager.receive_payload_...  *)
(*     ("software that is not running does not handle payloads"): a        *)
(*     stopped / paused server or client, a node that is not ON and a      *)
(*     blocked port (router ACL) mean no delivery.                         *)
(*  N5 TimeNoneUntilFirstReply / TimeIsLatestReply   NTPClient.time        *)
(*     (Optional, default None), NTPClient.receive "Receives time data     *)
(*     from server": time is None (0 here) until a reply is received and   *)
(*     afterwards the time carried by the latest reply received; nothing   *)
(*     else writes it (a request that reaches a client is ignored).        *)
(*  N6 NoLossWithoutCause             what the rest of the code relies on  *)
(*     (synchronous delivery in one tick): a request to a reachable running*)
(*     server is received, a reply to a reachable running client is        *)
(*     received.                                                           *)
(*  N7 NoException                    PrimaiteGame.step must not raise.    *)
(*                                                                         *)
(* Abstract state.  Nodes = DOMAIN hasSrv; every node has an NTP client    *)
(* (HostNode.SYSTEM_SOFTWARE); hasSrv (never changes) says which also host *)
(* an NTP server.  Node power, service operating states and the ACL are    *)
(* the environment of this component (SetNode / SetSvc / SetBlock report   *)
(* what the real objects hold).  `net' is the one message in flight (the   *)
(* simulator delivers synchronously).  Times are server clock readings     *)
(* 1, 2, 3 ... (0 = None).                                                 *)
(***************************************************************************)
EXTENDS Naturals, FiniteSets

VARIABLES
    hasSrv,     \* configuration: node -> BOOLEAN
    target,     \* node -> configured server of its client: a node name, "none" or "nowhere" (no such host)
    on,         \* node -> BOOLEAN (operating state ON)
    cst, sst,   \* node -> operating state of its client / server ("running", "stopped", "paused", ...; "absent")
    blocked,    \* UDP/123 denied on the path
    time,       \* node -> time of its client (0 = None)
    clock,      \* latest reading any server took from its clock
    net,        \* message in flight
    phase,      \* "idle" | "tick"
    asked, exp, got   \* per tick and node: requests sent, replies due, replies received

nvars == <<hasSrv, target, on, cst, sst, blocked, time, clock, net, phase, asked, exp, got>>

Nodes == DOMAIN hasSrv
Msg(k, s, d, t) == [k |-> k, src |-> s, dst |-> d, tm |-> t]
NoMsg == Msg("none", "", "", 0)
Zero == [x \in Nodes |-> 0]

ClientUp(x) == x \in Nodes /\ on[x] /\ cst[x] = "running"
ServerUp(x) == x \in Nodes /\ hasSrv[x] /\ on[x] /\ sst[x] = "running"
WillAsk(x) == ClientUp(x) /\ target[x] # "none"
\* a request of x's client to d is due an answer
Served(x, d) == ~blocked /\ x \in Nodes /\ on[x] /\ ServerUp(d)
\* a request to d ends at a client there (and is ignored)
PeerDue(d) == ~blocked /\ ~ServerUp(d) /\ ClientUp(d)

\* N6: the message in flight (if any) may be abandoned
LossJustified ==
    \/ net.k = "none"
    \/ net.k = "req" /\ ~Served(net.src, net.dst)
    \/ net.k = "rep" /\ ~(~blocked /\ ClientUp(net.dst))

NtpInit(hs, tg, o, c, s, b) ==
    /\ hasSrv = hs /\ target = tg /\ on = o /\ cst = c /\ sst = s /\ blocked = b
    /\ time = [x \in DOMAIN hs |-> 0] /\ clock = 0 /\ net = NoMsg /\ phase = "idle"
    /\ asked = [x \in DOMAIN hs |-> 0] /\ exp = [x \in DOMAIN hs |-> 0] /\ got = [x \in DOMAIN hs |-> 0]

\* ---- environment and configuration (no message survives them) ----------
Configure(x, t) ==          \* NTPClient.configure
    /\ x \in Nodes /\ LossJustified
    /\ target' = [target EXCEPT ![x] = t] /\ net' = NoMsg
    /\ UNCHANGED <<hasSrv, on, cst, sst, blocked, time, clock, phase, asked, exp, got>>

SetNode(x, b) ==
    /\ x \in Nodes /\ LossJustified
    /\ on' = [on EXCEPT ![x] = b] /\ net' = NoMsg
    /\ UNCHANGED <<hasSrv, target, cst, sst, blocked, time, clock, phase, asked, exp, got>>

SetSvc(role, x, s) ==
    /\ x \in Nodes /\ LossJustified /\ role \in {"cli", "srv"} /\ (role = "srv" => hasSrv[x])
    /\ cst' = IF role = "cli" THEN [cst EXCEPT ![x] = s] ELSE cst
    /\ sst' = IF role = "srv" THEN [sst EXCEPT ![x] = s] ELSE sst
    /\ net' = NoMsg
    /\ UNCHANGED <<hasSrv, target, on, blocked, time, clock, phase, asked, exp, got>>

SetBlock(b) ==
    /\ LossJustified
    /\ blocked' = b /\ net' = NoMsg
    /\ UNCHANGED <<hasSrv, target, on, cst, sst, time, clock, phase, asked, exp, got>>

\* ---- tick phases ---------------------------------------------------------
Tick ==                     \* the simulation starts applying a timestep
    /\ phase = "idle" /\ LossJustified
    /\ phase' = "tick" /\ asked' = Zero /\ exp' = Zero /\ got' = Zero /\ net' = NoMsg
    /\ UNCHANGED <<hasSrv, target, on, cst, sst, blocked, time, clock>>

\* N1 at the end of the tick, `times' = what the clients hold
AskedAsDue == \A x \in Nodes : asked[x] = IF WillAsk(x) THEN 1 ELSE 0
AnsweredAsDue == \A x \in Nodes : got[x] = exp[x]
TickEnd(times) ==
    /\ phase = "tick" /\ LossJustified /\ AskedAsDue /\ AnsweredAsDue
    /\ times = time
    /\ phase' = "idle" /\ net' = NoMsg /\ asked' = Zero /\ exp' = Zero /\ got' = Zero
    /\ UNCHANGED <<hasSrv, target, on, cst, sst, blocked, time, clock>>

\* ---- messages ------------------------------------------------------------
\* the client of x hands a request for d to the network (tick phase: NTPClient.apply_timestep;
\* idle phase: a direct call of NTPClient.request_time)
Request(x, d) ==
    /\ x \in Nodes /\ LossJustified
    /\ target[x] # "none" /\ d = target[x]
    /\ phase = "tick" => (ClientUp(x) /\ asked[x] = 0)
    /\ net' = Msg("req", x, d, 0)
    /\ asked' = IF phase = "tick" THEN [asked EXCEPT ![x] = 1] ELSE asked
    /\ exp' = IF phase = "tick" THEN [exp EXCEPT ![x] = IF Served(x, d) THEN 1 ELSE 0] ELSE exp
    /\ UNCHANGED <<hasSrv, target, on, cst, sst, blocked, time, clock, phase, got>>

\* NTPServer.receive on node x is entered with a request (what = "req") from node `from'
ServerReceive(x, from, what) ==
    /\ what = "req" /\ net.k = "req" /\ net.dst = x /\ net.src = from
    /\ Served(from, x)
    /\ net' = Msg("atsrv", from, x, 0)
    /\ UNCHANGED <<hasSrv, target, on, cst, sst, blocked, time, clock, phase, asked, exp, got>>

\* the server on x hands its reply (time tm) for node d to the network
Reply(x, d, tm) ==
    /\ net.k = "atsrv" /\ net.dst = x /\ d = net.src
    /\ tm > clock
    /\ clock' = tm /\ net' = Msg("rep", x, d, tm)
    /\ UNCHANGED <<hasSrv, target, on, cst, sst, blocked, time, phase, asked, exp, got>>

\* NTPClient.receive on node x returned for a reply carrying tm; post = the client's time afterwards
ClientReceive(x, tm, post) ==
    /\ net.k = "rep" /\ net.dst = x /\ net.tm = tm
    /\ ~blocked /\ ClientUp(x)
    /\ post = tm
    /\ time' = [time EXCEPT ![x] = tm] /\ net' = NoMsg
    /\ got' = IF phase = "tick" THEN [got EXCEPT ![x] = @ + 1] ELSE got
    /\ UNCHANGED <<hasSrv, target, on, cst, sst, blocked, clock, phase, asked, exp>>

\* NTPClient.receive on node x returned for a payload that is no reply (a request sent to a host without server)
PeerReceive(x, post) ==
    /\ net.k = "req" /\ net.dst = x /\ PeerDue(x)
    /\ post = time[x]
    /\ net' = NoMsg
    /\ UNCHANGED <<hasSrv, target, on, cst, sst, blocked, time, clock, phase, asked, exp, got>>

\* ---- state invariants / action properties (N5, N3, N4) --------------------
NtpTypeOK ==
    /\ \A x \in Nodes : time[x] \in 0..clock /\ asked[x] \in 0..1 /\ got[x] \in 0..1 /\ exp[x] \in 0..1
    /\ net.k \in {"none", "req", "atsrv", "rep"} /\ phase \in {"idle", "tick"}
TimeNoneUntilFirstReply == clock = 0 => \A x \in Nodes : time[x] = 0
AtMostOneAnswerPerRequest == \A x \in Nodes : got[x] <= asked[x] /\ got[x] <= exp[x]
NoServerNoUpdate == \A x \in Nodes : (phase = "tick" /\ target[x] \in {"none", "nowhere"}) => got[x] = 0
TimeIsLatestReply ==
    [][\A x \in Nodes : time'[x] # time[x] => (net.k = "rep" /\ net.dst = x /\ time'[x] = net.tm /\ ~blocked /\ ClientUp(x))]_nvars
ServerAnswersOnlyRequests == [][net'.k = "atsrv" => (net.k = "req" /\ ServerUp(net.dst) /\ ~blocked)]_nvars
ServerAnswersEachRequestOnce == [][net.k = "atsrv" => (net'.k = "rep" /\ net'.dst = net.src /\ net'.tm > clock)]_nvars
ClockMonotone == [][clock' >= clock]_nvars
=============================================================================
