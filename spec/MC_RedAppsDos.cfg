SPECIFICATION Spec
CONSTANTS
  PScan = {100}
  PAtk = {100}
  PDos = {0, 50, 100}
  DosMaxs = {0, 2}
  DosInts = {50, 100}
  Payloads = {"DELETE"}
  Clients = {TRUE}
  Tgts = {TRUE, FALSE}
  Repeats = {TRUE, FALSE}
  Present = {"dos"}
  MaxStim = 99
  AsCoded = "no"
INVARIANT TypeOK
INVARIANT NothingUnlessEnabled
INVARIANT NoTerminalAtRestWhenRepeating
INVARIANT DosWithinBound
INVARIANT NothingRunsWhenOff
PROPERTY StageOrder
PROPERTY Gates
PROPERTY OnlyLoopsChangeStages
PROPERTY DbOnlyBySuccess
PROPERTY DeliveryNeedsClient
PROPERTY RepeatFollowsSetting
VIEW View
CHECK_DEADLOCK FALSE
