SPECIFICATION Spec
CONSTANTS
  Nodes = {"a", "b"}
  Timeouts = {2}
  MaxRemotes = {1, 2}
  MaxEnv = 6
  AsCoded = FALSE
INVARIANT TypeOK
INVARIANT SameIdBothEnds
INVARIANT FailedLoginLeavesNothing
INVARIANT ServerTablesAgree
INVARIANT ExecOnceIffValid
INVARIANT AnswerIsThisCommand
INVARIANT LogoffBothEnds
INVARIANT NoExecAfterEnd
INVARIANT EndedAreGone
INVARIANT NotRunningInert
INVARIANT LocalNeedsCredentials
INVARIANT LocalAnswerSaysSo
INVARIANT Answered
CHECK_DEADLOCK FALSE
