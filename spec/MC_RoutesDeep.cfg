SPECIFICATION Spec
CONSTANTS
  MaxRoutes = 3
  AddrBits = 8
INVARIANT BestMatches
INVARIANT NoLongerPrefix
INVARIANT NoLowerMetric
INVARIANT DefaultLastResort
INVARIANT DefaultAlone
INVARIANT NoneIffNothing
INVARIANT BestAreTied
INVARIANT ScanAgrees
INVARIANT ChoiceOKExact
CHECK_DEADLOCK FALSE
